(* C10/Model.v -- executable model of rustfmt's import rewriting.
   Sources modelled:
     src/imports.rs:96-122    UseSegmentKind / UseSegment / UseTree      (sseg, gseg, tree)
     src/imports.rs:124-128   PartialEq for UseTree (path only)          (tree_eqb)
     src/imports.rs:159-179   equal_except_alias, get_alias              (eea, galias)
     src/imports.rs:215-250   normalize_use_trees_with_granularity       (granularity, regroup)
     src/imports.rs:252-264   flatten_use_trees                          (flatten_use_trees)
     src/imports.rs:547-637   UseTree::normalize                         (normalize)
     src/imports.rs:639-686   has_comment, contains_comment,
                              same_visibility, share_prefix              (same names)
     src/imports.rs:688-723   UseTree::flatten                           (flatten)
     src/imports.rs:725-739   UseTree::merge                             (merge)
     src/imports.rs:742-757   nest_trailing_self                         (nest_trailing_self)
     src/imports.rs:760-833   merge_rest                                 (merge_rest_with)
     src/imports.rs:835-889   merge_use_trees_inner                      (inner_with)
     src/imports.rs:907-1010  Ord for UseSegment / UseTree (<= 2021)     (sseg_cmp, tree_cmp)
     src/reorder.rs:106-141   rewrite_reorderable_or_regroupable_items   (pipeline)
     src/reorder.rs:199-223   group_imports                              (group_imports)

   Representation (option (b) of the task): rustfmt's path is a Vec<UseSegment>
   in which a List segment holds a Vec<UseTree>.  from_ast, normalize,
   merge_rest and nest_trailing_self only ever push a List as the LAST
   segment, so a tree is modelled as a rose tree
        Node pre kids vis attrs cmt
   whose path is   map GS pre ++ (match kids with Some l => [GL l] | None => [])
   (function [path]).  A List in the middle of a path is unrepresentable;
   [of_path] (the inverse of [path]) truncates after the first List, which is
   unreachable.  style_edition is ignored except in the comparator, which is
   a parameter [cmp] of every function that sorts (normalize, merge_rest,
   merge_use_trees_inner, pipeline); [tree_cmp] transcribes the comparator
   for style editions <= 2021 over abstract Unicode predicates.
   Rust's stable [sort] is modelled by a stable insertion sort.

   vis   : option N   None = no visibility recorded (nested / from_path trees),
                      Some 0 = Inherited, Some 1 = pub, Some k = a class of
                      pub(restricted) paths with equal printed path
                      (utils.rs:40 is_same_visibility only compares those)
   attrs : option N   None = no attributes (from_ast_with_normalization passes
                      None for an empty attribute list), Some k = opaque id
   cmt   : bool       list_item.has_comment()
   Definitions only; proofs are in Lemmas.v. *)
From V Require Import Base.Text.
Local Open Scope nat_scope.
Local Open Scope list_scope.

Definition name := text.

(* UseSegmentKind without the List case *)
Inductive sseg : Type :=
| Ident (n : name) (a : option name)
| Slf (a : option name)
| Super (a : option name)
| Crate (a : option name)
| Glob.

Inductive tree : Type :=
| Node (pre : list sseg) (kids : option (list tree))
       (vis : option N) (attrs : option N) (cmt : bool).

(* a segment of a path: simple, or the List *)
Inductive gseg : Type :=
| GS (s : sseg)
| GL (l : list tree).

Definition pre (t : tree) := match t with Node p _ _ _ _ => p end.
Definition kids (t : tree) := match t with Node _ k _ _ _ => k end.
Definition vis (t : tree) := match t with Node _ _ v _ _ => v end.
Definition attrs (t : tree) := match t with Node _ _ _ a _ => a end.
Definition cmt (t : tree) := match t with Node _ _ _ _ c => c end.

Definition klist (k : option (list tree)) : list gseg :=
  match k with Some l => [GL l] | None => [] end.
Definition path (t : tree) : list gseg := map GS (pre t) ++ klist (kids t).

(* inverse of [path]; anything after the first List is dropped (unreachable) *)
Fixpoint split_path (p : list gseg) : list sseg * option (list tree) :=
  match p with
  | [] => ([], None)
  | GS s :: r => let '(q, k) := split_path r in (s :: q, k)
  | GL l :: _ => ([], Some l)
  end.
Definition of_path (p : list gseg) (v : option N) (a : option N) (c : bool) : tree :=
  let '(q, k) := split_path p in Node q k v a c.
(* imports.rs:382 UseTree::from_path *)
Definition from_path (p : list gseg) : tree := of_path p None None false.

Definition is_nil {A} (l : list A) : bool := match l with [] => true | _ => false end.
Definition is_some {A} (o : option A) : bool := match o with Some _ => true | None => false end.
Definition path_len (t : tree) : nat := length (pre t) + (if kids t then 1 else 0).
Definition path_is_empty (t : tree) : bool :=
  match pre t, kids t with [], None => true | _, _ => false end.

(* ------------------------------------------------------------------ *)
(* derived PartialEq on segments; UseTree::eq compares paths only *)
Definition oname_eqb (a b : option name) : bool :=
  match a, b with
  | None, None => true
  | Some x, Some y => eqb_text x y
  | _, _ => false
  end.
Definition sseg_eqb (x y : sseg) : bool :=
  match x, y with
  | Ident n a, Ident m b => eqb_text n m && oname_eqb a b
  | Slf a, Slf b => oname_eqb a b
  | Super a, Super b => oname_eqb a b
  | Crate a, Crate b => oname_eqb a b
  | Glob, Glob => true
  | _, _ => false
  end.
Fixpoint list_eqb {A} (f : A -> A -> bool) (l1 l2 : list A) : bool :=
  match l1, l2 with
  | [], [] => true
  | x :: r1, y :: r2 => f x y && list_eqb f r1 r2
  | _, _ => false
  end.
(* imports.rs:124 PartialEq for UseTree: self.path == other.path *)
Fixpoint tree_eqb (t1 t2 : tree) {struct t1} : bool :=
  match t1, t2 with
  | Node p1 k1 _ _ _, Node p2 k2 _ _ _ =>
      list_eqb sseg_eqb p1 p2 &&
      match k1, k2 with
      | None, None => true
      | Some l1, Some l2 =>
          (fix go (a b : list tree) : bool :=
             match a, b with
             | [], [] => true
             | x :: a', y :: b' => tree_eqb x y && go a' b'
             | _, _ => false
             end) l1 l2
      | _, _ => false
      end
  end.
Definition gseg_eqb (x y : gseg) : bool :=
  match x, y with
  | GS s, GS t => sseg_eqb s t
  | GL l1, GL l2 => list_eqb tree_eqb l1 l2
  | _, _ => false
  end.

(* imports.rs:159 equal_except_alias *)
Definition sseg_eea (x y : sseg) : bool :=
  match x, y with
  | Ident n _, Ident m _ => eqb_text n m
  | Slf _, Slf _ | Super _, Super _ | Crate _, Crate _ | Glob, Glob => true
  | _, _ => false
  end.
Definition eea (x y : gseg) : bool :=
  match x, y with
  | GS s, GS t => sseg_eea s t
  | GL l1, GL l2 => list_eqb tree_eqb l1 l2
  | _, _ => false
  end.
(* imports.rs:171 get_alias *)
Definition salias (s : sseg) : option name :=
  match s with
  | Ident _ a | Slf a | Super a | Crate a => a
  | Glob => None
  end.
Definition galias (x : gseg) : option name :=
  match x with GS s => salias s | GL _ => None end.
(* imports.rs:144 remove_alias *)
Definition remove_alias (s : sseg) : sseg :=
  match s with
  | Ident n _ => Ident n None
  | Slf _ => Slf None
  | Super _ => Super None
  | Crate _ => Crate None
  | Glob => Glob
  end.

(* ------------------------------------------------------------------ *)
(* imports.rs:639 has_comment / :643 contains_comment (imports.rs:206 for segments) *)
Definition has_comment (t : tree) : bool := cmt t.
Fixpoint contains_comment (t : tree) : bool :=
  match t with
  | Node _ k _ _ c =>
      c || match k with Some l => existsb contains_comment l | None => false end
  end.

(* imports.rs:647 same_visibility: None and Inherited are the same *)
Definition vnorm (v : option N) : N := match v with Some k => k | None => 0%N end.
Definition same_visibility (a b : tree) : bool := N.eqb (vnorm (vis a)) (vnorm (vis b)).

Inductive shared_prefix := SPCrate | SPModule | SPOne.

(* path[..len-1] : the List (if any) is the last segment *)
Definition path_init (t : tree) : list sseg :=
  match kids t with Some _ => pre t | None => removelast (pre t) end.
Definition path_head (t : tree) : option gseg :=
  match pre t, kids t with
  | s :: _, _ => Some (GS s)
  | [], Some l => Some (GL l)
  | [], None => None
  end.

(* imports.rs:669 share_prefix *)
Definition share_prefix (self other : tree) (m : shared_prefix) : bool :=
  if path_is_empty self || path_is_empty other || is_some (attrs self)
     || contains_comment self || negb (same_visibility self other)
  then false
  else match m with
       | SPCrate => match path_head self, path_head other with
                    | Some x, Some y => gseg_eqb x y
                    | _, _ => false
                    end
       | SPModule => list_eqb sseg_eqb (path_init self) (path_init other)
       | SPOne => true
       end.

(* ------------------------------------------------------------------ *)
(* stable insertion sort = Vec::sort for a comparator *)
Section Sort.
Variable A : Type.
Variable cmp : A -> A -> comparison.
Fixpoint insert (x : A) (l : list A) : list A :=
  match l with
  | [] => [x]
  | y :: r => match cmp x y with Gt => y :: insert x r | _ => x :: l end
  end.
Definition sort_by (l : list A) : list A := fold_right insert [] l.
End Sort.
Arguments insert {A}.
Arguments sort_by {A}.

Definition SELF : name := [115; 101; 108; 102]%N.

(* list[0].to_string() == "self"  (Display prints Slf(..) as self whatever its alias) *)
Definition is_self_string (t : tree) : bool :=
  match kids t, pre t with
  | None, [Slf _] => true
  | None, [Ident n None] => eqb_text n SELF
  | _, _ => false
  end.

(* ------------------------------------------------------------------ *)
(* shapes.  from_ast only builds trees in which an alias sits on the last
   segment of a path without list (imports.rs:516-540: only Simple(rename)
   sets one), nested trees have no visibility and no attributes
   (imports.rs:497) and no path is empty. *)
Definition alias_free (p : list sseg) : bool :=
  forallb (fun s => negb (is_some (salias s))) p.
Fixpoint alias_last (t : tree) : bool :=
  match t with
  | Node p k _ _ _ =>
      match k with
      | None => alias_free (removelast p)
      | Some l => alias_free p && forallb alias_last l
      end
  end.
Fixpoint no_empty_kid (t : tree) : bool :=
  match t with
  | Node _ k _ _ _ =>
      match k with
      | None => true
      | Some l => forallb (fun x => negb (path_is_empty x) && no_empty_kid x) l
      end
  end.
Fixpoint wf_kid (t : tree) : bool :=
  match t with
  | Node p k v a _ =>
      negb (is_some v) && negb (is_some a) && negb (path_is_empty t) &&
      match k with None => true | Some l => forallb wf_kid l end
  end.
Definition ast_shape (t : tree) : bool :=
  negb (path_is_empty t) && alias_last t &&
  match kids t with None => true | Some l => forallb wf_kid l end.

Section WithCmp.
Variable cmp : tree -> tree -> comparison.

(* imports.rs:547-604 normalize, when the last segment is not a List.
   p = the whole path (non-empty). *)
Definition norm_simple (p : list sseg) (v a : option N) (c : bool) : tree :=
  match rev p with
  | [] => Node p None v a c                    (* expect("Empty use tree?"): unreachable *)
  | last :: rq =>
      let q := rev rq in
      (* Remove self without attributes (imports.rs:554-565) *)
      if negb (is_some a) &&
         match last, rq, v with Slf None, [], Some _ => true | _, _, _ => false end
      then Node [] None v a c
      else
      (* foo::self -> foo (imports.rs:568-572) *)
      match last, rq with
      | Slf None, _ :: _ => Node q None v a c
      | Slf (Some r), Ident n None :: rq' =>
          (* foo::self as bar -> foo as bar (imports.rs:575-604) *)
          Node (rev rq' ++ [Ident n (Some r)]) None v a c
      | _, _ => Node p None v a c
      end
  end.

(* imports.rs:547 normalize, for the tree with path  acc ++ path t  and
   fields v a c.  The call  self.normalize()  after splicing a sole list item
   (imports.rs:613-620) becomes the structural call on that item. *)
Fixpoint norm (acc : list sseg) (v a : option N) (c : bool) (t : tree) {struct t} : tree :=
  let p := acc ++ pre t in
  match kids t with
  | None => norm_simple p v a c
  | Some l =>
      match l with
      | [] =>
          (* Remove foo::{} without attributes *)
          if is_some a then Node p (Some (sort_by cmp [])) v a c else Node [] None v a c
      | [k] =>
          (* foo::{bar} -> foo::bar *)
          if negb (is_self_string k) && negb (has_comment k)
          then norm p v a c k
          else Node p (Some (sort_by cmp [norm [] (vis k) (attrs k) (cmt k) k])) v a c
      | _ =>
          Node p (Some (sort_by cmp (map (fun k => norm [] (vis k) (attrs k) (cmt k) k) l))) v a c
      end
  end.
Definition normalize (t : tree) : tree := norm [] (vis t) (attrs t) (cmt t) t.

(* imports.rs:694-698: list.len() == 1 && list[0].path.len() == 1 && list[0].path[0] is Slf *)
Definition sole_self (l : list tree) : bool :=
  match l with
  | [Node [Slf _] None _ _ _] => true
  | _ => false
  end.
(* imports.rs:688 flatten; item = (import_granularity == Item) *)
Fixpoint flatten (item : bool) (t : tree) {struct t} : list tree :=
  match t with
  | Node p k v a c =>
      if path_is_empty t || contains_comment t then [t]
      else match k with
           | None => [t]
           | Some l =>
               if sole_self l then [t]
               else flat_map
                      (fun nested =>
                         map (fun f => Node (p ++ pre f) (kids f) v
                                            (if item then a else None) false)
                             (flatten item nested))
                      l
           end
  end.

(* imports.rs:742 nest_trailing_self *)
Definition nest_trailing_self (t : tree) : tree :=
  match t with
  | Node p None v a c =>
      match rev p with
      | Slf al :: rq => Node (rev rq) (Some [from_path [GS (Slf al)]]) v a c
      | _ => t
      end
  | _ => t
  end.

(* ------------------------------------------------------------------ *)
(* imports.rs:726-734: the prefix loop of merge *)
Fixpoint prefix_len (first : bool) (a b : list gseg) : nat :=
  match a, b with
  | x :: a', y :: b' =>
      if (first && eea x y) || gseg_eqb x y then S (prefix_len false a' b') else 0
  | _, _ => 0
  end.

(* imports.rs:760 merge_rest.  a = map GS pa ++ klist ka; the call of
   merge_use_trees_inner is the parameter [inner]. *)
Definition merge_rest_with (inner : list tree -> tree -> list tree)
           (pa : list sseg) (ka : option (list tree)) (b : list gseg) (len : nat)
  : option (list gseg) :=
  let a := map GS pa ++ klist ka in
  let la := length a in
  let lb := length b in
  let fin (n : nat) :=
      Some (firstn n b ++ [GL (sort_by cmp [from_path (skipn n a); from_path (skipn n b)])]) in
  if Nat.eqb la len && Nat.eqb lb len then None
  else if negb (Nat.eqb la len) && negb (Nat.eqb lb len) then
    (* a[len] is a List iff len = length pa and ka = Some _ *)
    match ka with
    | Some l => if Nat.eqb len (length pa)
                then Some (firstn len b ++ [GL (inner l (from_path (skipn len b)))])
                else fin len
    | None => fin len
    end
  else if Nat.eqb len 1 then
    let common := if Nat.eqb la len then nth 0 a (GS Glob) else nth 0 b (GS Glob) in
    let rest := if Nat.eqb la len then skipn 1 b else skipn 1 a in
    let slf := from_path [GS (Slf (galias common))] in
    let list := slf :: match rest with
                       | [GL rl] => rl
                       | _ => [from_path rest]
                       end in
    Some [nth 0 b (GS Glob); GL list]
  else fin (len - 1).

(* in-place update of the element at index i *)
Definition apply_at (f : tree -> tree) : nat -> list tree -> list tree :=
  fix go (i : nat) (l : list tree) {struct l} : list tree :=
    match l with
    | [] => []
    | x :: r => match i with
                | 0 => f x :: r
                | S j => x :: go j r
                end
    end.

(* Iterator::max_by_key over the Some entries: index of the LAST maximum *)
Fixpoint last_max (i : nat) (best : option (nat * nat)) (ks : list (option nat))
  : option (nat * nat) :=
  match ks with
  | [] => best
  | None :: r => last_max (S i) best r
  | Some k :: r =>
      match best with
      | Some (bi, bk) => if Nat.ltb k bk then last_max (S i) best r
                         else last_max (S i) (Some (i, k)) r
      | None => last_max (S i) (Some (i, k)) r
      end
  end.
(* Iterator::min_by_key: the FIRST minimum; only its key is used *)
Fixpoint first_min (best : option nat) (ks : list (option nat)) : option nat :=
  match ks with
  | [] => best
  | None :: r => first_min best r
  | Some k :: r =>
      match best with
      | Some bk => if Nat.ltb k bk then first_min (Some k) r else first_min best r
      | None => first_min (Some k) r
      end
  end.

(* imports.rs:848-852 similarity *)
Fixpoint similarity (a b : list gseg) : nat :=
  match a, b with
  | x :: a', y :: b' => if eea x y then S (similarity a' b') else 0
  | _, _ => 0
  end.

(* imports.rs:842-886: which tree of [trees] merge_use_trees_inner merges
   [u] into (CMerge i), or that it returns early leaving [trees] unchanged (CKeep),
   or that it pushes [u] and sorts (CPush) *)
Inductive choice := CKeep | CMerge (i : nat) | CPush.
Definition inner_choice (m : shared_prefix) (trees : list tree) (u : tree) : choice :=
  let sims := map (fun t => if share_prefix t u m
                            then Some (match m with
                                       | SPOne => similarity (path t) (path u)
                                       | _ => 0
                                       end)
                            else None) trees in
  let lens := map (fun t => if share_prefix t u m then Some (path_len t) else None) trees in
  if Nat.eqb (path_len u) 1 && match m with SPCrate => true | _ => false end then
    match first_min None lens with
    | Some 1 => CKeep
    | _ => CPush
    end
  else match m with
       | SPOne =>
           match last_max 0 None sims with
           | Some (i, S _) => CMerge i
           | _ => CPush
           end
       | _ =>
           match last_max 0 None lens with
           | Some (i, S (S _)) => CMerge i
           | _ => CPush
           end
       end.

(* imports.rs:835 merge_use_trees_inner; [mrg t] = t.merge(&use_tree, merge_by) *)
Definition inner_with (mrg : tree -> tree) (m : shared_prefix)
           (trees : list tree) (u : tree) : list tree :=
  match inner_choice m trees u with
  | CKeep => trees
  | CMerge i => apply_at mrg i trees
  | CPush => sort_by cmp (trees ++ [u])
  end.

(* imports.rs:725 merge *)
Fixpoint merge (m : shared_prefix) (self other : tree) {struct self} : tree :=
  match self with
  | Node pa ka v a c =>
      let b := path other in
      let len := prefix_len true (map GS pa ++ klist ka) b in
      match merge_rest_with
              (fun l u => inner_with (fun t => merge m t u) m l u) pa ka b len with
      | Some np => of_path np v a c
      | None => self
      end
  end.
Definition merge_use_trees_inner (m : shared_prefix) (trees : list tree) (u : tree) : list tree :=
  inner_with (fun t => merge m t u) m trees u.

(* ------------------------------------------------------------------ *)
Fixpoint find_index (f : tree -> bool) (i : nat) (l : list tree) : option nat :=
  match l with
  | [] => None
  | x :: r => if f x then Some i else find_index f (S i) r
  end.

(* imports.rs:234-246: the inner loop body *)
Definition add_flattened (m : shared_prefix) (result : list tree) (f : tree) : list tree :=
  match find_index (fun t => share_prefix t f m) 0 result with
  | Some i => apply_at (fun t => merge m t f) i result
  | None => result ++ [match m with SPModule => nest_trailing_self f | _ => f end]
  end.
(* imports.rs:228-248: the outer loop body *)
Definition add_tree (m : shared_prefix) (result : list tree) (t : tree) : list tree :=
  if contains_comment t || is_some (attrs t) then result ++ [t]
  else fold_left (add_flattened m) (flatten false t) result.
Definition regroup (m : shared_prefix) (ts : list tree) : list tree :=
  fold_left (add_tree m) ts [].

(* regroup as one fold over events: a tree passed through, or one flattened tree *)
Inductive ev := EPass (t : tree) | EFlat (f : tree).
Definition events (t : tree) : list ev :=
  if contains_comment t || is_some (attrs t) then [EPass t]
  else map EFlat (flatten false t).
Definition add_ev (m : shared_prefix) (result : list tree) (e : ev) : list tree :=
  match e with
  | EPass t => result ++ [t]
  | EFlat f => add_flattened m result f
  end.

(* AliasClash: instrumented run.  [root_clash] holds when merge matches two first
   segments by equal_except_alias although they are not equal (imports.rs:729
   discards the alias at the root of each merged (sub)tree). *)
Definition root_clash (a b : list gseg) : bool :=
  match a, b with
  | x :: ra, y :: rb =>
      (* a = [x] and b longer is the one case in which merge_rest keeps both
         aliases apart (self as alias goes into the new list) *)
      eea x y && negb (gseg_eqb x y) && negb (is_nil ra && negb (is_nil rb))
  | _, _ => false
  end.
Definition check_at (f : tree -> bool) : nat -> list tree -> bool :=
  fix go (i : nat) (l : list tree) {struct l} : bool :=
    match l with
    | [] => false
    | x :: r => match i with
                | 0 => f x
                | S j => go j r
                end
    end.
(* does t.merge(other) or one of the nested merges it triggers hit a root clash? *)
Fixpoint merge_clash (m : shared_prefix) (self other : tree) {struct self} : bool :=
  match self with
  | Node pa ka _ _ _ =>
      let a := map GS pa ++ klist ka in
      let b := path other in
      let len := prefix_len true a b in
      root_clash a b ||
      (negb (Nat.eqb (length a) len) && negb (Nat.eqb (length b) len) &&
       match ka with
       | Some l =>
           Nat.eqb len (length pa) &&
           let u := from_path (skipn len b) in
           match inner_choice m l u with
           | CMerge i => check_at (fun t => merge_clash m t u) i l
           | _ => false
           end
       | None => false
       end)
  end.
Definition ev_clash (m : shared_prefix) (result : list tree) (e : ev) : bool :=
  match e with
  | EPass _ => false
  | EFlat f =>
      match find_index (fun t => share_prefix t f m) 0 result with
      | Some i => check_at (fun t => merge_clash m t f) i result
      | None => false
      end
  end.
Fixpoint run_clash (m : shared_prefix) (result : list tree) (es : list ev) : bool :=
  match es with
  | [] => false
  | e :: r => ev_clash m result e || run_clash m (add_ev m result e) r
  end.
Definition alias_clash (m : shared_prefix) (ts : list tree) : bool :=
  run_clash m [] (flat_map events ts).

(* itertools unique(): first occurrence, Eq/Hash = path *)
Fixpoint unique_aux (seen : list tree) (l : list tree) : list tree :=
  match l with
  | [] => []
  | x :: r => if existsb (tree_eqb x) seen then unique_aux seen r
              else x :: unique_aux (x :: seen) r
  end.
(* imports.rs:252 flatten_use_trees (only called with Item) *)
Definition flatten_use_trees (ts : list tree) : list tree :=
  unique_aux [] (map nest_trailing_self (flat_map (flatten true) ts)).

Inductive granularity := Preserve | Item | Module | GCrate | One.
(* imports.rs:215 normalize_use_trees_with_granularity *)
Definition with_granularity (g : granularity) (ts : list tree) : list tree :=
  match g with
  | Item => flatten_use_trees ts
  | Preserve => ts
  | GCrate => regroup SPCrate ts
  | Module => regroup SPModule ts
  | One => regroup SPOne ts
  end.

(* ------------------------------------------------------------------ *)
(* reorder.rs:199 group_imports *)
Definition STD : name := [115; 116; 100]%N.
Definition ALLOC : name := [97; 108; 108; 111; 99]%N.
Definition CORE : name := [99; 111; 114; 101]%N.
(* 0 = std, 1 = external, 2 = local *)
Definition group_of (t : tree) : nat :=
  match path_head t with
  | None => 1
  | Some (GS (Ident id _)) =>
      if eqb_text id STD || eqb_text id ALLOC || eqb_text id CORE then 0 else 1
  | Some (GS (Slf _)) | Some (GS (Super _)) | Some (GS (Crate _)) => 2
  | Some (GS Glob) | Some (GL _) => 1
  end.
Definition group_imports (ts : list tree) : list (list tree) :=
  [filter (fun t => Nat.eqb (group_of t) 0) ts;
   filter (fun t => Nat.eqb (group_of t) 1) ts;
   filter (fun t => Nat.eqb (group_of t) 2) ts].

(* reorder.rs:106-147: from_ast_with_normalization on each item, then
   normalize_use_trees_with_granularity, group_imports (StdExternalCrate) or a
   single group, sort of each group if reorder_imports, empty groups dropped.
   The input trees are the results of from_ast with the comment flag that
   itemize_list attaches to the item (reorder.rs:124-126). *)
Definition pipeline (g : granularity) (grp reorder : bool) (ts : list tree) : list (list tree) :=
  let normalized := with_granularity g (map normalize ts) in
  let regrouped := if grp then group_imports normalized else [normalized] in
  let sorted := if reorder then map (sort_by cmp) regrouped else regrouped in
  filter (fun l => negb (is_nil l)) sorted.
End WithCmp.

(* ------------------------------------------------------------------ *)
(* Ord for UseSegment / UseTree, style editions <= 2021 (imports.rs:907-1010),
   over abstract char::is_uppercase / char::is_numeric *)
Section Ord.
Variable is_upper : char -> bool.
Variable is_numeric : char -> bool.

Definition rev_cmp (c : comparison) : comparison := CompOpp c.
Fixpoint text_cmp (a b : text) : comparison :=
  match a, b with
  | [], [] => Eq
  | [], _ :: _ => Lt
  | _ :: _, [] => Gt
  | x :: a', y :: b' => match N.compare x y with Eq => text_cmp a' b' | o => o end
  end.
Definition oname_cmp (a b : option name) : comparison :=
  match a, b with
  | None, None => Eq
  | None, Some _ => Lt
  | Some _, None => Gt
  | Some x, Some y => text_cmp x y
  end.
Definition starts_upper (s : text) : bool :=
  match s with c :: _ => is_upper c | [] => false end.
Definition is_upper_snake_case (s : text) : bool :=
  forallb (fun c => is_upper c || N.eqb c 95 || is_numeric c) s.
Definition ident_cmp (ia ib : text) : comparison :=
  if starts_upper ia && negb (starts_upper ib) then Gt
  else if negb (starts_upper ia) && starts_upper ib then Lt
  else if is_upper_snake_case ia && negb (is_upper_snake_case ib) then Gt
  else if negb (is_upper_snake_case ia) && is_upper_snake_case ib then Lt
  else text_cmp ia ib.
Definition sseg_rank (s : sseg) : nat :=
  match s with Slf _ => 0 | Super _ => 1 | Crate _ => 2 | Ident _ _ => 3 | Glob => 4 end.
Definition sseg_cmp (x y : sseg) : comparison :=
  match x, y with
  | Slf a, Slf b | Super a, Super b | Crate a, Crate b => oname_cmp a b
  | Glob, Glob => Eq
  | Ident ia aa, Ident ib ab =>
      match ident_cmp ia ib with
      | Eq => match aa, ab with
              | None, Some _ => Lt
              | Some _, None => Gt
              | Some x', Some y' => text_cmp x' y'
              | None, None => Eq
              end
      | o => o
      end
  | _, _ => Nat.compare (sseg_rank x) (sseg_rank y)
  end.

(* the loop of Ord for UseTree over two simple-segment prefixes; returns the
   decision, or the remainders when one side is exhausted *)
Fixpoint pre_cmp (p1 p2 : list sseg) : comparison + (list sseg * list sseg) :=
  match p1, p2 with
  | x :: r1, y :: r2 =>
      match sseg_cmp x y, sseg_cmp (remove_alias x) (remove_alias y) with
      | Eq, _ | _, Eq => pre_cmp r1 r2
      | o, _ => inl o
      end
  | _, _ => inr (p1, p2)
  end.

Fixpoint tree_cmp (t1 t2 : tree) {struct t1} : comparison :=
  match t1, t2 with
  | Node p1 k1 _ _ _, Node p2 k2 _ _ _ =>
      match pre_cmp p1 p2 with
      | inl o => o
      | inr ([], []) =>
          match k1, k2 with
          | None, None => Eq
          | Some _, None => Gt
          | None, Some _ => Lt
          | Some l1, Some l2 =>
              (* List vs List (imports.rs:972-981); remove_alias is the identity on lists *)
              (fix go (a b : list tree) : comparison :=
                 match a, b with
                 | [], [] => Eq
                 | [], _ :: _ => Lt
                 | _ :: _, [] => Gt
                 | x :: a', y :: b' => match tree_cmp x y with Eq => go a' b' | o => o end
                 end) l1 l2
          end
      | inr ([], _ :: _) =>
          (* t1 is at its List (greater than any simple segment) or exhausted *)
          match k1 with Some _ => Gt | None => Lt end
      | inr (_ :: _, _) =>
          (* p2 exhausted *)
          match k2 with Some _ => Lt | None => Gt end
      end
  end.
End Ord.

(* ------------------------------------------------------------------ *)
(* Denotation: the imports a tree stands for.  A state is the reversed
   canonical path read so far.  [step] absorbs  ::self  into the segment before
   it and  ::self as b  into an alias of the segment before it (when that
   segment can carry one); a tree with an empty path (a removed import) and the
   bare path  self  denote nothing;  a::{}  denotes nothing. *)
Definition aliasable (s : sseg) : bool :=
  match s with Glob => false | _ => negb (is_some (salias s)) end.
Definition set_alias (s : sseg) (b : name) : sseg :=
  match s with
  | Ident n _ => Ident n (Some b)
  | Slf _ => Slf (Some b)
  | Super _ => Super (Some b)
  | Crate _ => Crate (Some b)
  | Glob => Glob
  end.
Definition step (st : list sseg) (s : sseg) : list sseg :=
  match s, st with
  | Slf None, _ :: _ => st
  | Slf (Some b), t :: st' => if aliasable t then set_alias t b :: st' else s :: st
  | _, _ => s :: st
  end.
Fixpoint den (st : list sseg) (t : tree) {struct t} : list (list sseg) :=
  match t with
  | Node p k _ _ _ =>
      match p, k with
      | [], None => []
      | _, _ =>
          let st' := fold_left step p st in
          match k with
          | None => [st']
          | Some l => flat_map (den st') l
          end
      end
  end.
Definition valid_state (st : list sseg) : bool :=
  match st with [] => false | [Slf None] => false | _ => true end.
Definition leaf_paths (t : tree) : list (list sseg) :=
  map (@rev sseg) (filter valid_state (den [] t)).

(* leaf = (visibility class, attributes, canonical path; the alias is on the
   last segment) *)
Definition leaf : Type := N * option N * list sseg.
Definition leaves (t : tree) : list leaf :=
  map (fun p => (vnorm (vis t), attrs t, p)) (leaf_paths t).
Definition Leaves (ts : list tree) : list leaf := flat_map leaves ts.

(* ------------------------------------------------------------------ *)
(* the classes of inputs on which the rewriting is known to change the set of
   imports (each is refuted in Props.v) *)
Definition oN_eqb (a b : option N) : bool :=
  match a, b with
  | None, None => true
  | Some x, Some y => N.eqb x y
  | _, _ => false
  end.
(* two trees that unique() identifies (equal paths) in different classes *)
Definition dup_across (same : tree -> tree -> bool) (l : list tree) : bool :=
  existsb (fun x => existsb (fun y => tree_eqb x y && negb (same x y)) l) l.
Definition item_list (ns : list tree) : list tree :=
  map nest_trailing_self (flat_map (flatten true) ns).
(* DupAcrossVisibility / DupAcrossAttrs, on the normalized trees *)
Definition DupAcrossVisibility (ns : list tree) : bool :=
  dup_across (fun x y => N.eqb (vnorm (vis x)) (vnorm (vis y))) (item_list ns).
Definition DupAcrossAttrs (ns : list tree) : bool :=
  dup_across (fun x y => oN_eqb (attrs x) (attrs y)) (item_list ns).
(* NestedEmptyList: a nested list item whose path normalize emptied (a::{b::{}, c}) *)
Definition NestedEmptyList (ns : list tree) : bool :=
  existsb (fun t => negb (no_empty_kid t)) ns.

(* the flattened trees that take part in merging (imports.rs:229-234) *)
Definition flat_list (ns : list tree) : list tree :=
  flat_map (fun t => if contains_comment t || is_some (attrs t) then [] else flatten false t) ns.
(* the position at which two paths first differ, when the two segments there
   are equal except for their alias *)
Definition alias_div (f1 f2 : tree) : option nat :=
  let n := prefix_len false (path f1) (path f2) in
  match nth_error (path f1) n, nth_error (path f2) n with
  | Some x, Some y => if eea x y then Some n else None
  | _, _ => None
  end.
Definition pair_exists (P : tree -> tree -> bool) (l : list tree) : bool :=
  existsb (fun x => existsb (P x) l) l.
(* DupModuloRootAlias: use a as _; use a; *)
Definition DupModuloRootAlias (ns : list tree) : bool :=
  pair_exists (fun x y => same_visibility x y && Nat.eqb (path_len x) 1 && Nat.eqb (path_len y) 1
                          && match alias_div x y with Some 0 => true | _ => false end)
              (flat_list ns).
(* AliasedPrefixOne: use a::BAR; use a as q; *)
Definition AliasedPrefixOne (ns : list tree) : bool :=
  pair_exists (fun x y => same_visibility x y && Nat.ltb 1 (path_len x) && Nat.eqb (path_len y) 1
                          && match alias_div x y with Some 0 => true | _ => false end)
              (flat_list ns).
(* DupModuloAliasNested: use a::{c, x}; use a::c as z; *)
Definition DupModuloAliasNested (ns : list tree) : bool :=
  pair_exists (fun x y => same_visibility x y
                          && match alias_div x y with Some (S _) => true | _ => false end)
              (flat_list ns).

Section Bad.
Variable cmp : tree -> tree -> comparison.
(* AliasClash g = alias_clash for the SharedPrefix of g: during merging two
   first segments are matched by equal_except_alias although they differ
   (DupModuloRootAlias, AliasedPrefixOne and DupModuloAliasNested are
   instances) *)
Definition BadClass (g : granularity) (ts : list tree) : bool :=
  let ns := map (normalize cmp) ts in
  match g with
  | Preserve => false
  | Item => NestedEmptyList ns || DupAcrossVisibility ns || DupAcrossAttrs ns
  | Module => NestedEmptyList ns || alias_clash cmp SPModule ns
  | GCrate => NestedEmptyList ns || alias_clash cmp SPCrate ns
  | One => NestedEmptyList ns || alias_clash cmp SPOne ns
  end.
End Bad.

(* ------------------------------------------------------------------ *)
(* vocabulary of the statements *)
Definition kids_wf (t : tree) : bool :=
  match kids t with None => true | Some l => forallb wf_kid l end.
(* what merge needs of its operands: no nested item with an empty path, aliases
   only on last segments; [good] = shape and a non-empty path *)
Definition shape (t : tree) : bool := no_empty_kid t && alias_last t.
Definition good (t : tree) : bool := negb (path_is_empty t) && shape t.
(* no alias anywhere in the tree (no `as`) *)
Fixpoint noalias (t : tree) : bool :=
  match t with
  | Node p k _ _ _ =>
      alias_free p && match k with None => true | Some l => forallb noalias l end
  end.
(* the class of a top-level tree: visibility and attributes *)
Definition cls (t : tree) : N * option N := (vnorm (vis t), attrs t).
(* imports.rs:229: trees that normalize_use_trees_with_granularity pushes unchanged *)
Definition passthrough (t : tree) : bool := contains_comment t || is_some (attrs t).

(* the comparator instance used by Run.v and by the witnesses: style edition
   <= 2021 with ASCII char::is_uppercase / char::is_numeric *)
Definition ascii_upper (c : char) : bool := (N.leb 65 c) && (N.leb c 90).
Definition ascii_numeric (c : char) : bool := (N.leb 48 c) && (N.leb c 57).
Definition cmp15 : tree -> tree -> comparison := tree_cmp ascii_upper ascii_numeric.

(* ------------------------------------------------------------------ *)
(* reorder.rs:284-353 visit_items_with_reordering / walk_reorderable_or_regroupable_items,
   when `use` items are reorderable or regroupable: the items of a module are
   cut into maximal runs of consecutive `use` items (take_while same kind; with
   in_group = (group_imports == Preserve) a run also ends before a `use` that a
   blank line separates from the previous one: flag brk), each run is rewritten
   by [pipeline], every other item stays where it is.  [seg] is the while loop
   with take_while, as one pass with the current run as accumulator. *)
Inductive item := IUse (brk : bool) (t : tree) | IOther (id : N).
Definition flush (cur : option (list tree)) : list (list tree + N) :=
  match cur with Some r => [inl r] | None => [] end.
Fixpoint seg (in_group : bool) (cur : option (list tree)) (items : list item)
  : list (list tree + N) :=
  match items with
  | [] => flush cur
  | IOther id :: r => flush cur ++ inr id :: seg in_group None r
  | IUse brk t :: r =>
      match cur with
      | None => seg in_group (Some [t]) r
      | Some run => if in_group && brk then inl run :: seg in_group (Some [t]) r
                    else seg in_group (Some (run ++ [t])) r
      end
  end.
Definition visit_items (cmp : tree -> tree -> comparison) (g : granularity)
           (grp reorder in_group : bool) (items : list item) : list (list (list tree) + N) :=
  map (fun s => match s with
                | inl run => inl (pipeline cmp g grp reorder run)
                | inr id => inr id
                end) (seg in_group None items).
Definition strip (i : item) : tree + N :=
  match i with IUse _ t => inl t | IOther id => inr id end.
Definition unseg (l : list (list tree + N)) : list (tree + N) :=
  flat_map (fun s => match s with inl run => map inl run | inr id => [inr id] end) l.

(* set equality of lists, as mutual inclusion *)
Definition SameSet {A : Type} (l1 l2 : list A) : Prop := forall x, In x l1 <-> In x l2.

(* a segment of the module and its rewriting: a run keeps its imports, another
   item is itself *)
Definition run_rel (cmp : tree -> tree -> comparison) (g : granularity)
           (s : list tree + N) (o : list (list tree) + N) : Prop :=
  match s, o with
  | inl run, inl groups =>
      forallb ast_shape run = true -> BadClass cmp g run = false ->
      SameSet (Leaves (concat groups)) (Leaves run)
  | inr a, inr b => a = b
  | _, _ => False
  end.
