(* C10/Run.v -- encodings of model inputs/results for the correspondence run.

   ENCODING.  An item (a `use` declaration, the result of UseTree::from_ast, or
   an output tree) is the tuple
        (vis, attrs, cmt, txt) : option N * option N * bool * text
     vis   None | Some 0 = inherited | Some 1 = pub | Some k>=2 = class of a
           pub(restricted) path
     attrs None = no attributes | Some k = opaque id of the attribute list
     cmt   true iff the item's ListItem has a pre/post comment
     txt   the path, as a list of Unicode scalar values, in this syntax:
             tree := ['!'] seg ('::' seg)*          '!' = the nested item has a comment
             seg  := '*' | '{' [tree (', ' tree)*] '}' | word [' as ' word]
           word = any characters except space , { } : * ! ; the words self, super,
           crate are the Slf/Super/Crate segments (with their alias printed, unlike
           rustfmt's Display); a leading '::' is part of the first identifier's
           name, as in from_ast (Ident "::a"); '::{' and '::*' at the start give
           the empty-name first segment.  The empty text is the empty path.
   Granularity g: 0 Preserve, 1 Item, 2 Module, 3 Crate, 4 One.
   The comparator is [tree_cmp] (style edition <= 2021) with ASCII
   char::is_uppercase / is_numeric: correspondence inputs use ASCII names.

   run_pipeline g grp reorder items : option (list (list item))   (None = parse error)
   run_granularity g items          : option (list item)   = normalize each, then
                                      normalize_use_trees_with_granularity
   run_normalize txt / run_flatten txt / run_nest txt : per-tree functions
   run_leaves items : option (list (N * option N * text))   the denoted imports *)
From V Require Import Base.Text C10.Model.
Open Scope N_scope.
Open Scope list_scope.


(* ------------------------------------------------------------------ *)
(* printer *)
Definition AS : text := [32; 97; 115; 32].
Definition COLONS : text := [58; 58].
Definition show_alias (a : option name) : text :=
  match a with Some x => AS ++ x | None => [] end.
Definition show_sseg (s : sseg) : text :=
  match s with
  | Ident n a => n ++ show_alias a
  | Slf a => SELF ++ show_alias a
  | Super a => [115; 117; 112; 101; 114] ++ show_alias a
  | Crate a => [99; 114; 97; 116; 101] ++ show_alias a
  | Glob => [42]
  end.
Fixpoint join (sep : text) (l : list text) : text :=
  match l with
  | [] => []
  | [x] => x
  | x :: r => x ++ sep ++ join sep r
  end.
Fixpoint show (t : tree) : text :=
  match t with
  | Node p k _ _ _ =>
      join COLONS
           (map show_sseg p ++
            match k with
            | None => []
            | Some l =>
                [[123] ++ join [44; 32]
                       (map (fun x => (if cmt x then [33] else []) ++ show x) l) ++ [125]]
            end)
  end.

(* ------------------------------------------------------------------ *)
(* parser *)
Definition is_delim (c : char) : bool :=
  (c =? 32) || (c =? 44) || (c =? 123) || (c =? 125) || (c =? 58) || (c =? 42) || (c =? 33).
Fixpoint take_word (s : text) : text * text :=
  match s with
  | c :: r => if is_delim c then ([], s) else let '(w, r') := take_word r in (c :: w, r')
  | [] => ([], [])
  end.
Fixpoint skip_sp (s : text) : text :=
  match s with c :: r => if c =? 32 then skip_sp r else s | [] => [] end.
Definition mk_seg (w : text) (a : option name) : sseg :=
  if eqb_text w SELF then Slf a
  else if eqb_text w [115; 117; 112; 101; 114] then Super a
  else if eqb_text w [99; 114; 97; 116; 101] then Crate a
  else Ident w a.

Fixpoint ptree (fuel : nat) (s : text) {struct fuel} : option (tree * text) :=
  match fuel with
  | O => None
  | S f =>
      let s := skip_sp s in
      let '(c, s) := match s with 33 :: r => (true, r) | _ => (false, s) end in
      match s with
      | 58 :: 58 :: r => psegs f true c [] r
      | _ => psegs f false c [] s
      end
  end
with psegs (fuel : nat) (modsep c : bool) (acc : list sseg) (s : text) {struct fuel}
  : option (tree * text) :=
  match fuel with
  | O => None
  | S f =>
      let acc' := if modsep then Ident [] None :: acc else acc in
      match s with
      | 42 :: r => Some (Node (rev (Glob :: acc')) None None None c, r)
      | 123 :: r =>
          match plist f [] r with
          | Some (l, r') => Some (Node (rev acc') (Some l) None None c, r')
          | None => None
          end
      | _ =>
          let '(w, r) := take_word s in
          match w with
          | [] => match acc, modsep with
                  | [], false => Some (Node [] None None None c, r)   (* empty path *)
                  | _, _ => None
                  end
          | _ =>
              let '(al, r) :=
                  match r with
                  | 32 :: 97 :: 115 :: 32 :: r1 =>
                      let '(w2, r2) := take_word r1 in (Some w2, r2)
                  | _ => (None, r)
                  end in
              let seg := mk_seg (if modsep then COLONS ++ w else w) al in
              match r with
              | 58 :: 58 :: r3 => psegs f false c (seg :: acc) r3
              | _ => Some (Node (rev (seg :: acc)) None None None c, r)
              end
          end
      end
  end
with plist (fuel : nat) (acc : list tree) (s : text) {struct fuel}
  : option (list tree * text) :=
  match fuel with
  | O => None
  | S f =>
      match skip_sp s with
      | 125 :: r => Some (rev acc, r)
      | 44 :: r => plist f acc r
      | [] => None
      | s' => match ptree f s' with
              | Some (t, r) => plist f (t :: acc) r
              | None => None
              end
      end
  end.

Definition parse (s : text) : option tree :=
  match ptree (3 * length s + 3) s with
  | Some (t, r) => match skip_sp r with [] => Some t | _ => None end
  | None => None
  end.

Definition item : Type := option N * option N * bool * text.
Definition parse_item (i : item) : option tree :=
  let '(v, a, c, s) := i in
  match parse s with
  | Some (Node p k _ _ _) => Some (Node p k v a c)
  | None => None
  end.
Fixpoint parse_items (l : list item) : option (list tree) :=
  match l with
  | [] => Some []
  | i :: r => match parse_item i, parse_items r with
              | Some t, Some ts => Some (t :: ts)
              | _, _ => None
              end
  end.
Definition enc_tree (t : tree) : item := (vis t, attrs t, cmt t, show t).

Definition gran_of (g : N) : granularity :=
  match g with 0 => Preserve | 1 => Item | 2 => Module | 3 => GCrate | _ => One end.

Definition run_pipeline (g : N) (grp reorder : bool) (items : list item)
  : option (list (list item)) :=
  match parse_items items with
  | Some ts => Some (map (map enc_tree) (pipeline cmp15 (gran_of g) grp reorder ts))
  | None => None
  end.
Definition run_granularity (g : N) (items : list item) : option (list item) :=
  match parse_items items with
  | Some ts => Some (map enc_tree (with_granularity cmp15 (gran_of g) (map (normalize cmp15) ts)))
  | None => None
  end.
(* normalize_use_trees_with_granularity alone, as the unit tests of imports.rs call it *)
Definition run_merge (g : N) (items : list item) : option (list item) :=
  match parse_items items with
  | Some ts => Some (map enc_tree (with_granularity cmp15 (gran_of g) ts))
  | None => None
  end.
Definition run_normalize (i : item) : option item :=
  match parse_item i with Some t => Some (enc_tree (normalize cmp15 t)) | None => None end.
Definition run_flatten (g : N) (i : item) : option (list item) :=
  match parse_item i with
  | Some t => Some (map enc_tree (flatten (g =? 1) t))
  | None => None
  end.
Definition run_nest (i : item) : option item :=
  match parse_item i with Some t => Some (enc_tree (nest_trailing_self t)) | None => None end.

Definition enc_leaf (l : leaf) : N * option N * text :=
  let '(v, a, p) := l in (v, a, join COLONS (map show_sseg p)).
Definition run_leaves (items : list item) : option (list (N * option N * text)) :=
  match parse_items items with
  | Some ts => Some (map enc_leaf (Leaves ts))
  | None => None
  end.
Definition run_leaves_after (g : N) (grp reorder : bool) (items : list item)
  : option (list (N * option N * text)) :=
  match parse_items items with
  | Some ts => Some (map enc_leaf (Leaves (concat (pipeline cmp15 (gran_of g) grp reorder ts))))
  | None => None
  end.

(* side conditions of the theorems, for the correspondence run:
   run_shape items   = forallb ast_shape      (must be true of every from_ast result)
   run_bad g items   = BadClass cmp15 g       (false => pipeline_leaves applies)
   run_classes items = (NestedEmptyList, DupAcrossVisibility, DupAcrossAttrs,
                        DupModuloRootAlias, AliasedPrefixOne, DupModuloAliasNested,
                        alias_clash Module, alias_clash Crate, alias_clash One)
                       on the normalized trees *)
Definition run_shape (items : list item) : option bool :=
  match parse_items items with Some ts => Some (forallb ast_shape ts) | None => None end.
Definition run_bad (g : N) (items : list item) : option bool :=
  match parse_items items with Some ts => Some (BadClass cmp15 (gran_of g) ts) | None => None end.
Definition run_classes (items : list item) :=
  match parse_items items with
  | Some ts =>
      let ns := map (normalize cmp15) ts in
      Some (NestedEmptyList ns, DupAcrossVisibility ns, DupAcrossAttrs ns,
            DupModuloRootAlias ns, AliasedPrefixOne ns, DupModuloAliasNested ns,
            alias_clash cmp15 SPModule ns, alias_clash cmp15 SPCrate ns, alias_clash cmp15 SPOne ns)
  | None => None
  end.
