(* C10/Examples.v -- (1) the unit tests at the bottom of src/imports.rs re-run on the model
   (test_use_tree_merge_crate / _module / _one, test_flatten_use_trees, test_use_tree_flatten,
   test_use_tree_normalize, test_use_tree_nest_trailing_self): same inputs, same expected
   outputs, through the parser/printer of Run.v (which mirror the test parser parse_use_tree
   and Display); (2) the behaviours observed on the rustfmt binary for the refuted classes;
   (3) non-vacuity of the hypotheses of the theorems of Props.v. *)
From Coq Require Import String Ascii.
From V Require Import Base.Text C10.Model C10.Lemmas C10.Run.
Open Scope string_scope.
Open Scope list_scope.

Fixpoint txt (s : string) : text :=
  match s with EmptyString => [] | String c r => N_of_ascii c :: txt r end.
Fixpoint str (t : text) : string :=
  match t with [] => EmptyString | c :: r => String (ascii_of_N c) (str r) end.
(* parse_use_tree: no visibility, no attributes, no comment *)
Definition it (s : string) : item := (None, None, false, txt s).
Definition outs (o : option (list item)) : option (list string) :=
  match o with Some l => Some (map (fun i => str (snd i)) l) | None => None end.
Definition out1 (o : option item) : option string :=
  match o with Some i => Some (str (snd i)) | None => None end.
(* test_merge!(by, inputs, outputs): normalize_use_trees_with_granularity on parsed trees *)
Definition test_merge (g : N) (l : list string) := outs (run_merge g (map it l)).
Definition CRATE := 3%N. Definition MODULE := 2%N. Definition ONE := 4%N. Definition ITEM := 1%N.

(* ---- test_use_tree_merge_crate (imports.rs:1337) ---- *)
Example merge_crate_1 : test_merge CRATE ["a::b::{c, d}"; "a::b::{e, f}"] = Some ["a::b::{c, d, e, f}"].
Proof. vm_compute. reflexivity. Qed.
Example merge_crate_2 : test_merge CRATE ["a::b::c"; "a::b"] = Some ["a::{b, b::c}"].
Proof. vm_compute. reflexivity. Qed.
Example merge_crate_3 : test_merge CRATE ["a::b"; "a::b"] = Some ["a::b"].
Proof. vm_compute. reflexivity. Qed.
Example merge_crate_4 : test_merge CRATE ["a"; "a::b"; "a::b::c"] = Some ["a::{self, b, b::c}"].
Proof. vm_compute. reflexivity. Qed.
Example merge_crate_5 :
  test_merge CRATE ["a"; "a::b"; "a::b::c"; "a::b::c::d"] = Some ["a::{self, b, b::{c, c::d}}"].
Proof. vm_compute. reflexivity. Qed.
Example merge_crate_6 : test_merge CRATE ["a"; "a::b"; "a::b::c"; "a::b"] = Some ["a::{self, b, b::c}"].
Proof. vm_compute. reflexivity. Qed.
Example merge_crate_7 :
  test_merge CRATE ["a::{b::{self, c}, d::e}"; "a::d::f"] = Some ["a::{b::{self, c}, d::{e, f}}"].
Proof. vm_compute. reflexivity. Qed.
Example merge_crate_8 :
  test_merge CRATE ["a::d::f"; "a::{b::{self, c}, d::e}"] = Some ["a::{b::{self, c}, d::{e, f}}"].
Proof. vm_compute. reflexivity. Qed.
Example merge_crate_9 :
  test_merge CRATE ["a::{c, d, b}"; "a::{d, e, b, a, f}"; "a::{f, g, c}"] = Some ["a::{a, b, c, d, e, f, g}"].
Proof. vm_compute. reflexivity. Qed.
Example merge_crate_10 :
  test_merge CRATE ["a::{self}"; "b::{self as foo}"] = Some ["a::{self}"; "b::{self as foo}"].
Proof. vm_compute. reflexivity. Qed.

(* ---- test_use_tree_merge_module (imports.rs:1379) ---- *)
Example merge_module_1 :
  test_merge MODULE ["foo::b"; "foo::{a, c, d::e}"] = Some ["foo::{a, b, c}"; "foo::d::e"].
Proof. vm_compute. reflexivity. Qed.
Example merge_module_2 :
  test_merge MODULE ["foo::{a::b, a::c, d::e, d::f}"] = Some ["foo::a::{b, c}"; "foo::d::{e, f}"].
Proof. vm_compute. reflexivity. Qed.

(* ---- test_use_tree_merge_one (imports.rs:1394) ---- *)
Example merge_one_1 : test_merge ONE ["a"; "b"] = Some ["{a, b}"].
Proof. vm_compute. reflexivity. Qed.
Example merge_one_2 : test_merge ONE ["a::{aa, ab}"; "b"; "a"] = Some ["{a::{self, aa, ab}, b}"].
Proof. vm_compute. reflexivity. Qed.
Example merge_one_3 : test_merge ONE ["a as x"; "b as y"] = Some ["{a as x, b as y}"].
Proof. vm_compute. reflexivity. Qed.
Example merge_one_4 :
  test_merge ONE ["a::{aa as xa, ab}"; "b"; "a"] = Some ["{a::{self, aa as xa, ab}, b}"].
Proof. vm_compute. reflexivity. Qed.
Example merge_one_5 :
  test_merge ONE ["a"; "a::{aa, ab::{aba, abb}}"] = Some ["a::{self, aa, ab::{aba, abb}}"].
Proof. vm_compute. reflexivity. Qed.
Example merge_one_6 : test_merge ONE ["a"; "b::{ba, *}"] = Some ["{a, b::{ba, *}}"].
Proof. vm_compute. reflexivity. Qed.
Example merge_one_7 : test_merge ONE ["a"; "b"; "a::aa"] = Some ["{a::{self, aa}, b}"].
Proof. vm_compute. reflexivity. Qed.
Example merge_one_8 :
  test_merge ONE ["a::aa::aaa"; "a::ac::aca"; "a::aa::*"] = Some ["a::{aa::{aaa, *}, ac::aca}"].
Proof. vm_compute. reflexivity. Qed.
Example merge_one_9 :
  test_merge ONE ["a"; "b::{ba, bb}"; "a::{aa::*, ab::aba}"]
  = Some ["{a::{self, aa::*, ab::aba}, b::{ba, bb}}"].
Proof. vm_compute. reflexivity. Qed.
Example merge_one_10 :
  test_merge ONE ["b"; "a::ac::{aca, acb}"; "a::{aa::*, ab}"]
  = Some ["{a::{aa::*, ab, ac::{aca, acb}}, b}"].
Proof. vm_compute. reflexivity. Qed.

(* ---- test_flatten_use_trees (imports.rs:1437) ---- *)
Example flatten_use_trees_1 :
  test_merge ITEM ["foo::{a::{b, c}, d::e}"] = Some ["foo::a::b"; "foo::a::c"; "foo::d::e"].
Proof. vm_compute. reflexivity. Qed.
Example flatten_use_trees_2 :
  test_merge ITEM ["foo::{self, a, b::{c, d}, e::*}"]
  = Some ["foo::{self}"; "foo::a"; "foo::b::c"; "foo::b::d"; "foo::e::*"].
Proof. vm_compute. reflexivity. Qed.

(* ---- test_use_tree_flatten (imports.rs:1462) ---- *)
Example flatten_1 :
  outs (run_flatten ITEM (it "a::b::{c, d, e, f}")) = Some ["a::b::c"; "a::b::d"; "a::b::e"; "a::b::f"].
Proof. vm_compute. reflexivity. Qed.
Example flatten_2 :
  outs (run_flatten ITEM (it "a::b::{c::{d, e, f}, g, h::{i, j, k}}"))
  = Some ["a::b::c::d"; "a::b::c::e"; "a::b::c::f"; "a::b::g"; "a::b::h::i"; "a::b::h::j"; "a::b::h::k"].
Proof. vm_compute. reflexivity. Qed.

(* ---- test_use_tree_normalize (imports.rs:1484) ---- *)
Example normalize_1 : out1 (run_normalize (it "a::self")) = Some "a".
Proof. vm_compute. reflexivity. Qed.
Example normalize_2 : out1 (run_normalize (it "a::self as foo")) = Some "a as foo".
Proof. vm_compute. reflexivity. Qed.
Example normalize_3 : out1 (run_normalize (it "a::{self}")) = Some "a::{self}".
Proof. vm_compute. reflexivity. Qed.
Example normalize_4 : out1 (run_normalize (it "a::{b}")) = Some "a::b".
Proof. vm_compute. reflexivity. Qed.
Example normalize_5 : out1 (run_normalize (it "a::{b, c::self}")) = Some "a::{b, c}".
Proof. vm_compute. reflexivity. Qed.
Example normalize_6 : out1 (run_normalize (it "a::{b as bar, c::self}")) = Some "a::{b as bar, c}".
Proof. vm_compute. reflexivity. Qed.

(* ---- test_use_tree_nest_trailing_self (imports.rs:1550) ---- *)
Example nest_1 : out1 (run_nest (it "a::b::self")) = Some "a::b::{self}".
Proof. vm_compute. reflexivity. Qed.
Example nest_2 : out1 (run_nest (it "a::b::c")) = Some "a::b::c".
Proof. vm_compute. reflexivity. Qed.
Example nest_3 : out1 (run_nest (it "a::b::{c, d}")) = Some "a::b::{c, d}".
Proof. vm_compute. reflexivity. Qed.
Example nest_4 : out1 (run_nest (it "a::b::{self, c}")) = Some "a::b::{self, c}".
Proof. vm_compute. reflexivity. Qed.

(* ---- test_use_tree_ord (imports.rs:1506), a sample: the comparator of Run.v ---- *)
Definition lt (a b : string) : bool :=
  match run_normalize (it a), run_normalize (it b) with
  | Some x, Some y =>
      match parse_item x, parse_item y with
      | Some t1, Some t2 => match cmp15 t1 t2 with Lt => true | _ => false end
      | _, _ => false
      end
  | _, _ => false
  end.
Example ord_sample :
  map (fun p => lt (fst p) (snd p))
      [("a", "aa"); ("a", "a::a"); ("a", "*"); ("a", "{a, b}"); ("*", "{a, b}");
       ("aaaaaaaaaaaaaaa::{bb, cc, dddddddd}", "aaaaaaaaaaaaaaa::{bb, cc, ddddddddd}");
       ("serde::de::{Deserialize}", "serde_json"); ("a::b::c", "a::b::*");
       ("foo::{Bar, Baz}", "{Bar, Baz}"); ("foo::{qux as bar}", "foo::{self as bar}");
       ("foo::{qux as bar}", "foo::{baz, qux as bar}");
       ("foo::{self as bar, baz}", "foo::{baz, qux as bar}"); ("foo", "Foo"); ("foo", "foo::Bar");
       ("std::cmp::{d, c, b, a}", "std::cmp::{b, e, g, f}")]
  = repeat true 15.
Proof. vm_compute. reflexivity. Qed.

(* ------------------------------------------------------------------ *)
(* behaviours observed on the rustfmt binary (imports_granularity via --config), reproduced by
   the whole pipeline: normalize, regroup, one group, sorted *)
Definition use_ (s : string) : item := (Some 0%N, None, false, txt s).
Definition pub_use (s : string) : item := (Some 1%N, None, false, txt s).
Definition attr_use (s : string) : item := (Some 0%N, Some 7%N, false, txt s).
Definition show_items (l : list item) : list (option N * option N * string) :=
  map (fun i => (fst (fst (fst i)), snd (fst (fst i)), str (snd i))) l.
Definition fmt (g : N) (l : list item) :=
  match run_pipeline g false true l with
  | Some gs => Some (show_items (concat gs))
  | None => None
  end.

(* pub use a; use a;  ->  pub use a;        (Item) *)
Example observed_dup_across_visibility :
  fmt ITEM [pub_use "a"; use_ "a"] = Some [(Some 1%N, None, "a")].
Proof. vm_compute. reflexivity. Qed.
(* #[cfg(x)] use a; use a;  ->  #[cfg(x)] use a;   (Item) *)
Example observed_dup_across_attrs :
  fmt ITEM [attr_use "a"; use_ "a"] = Some [(Some 0%N, Some 7%N, "a")].
Proof. vm_compute. reflexivity. Qed.
(* use a::{b::{}, c};  ->  use a; use a::c;  (Item, Module)   use a::{self, c};  (Crate, One) *)
Example observed_nested_empty_list :
  map (fun g => fmt g [use_ "a::{b::{}, c}"]) [ITEM; MODULE; CRATE; ONE]
  = [Some [(Some 0%N, None, "a"); (Some 0%N, None, "a::c")];
     Some [(Some 0%N, None, "a"); (Some 0%N, None, "a::c")];
     Some [(Some 0%N, None, "a::{self, c}")];
     Some [(Some 0%N, None, "a::{self, c}")]].
Proof. vm_compute. reflexivity. Qed.
(* use a as _; use a;  ->  use a as _;   (Module, One);  both kept under Item and Crate *)
Example observed_dup_modulo_root_alias :
  map (fun g => fmt g [use_ "a as _"; use_ "a"]) [ITEM; MODULE; CRATE; ONE]
  = [Some [(Some 0%N, None, "a as _"); (Some 0%N, None, "a")];
     Some [(Some 0%N, None, "a as _")];
     Some [(Some 0%N, None, "a as _"); (Some 0%N, None, "a")];
     Some [(Some 0%N, None, "a as _")]].
Proof. vm_compute. reflexivity. Qed.
(* use a::BAR; use a as q;  ->  use a as q::{self as q, BAR};   (One) *)
Example observed_aliased_prefix_one :
  fmt ONE [use_ "a::BAR"; use_ "a as q"] = Some [(Some 0%N, None, "a as q::{self as q, BAR}")].
Proof. vm_compute. reflexivity. Qed.
(* use a::{c, x}; use a::c as z;  ->  use a::{c, x};   (One) *)
Example observed_dup_modulo_alias_nested :
  fmt ONE [use_ "a::{c, x}"; use_ "a::c as z"] = Some [(Some 0%N, None, "a::{c, x}")].
Proof. vm_compute. reflexivity. Qed.
(* use a; use b; use c as d;  ->  use {a, b, c as d};   (Module: single segments share the empty module) *)
Example observed_module_single_segments :
  fmt MODULE [use_ "a"; use_ "b"; use_ "c as d"] = Some [(Some 0%N, None, "{a, b, c as d}")].
Proof. vm_compute. reflexivity. Qed.

(* the witnesses of Lemmas.v are these inputs *)
Example witnesses_readable :
  parse_items [pub_use "a"; use_ "a"] = Some w_vis /\
  parse_items [attr_use "a"; use_ "a"] = Some w_attrs /\
  parse_items [use_ "a::{b::{}, c}"] = Some w_empty /\
  parse_items [use_ "a as _"; use_ "a"] = Some w_root /\
  parse_items [use_ "a::BAR"; use_ "a as q"] = Some w_prefix /\
  parse_items [use_ "a::{c, x}"; use_ "a::c as z"] = Some w_nested.
Proof. vm_compute. repeat split. Qed.

(* ------------------------------------------------------------------ *)
(* non-vacuity: a run with nested lists to depth 4, globs, self/super/crate, aliases, underscore
   imports, a raw identifier, a leading ::, three visibilities, attributes, a comment and
   duplicates satisfies the hypotheses of pipeline_leaves for every granularity, and its
   imports are non-trivial *)
Definition cmt_use (s : string) : item := (Some 0%N, None, true, txt s).
Definition big : list item :=
  [use_ "std::{fmt::{self, Display, Write as _}, io::{self as sio, prelude::*, Read}}";
   use_ "a::{b::{c::{d::{e, f}, g}, h}, i}";
   pub_use "crate::x::{self, y as z}";
   use_ "super::*";
   use_ "self::m::n";
   use_ "::ext::r#try";
   use_ "std::fmt::Display";
   attr_use "std::os::unix";
   cmt_use "core::mem";
   (Some 2%N, None, false, txt "a::j");
   use_ "a::{k::{}}";
   use_ "a::b::h"].
Example big_hypotheses :
  run_shape big = Some true /\
  map (fun g => run_bad g big) [0; 1; 2; 3; 4]%N = repeat (Some false) 5.
Proof. vm_compute. repeat split. Qed.
Example big_leaves_count :
  match run_leaves big with Some l => List.length l | None => 0%nat end = 21%nat.
Proof. vm_compute. reflexivity. Qed.
(* and the conclusion, checked by computation too *)
Example big_preserved :
  match parse_items big with
  | Some ts => map (fun g => sameset_b (Leaves (concat (pipeline cmp15 (gran_of g) true true ts)))
                                        (Leaves ts)) [0; 1; 2; 3; 4]%N
  | None => []
  end = repeat true 5.
Proof. vm_compute. reflexivity. Qed.
(* the output under Crate; it is the output of the rustfmt binary on the corresponding source
   (the emptied  use a::{k::{}};  prints nothing) *)
Example big_crate :
  fmt CRATE big =
  Some [(Some 0%N, None, "");
        (Some 0%N, None, "self::m::n");
        (Some 0%N, None, "super::*");
        (Some 1%N, None, "crate::x::{self, y as z}");
        (Some 0%N, None, "::ext::r#try");
        (Some 2%N, None, "a::j");
        (Some 0%N, None, "a::{b::{c::{d::{e, f}, g}, h}, i}");
        (Some 0%N, None, "core::mem");
        (Some 0%N, Some 7%N, "std::os::unix");
        (Some 0%N, None, "std::{fmt::{self, Display, Write as _}, io::{self as sio, prelude::*, Read}}")].
Proof. vm_compute. reflexivity. Qed.

(* merge_den / merge_leaves: operands meeting good, no clash, same class *)
Example merge_hypotheses :
  match parse_item (use_ "a::{b, c::d}"), parse_item (use_ "a::c::e") with
  | Some r, Some f =>
      good r && good f && negb (merge_clash SPCrate r f) &&
      (str (Run.show (merge cmp15 SPCrate r f)) =? "a::{b, c::{d, e}}")%string
  | _, _ => false
  end = true.
Proof. vm_compute. reflexivity. Qed.

(* runs_no_crossing: use, use, fn, use (after a blank line), use *)
Example runs_example :
  match parse_items [use_ "b"; use_ "a"; use_ "d"; use_ "c"] with
  | Some [b; a; d; c] =>
      map (fun s => match s with inl run => inl (map (fun t => str (Run.show t)) run) | inr n => inr n end)
          (seg true None [IUse false b; IUse false a; IOther 5; IUse false d; IUse true c])
  | _ => []
  end = [inl ["b"; "a"]; inr 5%N; inl ["d"]; inl ["c"]].
Proof. vm_compute. reflexivity. Qed.
