(* C11/Props.v — the comparator core of property C11: the comparisons rustfmt
   sorts `mod` / `extern crate` declarations (and, through version_sort, import
   names) with are consistent total preorders, for the string order of style
   editions up to 2021 and the version sort of 2024; what sorting with them
   yields; and when the result is independent of the input order. *)
From Coq Require Import Permutation Sorted.
From V Require Import Base.Text C11.Ord C11.Model C11.Lemmas.

(* ---- order theory (any element type, any comparison) ---- *)

(* the stable insertion sort returns exactly the input's elements *)
Theorem isort_perm : forall (A : Type) (cmp : A -> A -> comparison) (l : list A),
  Permutation l (isort cmp l).
Proof. exact @Ord.isort_perm. Qed.
Print Assumptions isort_perm.

(* its output is sorted: no adjacent pair compares Greater *)
Theorem isort_sorted : forall (A : Type) (cmp : A -> A -> comparison),
  TotalPreorder cmp -> forall l, SortedBy cmp (isort cmp l).
Proof. exact @Ord.isort_sorted. Qed.
Print Assumptions isort_sorted.

(* it is stable: elements that compare Equal keep their relative order *)
Theorem isort_stable : forall (A : Type) (cmp : A -> A -> comparison),
  TotalPreorder cmp ->
  forall l x, filter (fun y => is_eq (cmp x y)) (isort cmp l) = filter (fun y => is_eq (cmp x y)) l.
Proof. exact @Ord.isort_stable. Qed.
Print Assumptions isort_stable.

(* a sorted input is left as it is *)
Theorem sorted_isort_id : forall (A : Type) (cmp : A -> A -> comparison) (l : list A),
  SortedBy cmp l -> isort cmp l = l.
Proof. exact @Ord.sorted_isort_id. Qed.
Print Assumptions sorted_isort_id.

(* order-insensitivity: when no two distinct elements compare Equal, every permutation sorts to the same list *)
Theorem sort_unique : forall (A : Type) (cmp : A -> A -> comparison),
  TotalPreorder cmp -> forall l1 l2,
  Permutation l1 l2 ->
  (forall x y, In x l1 -> In y l1 -> cmp x y = Eq -> x = y) ->
  isort cmp l1 = isort cmp l2.
Proof. exact @Ord.sort_unique. Qed.
Print Assumptions sort_unique.

(* algorithm-independence: the output of any stable sort (slice::sort_by) is isort's *)
Theorem any_stable_sort_agrees : forall (A : Type) (cmp : A -> A -> comparison),
  TotalPreorder cmp -> forall l out,
  Permutation l out -> SortedBy cmp out -> StableWrt cmp l out -> out = isort cmp l.
Proof. exact @Ord.any_stable_sort_agrees. Qed.
Print Assumptions any_stable_sort_agrees.

(* ---- the chunk iterator ---- *)

(* VersionChunkIter terminates: the chunk list does not depend on the fuel once it covers the identifier *)
Theorem chunks_total : forall n t, (length t <= n)%nat -> chunks_fuel n t = chunks t.
Proof. exact chunks_fuel_enough. Qed.
Print Assumptions chunks_total.

(* chunks is the iteration of next until its first None *)
Theorem chunks_unfold : forall t,
  chunks t = match vc_next t with None => [] | Some (ch, rest) => ch :: chunks rest end.
Proof. exact chunks_step. Qed.
Print Assumptions chunks_unfold.

(* ---- the comparisons are consistent total preorders ---- *)

(* str::cmp, the ordering of style editions up to 2021 *)
Theorem str_total_preorder : TotalPreorder cmp_text.
Proof. exact cmp_text_tp. Qed.
Print Assumptions str_total_preorder.

(* version_sort, the ordering of style edition 2024: all four laws, for all identifiers *)
Theorem vs_total_preorder : TotalPreorder version_sort.
Proof. exact Lemmas.vs_total_preorder. Qed.
Print Assumptions vs_total_preorder.

(* compare_items (through its total extension items_cmp), every style edition *)
Theorem items_total_preorder : forall e, TotalPreorder (items_cmp e).
Proof. exact Lemmas.items_total_preorder. Qed.
Print Assumptions items_total_preorder.

(* compare_items does not hit unreachable!() exactly on two mod or two extern crate items, and is items_cmp there *)
Theorem compare_items_defined : forall e a b,
  reorderable_pair a b = true <-> compare_items e a b = Some (items_cmp e a b).
Proof. exact Lemmas.compare_items_defined. Qed.
Print Assumptions compare_items_defined.

(* the four laws stated on compare_items itself, over the items of one reorderable kind *)
Theorem compare_items_laws : forall e k,
  k <> IOther ->
  (forall a, it_kind a = k -> compare_items e a a = Some Eq)
  /\ (forall a b ca, it_kind a = k -> it_kind b = k ->
        compare_items e a b = Some ca -> compare_items e b a = Some (CompOpp ca))
  /\ (forall a b c, it_kind a = k -> it_kind b = k -> it_kind c = k ->
        compare_items e a b = Some Lt -> compare_items e b c = Some Lt ->
        compare_items e a c = Some Lt)
  /\ (forall a b c, it_kind a = k -> it_kind b = k -> it_kind c = k ->
        compare_items e a b = Some Eq -> compare_items e a c = compare_items e b c).
Proof. exact Lemmas.compare_items_laws. Qed.
Print Assumptions compare_items_laws.

(* ---- which elements are ranked Equal ---- *)

(* version_sort ranks two identifiers Equal exactly when the iterator yields the same chunks for both *)
Theorem vs_eq_iff : forall a b, version_sort a b = Eq <-> chunks a = chunks b.
Proof. exact Lemmas.vs_eq_iff. Qed.
Print Assumptions vs_eq_iff.

(* REFUTED: Equal does not mean identical; a numeric chunk of 2^64 or more ends the iteration, the rest is ignored *)
Theorem vs_eq_identity_refuted : exists a b, a <> b /\ version_sort a b = Eq.
Proof. exact Lemmas.vs_eq_identity_refuted. Qed.
Print Assumptions vs_eq_identity_refuted.

(* partial: Equal means identical when every digit run is below 2^64 (missing: identifiers with larger numbers) *)
Theorem vs_eq_identity_partial : forall a b,
  digit_runs_fit a = true -> digit_runs_fit b = true -> version_sort a b = Eq -> a = b.
Proof. exact vs_eq_identity_fit. Qed.
Print Assumptions vs_eq_identity_partial.

(* digit_runs_fit is exactly what makes the iterator read the whole identifier *)
Theorem digit_runs_fit_cover : forall t, digit_runs_fit t = true -> chunks_cover t = true.
Proof. exact Lemmas.digit_runs_fit_cover. Qed.
Print Assumptions digit_runs_fit_cover.

(* partial: items ranked Equal are identical under editions up to 2021, or when their names fit (missing: 2024 with larger numbers) *)
Theorem items_eq_identity_partial : forall e a b,
  (se_le_2021 e = true \/ (item_names_fit a = true /\ item_names_fit b = true)) ->
  item_wf a = true -> item_wf b = true -> items_cmp e a b = Eq -> a = b.
Proof. exact items_eq_identity. Qed.
Print Assumptions items_eq_identity_partial.

(* ---- sorting names with version_sort ---- *)

(* names.sort_by(version_sort) is a permutation, sorted and stable *)
Theorem sort_names_is_sort_by : forall l,
  Permutation l (sort_names l) /\ SortedBy version_sort (sort_names l)
  /\ StableWrt version_sort l (sort_names l).
Proof. exact Lemmas.sort_names_is_sort_by. Qed.
Print Assumptions sort_names_is_sort_by.

(* the result does not depend on the (stable) sort algorithm *)
Theorem sort_names_any_stable_sort : forall l out,
  Permutation l out -> SortedBy version_sort out -> StableWrt version_sort l out ->
  out = sort_names l.
Proof. exact Lemmas.sort_names_any_stable_sort. Qed.
Print Assumptions sort_names_any_stable_sort.

(* every permutation of pairwise non-Equal names sorts to the same list *)
Theorem version_sort_order_insensitive : forall l1 l2,
  Permutation l1 l2 ->
  (forall x y, In x l1 -> In y l1 -> version_sort x y = Eq -> x = y) ->
  sort_names l1 = sort_names l2.
Proof. exact Lemmas.version_sort_order_insensitive. Qed.
Print Assumptions version_sort_order_insensitive.

(* REFUTED: without that hypothesis two permutations of distinct names sort differently *)
Theorem version_sort_order_insensitive_all_refuted :
  exists l1 l2, Permutation l1 l2 /\ NoDup l1 /\ sort_names l1 <> sort_names l2.
Proof. exact vs_order_insensitive_refuted. Qed.
Print Assumptions version_sort_order_insensitive_all_refuted.

(* partial: every permutation sorts to the same list when every digit run is below 2^64 *)
Theorem version_sort_order_insensitive_partial : forall l1 l2,
  Permutation l1 l2 -> forallb digit_runs_fit l1 = true -> sort_names l1 = sort_names l2.
Proof. exact version_sort_order_insensitive_fit. Qed.
Print Assumptions version_sort_order_insensitive_partial.

(* ---- sorting mod / extern crate items with compare_items ---- *)

(* items.sort_by(compare_items) is a permutation, sorted and stable *)
Theorem sort_items_is_sort_by : forall e l,
  Permutation l (sort_items e l) /\ SortedBy (items_cmp e) (sort_items e l)
  /\ StableWrt (items_cmp e) l (sort_items e l).
Proof. exact Lemmas.sort_items_is_sort_by. Qed.
Print Assumptions sort_items_is_sort_by.

(* the result does not depend on the (stable) sort algorithm *)
Theorem sort_items_any_stable_sort : forall e l out,
  Permutation l out -> SortedBy (items_cmp e) out -> StableWrt (items_cmp e) l out ->
  out = sort_items e l.
Proof. exact Lemmas.sort_items_any_stable_sort. Qed.
Print Assumptions sort_items_any_stable_sort.

(* every permutation of pairwise non-Equal items sorts to the same list *)
Theorem items_order_insensitive : forall e l1 l2,
  Permutation l1 l2 ->
  (forall x y, In x l1 -> In y l1 -> items_cmp e x y = Eq -> x = y) ->
  sort_items e l1 = sort_items e l2.
Proof. exact Lemmas.items_order_insensitive. Qed.
Print Assumptions items_order_insensitive.

(* REFUTED under 2024: two orders of the same two extern crate items are both kept *)
Theorem items_order_insensitive_all_refuted :
  exists l1 l2, Permutation l1 l2 /\ NoDup l1 /\ forallb item_wf l1 = true
                /\ sort_items SE2024 l1 <> sort_items SE2024 l2.
Proof. exact items_order_insensitive_refuted. Qed.
Print Assumptions items_order_insensitive_all_refuted.

(* partial: full order-insensitivity up to 2021, and under 2024 when the names fit *)
Theorem items_order_insensitive_partial : forall e l1 l2,
  Permutation l1 l2 -> forallb item_wf l1 = true ->
  (se_le_2021 e = true \/ forallb item_names_fit l1 = true) ->
  sort_items e l1 = sort_items e l2.
Proof. exact items_order_insensitive_wf. Qed.
Print Assumptions items_order_insensitive_partial.
