(* C11/Examples.v — non-vacuity: concrete values for the statements of
   Props.v, the unit tests of src/sort.rs, and the _refuted witnesses. *)
From Coq Require Import String Ascii Permutation Sorted.
From V Require Import Base.Text C11.Ord C11.Model C11.Lemmas C11.Run.
Open Scope string_scope.
Open Scope list_scope.
Open Scope N_scope.

(* ASCII string literal to text *)
Definition t (s : string) : text :=
  map (fun a => N.of_nat (nat_of_ascii a)) (list_ascii_of_string s).

(* ---- the chunk iterator: sort.rs test_chunks ---- *)
Example ex_chunks_x86_128 :
  chunks (t "x86_128") =
  [Str (t "x"); Number 86 0 (t "86"); Underscore; Number 128 0 (t "128")].
Proof. vm_compute. reflexivity. Qed.

Example ex_chunks_w005s09t :
  chunks (t "w005s09t") =
  [Str (t "w"); Number 5 2 (t "005"); Str (t "s"); Number 9 1 (t "09"); Str (t "t")].
Proof. vm_compute. reflexivity. Qed.

Example ex_chunks_underscores :
  chunks (t "_1v") = [Underscore; Number 1 0 (t "1"); Str (t "v")]
  /\ chunks (t "ZY_WX") = [Str (t "ZY"); Underscore; Str (t "WX")]
  /\ chunks (t "__") = [Underscore; Underscore].
Proof. vm_compute. repeat split. Qed.

(* U+0E59 THAI DIGIT NINE is not an ASCII digit: one Str chunk *)
Example ex_chunks_thai : chunks [120; 3673; 118] = [Str [120; 3673; 118]].
Proof. vm_compute. reflexivity. Qed.

(* usize::MAX still parses; usize::MAX + 1 ends the iteration, dropping the tail *)
Example ex_chunks_usize_max :
  chunks (t "a18446744073709551615b") =
  [Str (t "a"); Number 18446744073709551615 0 (t "18446744073709551615"); Str (t "b")].
Proof. vm_compute. reflexivity. Qed.
Example ex_chunks_overflow : chunks (t "a18446744073709551616b") = [Str (t "a")].
Proof. vm_compute. reflexivity. Qed.
(* leading zeros do not overflow *)
Example ex_chunks_long_zeros :
  chunks (t "a000000000000000000000000000001") =
  [Str (t "a"); Number 1 29 (t "000000000000000000000000000001")].
Proof. vm_compute. reflexivity. Qed.

(* ---- version_sort: all three outcomes, the tie-break, both laws' premises ---- *)
Example ex_vs_numeric : version_sort (t "x9") (t "x10") = Lt /\ version_sort (t "x10") (t "x9") = Gt
                        /\ cmp_text (t "x9") (t "x10") = Gt.
Proof. vm_compute. repeat split. Qed.
(* more leading zeros first, decided by the first difference only *)
Example ex_vs_zeros :
  version_sort (t "a001") (t "a01") = Lt /\ version_sort (t "a01") (t "a1") = Lt
  /\ version_sort (t "a001") (t "a1") = Lt
  /\ version_sort (t "w005s09t") (t "w5s009t") = Lt
  /\ version_sort (t "a01b2") (t "a1b1") = Gt.
Proof. vm_compute. repeat split. Qed.
Example ex_vs_underscore_first :
  version_sort (t "aaa_a") (t "aaaaa") = Lt /\ version_sort (t "foo") (t "foo_") = Lt
  /\ version_sort (t "_") (t "__") = Lt /\ version_sort (t "u_zzz") (t "u8") = Lt.
Proof. vm_compute. repeat split. Qed.
(* Str chunks above and below the digits *)
Example ex_vs_str_vs_number :
  version_sort (t "_!") (t "_1") = Lt /\ version_sort (t "_1") (t "_b") = Lt
  /\ version_sort (t "_!") (t "_b") = Lt /\ version_sort (t "a!") (t "a1") = Gt.
Proof. vm_compute. repeat split. Qed.
(* a transitivity instance with Lt premises, an Eq-congruence instance with an Eq premise *)
Example ex_vs_trans_premises :
  version_sort (t "v0") (t "v0s") = Lt /\ version_sort (t "v0s") (t "v00t") = Lt
  /\ version_sort (t "v0") (t "v00t") = Lt.
Proof. vm_compute. repeat split. Qed.
Example ex_vs_eq_cong_premise :
  version_sort ovf_a ovf_b = Eq /\ ovf_a <> ovf_b
  /\ version_sort ovf_a (t "a2") = Lt /\ version_sort ovf_b (t "a2") = Lt.
Proof.
  split; [vm_compute; reflexivity|]. split; [exact ovf_distinct|].
  vm_compute. split; reflexivity.
Qed.

(* ---- sort.rs test_version_sort ---- *)
Example ex_sort_edge : sort_names [t ""; t "b"; t "a"] = [t ""; t "a"; t "b"].
Proof. vm_compute. reflexivity. Qed.
Example ex_sort_numbers :
  sort_names (map t ["5"; "50"; "500"; "5_000"; "5_005"; "5_050"; "5_500"; "50_000"; "50_005";
                     "50_050"; "50_500"]%string)
  = map t ["5"; "5_000"; "5_005"; "5_050"; "5_500"; "50"; "50_000"; "50_005"; "50_050";
           "50_500"; "500"]%string.
Proof. vm_compute. reflexivity. Qed.
Example ex_sort_x86 :
  sort_names (map t ["X86_64"; "x86_64"; "X86_128"; "x86_128"]%string)
  = map t ["X86_64"; "X86_128"; "x86_64"; "x86_128"]%string.
Proof. vm_compute. reflexivity. Qed.
Example ex_sort_big :
  sort_names (map t
    ["x86_128"; "usize"; "uz"; "v000"; "v00"; "v0"; "v0s"; "v00t"; "v0u"; "v001"; "v01";
     "v1"; "v009"; "x87"; "zyxw"; "_ZYXW"; "_abcd"; "A2"; "ABCD"; "Z_YXW"; "ZY_XW"; "ZY_XW";
     "ZYXW"; "v09"; "v9"; "v010"; "v10"; "w005s09t"; "w5s009t"; "x64"; "x86"; "x86_32";
     "ua"; "x86_64"; "ZYXW_"; "a1"; "abcd"; "u_zzz"; "u8"; "u16"; "u32"; "u64"; "u128";
     "u256"]%string)
  = map t
    ["_ZYXW"; "_abcd"; "A2"; "ABCD"; "Z_YXW"; "ZY_XW"; "ZY_XW"; "ZYXW"; "ZYXW_"; "a1";
     "abcd"; "u_zzz"; "u8"; "u16"; "u32"; "u64"; "u128"; "u256"; "ua"; "usize"; "uz";
     "v000"; "v00"; "v0"; "v0s"; "v00t"; "v0u"; "v001"; "v01"; "v1"; "v009"; "v09"; "v9";
     "v010"; "v10"; "w005s09t"; "w5s009t"; "x64"; "x86"; "x86_32"; "x86_64"; "x86_128";
     "x87"; "zyxw"]%string.
Proof. vm_compute. reflexivity. Qed.

(* ---- order-insensitivity: the hypotheses are satisfiable, the conclusion is not trivial ---- *)
Definition names1 : list text := map t ["x10"; "a01"; "x9"; "a1"; "_b"; "a001"]%string.
Definition names2 : list text := map t ["a1"; "a001"; "_b"; "x9"; "x10"; "a01"]%string.

Example ex_names_fit : forallb digit_runs_fit names1 = true.
Proof. vm_compute. reflexivity. Qed.
Example ex_names_perm : Permutation names1 names2.
Proof.
  (* both are permutations of their common string-order sort *)
  eapply perm_trans; [apply (Ord.isort_perm cmp_text)|].
  apply Permutation_sym.
  eapply perm_trans; [apply (Ord.isort_perm cmp_text)|].
  assert (E : isort cmp_text names2 = isort cmp_text names1) by (vm_compute; reflexivity).
  rewrite E. apply Permutation_refl.
Qed.
Example ex_names_sorted_same :
  sort_names names1 = map t ["_b"; "a001"; "a01"; "a1"; "x9"; "x10"]%string
  /\ sort_names names2 = sort_names names1 /\ names1 <> sort_names names1.
Proof.
  split; [vm_compute; reflexivity|]. split; [vm_compute; reflexivity|].
  intros H. apply (f_equal (hd [])) in H. vm_compute in H. discriminate H.
Qed.
(* the instance of the partial theorem *)
Example ex_names_order_insensitive : sort_names names1 = sort_names names2.
Proof. exact (version_sort_order_insensitive_fit names1 names2 ex_names_perm ex_names_fit). Qed.

(* the refutation witnesses fail exactly the decidable hypothesis *)
Example ex_ovf_not_fit :
  digit_runs_fit ovf_a = false /\ chunks_cover ovf_a = false
  /\ chunks ovf_a = [Str (t "a")] /\ chunks ovf_b = [Str (t "a")].
Proof. vm_compute. repeat split. Qed.
(* even the bare prefix is ranked Equal to them *)
Example ex_ovf_prefix : version_sort (t "a") ovf_a = Eq /\ version_sort (t "") (t "18446744073709551616") = Eq.
Proof. vm_compute. split; reflexivity. Qed.
Example ex_ovf_both_orders_kept :
  sort_names [ovf_a; ovf_b] = [ovf_a; ovf_b] /\ sort_names [ovf_b; ovf_a] = [ovf_b; ovf_a].
Proof. vm_compute. split; reflexivity. Qed.

(* stability is visible: Equal names keep their input order among other names *)
Example ex_stable :
  sort_names [t "b"; ovf_b; t "A"; ovf_a] = [t "A"; ovf_b; ovf_a; t "b"].
Proof. vm_compute. reflexivity. Qed.

(* hypotheses of any_stable_sort_agrees hold of a concrete non-trivial output *)
Example ex_any_stable_sort_hyps :
  let l := [t "b"; ovf_b; t "A"; ovf_a] in
  let out := [t "A"; ovf_b; ovf_a; t "b"] in
  Permutation l out /\ SortedBy version_sort out /\ StableWrt version_sort l out.
Proof.
  cbv zeta. rewrite <- ex_stable. apply sort_names_is_sort_by.
Qed.

(* ---- compare_items ---- *)
Definition md (n : string) : item := MkItem IMod (t n) None.
Definition ec (n : string) : item := MkItem IExternCrate (t n) None.
(* extern crate orig as alias; *)
Definition eca (orig alias : string) : item := MkItem IExternCrate (t alias) (Some (t orig)).

Example ex_items_mod :
  compare_items SE2021 (md "x9") (md "x10") = Some Gt
  /\ compare_items SE2024 (md "x9") (md "x10") = Some Lt
  /\ compare_items SE2015 (md "a") (md "a") = Some Eq.
Proof. vm_compute. repeat split. Qed.
Example ex_items_extern :
  compare_items SE2024 (ec "foo") (eca "foo" "bar") = Some Lt
  /\ compare_items SE2024 (eca "foo" "bar") (ec "foo") = Some Gt
  /\ compare_items SE2024 (eca "foo" "b9") (eca "foo" "b10") = Some Lt
  /\ compare_items SE2021 (eca "foo" "b9") (eca "foo" "b10") = Some Gt
  /\ compare_items SE2024 (eca "zzz" "a") (ec "b") = Some Gt
  /\ compare_items SE2024 (ec "foo") (ec "foo") = Some Eq.
Proof. vm_compute. repeat split. Qed.
Example ex_items_unreachable :
  compare_items SE2024 (md "a") (ec "a") = None
  /\ compare_items SE2024 (MkItem IOther [] None) (MkItem IOther [] None) = None
  /\ reorderable_pair (md "a") (ec "a") = false.
Proof. vm_compute. repeat split. Qed.

Definition items1 : list item := [ec "x10"; eca "x9" "q"; ec "x9"; eca "a" "z2"; eca "a" "z10"].
Definition items2 : list item := [eca "a" "z10"; ec "x9"; ec "x10"; eca "a" "z2"; eca "x9" "q"].
Example ex_items_hyps :
  forallb item_wf items1 = true /\ forallb item_names_fit items1 = true.
Proof. vm_compute. split; reflexivity. Qed.
Example ex_items_sorted :
  sort_items SE2024 items1 = [eca "a" "z2"; eca "a" "z10"; ec "x9"; eca "x9" "q"; ec "x10"]
  /\ sort_items SE2024 items2 = sort_items SE2024 items1
  /\ sort_items SE2021 items1 = [eca "a" "z10"; eca "a" "z2"; ec "x10"; ec "x9"; eca "x9" "q"]
  /\ sort_items SE2021 items2 = sort_items SE2021 items1.
Proof. vm_compute. repeat split. Qed.

(* the items witness: both orders are kept under 2024, not under 2021 *)
Example ex_items_ovf :
  sort_items SE2024 [ovf_item_b; ovf_item_a] = [ovf_item_b; ovf_item_a]
  /\ sort_items SE2024 [ovf_item_a; ovf_item_b] = [ovf_item_a; ovf_item_b]
  /\ sort_items SE2021 [ovf_item_b; ovf_item_a] = [ovf_item_a; ovf_item_b]
  /\ item_names_fit ovf_item_a = false.
Proof. vm_compute. repeat split. Qed.

(* ---- the encoders of Run.v ---- *)
Example ex_run :
  run_vs (t "x9") (t "x10") = 0 /\ run_vs (t "a") (t "a") = 1 /\ run_vs (t "b") (t "a") = 2
  /\ run_chunks (t "a_01") = [(1, 0, 0, t "a"); (0, 0, 0, t "_"); (2, 1, 1, t "01")]
  /\ run_items 2024 (1, t "foo", None) (1, t "bar", Some (t "foo")) = 0
  /\ run_items 2024 (0, t "m", None) (1, t "m", None) = 3.
Proof. vm_compute. repeat split. Qed.
