(* C11/Run.v — encodings of model results for the correspondence run *)
From V Require Import Base.Text C11.Ord C11.Model.
Open Scope N_scope.

(* Ordering: 0 = Less, 1 = Equal, 2 = Greater *)
Definition enc_cmp (c : comparison) : N := match c with Lt => 0 | Eq => 1 | Gt => 2 end.

(* version_sort(a, b) *)
Definition run_vs (a b : text) : N := enc_cmp (version_sort a b).

(* a.cmp(b) on strings (style editions up to 2021) *)
Definition run_str_cmp (a b : text) : N := enc_cmp (cmp_text a b).

(* the chunks VersionChunkIter::new(a) yields until its first None:
   (0, 0, 0, "_") Underscore; (1, 0, 0, s) Str(s);
   (2, value, zeros, source) Number *)
Definition enc_chunk (c : chunk) : N * N * N * text :=
  match c with
  | Underscore => (0, 0, 0, [UNDERSCORE])
  | Str s => (1, 0, 0, s)
  | Number v z s => (2, v, N.of_nat z, s)
  end.
Definition run_chunks (a : text) : list (N * N * N * text) := map enc_chunk (chunks a).

(* style edition: 2015, 2018, 2021, 2024, 2027 (anything else: 2027) *)
Definition dec_edition (e : N) : style_edition :=
  if e =? 2015 then SE2015 else if e =? 2018 then SE2018 else if e =? 2021 then SE2021
  else if e =? 2024 then SE2024 else SE2027.

(* item: (kind, ident, orig_name); kind 0 = mod, 1 = extern crate, other = other *)
Definition dec_item (i : N * text * option text) : item :=
  let '(k, ident, orig) := i in
  MkItem (if k =? 0 then IMod else if k =? 1 then IExternCrate else IOther) ident orig.
Definition enc_item (i : item) : N * text * option text :=
  (kind_rank (it_kind i), it_ident i, it_orig i).

(* compare_items(a, b): 0/1/2 as above, 3 = unreachable!() *)
Definition run_items (e : N) (a b : N * text * option text) : N :=
  match compare_items (dec_edition e) (dec_item a) (dec_item b) with
  | Some c => enc_cmp c
  | None => 3
  end.

(* names.sort_by(version_sort) and items.sort_by(compare_items) *)
Definition run_sort_names (l : list text) : list text := sort_names l.
Definition run_sort_items (e : N) (l : list (N * text * option text)) : list (N * text * option text) :=
  map enc_item (sort_items (dec_edition e) (map dec_item l)).
