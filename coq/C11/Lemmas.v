(* C11/Lemmas.v — proofs about the comparator model of C11/Model.v *)
From Coq Require Import Permutation Sorted.
From V Require Import Base.Text C11.Ord C11.Model.
Local Open Scope N_scope.
Arguments N.add : simpl never.
Arguments N.sub : simpl never.
Arguments N.mul : simpl never.
Arguments N.ltb : simpl never.
Arguments N.leb : simpl never.
Arguments N.eqb : simpl never.

(* ------------------------------------------------------------------ *)
(* span *)
Lemma span_app p t : fst (span p t) ++ snd (span p t) = t.
Proof.
  induction t as [|c t IH]; cbn [span].
  - reflexivity.
  - destruct (p c).
    + destruct (span p t) as [a r]. cbn [fst snd app] in *. rewrite IH. reflexivity.
    + reflexivity.
Qed.

Lemma span_all p t : forallb p (fst (span p t)) = true.
Proof.
  induction t as [|c t IH]; cbn [span].
  - reflexivity.
  - destruct (p c) eqn:Hc.
    + destruct (span p t) as [a r]. cbn [fst forallb] in *. rewrite Hc, IH. reflexivity.
    + reflexivity.
Qed.

Lemma span_rest p t :
  match snd (span p t) with [] => True | c :: _ => p c = false end.
Proof.
  induction t as [|c t IH]; cbn [span].
  - exact I.
  - destruct (p c) eqn:Hc.
    + destruct (span p t) as [a r]. cbn [snd] in *. exact IH.
    + cbn [snd]. exact Hc.
Qed.

Lemma span_length p t : (length (snd (span p t)) <= length t)%nat.
Proof.
  rewrite <- (span_app p t) at 2. rewrite app_length. lia.
Qed.

(* ------------------------------------------------------------------ *)
(* every call of next consumes at least one character: the fuel suffices *)
Lemma vc_next_shorter t ch rest :
  vc_next t = Some (ch, rest) -> (length rest < length t)%nat.
Proof.
  destruct t as [|c t]; cbn [vc_next].
  - discriminate.
  - destruct (c =? UNDERSCORE).
    + intros H. inversion H. subst. cbn [length]. lia.
    + destruct (is_ascii_digit c).
      * unfold parse_numeric_chunk.
        pose proof (span_length is_ascii_digit t) as Hl.
        destruct (span is_ascii_digit t) as [s r]. cbn [snd] in Hl.
        destruct (parse_usize (c :: s)); intros H; inversion H. subst.
        cbn [length]. lia.
      * unfold parse_str_chunk.
        pose proof (span_length str_continues t) as Hl.
        destruct (span str_continues t) as [s r]. cbn [snd] in Hl.
        intros H; inversion H. subst. cbn [length]. lia.
Qed.

Lemma chunks_fuel_indep n m t :
  (length t <= n)%nat -> (length t <= m)%nat -> chunks_fuel n t = chunks_fuel m t.
Proof.
  revert m t. induction n as [|n IH]; intros m t Hn Hm.
  - destruct t; [|cbn [length] in Hn; lia]. destruct m; reflexivity.
  - destruct m as [|m].
    + destruct t; [reflexivity|cbn [length] in Hm; lia].
    + cbn [chunks_fuel].
      destruct (vc_next t) as [[ch rest]|] eqn:Hnext; [|reflexivity].
      apply vc_next_shorter in Hnext.
      rewrite (IH m rest) by lia. reflexivity.
Qed.

Lemma chunks_fuel_enough n t :
  (length t <= n)%nat -> chunks_fuel n t = chunks_fuel (length t) t.
Proof. intros Hn. apply chunks_fuel_indep; [exact Hn|lia]. Qed.

(* the unfolding of the iterator *)
Lemma chunks_nil : chunks [] = [].
Proof. reflexivity. Qed.

Lemma chunks_step t :
  chunks t = match vc_next t with
             | None => []
             | Some (ch, rest) => ch :: chunks rest
             end.
Proof.
  unfold chunks. destruct t as [|c t].
  - reflexivity.
  - cbn [length chunks_fuel].
    destruct (vc_next (c :: t)) as [[ch rest]|] eqn:Hnext; [|reflexivity].
    apply vc_next_shorter in Hnext. cbn [length] in Hnext.
    rewrite (chunks_fuel_enough (length t) rest) by lia. reflexivity.
Qed.

(* ------------------------------------------------------------------ *)
(* shape of the chunks the iterator yields *)
Definition all_digits (s : text) : Prop := forallb is_ascii_digit s = true.

Definition wf_chunk (c : chunk) : Prop :=
  match c with
  | Underscore => True
  | Str s => exists c s', s = c :: s' /\ is_ascii_digit c = false /\ (c =? UNDERSCORE) = false
                          /\ forallb str_continues s' = true
  | Number v z s => exists c s', s = c :: s' /\ all_digits s
                                 /\ v = digits_value 0 s /\ z = leading_zeros s
                                 /\ v < USIZE_LIMIT
  end.

Lemma vc_next_wf t ch rest : vc_next t = Some (ch, rest) -> wf_chunk ch.
Proof.
  destruct t as [|c t]; cbn [vc_next].
  - discriminate.
  - destruct (c =? UNDERSCORE) eqn:Hu.
    + intros H. inversion H. exact I.
    + destruct (is_ascii_digit c) eqn:Hd.
      * unfold parse_numeric_chunk.
        pose proof (span_all is_ascii_digit t) as Ha.
        destruct (span is_ascii_digit t) as [s r]. cbn [fst] in Ha.
        unfold parse_usize.
        destruct (digits_value 0 (c :: s) <? USIZE_LIMIT) eqn:Hlt; intros H; inversion H.
        cbn [wf_chunk]. exists c, s. repeat split.
        -- unfold all_digits. cbn [forallb]. rewrite Hd, Ha. reflexivity.
        -- apply N.ltb_lt. exact Hlt.
      * unfold parse_str_chunk.
        pose proof (span_all str_continues t) as Ha.
        destruct (span str_continues t) as [s r]. cbn [fst] in Ha.
        intros H; inversion H.
        cbn [wf_chunk]. exists c, s. repeat split; assumption.
Qed.

Lemma chunks_fuel_wf n t : Forall wf_chunk (chunks_fuel n t).
Proof.
  revert t. induction n as [|n IH]; intros t; cbn [chunks_fuel].
  - constructor.
  - destruct (vc_next t) as [[ch rest]|] eqn:Hnext.
    + constructor; [exact (vc_next_wf t ch rest Hnext)|apply IH].
    + constructor.
Qed.

Lemma chunks_wf t : Forall wf_chunk (chunks t).
Proof. apply chunks_fuel_wf. Qed.

(* ------------------------------------------------------------------ *)
(* str::cmp *)
Lemma cmp_text_tp : TotalPreorder cmp_text.
Proof. apply cmp_lex_tp. exact N_compare_tp. Qed.

Lemma cmp_text_eq a b : cmp_text a b = Eq -> a = b.
Proof. apply cmp_lex_eq_inv. intros x y. apply N.compare_eq. Qed.

Lemma cmp_text_cons c d a b :
  cmp_text (c :: a) (d :: b) = match N.compare c d with Eq => cmp_text a b | o => o end.
Proof. reflexivity. Qed.

(* ------------------------------------------------------------------ *)
(* version_sort as a lexicographic comparison of keys.
   A chunk is ranked by (class, value, string):
     Underscore (0,0,[]) < Str below the digits (1,0,s) < Number (2,v,[])
     < Str above the digits (3,0,s);
   ties between whole chunk lists are broken by the first difference in the
   numbers of leading zeros, more zeros first. *)
Definition ckey : Type := (N * (N * text))%type.
Definition str_class (s : text) : N :=
  match s with c :: _ => if c <? ZERO then 1 else 3 | [] => 1 end.
Definition chunk_key (c : chunk) : ckey :=
  match c with
  | Underscore => (0, (0, []))
  | Str s => (str_class s, (0, s))
  | Number v _ _ => (2, (v, []))
  end.
Definition chunk_zeros (c : chunk) : nat :=
  match c with Number _ z _ => z | _ => O end.

Definition key_cmp : ckey -> ckey -> comparison :=
  cmp_then (cmp_on (fun k : ckey => fst k) N.compare)
    (cmp_then (cmp_on (fun k : ckey => fst (snd k)) N.compare)
              (cmp_on (fun k : ckey => snd (snd k)) cmp_text)).
Definition zeros_cmp : nat -> nat -> comparison := cmp_flip Nat.compare.

Definition clist_cmp : list chunk -> list chunk -> comparison :=
  cmp_then (cmp_on (map chunk_key) (cmp_lex key_cmp))
           (cmp_on (map chunk_zeros) (cmp_lex zeros_cmp)).

Lemma key_cmp_tp : TotalPreorder key_cmp.
Proof.
  unfold key_cmp. apply cmp_then_tp.
  - apply cmp_on_tp. exact N_compare_tp.
  - apply cmp_then_tp.
    + apply cmp_on_tp. exact N_compare_tp.
    + apply cmp_on_tp. exact cmp_text_tp.
Qed.

Lemma zeros_cmp_tp : TotalPreorder zeros_cmp.
Proof. unfold zeros_cmp. apply cmp_flip_tp. exact nat_compare_tp. Qed.

Lemma clist_cmp_tp : TotalPreorder clist_cmp.
Proof.
  unfold clist_cmp. apply cmp_then_tp.
  - apply cmp_on_tp. apply cmp_lex_tp. exact key_cmp_tp.
  - apply cmp_on_tp. apply cmp_lex_tp. exact zeros_cmp_tp.
Qed.

Lemma key_cmp_unfold c1 v1 s1 c2 v2 s2 :
  key_cmp (c1, (v1, s1)) (c2, (v2, s2)) =
  match N.compare c1 c2 with
  | Eq => match N.compare v1 v2 with Eq => cmp_text s1 s2 | o => o end
  | o => o
  end.
Proof. reflexivity. Qed.

(* the register after a pair of chunks with equal keys *)
Definition upd (reg : mlz) (z : comparison) : mlz :=
  match reg with
  | MEqual => match z with Lt => MLeft | Gt => MRight | Eq => MEqual end
  | r => r
  end.
Definition finish (reg : mlz) (z : comparison) : comparison :=
  match reg with MEqual => z | MLeft => Lt | MRight => Gt end.

Lemma upd_eq reg : upd reg Eq = reg.
Proof. destruct reg; reflexivity. Qed.

Lemma finish_upd reg z rest :
  finish (upd reg z) rest = finish reg (match z with Eq => rest | Lt => Lt | Gt => Gt end).
Proof. destruct reg, z; reflexivity. Qed.

Definition vs_spec (reg : mlz) (ca cb : list chunk) : comparison :=
  match cmp_lex key_cmp (map chunk_key ca) (map chunk_key cb) with
  | Eq => finish reg (cmp_lex zeros_cmp (map chunk_zeros ca) (map chunk_zeros cb))
  | o => o
  end.

(* digits and non-digits *)
Lemma digit_range c : is_ascii_digit c = true -> 48 <= c /\ c <= 57.
Proof.
  unfold is_ascii_digit. rewrite andb_true_iff, !N.leb_le. intros H; exact H.
Qed.
Lemma nondigit_range c : is_ascii_digit c = false -> c < 48 \/ 57 < c.
Proof.
  unfold is_ascii_digit. rewrite andb_false_iff, !N.leb_gt. intros H; exact H.
Qed.

(* what one round of the loop does on a pair of well-formed chunks *)
Definition head_decided (a b : chunk) (o : comparison) : Prop :=
  key_cmp (chunk_key a) (chunk_key b) = o /\
  forall reg ca cb, vs_loop reg (a :: ca) (b :: cb) = o.
Definition head_continues (a b : chunk) : Prop :=
  key_cmp (chunk_key a) (chunk_key b) = Eq /\
  forall reg ca cb, vs_loop reg (a :: ca) (b :: cb) =
                    vs_loop (upd reg (zeros_cmp (chunk_zeros a) (chunk_zeros b))) ca cb.

Lemma str_class_cons c s : str_class (c :: s) = if c <? ZERO then 1 else 3.
Proof. reflexivity. Qed.

Lemma head_str_str sa sb :
  wf_chunk (Str sa) -> wf_chunk (Str sb) ->
  head_decided (Str sa) (Str sb) Lt \/ head_decided (Str sa) (Str sb) Gt
  \/ head_continues (Str sa) (Str sb).
Proof.
  intros (c & sa' & -> & Hc & _) (d & sb' & -> & Hd & _).
  unfold head_decided, head_continues. cbn [chunk_key chunk_zeros vs_loop].
  rewrite !key_cmp_unfold, !str_class_cons.
  destruct (c <? ZERO) eqn:Hc0; destruct (d <? ZERO) eqn:Hd0.
  - change (N.compare 1 1) with Eq. change (N.compare 0 0) with Eq. cbv iota.
    destruct (cmp_text (c :: sa') (d :: sb')) eqn:E.
    + right; right. split; [reflexivity|]. intros reg ca cb. rewrite upd_eq. reflexivity.
    + left. split; reflexivity.
    + right; left. split; reflexivity.
  - left. change (N.compare 1 3) with Lt. cbv iota.
    apply N.ltb_lt in Hc0. apply N.ltb_ge in Hd0.
    assert (E : N.compare c d = Lt) by (apply N.compare_lt_iff; lia).
    rewrite cmp_text_cons, E. split; reflexivity.
  - right; left. change (N.compare 3 1) with Gt. cbv iota.
    apply N.ltb_ge in Hc0. apply N.ltb_lt in Hd0.
    assert (E : N.compare c d = Gt) by (apply N.compare_gt_iff; lia).
    rewrite cmp_text_cons, E. split; reflexivity.
  - change (N.compare 3 3) with Eq. change (N.compare 0 0) with Eq. cbv iota.
    destruct (cmp_text (c :: sa') (d :: sb')) eqn:E.
    + right; right. split; [reflexivity|]. intros reg ca cb. rewrite upd_eq. reflexivity.
    + left. split; reflexivity.
    + right; left. split; reflexivity.
Qed.

Lemma head_str_num sa vb zb sb :
  wf_chunk (Str sa) -> wf_chunk (Number vb zb sb) ->
  head_decided (Str sa) (Number vb zb sb) Lt \/ head_decided (Str sa) (Number vb zb sb) Gt.
Proof.
  intros (c & sa' & -> & Hc & _) (d & sb' & -> & Hd & _).
  unfold all_digits in Hd. cbn [forallb] in Hd. apply andb_true_iff in Hd.
  destruct Hd as [Hd _]. apply digit_range in Hd. apply nondigit_range in Hc.
  unfold head_decided. cbn [chunk_key vs_loop].
  rewrite !key_cmp_unfold, !str_class_cons, cmp_text_cons.
  destruct (c <? ZERO) eqn:Hc0.
  - left. change (N.compare 1 2) with Lt. cbv iota.
    apply N.ltb_lt in Hc0. unfold ZERO in Hc0.
    assert (E : N.compare c d = Lt) by (apply N.compare_lt_iff; lia).
    rewrite E. split; reflexivity.
  - right. change (N.compare 3 2) with Gt. cbv iota.
    apply N.ltb_ge in Hc0. unfold ZERO in Hc0.
    assert (E : N.compare c d = Gt) by (apply N.compare_gt_iff; lia).
    rewrite E. split; reflexivity.
Qed.

Lemma head_num_str va za sa sb :
  wf_chunk (Number va za sa) -> wf_chunk (Str sb) ->
  head_decided (Number va za sa) (Str sb) Lt \/ head_decided (Number va za sa) (Str sb) Gt.
Proof.
  intros (c & sa' & -> & Hc & _) (d & sb' & -> & Hd & _).
  unfold all_digits in Hc. cbn [forallb] in Hc. apply andb_true_iff in Hc.
  destruct Hc as [Hc _]. apply digit_range in Hc. apply nondigit_range in Hd.
  unfold head_decided. cbn [chunk_key vs_loop].
  rewrite !key_cmp_unfold, !str_class_cons, cmp_text_cons.
  destruct (d <? ZERO) eqn:Hd0.
  - right. change (N.compare 2 1) with Gt. cbv iota.
    apply N.ltb_lt in Hd0. unfold ZERO in Hd0.
    assert (E : N.compare c d = Gt) by (apply N.compare_gt_iff; lia).
    rewrite E. split; reflexivity.
  - left. change (N.compare 2 3) with Lt. cbv iota.
    apply N.ltb_ge in Hd0. unfold ZERO in Hd0.
    assert (E : N.compare c d = Lt) by (apply N.compare_lt_iff; lia).
    rewrite E. split; reflexivity.
Qed.

Lemma head_num_num va za sa vb zb sb :
  head_decided (Number va za sa) (Number vb zb sb) Lt
  \/ head_decided (Number va za sa) (Number vb zb sb) Gt
  \/ head_continues (Number va za sa) (Number vb zb sb).
Proof.
  unfold head_decided, head_continues. cbn [chunk_key chunk_zeros vs_loop].
  rewrite !key_cmp_unfold. change (N.compare 2 2) with Eq. cbv iota.
  destruct (N.compare va vb) eqn:E.
  - right; right. split; [reflexivity|]. intros reg ca cb.
    unfold zeros_cmp, cmp_flip.
    destruct (Nat.eqb_spec za zb) as [->|Hne].
    + rewrite Nat.compare_refl, upd_eq. reflexivity.
    + destruct reg; cbn [mlz_is_equal andb upd]; try reflexivity.
      destruct (Nat.ltb_spec zb za) as [Hlt|Hge].
      * apply Nat.compare_lt_iff in Hlt. rewrite Hlt. reflexivity.
      * destruct (Nat.ltb_spec za zb) as [Hlt|Hge'].
        -- apply Nat.compare_gt_iff in Hlt. rewrite Hlt. reflexivity.
        -- exfalso. lia.
  - left. split; reflexivity.
  - right; left. split; reflexivity.
Qed.

Lemma head_cases a b :
  wf_chunk a -> wf_chunk b ->
  head_decided a b Lt \/ head_decided a b Gt \/ head_continues a b.
Proof.
  intros Ha Hb. destruct a as [|sa|va za sa]; destruct b as [|sb|vb zb sb].
  - right; right. split; [reflexivity|]. intros reg ca cb.
    cbn [vs_loop chunk_zeros]. rewrite upd_eq. reflexivity.
  - left. destruct Hb as (d & sb' & -> & _). split; [|reflexivity].
    cbn [chunk_key]. rewrite key_cmp_unfold, str_class_cons.
    destruct (d <? ZERO); reflexivity.
  - left. split; reflexivity.
  - right; left. destruct Ha as (c & sa' & -> & _). split; [|reflexivity].
    cbn [chunk_key]. rewrite key_cmp_unfold, str_class_cons.
    destruct (c <? ZERO); reflexivity.
  - apply head_str_str; assumption.
  - destruct (head_str_num sa vb zb sb Ha Hb) as [H|H]; [left|right; left]; exact H.
  - right; left. split; reflexivity.
  - destruct (head_num_str va za sa sb Ha Hb) as [H|H]; [left|right; left]; exact H.
  - apply head_num_num.
Qed.

Lemma vs_loop_spec ca : forall cb reg,
  Forall wf_chunk ca -> Forall wf_chunk cb -> vs_loop reg ca cb = vs_spec reg ca cb.
Proof.
  induction ca as [|a ca IH]; intros [|b cb] reg Ha Hb.
  - destruct reg; reflexivity.
  - reflexivity.
  - destruct a; reflexivity.
  - inversion Ha as [|a' ca' Hwa Ha']; subst. inversion Hb as [|b' cb' Hwb Hb']; subst.
    unfold vs_spec. cbn [map cmp_lex].
    destruct (head_cases a b Hwa Hwb) as [[Hk Hl]|[[Hk Hl]|[Hk Hl]]].
    + rewrite Hl, Hk. reflexivity.
    + rewrite Hl, Hk. reflexivity.
    + rewrite Hl, Hk, (IH cb _ Ha' Hb'). unfold vs_spec.
      destruct (cmp_lex key_cmp (map chunk_key ca) (map chunk_key cb)); try reflexivity.
      apply finish_upd.
Qed.

Lemma version_sort_clist a b : version_sort a b = cmp_on chunks clist_cmp a b.
Proof.
  unfold version_sort. rewrite vs_loop_spec by apply chunks_wf. reflexivity.
Qed.

Lemma vs_total_preorder : TotalPreorder version_sort.
Proof.
  apply (tp_ext (cmp_on chunks clist_cmp)).
  - exact version_sort_clist.
  - apply cmp_on_tp. exact clist_cmp_tp.
Qed.

(* ------------------------------------------------------------------ *)
(* decimal numerals: (value, leading zeros) determines the digit string *)
Fixpoint pow10 (n : nat) : N := match n with O => 1 | S n' => 10 * pow10 n' end.
Definition val (s : text) : N := digits_value 0 s.

Lemma pow10_pos n : 0 < pow10 n.
Proof. induction n as [|n IH]; cbn [pow10]; lia. Qed.

Lemma pow10_mono n m : (n <= m)%nat -> pow10 n <= pow10 m.
Proof.
  intros H. induction H as [|m H IH].
  - lia.
  - cbn [pow10]. pose proof (pow10_pos m). lia.
Qed.

Lemma dv_acc s : forall acc, digits_value acc s = acc * pow10 (length s) + val s.
Proof.
  unfold val. induction s as [|c s IH]; intros acc; cbn [digits_value length pow10].
  - change (0 * 10 + 0) with 0. lia.
  - rewrite (IH (acc * 10 + (c - ZERO))), (IH (0 * 10 + (c - ZERO))).
    change (0 * 10) with 0. ring.
Qed.

Lemma val_cons c s : val (c :: s) = (c - ZERO) * pow10 (length s) + val s.
Proof.
  unfold val at 1. cbn [digits_value]. rewrite dv_acc. change (0 * 10) with 0.
  rewrite N.add_0_l. reflexivity.
Qed.

Lemma all_digits_cons c s : all_digits (c :: s) <-> is_ascii_digit c = true /\ all_digits s.
Proof. unfold all_digits. cbn [forallb]. apply andb_true_iff. Qed.

Lemma val_lt s : all_digits s -> val s < pow10 (length s).
Proof.
  induction s as [|c s IH]; intros Hd.
  - cbn. lia.
  - apply all_digits_cons in Hd. destruct Hd as [Hc Hs].
    apply digit_range in Hc. specialize (IH Hs).
    rewrite val_cons. cbn [length pow10]. unfold ZERO.
    assert (Hm : (c - 48) * pow10 (length s) <= 9 * pow10 (length s)).
    { apply N.mul_le_mono_r. lia. }
    lia.
Qed.

Lemma val_ge c s :
  is_ascii_digit c = true -> (c =? ZERO) = false -> pow10 (length s) <= val (c :: s).
Proof.
  intros Hc Hz. apply digit_range in Hc. apply N.eqb_neq in Hz. unfold ZERO in *.
  rewrite val_cons. unfold ZERO.
  assert (Hm : 1 * pow10 (length s) <= (c - 48) * pow10 (length s)).
  { apply N.mul_le_mono_r. lia. }
  lia.
Qed.

Lemma val_inj_same_length s1 : forall s2,
  all_digits s1 -> all_digits s2 -> length s1 = length s2 -> val s1 = val s2 -> s1 = s2.
Proof.
  induction s1 as [|c s1 IH]; intros [|d s2] H1 H2 Hl Hv; cbn [length] in Hl;
    try reflexivity; try discriminate Hl.
  apply all_digits_cons in H1. destruct H1 as [Hc H1].
  apply all_digits_cons in H2. destruct H2 as [Hd H2].
  injection Hl as Hl.
  rewrite !val_cons, <- Hl in Hv.
  pose proof (val_lt s1 H1) as B1. pose proof (val_lt s2 H2) as B2. rewrite <- Hl in B2.
  apply digit_range in Hc. apply digit_range in Hd. unfold ZERO in Hv.
  set (P := pow10 (length s1)) in *.
  assert (Hcd : c - 48 = d - 48).
  { destruct (N.lt_total (c - 48) (d - 48)) as [Hlt|[Heq|Hgt]].
    - exfalso.
      assert (Hm : (c - 48 + 1) * P <= (d - 48) * P) by (apply N.mul_le_mono_r; lia).
      rewrite N.mul_add_distr_r in Hm. lia.
    - exact Heq.
    - exfalso.
      assert (Hm : (d - 48 + 1) * P <= (c - 48) * P) by (apply N.mul_le_mono_r; lia).
      rewrite N.mul_add_distr_r in Hm. lia. }
  assert (c = d) by lia. subst d.
  f_equal. apply IH; try assumption. lia.
Qed.

(* no leading zero *)
Definition canonical (r : text) : Prop :=
  match r with [] => True | c :: _ => (c =? ZERO) = false end.

Lemma val_inj_canonical r1 r2 :
  all_digits r1 -> all_digits r2 -> canonical r1 -> canonical r2 ->
  val r1 = val r2 -> r1 = r2.
Proof.
  intros H1 H2 C1 C2 Hv.
  destruct (Nat.lt_trichotomy (length r1) (length r2)) as [Hlt|[Heq|Hgt]].
  - exfalso. destruct r2 as [|d r2]; [cbn [length] in Hlt; lia|].
    cbn [canonical] in C2. pose proof H2 as H2'. apply all_digits_cons in H2'.
    pose proof (val_ge d r2 (proj1 H2') C2) as G.
    pose proof (val_lt r1 H1) as B.
    cbn [length] in Hlt.
    pose proof (pow10_mono (length r1) (length r2)) as M. lia.
  - apply val_inj_same_length; assumption.
  - exfalso. destruct r1 as [|c r1]; [cbn [length] in Hgt; lia|].
    cbn [canonical] in C1. pose proof H1 as H1'. apply all_digits_cons in H1'.
    pose proof (val_ge c r1 (proj1 H1') C1) as G.
    pose proof (val_lt r2 H2) as B.
    cbn [length] in Hgt.
    pose proof (pow10_mono (length r2) (length r1)) as M. lia.
Qed.

Definition is_zero (c : char) : bool := c =? ZERO.

Lemma zeros_repeat l : forallb is_zero l = true -> l = repeat ZERO (length l).
Proof.
  induction l as [|c l IH]; cbn [forallb length repeat]; intros H.
  - reflexivity.
  - apply andb_true_iff in H. destruct H as [Hc Hl].
    apply N.eqb_eq in Hc. subst c. rewrite <- (IH Hl). reflexivity.
Qed.

Lemma val_zeros_app n r : val (repeat ZERO n ++ r) = val r.
Proof.
  induction n as [|n IH]; cbn [repeat app].
  - reflexivity.
  - unfold val in *. cbn [digits_value]. exact IH.
Qed.

Lemma all_digits_app a b : all_digits (a ++ b) -> all_digits a /\ all_digits b.
Proof. unfold all_digits. rewrite forallb_app. apply andb_true_iff. Qed.

Lemma num_source_inj s1 s2 :
  all_digits s1 -> all_digits s2 ->
  val s1 = val s2 -> leading_zeros s1 = leading_zeros s2 -> s1 = s2.
Proof.
  unfold leading_zeros. fold is_zero. intros H1 H2 Hv Hz.
  pose proof (span_app is_zero s1) as A1. pose proof (span_app is_zero s2) as A2.
  pose proof (span_all is_zero s1) as Z1. pose proof (span_all is_zero s2) as Z2.
  pose proof (span_rest is_zero s1) as R1. pose proof (span_rest is_zero s2) as R2.
  destruct (span is_zero s1) as [z1 r1]. destruct (span is_zero s2) as [z2 r2].
  cbn [fst snd] in *.
  apply zeros_repeat in Z1. apply zeros_repeat in Z2.
  subst s1 s2.
  rewrite Z1, Z2 in Hv |- *. rewrite !val_zeros_app in Hv.
  apply all_digits_app in H1. apply all_digits_app in H2.
  rewrite Hz. f_equal.
  apply val_inj_canonical.
  - exact (proj2 H1).
  - exact (proj2 H2).
  - destruct r1; [exact I|exact R1].
  - destruct r2; [exact I|exact R2].
  - exact Hv.
Qed.

(* ------------------------------------------------------------------ *)
(* the Eq-classes of version_sort *)
Lemma chunk_eq_of_keys a b :
  wf_chunk a -> wf_chunk b ->
  key_cmp (chunk_key a) (chunk_key b) = Eq ->
  zeros_cmp (chunk_zeros a) (chunk_zeros b) = Eq -> a = b.
Proof.
  intros Ha Hb. destruct a as [|sa|va za sa]; destruct b as [|sb|vb zb sb];
    cbn [chunk_key chunk_zeros]; rewrite ?key_cmp_unfold.
  - reflexivity.
  - destruct Hb as (d & sb' & -> & _). rewrite str_class_cons.
    destruct (d <? ZERO); intros H; discriminate H.
  - intros H; discriminate H.
  - destruct Ha as (c & sa' & -> & _). rewrite str_class_cons.
    destruct (c <? ZERO); intros H; discriminate H.
  - intros Hk _.
    destruct (N.compare (str_class sa) (str_class sb)); try discriminate Hk.
    change (N.compare 0 0) with Eq in Hk. cbv iota in Hk.
    apply cmp_text_eq in Hk. subst sb. reflexivity.
  - destruct Ha as (c & sa' & -> & _). rewrite str_class_cons.
    destruct (c <? ZERO); intros H; discriminate H.
  - intros H; discriminate H.
  - destruct Hb as (d & sb' & -> & _). rewrite str_class_cons.
    destruct (d <? ZERO); intros H; discriminate H.
  - change (N.compare 2 2) with Eq. cbv iota. intros Hk Hz.
    destruct (N.compare va vb) eqn:Ev; try discriminate Hk.
    apply N.compare_eq in Ev. subst vb.
    unfold zeros_cmp, cmp_flip in Hz. apply Nat.compare_eq in Hz. subst zb.
    destruct Ha as (c & sa' & _ & Hda & Hva & Hza & _).
    destruct Hb as (d & sb' & _ & Hdb & Hvb & Hzb & _).
    rewrite (num_source_inj sa sb Hda Hdb); [reflexivity| |].
    + unfold val. rewrite <- Hva, <- Hvb. reflexivity.
    + rewrite <- Hza, <- Hzb. reflexivity.
Qed.

Lemma clist_eq_inv ca : forall cb,
  Forall wf_chunk ca -> Forall wf_chunk cb -> clist_cmp ca cb = Eq -> ca = cb.
Proof.
  unfold clist_cmp, cmp_then, cmp_on.
  induction ca as [|a ca IH]; intros [|b cb] Ha Hb; cbn [map cmp_lex]; intros H;
    try reflexivity; try discriminate H.
  inversion Ha as [|a' ca' Hwa Ha']; subst. inversion Hb as [|b' cb' Hwb Hb']; subst.
  destruct (key_cmp (chunk_key a) (chunk_key b)) eqn:Ek; try discriminate H.
  destruct (cmp_lex key_cmp (map chunk_key ca) (map chunk_key cb)) eqn:El; try discriminate H.
  destruct (zeros_cmp (chunk_zeros a) (chunk_zeros b)) eqn:Ez; try discriminate H.
  rewrite (chunk_eq_of_keys a b Hwa Hwb Ek Ez). f_equal.
  apply (IH cb Ha' Hb'). rewrite El. exact H.
Qed.

Lemma vs_eq_iff a b : version_sort a b = Eq <-> chunks a = chunks b.
Proof.
  rewrite version_sort_clist. unfold cmp_on. split.
  - apply clist_eq_inv; apply chunks_wf.
  - intros ->. apply (tp_refl clist_cmp_tp).
Qed.

(* ------------------------------------------------------------------ *)
(* identifiers whose chunks cover them are told apart *)
Lemma vs_eq_identity_cover a b :
  chunks_cover a = true -> chunks_cover b = true -> version_sort a b = Eq -> a = b.
Proof.
  unfold chunks_cover. intros Ha Hb He.
  apply eqb_text_spec in Ha. apply eqb_text_spec in Hb. apply vs_eq_iff in He.
  rewrite <- Ha, <- Hb, He. reflexivity.
Qed.

Lemma usize_limit_pos : (0 <? USIZE_LIMIT) = true.
Proof. reflexivity. Qed.

Lemma fit_span_digits t : forall acc,
  digit_runs_fit_aux acc t =
  (digits_value acc (fst (span is_ascii_digit t)) <? USIZE_LIMIT)
  && digit_runs_fit_aux 0 (snd (span is_ascii_digit t)).
Proof.
  induction t as [|c t IH]; intros acc; cbn [span digit_runs_fit_aux].
  - cbn [fst snd digits_value digit_runs_fit_aux]. rewrite usize_limit_pos, andb_true_r. reflexivity.
  - destruct (is_ascii_digit c) eqn:Hc.
    + rewrite IH. destruct (span is_ascii_digit t) as [s r]. reflexivity.
    + cbn [fst snd digits_value digit_runs_fit_aux]. rewrite Hc, usize_limit_pos. reflexivity.
Qed.

Lemma fit_span_str t :
  digit_runs_fit_aux 0 t = digit_runs_fit_aux 0 (snd (span str_continues t)).
Proof.
  induction t as [|c t IH]; cbn [span].
  - reflexivity.
  - destruct (str_continues c) eqn:Hc.
    + unfold str_continues in Hc. apply andb_true_iff in Hc. destruct Hc as [_ Hd].
      apply negb_true_iff in Hd. cbn [digit_runs_fit_aux]. rewrite Hd, usize_limit_pos.
      cbn [andb]. rewrite IH. destruct (span str_continues t) as [s r]. reflexivity.
    + reflexivity.
Qed.

Lemma cover_fuel n : forall t,
  (length t <= n)%nat -> digit_runs_fit_aux 0 t = true ->
  concat (map chunk_source (chunks_fuel n t)) = t.
Proof.
  induction n as [|n IH]; intros t Hn Hfit.
  - destruct t; [reflexivity|cbn [length] in Hn; lia].
  - destruct t as [|c t]; [reflexivity|].
    cbn [length] in Hn. cbn [chunks_fuel vc_next].
    destruct (c =? UNDERSCORE) eqn:Hu.
    + apply N.eqb_eq in Hu. subst c.
      cbn [map concat chunk_source app]. f_equal. apply IH; [lia|].
      cbn [digit_runs_fit_aux] in Hfit.
      change (is_ascii_digit UNDERSCORE) with false in Hfit. cbv iota in Hfit.
      rewrite usize_limit_pos in Hfit. exact Hfit.
    + destruct (is_ascii_digit c) eqn:Hd.
      * unfold parse_numeric_chunk, parse_usize.
        cbn [digit_runs_fit_aux] in Hfit. rewrite Hd, fit_span_digits in Hfit.
        pose proof (span_app is_ascii_digit t) as Happ.
        pose proof (span_length is_ascii_digit t) as Hlen.
        destruct (span is_ascii_digit t) as [s r]. cbn [fst snd] in *.
        apply andb_true_iff in Hfit. destruct Hfit as [Hv Hr].
        cbn [digits_value]. rewrite Hv.
        cbn [map concat chunk_source]. rewrite (IH r) by (try lia; exact Hr).
        cbn [app]. rewrite Happ. reflexivity.
      * unfold parse_str_chunk.
        cbn [digit_runs_fit_aux] in Hfit. rewrite Hd, usize_limit_pos in Hfit.
        cbn [andb] in Hfit. rewrite fit_span_str in Hfit.
        pose proof (span_app str_continues t) as Happ.
        pose proof (span_length str_continues t) as Hlen.
        destruct (span str_continues t) as [s r]. cbn [fst snd] in *.
        cbn [map concat chunk_source]. rewrite (IH r) by (try lia; exact Hfit).
        cbn [app]. rewrite Happ. reflexivity.
Qed.

Lemma digit_runs_fit_cover t : digit_runs_fit t = true -> chunks_cover t = true.
Proof.
  unfold digit_runs_fit, chunks_cover, chunks. intros H.
  apply eqb_text_spec. apply cover_fuel; [lia|exact H].
Qed.

Lemma vs_eq_identity_fit a b :
  digit_runs_fit a = true -> digit_runs_fit b = true -> version_sort a b = Eq -> a = b.
Proof.
  intros Ha Hb. apply vs_eq_identity_cover; apply digit_runs_fit_cover; assumption.
Qed.

(* two distinct identifiers that version_sort ranks Equal: the numeric chunk
   18446744073709551616 = 2^64 does not fit usize, the chunk iterator ends
   there and the rest of the identifier is never looked at *)
Definition ovf_a : text :=
  [97; 49;56;52;52;54;55;52;52;48;55;51;55;48;57;53;53;49;54;49;54; 98].
Definition ovf_b : text :=
  [97; 49;56;52;52;54;55;52;52;48;55;51;55;48;57;53;53;49;54;49;54; 99].

Lemma ovf_distinct : ovf_a <> ovf_b.
Proof. intros H. apply eqb_text_spec in H. vm_compute in H. discriminate H. Qed.

Lemma vs_eq_identity_refuted : exists a b, a <> b /\ version_sort a b = Eq.
Proof. exists ovf_a, ovf_b. split; [exact ovf_distinct|vm_compute; reflexivity]. Qed.

Lemma vs_order_insensitive_refuted :
  exists l1 l2, Permutation l1 l2 /\ NoDup l1 /\ sort_names l1 <> sort_names l2.
Proof.
  exists [ovf_a; ovf_b], [ovf_b; ovf_a]. split; [apply perm_swap|]. split.
  - constructor.
    + intros [H|[]]. exact (ovf_distinct (eq_sym H)).
    + constructor; [intros []|constructor].
  - assert (E1 : sort_names [ovf_a; ovf_b] = [ovf_a; ovf_b]) by (vm_compute; reflexivity).
    assert (E2 : sort_names [ovf_b; ovf_a] = [ovf_b; ovf_a]) by (vm_compute; reflexivity).
    rewrite E1, E2. intros H. apply (f_equal (hd [])) in H. cbn [hd] in H.
    exact (ovf_distinct H).
Qed.

(* ------------------------------------------------------------------ *)
(* sorting names *)
Lemma version_sort_order_insensitive l1 l2 :
  Permutation l1 l2 ->
  (forall x y, In x l1 -> In y l1 -> version_sort x y = Eq -> x = y) ->
  sort_names l1 = sort_names l2.
Proof. apply (sort_unique vs_total_preorder). Qed.

Lemma version_sort_order_insensitive_fit l1 l2 :
  Permutation l1 l2 -> forallb digit_runs_fit l1 = true -> sort_names l1 = sort_names l2.
Proof.
  intros Hp Hf. apply version_sort_order_insensitive; [exact Hp|].
  rewrite forallb_forall in Hf. intros x y Hx Hy.
  apply vs_eq_identity_fit; apply Hf; assumption.
Qed.

Lemma sort_names_is_sort_by l :
  Permutation l (sort_names l) /\ SortedBy version_sort (sort_names l)
  /\ StableWrt version_sort l (sort_names l).
Proof.
  split; [apply isort_perm|]. split.
  - apply (isort_sorted vs_total_preorder).
  - apply (isort_stable vs_total_preorder).
Qed.

Lemma sort_names_any_stable_sort l out :
  Permutation l out -> SortedBy version_sort out -> StableWrt version_sort l out ->
  out = sort_names l.
Proof. apply (any_stable_sort_agrees vs_total_preorder). Qed.

(* ------------------------------------------------------------------ *)
(* compare_items *)
Lemma cmp_name_tp e : TotalPreorder (cmp_name e).
Proof.
  destruct (se_le_2021 e) eqn:He.
  - apply (tp_ext cmp_text); [|exact cmp_text_tp].
    intros a b. unfold cmp_name. rewrite He. reflexivity.
  - apply (tp_ext version_sort); [|exact vs_total_preorder].
    intros a b. unfold cmp_name. rewrite He. reflexivity.
Qed.

Lemma cmp_name_nil e : cmp_name e [] [] = Eq.
Proof. apply (tp_refl (cmp_name_tp e)). Qed.

(* items_cmp as a lexicographic comparison of projections:
   kind, then the name compared first (the module name, or the crate's
   original name), then whether the crate is renamed, then the alias *)
Definition item_name (i : item) : text :=
  match it_kind i with
  | IMod => it_ident i
  | IExternCrate => match it_orig i with Some n => n | None => it_ident i end
  | IOther => []
  end.
Definition item_renamed (i : item) : N :=
  match it_kind i with
  | IExternCrate => match it_orig i with Some _ => 1 | None => 0 end
  | _ => 0
  end.
Definition item_alias (i : item) : text :=
  match it_kind i with
  | IExternCrate => match it_orig i with Some _ => it_ident i | None => [] end
  | _ => []
  end.
Definition items_key_cmp (e : style_edition) : item -> item -> comparison :=
  cmp_then (cmp_on (fun i => kind_rank (it_kind i)) N.compare)
    (cmp_then (cmp_on item_name (cmp_name e))
       (cmp_then (cmp_on item_renamed N.compare) (cmp_on item_alias (cmp_name e)))).

Lemma items_key_cmp_tp e : TotalPreorder (items_key_cmp e).
Proof.
  unfold items_key_cmp. apply cmp_then_tp.
  - apply cmp_on_tp. exact N_compare_tp.
  - apply cmp_then_tp.
    + apply cmp_on_tp. apply cmp_name_tp.
    + apply cmp_then_tp.
      * apply cmp_on_tp. exact N_compare_tp.
      * apply cmp_on_tp. apply cmp_name_tp.
Qed.

Lemma items_cmp_key e a b : items_cmp e a b = items_key_cmp e a b.
Proof.
  destruct a as [ka ia oa]; destruct b as [kb ib ob].
  unfold items_cmp, compare_items, items_key_cmp, cmp_then, cmp_on,
    item_name, item_renamed, item_alias.
  cbn [it_kind it_ident it_orig].
  destruct ka; destruct kb; cbn [kind_rank]; try reflexivity.
  - change (N.compare 0 0) with Eq. cbv iota. rewrite cmp_name_nil.
    destruct (cmp_name e ia ib); reflexivity.
  - change (N.compare 1 1) with Eq. cbv iota.
    destruct oa as [na|]; destruct ob as [nb|].
    + destruct (cmp_name e na nb); reflexivity.
    + change (N.compare 1 0) with Gt. destruct (cmp_name e na ib); reflexivity.
    + change (N.compare 0 1) with Lt. destruct (cmp_name e ia nb); reflexivity.
    + change (N.compare 0 0) with Eq. cbv iota. rewrite cmp_name_nil.
      destruct (cmp_name e ia ib); reflexivity.
  - change (N.compare 2 2) with Eq. change (N.compare 0 0) with Eq. cbv iota.
    rewrite !cmp_name_nil. reflexivity.
Qed.

Lemma items_total_preorder e : TotalPreorder (items_cmp e).
Proof. apply (tp_ext (items_key_cmp e)); [apply items_cmp_key|apply items_key_cmp_tp]. Qed.

(* items_cmp is compare_items wherever that does not panic, and it does not
   panic exactly on two `mod` items or two `extern crate` items *)
Lemma compare_items_agrees e a b c : compare_items e a b = Some c -> items_cmp e a b = c.
Proof. unfold items_cmp. intros ->. reflexivity. Qed.

Definition reorderable_pair (a b : item) : bool :=
  match it_kind a, it_kind b with
  | IMod, IMod | IExternCrate, IExternCrate => true
  | _, _ => false
  end.

Lemma compare_items_defined e a b :
  reorderable_pair a b = true <-> compare_items e a b = Some (items_cmp e a b).
Proof.
  unfold items_cmp, compare_items, reorderable_pair.
  destruct (it_kind a); destruct (it_kind b); split; intros H;
    try reflexivity; try discriminate H.
  - destruct (cmp_name e _ _); try reflexivity.
    destruct (it_orig a); destruct (it_orig b); reflexivity.
Qed.

(* the laws on compare_items itself, over items of one reorderable kind *)
Lemma compare_items_laws e k :
  k <> IOther ->
  (forall a, it_kind a = k -> compare_items e a a = Some Eq)
  /\ (forall a b ca, it_kind a = k -> it_kind b = k ->
        compare_items e a b = Some ca -> compare_items e b a = Some (CompOpp ca))
  /\ (forall a b c, it_kind a = k -> it_kind b = k -> it_kind c = k ->
        compare_items e a b = Some Lt -> compare_items e b c = Some Lt ->
        compare_items e a c = Some Lt)
  /\ (forall a b c, it_kind a = k -> it_kind b = k -> it_kind c = k ->
        compare_items e a b = Some Eq -> compare_items e a c = compare_items e b c).
Proof.
  intros Hk.
  assert (Hdef : forall a b, it_kind a = k -> it_kind b = k ->
                   compare_items e a b = Some (items_cmp e a b)).
  { intros a b Ha Hb. apply compare_items_defined. unfold reorderable_pair.
    rewrite Ha, Hb. destruct k; try reflexivity. exfalso. apply Hk. reflexivity. }
  pose proof (items_total_preorder e) as TP.
  split; [|split; [|split]].
  - intros a Ha. rewrite (Hdef a a Ha Ha), (tp_refl TP). reflexivity.
  - intros a b ca Ha Hb. rewrite (Hdef a b Ha Hb), (Hdef b a Hb Ha). intros H.
    injection H as <-. rewrite (tp_antisym TP a b). reflexivity.
  - intros a b c Ha Hb Hc. rewrite (Hdef a b Ha Hb), (Hdef b c Hb Hc), (Hdef a c Ha Hc).
    intros H1 H2. injection H1 as H1. injection H2 as H2.
    rewrite (tp_trans TP a b c H1 H2). reflexivity.
  - intros a b c Ha Hb Hc. rewrite (Hdef a b Ha Hb), (Hdef a c Ha Hc), (Hdef b c Hb Hc).
    intros H1. injection H1 as H1. rewrite (tp_eq_cong TP a b c H1). reflexivity.
Qed.

(* sorting items *)
Lemma items_order_insensitive e l1 l2 :
  Permutation l1 l2 ->
  (forall x y, In x l1 -> In y l1 -> items_cmp e x y = Eq -> x = y) ->
  sort_items e l1 = sort_items e l2.
Proof. apply (sort_unique (items_total_preorder e)). Qed.

Lemma sort_items_is_sort_by e l :
  Permutation l (sort_items e l) /\ SortedBy (items_cmp e) (sort_items e l)
  /\ StableWrt (items_cmp e) l (sort_items e l).
Proof.
  split; [apply isort_perm|]. split.
  - apply (isort_sorted (items_total_preorder e)).
  - apply (isort_stable (items_total_preorder e)).
Qed.

Lemma sort_items_any_stable_sort e l out :
  Permutation l out -> SortedBy (items_cmp e) out -> StableWrt (items_cmp e) l out ->
  out = sort_items e l.
Proof. apply (any_stable_sort_agrees (items_total_preorder e)). Qed.

(* which items are ranked Equal.  An item as the parser builds it: a `mod`
   has no original name; other kinds never reach the comparator. *)
Definition item_wf (i : item) : bool :=
  match it_kind i with
  | IMod => match it_orig i with None => true | Some _ => false end
  | IExternCrate => true
  | IOther => false
  end.
(* the names the comparator looks at *)
Definition item_names_fit (i : item) : bool :=
  digit_runs_fit (it_ident i)
  && match it_orig i with Some n => digit_runs_fit n | None => true end.

Lemma cmp_name_eq_identity e a b :
  (se_le_2021 e = true \/ (digit_runs_fit a = true /\ digit_runs_fit b = true)) ->
  cmp_name e a b = Eq -> a = b.
Proof.
  unfold cmp_name. intros H. destruct (se_le_2021 e).
  - apply cmp_text_eq.
  - destruct H as [H|[Ha Hb]]; [discriminate H|]. apply vs_eq_identity_fit; assumption.
Qed.

Lemma items_eq_identity e a b :
  (se_le_2021 e = true \/ (item_names_fit a = true /\ item_names_fit b = true)) ->
  item_wf a = true -> item_wf b = true -> items_cmp e a b = Eq -> a = b.
Proof.
  destruct a as [ka ia oa]; destruct b as [kb ib ob].
  unfold item_wf, item_names_fit, items_cmp, compare_items.
  cbn [it_kind it_ident it_orig].
  intros Hfit Ha Hb.
  destruct ka; destruct kb; cbn [kind_rank]; try discriminate Ha; try discriminate Hb;
    try (intros H; discriminate H).
  - destruct oa; [discriminate Ha|]. destruct ob; [discriminate Hb|].
    intros H. rewrite (cmp_name_eq_identity e ia ib); [reflexivity| |exact H].
    destruct Hfit as [Hl|[Hfa Hfb]]; [left; exact Hl|right].
    rewrite andb_true_r in Hfa, Hfb. split; assumption.
  - destruct oa as [na|]; destruct ob as [nb|].
    + destruct (cmp_name e na nb) eqn:En; try (intros H; discriminate H).
      intros H.
      assert (Hn : na = nb).
      { apply (cmp_name_eq_identity e); [|exact En].
        destruct Hfit as [Hl|[Hfa Hfb]]; [left; exact Hl|right].
        apply andb_true_iff in Hfa, Hfb. split; [exact (proj2 Hfa)|exact (proj2 Hfb)]. }
      assert (Hi : ia = ib).
      { apply (cmp_name_eq_identity e); [|exact H].
        destruct Hfit as [Hl|[Hfa Hfb]]; [left; exact Hl|right].
        apply andb_true_iff in Hfa, Hfb. split; [exact (proj1 Hfa)|exact (proj1 Hfb)]. }
      subst. reflexivity.
    + destruct (cmp_name e na ib); intros H; discriminate H.
    + destruct (cmp_name e ia nb); intros H; discriminate H.
    + destruct (cmp_name e ia ib) eqn:En; try (intros H; discriminate H).
      intros _. rewrite (cmp_name_eq_identity e ia ib); [reflexivity| |exact En].
      destruct Hfit as [Hl|[Hfa Hfb]]; [left; exact Hl|right].
      rewrite andb_true_r in Hfa, Hfb. split; assumption.
Qed.

Lemma items_order_insensitive_wf e l1 l2 :
  Permutation l1 l2 -> forallb item_wf l1 = true ->
  (se_le_2021 e = true \/ forallb item_names_fit l1 = true) ->
  sort_items e l1 = sort_items e l2.
Proof.
  intros Hp Hw Hf. apply items_order_insensitive; [exact Hp|].
  rewrite forallb_forall in Hw. intros x y Hx Hy.
  apply items_eq_identity; try (apply Hw; assumption).
  destruct Hf as [Hl|Hf]; [left; exact Hl|right].
  rewrite forallb_forall in Hf. split; apply Hf; assumption.
Qed.

(* the same witness as `extern crate` declarations under style edition 2024 *)
Definition ovf_item_a : item := MkItem IExternCrate ovf_a None.
Definition ovf_item_b : item := MkItem IExternCrate ovf_b None.

Lemma items_order_insensitive_refuted :
  exists l1 l2, Permutation l1 l2 /\ NoDup l1 /\ forallb item_wf l1 = true
                /\ sort_items SE2024 l1 <> sort_items SE2024 l2.
Proof.
  assert (Hd : ovf_item_a <> ovf_item_b).
  { intros H. apply (f_equal it_ident) in H. exact (ovf_distinct H). }
  exists [ovf_item_a; ovf_item_b], [ovf_item_b; ovf_item_a].
  split; [apply perm_swap|]. split; [|split; [reflexivity|]].
  - constructor.
    + intros [H|[]]. exact (Hd (eq_sym H)).
    + constructor; [intros []|constructor].
  - assert (E1 : sort_items SE2024 [ovf_item_a; ovf_item_b] = [ovf_item_a; ovf_item_b])
      by (vm_compute; reflexivity).
    assert (E2 : sort_items SE2024 [ovf_item_b; ovf_item_a] = [ovf_item_b; ovf_item_a])
      by (vm_compute; reflexivity).
    rewrite E1, E2. intros H. apply (f_equal (hd ovf_item_a)) in H. cbn [hd] in H.
    exact (Hd H).
Qed.
