(* C11/Model.v — executable model of rustfmt's reordering comparators.
   Sources modelled:
     src/sort.rs:15-51     VersionChunkIter::parse_numeric_chunk  (parse_numeric_chunk)
     src/sort.rs:53-87     VersionChunkIter::parse_str_chunk      (parse_str_chunk)
     src/sort.rs:90-108    Iterator for VersionChunkIter          (vc_next, chunks)
     src/sort.rs:112-131   VersionChunk, MoreLeadingZeros         (chunk, mlz)
     src/sort.rs:136-196   version_sort                           (vs_loop, version_sort)
     src/reorder.rs:28-69  compare_items                          (compare_items)
     src/reorder.rs:185    item_pair_vec.sort_by(compare_items)   (sort_items)
     src/config/options.rs:514  StyleEdition                      (style_edition)
   Identifiers are texts (lists of Unicode scalar values); str::cmp, which
   compares UTF-8 bytes lexicographically, is the lexicographic comparison of
   the code points (UTF-8 preserves their order).
   Definitions only; proofs are in Lemmas.v. *)
From V Require Import Base.Text C11.Ord.
Local Open Scope N_scope.

(* <str as Ord>::cmp *)
Definition cmp_text (a b : text) : comparison := cmp_lex N.compare a b.

(* char::is_ascii_digit *)
Definition is_ascii_digit (c : char) : bool := (48 <=? c) && (c <=? 57).
Definition UNDERSCORE : char := 95.
Definition ZERO : char := 48.

(* usize::MAX + 1 on the 64-bit targets rustfmt is built for *)
Definition USIZE_LIMIT : N := 18446744073709551616.

(* ------------------------------------------------------------------ *)
(* VersionChunk *)
Inductive chunk : Type :=
| Underscore
| Str (s : text)
| Number (value : N) (zeros : nat) (source : text).

(* the longest prefix whose characters satisfy [p], and the rest: the
   `while let Some((idx, c)) = chars.next()` loops, which stop at the first
   character that ends the chunk or at the end of the identifier *)
Fixpoint span (p : char -> bool) (t : text) : text * text :=
  match t with
  | [] => ([], [])
  | c :: t' => if p c then let (a, r) := span p t' in (c :: a, r) else ([], t)
  end.

(* source.parse::<usize>() on a string of ASCII digits: the decimal value,
   Err(PosOverflow) when it does not fit *)
Fixpoint digits_value (acc : N) (t : text) : N :=
  match t with
  | [] => acc
  | c :: t' => digits_value (acc * 10 + (c - ZERO)) t'
  end.
Definition parse_usize (src : text) : option N :=
  let v := digits_value 0 src in
  if v <? USIZE_LIMIT then Some v else None.

(* source.chars().take_while(|c| *c == '0').count() *)
Definition leading_zeros (src : text) : nat := length (fst (span (fun c => c =? ZERO) src)).

(* sort.rs:15 parse_numeric_chunk; [c] is the digit `next` has consumed, [t]
   the characters after it.  Result: the chunk and ident[self.start..] after
   the call; None is the `.ok()?` exit on overflow. *)
Definition parse_numeric_chunk (c : char) (t : text) : option (chunk * text) :=
  let (s, rest) := span is_ascii_digit t in
  let source := c :: s in
  let zeros := leading_zeros source in
  match parse_usize source with
  | Some value => Some (Number value zeros source, rest)
  | None => None
  end.

(* sort.rs:53 parse_str_chunk; [c] is neither '_' nor an ASCII digit *)
Definition str_continues (c : char) : bool := negb (c =? UNDERSCORE) && negb (is_ascii_digit c).
Definition parse_str_chunk (c : char) (t : text) : option (chunk * text) :=
  let (s, rest) := span str_continues t in
  Some (Str (c :: s), rest).

(* sort.rs:93 next; [t] is ident[self.start..] *)
Definition vc_next (t : text) : option (chunk * text) :=
  match t with
  | [] => None
  | c :: t' =>
      if c =? UNDERSCORE then Some (Underscore, t')
      else if is_ascii_digit c then parse_numeric_chunk c t'
      else parse_str_chunk c t'
  end.

(* the items the iterator yields until its first None (zip_longest fuses both
   iterators, itertools-0.12.1/src/zip_longest.rs); every call consumes at
   least one character, so [length t] steps are enough *)
Fixpoint chunks_fuel (n : nat) (t : text) : list chunk :=
  match n with
  | O => []
  | S n' => match vc_next t with
            | None => []
            | Some (ch, rest) => ch :: chunks_fuel n' rest
            end
  end.
Definition chunks (t : text) : list chunk := chunks_fuel (length t) t.

(* ------------------------------------------------------------------ *)
(* MoreLeadingZeros *)
Inductive mlz : Type := MLeft | MRight | MEqual.
Definition mlz_is_equal (m : mlz) : bool := match m with MEqual => true | _ => false end.

(* sort.rs:141-195: the loop over zip_longest and the final match *)
Fixpoint vs_loop (reg : mlz) (ca cb : list chunk) : comparison :=
  match ca, cb with
  | [], [] => match reg with MEqual => Eq | MLeft => Lt | MRight => Gt end
  | _ :: _, [] => Gt                                   (* EitherOrBoth::Left  *)
  | [], _ :: _ => Lt                                   (* EitherOrBoth::Right *)
  | a :: ca', b :: cb' =>
      match a, b with
      | Underscore, Underscore => vs_loop reg ca' cb'
      | Underscore, _ => Lt
      | _, Underscore => Gt
      | Str sa, Str sb
      | Str sa, Number _ _ sb
      | Number _ _ sa, Str sb =>
          match cmp_text sa sb with
          | Eq => vs_loop reg ca' cb'
          | o => o
          end
      | Number va lza _, Number vb lzb _ =>
          match N.compare va vb with
          | Eq =>
              if Nat.eqb lza lzb then vs_loop reg ca' cb'
              else
                let reg' :=
                  if mlz_is_equal reg && Nat.ltb lzb lza then MLeft
                  else if mlz_is_equal reg && Nat.ltb lza lzb then MRight
                  else reg in
                vs_loop reg' ca' cb'
          | o => o
          end
      end
  end.

(* sort.rs:136 version_sort *)
Definition version_sort (a b : text) : comparison :=
  vs_loop MEqual (chunks a) (chunks b).

(* ------------------------------------------------------------------ *)
(* compare_items *)
Inductive style_edition : Type := SE2015 | SE2018 | SE2021 | SE2024 | SE2027.
(* style_edition <= StyleEdition::Edition2021 *)
Definition se_le_2021 (e : style_edition) : bool :=
  match e with SE2015 | SE2018 | SE2021 => true | SE2024 | SE2027 => false end.

(* what compare_items reads of an ast::Item:
     ItemKind::Mod(_, ident, _)               IMod, it_ident = ident
     ItemKind::ExternCrate(orig_name, ident)  IExternCrate, it_orig = orig_name
       (`extern crate foo as bar;` has orig_name = Some(foo), ident = bar;
        `extern crate foo;` has orig_name = None, ident = foo)
     any other kind                           IOther *)
Inductive item_kind : Type := IMod | IExternCrate | IOther.
Record item : Type := MkItem {
  it_kind : item_kind;
  it_ident : text;
  it_orig : option text
}.

(* the comparison of two names under a style edition *)
Definition cmp_name (e : style_edition) (a b : text) : comparison :=
  if se_le_2021 e then cmp_text a b else version_sort a b.

(* reorder.rs:28 compare_items; None is `unreachable!()` *)
Definition compare_items (e : style_edition) (a b : item) : option comparison :=
  match it_kind a, it_kind b with
  | IMod, IMod => Some (cmp_name e (it_ident a) (it_ident b))
  | IExternCrate, IExternCrate =>
      let a_orig_name := match it_orig a with Some n => n | None => it_ident a end in
      let b_orig_name := match it_orig b with Some n => n | None => it_ident b end in
      let result := cmp_name e a_orig_name b_orig_name in
      match result with
      | Eq =>
          match it_orig a, it_orig b with
          | Some _, None => Some Gt
          | None, Some _ => Some Lt
          | None, None => Some Eq
          | Some _, Some _ => Some (cmp_name e (it_ident a) (it_ident b))
          end
      | _ => Some result
      end
  | _, _ => None
  end.

(* ------------------------------------------------------------------ *)
(* derived definitions used in the statements *)

(* a total extension of compare_items: where compare_items is defined it is
   this function; items of different kinds are ranked by kind, two IOther
   items are ranked equal *)
Definition kind_rank (k : item_kind) : N :=
  match k with IMod => 0 | IExternCrate => 1 | IOther => 2 end.
Definition items_cmp (e : style_edition) (a b : item) : comparison :=
  match compare_items e a b with
  | Some c => c
  | None => N.compare (kind_rank (it_kind a)) (kind_rank (it_kind b))
  end.

(* slice::sort_by is a stable sort; reorder.rs:185 on a run of same-kind items *)
Definition sort_items (e : style_edition) (l : list item) : list item := isort (items_cmp e) l.
Definition sort_names (l : list text) : list text := isort version_sort l.

(* the characters of a chunk *)
Definition chunk_source (c : chunk) : text :=
  match c with Underscore => [UNDERSCORE] | Str s => s | Number _ _ s => s end.
(* the chunk iterator reads the identifier to its end, i.e. no numeric chunk
   overflows usize *)
Definition chunks_cover (t : text) : bool := eqb_text (concat (map chunk_source (chunks t))) t.

(* every maximal run of ASCII digits denotes a number below 2^64 *)
Fixpoint digit_runs_fit_aux (acc : N) (t : text) : bool :=
  match t with
  | [] => acc <? USIZE_LIMIT
  | c :: t' =>
      if is_ascii_digit c then digit_runs_fit_aux (acc * 10 + (c - ZERO)) t'
      else (acc <? USIZE_LIMIT) && digit_runs_fit_aux 0 t'
  end.
Definition digit_runs_fit (t : text) : bool := digit_runs_fit_aux 0 t.
