(* C11/Ord.v — generic order theory for comparison functions
   [cmp : A -> A -> comparison] (Rust: FnMut(&T, &T) -> Ordering):
   total preorders, combinators that build them, a stable insertion sort and
   the facts that make it a specification of any stable sort
   (slice::sort_by, Vec::sort). *)
From Coq Require Import List Permutation Sorted Bool Arith NArith Lia.
Import ListNotations.


(* ------------------------------------------------------------------ *)
(* comparison helpers *)
Definition is_eq (c : comparison) : bool := match c with Eq => true | _ => false end.

Lemma CompOpp_Eq c : CompOpp c = Eq <-> c = Eq.
Proof. destruct c; cbn; split; intros H; try reflexivity; discriminate H. Qed.
Lemma CompOpp_Lt c : CompOpp c = Lt <-> c = Gt.
Proof. destruct c; cbn; split; intros H; try reflexivity; discriminate H. Qed.
Lemma CompOpp_Gt c : CompOpp c = Gt <-> c = Lt.
Proof. destruct c; cbn; split; intros H; try reflexivity; discriminate H. Qed.

(* ------------------------------------------------------------------ *)
(* total preorders presented by a three-way comparison *)
Record TotalPreorder (A : Type) (cmp : A -> A -> comparison) : Prop := MkTP {
  tp_refl    : forall a, cmp a a = Eq;
  tp_antisym : forall a b, cmp b a = CompOpp (cmp a b);
  tp_trans   : forall a b c, cmp a b = Lt -> cmp b c = Lt -> cmp a c = Lt;
  tp_eq_cong : forall a b c, cmp a b = Eq -> cmp a c = cmp b c
}.
Arguments TotalPreorder {A} cmp.
Arguments MkTP {A cmp} _ _ _ _.
Arguments tp_refl {A cmp} _ a.
Arguments tp_antisym {A cmp} _ a b.
Arguments tp_trans {A cmp} _ a b c _ _.
Arguments tp_eq_cong {A cmp} _ a b c _.

Section Laws.
Variable A : Type.
Variable cmp : A -> A -> comparison.
Hypothesis TP : TotalPreorder cmp.

Lemma tp_eq_sym a b : cmp a b = Eq -> cmp b a = Eq.
Proof. intros H. rewrite (tp_antisym TP a b), H. reflexivity. Qed.

Lemma tp_eq_cong_r a b c : cmp a b = Eq -> cmp c a = cmp c b.
Proof.
  intros H. rewrite (tp_antisym TP a c), (tp_antisym TP b c).
  rewrite (tp_eq_cong TP a b c H). reflexivity.
Qed.

Lemma tp_gt_lt a b : cmp a b = Gt <-> cmp b a = Lt.
Proof. rewrite (tp_antisym TP a b). symmetry. apply CompOpp_Lt. Qed.

(* a <= b *)
Definition le_of (a b : A) : Prop := cmp a b <> Gt.

Lemma le_of_trans a b c : le_of a b -> le_of b c -> le_of a c.
Proof.
  unfold le_of. intros Hab Hbc.
  destruct (cmp a b) eqn:Eab.
  - rewrite (tp_eq_cong TP a b c Eab). exact Hbc.
  - destruct (cmp b c) eqn:Ebc.
    + rewrite <- (tp_eq_cong_r b c a Ebc), Eab. discriminate.
    + rewrite (tp_trans TP a b c Eab Ebc). discriminate.
    + exfalso. apply Hbc. reflexivity.
  - exfalso. apply Hab. reflexivity.
Qed.

Lemma le_of_total a b : le_of a b \/ le_of b a.
Proof.
  unfold le_of. rewrite (tp_antisym TP a b).
  destruct (cmp a b); cbn; [left|left|right]; discriminate.
Qed.

Lemma le_of_both_eq a b : le_of a b -> le_of b a -> cmp a b = Eq.
Proof.
  unfold le_of. rewrite (tp_antisym TP a b).
  destruct (cmp a b); cbn; intros H1 H2.
  - reflexivity.
  - exfalso. apply H2. reflexivity.
  - exfalso. apply H1. reflexivity.
Qed.
End Laws.
Arguments tp_eq_sym {A cmp} TP a b _.
Arguments tp_eq_cong_r {A cmp} TP a b c _.
Arguments tp_gt_lt {A cmp} TP a b.
Arguments le_of {A} cmp a b.
Arguments le_of_trans {A cmp} TP a b c _ _.
Arguments le_of_total {A cmp} TP a b.
Arguments le_of_both_eq {A cmp} TP a b _ _.

(* a comparison pointwise equal to a total preorder is one *)
Lemma tp_ext (A : Type) (c1 c2 : A -> A -> comparison) :
  (forall a b, c2 a b = c1 a b) -> TotalPreorder c1 -> TotalPreorder c2.
Proof.
  intros He TP. constructor.
  - intros a. rewrite He. apply (tp_refl TP).
  - intros a b. rewrite !He. apply (tp_antisym TP).
  - intros a b c. rewrite !He. apply (tp_trans TP).
  - intros a b c. rewrite !He. apply (tp_eq_cong TP).
Qed.
Arguments tp_ext {A} c1 c2 _ _.

(* ------------------------------------------------------------------ *)
(* combinators *)
Section Combinators.
Variables A B : Type.

(* compare through a projection *)
Definition cmp_on (f : B -> A) (cmp : A -> A -> comparison) (x y : B) : comparison :=
  cmp (f x) (f y).

Lemma cmp_on_tp (f : B -> A) cmp : TotalPreorder cmp -> TotalPreorder (cmp_on f cmp).
Proof.
  intros TP. unfold cmp_on. constructor.
  - intros a. apply (tp_refl TP).
  - intros a b. apply (tp_antisym TP).
  - intros a b c. apply (tp_trans TP).
  - intros a b c. apply (tp_eq_cong TP).
Qed.

(* reversed order *)
Definition cmp_flip (cmp : A -> A -> comparison) (x y : A) : comparison := cmp y x.

Lemma cmp_flip_tp cmp : TotalPreorder cmp -> TotalPreorder (cmp_flip cmp).
Proof.
  intros TP. unfold cmp_flip. constructor.
  - intros a. apply (tp_refl TP).
  - intros a b. apply (tp_antisym TP).
  - intros a b c Hab Hbc. exact (tp_trans TP c b a Hbc Hab).
  - intros a b c Hab. apply (tp_eq_cong_r TP). apply (tp_eq_sym TP). exact Hab.
Qed.

(* Ordering::then / "if result != Equal return result; second" *)
Definition cmp_then (c1 c2 : A -> A -> comparison) (x y : A) : comparison :=
  match c1 x y with Eq => c2 x y | o => o end.

Lemma cmp_then_tp c1 c2 :
  TotalPreorder c1 -> TotalPreorder c2 -> TotalPreorder (cmp_then c1 c2).
Proof.
  intros T1 T2. unfold cmp_then. constructor.
  - intros a. rewrite (tp_refl T1). apply (tp_refl T2).
  - intros a b. rewrite (tp_antisym T1 a b).
    destruct (c1 a b); cbn; try reflexivity. apply (tp_antisym T2).
  - intros a b c.
    destruct (c1 a b) eqn:Eab.
    + rewrite (tp_eq_cong T1 a b c Eab).
      destruct (c1 b c) eqn:Ebc; intros Hab Hbc; try assumption.
      exact (tp_trans T2 a b c Hab Hbc).
    + intros _.
      destruct (c1 b c) eqn:Ebc; intros Hbc; try discriminate Hbc.
      * rewrite <- (tp_eq_cong_r T1 b c a Ebc), Eab. reflexivity.
      * rewrite (tp_trans T1 a b c Eab Ebc). reflexivity.
    + intros H; discriminate H.
  - intros a b c.
    destruct (c1 a b) eqn:Eab; intros Hab; try discriminate Hab.
    rewrite (tp_eq_cong T1 a b c Eab).
    destruct (c1 b c); try reflexivity.
    apply (tp_eq_cong T2). exact Hab.
Qed.
End Combinators.
Arguments cmp_on {A B} f cmp x y.
Arguments cmp_flip {A} cmp x y.
Arguments cmp_then {A} c1 c2 x y.
Arguments cmp_on_tp {A B} f cmp _.
Arguments cmp_flip_tp {A} cmp _.
Arguments cmp_then_tp {A} c1 c2 _ _.

(* lexicographic comparison of lists (slice / str Ord): a proper prefix is Less *)
Section Lex.
Variable A : Type.
Variable cmp : A -> A -> comparison.

Fixpoint cmp_lex (l1 l2 : list A) : comparison :=
  match l1, l2 with
  | [], [] => Eq
  | [], _ :: _ => Lt
  | _ :: _, [] => Gt
  | x :: l1', y :: l2' => match cmp x y with Eq => cmp_lex l1' l2' | o => o end
  end.

Hypothesis TP : TotalPreorder cmp.

Lemma cmp_lex_refl l : cmp_lex l l = Eq.
Proof.
  induction l as [|x l IH]; cbn [cmp_lex].
  - reflexivity.
  - rewrite (tp_refl TP). exact IH.
Qed.

Lemma cmp_lex_antisym l1 l2 : cmp_lex l2 l1 = CompOpp (cmp_lex l1 l2).
Proof.
  revert l2. induction l1 as [|x l1 IH]; intros [|y l2]; cbn [cmp_lex]; try reflexivity.
  rewrite (tp_antisym TP x y).
  destruct (cmp x y); cbn; try reflexivity. apply IH.
Qed.

Lemma cmp_lex_trans l1 l2 l3 :
  cmp_lex l1 l2 = Lt -> cmp_lex l2 l3 = Lt -> cmp_lex l1 l3 = Lt.
Proof.
  revert l2 l3. induction l1 as [|x l1 IH]; intros [|y l2] [|z l3]; cbn [cmp_lex];
    try (intros H1 H2; first [reflexivity | discriminate H1 | discriminate H2]).
  destruct (cmp x y) eqn:Exy.
  - rewrite (tp_eq_cong TP x y z Exy).
    destruct (cmp y z) eqn:Eyz; intros H1 H2; try assumption.
    exact (IH l2 l3 H1 H2).
  - intros _.
    destruct (cmp y z) eqn:Eyz; intros H2; try discriminate H2.
    + rewrite <- (tp_eq_cong_r TP y z x Eyz), Exy. reflexivity.
    + rewrite (tp_trans TP x y z Exy Eyz). reflexivity.
  - intros H1; discriminate H1.
Qed.

Lemma cmp_lex_eq_cong l1 l2 l3 :
  cmp_lex l1 l2 = Eq -> cmp_lex l1 l3 = cmp_lex l2 l3.
Proof.
  revert l2 l3. induction l1 as [|x l1 IH]; intros [|y l2] [|z l3]; cbn [cmp_lex];
    try (intros H1; first [reflexivity | discriminate H1]).
  destruct (cmp x y) eqn:Exy; intros H1; try discriminate H1.
  rewrite (tp_eq_cong TP x y z Exy).
  destruct (cmp y z); try reflexivity.
  apply IH. exact H1.
Qed.

Lemma cmp_lex_tp : TotalPreorder cmp_lex.
Proof.
  constructor.
  - exact cmp_lex_refl.
  - exact cmp_lex_antisym.
  - exact cmp_lex_trans.
  - exact cmp_lex_eq_cong.
Qed.

(* when Eq of the element comparison is identity, so is Eq of the list one *)
Lemma cmp_lex_eq_inv l1 l2 :
  (forall x y, cmp x y = Eq -> x = y) -> cmp_lex l1 l2 = Eq -> l1 = l2.
Proof.
  intros Hid. revert l2. induction l1 as [|x l1 IH]; intros [|y l2]; cbn [cmp_lex];
    intros H; try reflexivity; try discriminate H.
  destruct (cmp x y) eqn:Exy; try discriminate H.
  rewrite (Hid x y Exy), (IH l2 H). reflexivity.
Qed.
End Lex.
Arguments cmp_lex {A} cmp l1 l2.
Arguments cmp_lex_tp {A cmp} TP.
Arguments cmp_lex_eq_inv {A} cmp l1 l2 _ _.

(* base instances *)
Lemma N_compare_tp : TotalPreorder N.compare.
Proof.
  constructor.
  - exact N.compare_refl.
  - intros a b. apply N.compare_antisym.
  - intros a b c. rewrite !N.compare_lt_iff. lia.
  - intros a b c H. apply N.compare_eq in H. subst b. reflexivity.
Qed.

Lemma nat_compare_tp : TotalPreorder Nat.compare.
Proof.
  constructor.
  - exact Nat.compare_refl.
  - intros a b. apply Nat.compare_antisym.
  - intros a b c. rewrite !Nat.compare_lt_iff. lia.
  - intros a b c H. apply Nat.compare_eq in H. subst b. reflexivity.
Qed.

(* ------------------------------------------------------------------ *)
(* a stable insertion sort *)
Section Sort.
Variable A : Type.
Variable cmp : A -> A -> comparison.

(* [x] goes in front of the first element it is not Greater than *)
Fixpoint insert (x : A) (l : list A) : list A :=
  match l with
  | [] => [x]
  | y :: l' => match cmp x y with
               | Gt => y :: insert x l'
               | _ => x :: l
               end
  end.

Fixpoint isort (l : list A) : list A :=
  match l with
  | [] => []
  | x :: l' => insert x (isort l')
  end.

(* adjacent elements are in order *)
Definition SortedBy (l : list A) : Prop := Sorted (le_of cmp) l.
(* the members of the Eq-class of [x], in list order *)
Definition eq_class (x : A) (l : list A) : list A := filter (fun y => is_eq (cmp x y)) l.
(* [out] keeps the elements of every Eq-class of [l] in their order *)
Definition StableWrt (l out : list A) : Prop := forall x, eq_class x out = eq_class x l.

Lemma insert_perm x l : Permutation (x :: l) (insert x l).
Proof.
  induction l as [|y l IH]; cbn [insert].
  - apply Permutation_refl.
  - destruct (cmp x y); try apply Permutation_refl.
    eapply Permutation_trans; [apply perm_swap|]. apply perm_skip. exact IH.
Qed.

Lemma isort_perm l : Permutation l (isort l).
Proof.
  induction l as [|x l IH]; cbn [isort].
  - apply perm_nil.
  - eapply Permutation_trans; [apply perm_skip; exact IH|]. apply insert_perm.
Qed.

Lemma sorted_isort_id l : SortedBy l -> isort l = l.
Proof.
  unfold SortedBy. induction l as [|x l IH]; intros Hs; cbn [isort].
  - reflexivity.
  - inversion Hs as [|x' l' Hs' Hhd]; subst.
    rewrite (IH Hs').
    destruct l as [|y l]; cbn [insert].
    + reflexivity.
    + inversion Hhd as [|y' l'' Hle]; subst. unfold le_of in Hle.
      destruct (cmp x y); try reflexivity. exfalso. apply Hle. reflexivity.
Qed.

Hypothesis TP : TotalPreorder cmp.

Lemma insert_sorted x l : SortedBy l -> SortedBy (insert x l).
Proof.
  unfold SortedBy. induction l as [|y l IH]; intros Hs; cbn [insert].
  - constructor; constructor.
  - destruct (cmp x y) eqn:Exy.
    + constructor; [exact Hs|]. constructor. unfold le_of. rewrite Exy. discriminate.
    + constructor; [exact Hs|]. constructor. unfold le_of. rewrite Exy. discriminate.
    + inversion Hs as [|y' l' Hs' Hhd]; subst.
      constructor; [exact (IH Hs')|].
      assert (Hyx : le_of cmp y x).
      { unfold le_of. apply (tp_gt_lt TP) in Exy. rewrite Exy. discriminate. }
      destruct l as [|z l]; cbn [insert].
      * constructor. exact Hyx.
      * inversion Hhd as [|z' l'' Hyz]; subst.
        destruct (cmp x z); constructor; assumption.
Qed.

Lemma isort_sorted l : SortedBy (isort l).
Proof.
  induction l as [|x l IH]; cbn [isort].
  - constructor.
  - apply insert_sorted. exact IH.
Qed.

Lemma insert_eq_class x0 x l : eq_class x (insert x0 l) = eq_class x (x0 :: l).
Proof.
  unfold eq_class. induction l as [|y l IH]; cbn [insert].
  - reflexivity.
  - destruct (cmp x0 y) eqn:E0y; try reflexivity.
    cbn [filter] in *.
    destruct (is_eq (cmp x y)) eqn:Exy.
    + destruct (is_eq (cmp x x0)) eqn:Exx0.
      * exfalso.
        destruct (cmp x y) eqn:Cxy; try discriminate Exy.
        destruct (cmp x x0) eqn:Cxx0; try discriminate Exx0.
        rewrite <- (tp_eq_cong TP x x0 y Cxx0), Cxy in E0y. discriminate E0y.
      * rewrite IH. reflexivity.
    + rewrite IH. reflexivity.
Qed.

Lemma isort_stable l : StableWrt l (isort l).
Proof.
  intros x. induction l as [|x0 l IH]; cbn [isort].
  - reflexivity.
  - rewrite insert_eq_class. unfold eq_class in *. cbn [filter]. rewrite IH. reflexivity.
Qed.

Lemma sorted_strongly l : SortedBy l -> StronglySorted (le_of cmp) l.
Proof.
  apply Sorted_StronglySorted. intros a b c. apply (le_of_trans TP).
Qed.

Lemma eq_class_head x l : eq_class x (x :: l) = x :: eq_class x l.
Proof. unfold eq_class. cbn [filter]. rewrite (tp_refl TP). reflexivity. Qed.

(* a sorted list is determined by its Eq-classes *)
Lemma sorted_classes_unique l1 l2 :
  SortedBy l1 -> SortedBy l2 -> (forall x, eq_class x l1 = eq_class x l2) -> l1 = l2.
Proof.
  intros S1 S2. apply sorted_strongly in S1. apply sorted_strongly in S2.
  revert l2 S2. induction l1 as [|x t1 IH]; intros l2 S2 Hc.
  - destruct l2 as [|y t2]; [reflexivity|].
    specialize (Hc y). rewrite eq_class_head in Hc. discriminate Hc.
  - destruct l2 as [|y t2].
    { specialize (Hc x). rewrite eq_class_head in Hc. discriminate Hc. }
    inversion S1 as [|x' t1' S1' F1]; subst.
    inversion S2 as [|y' t2' S2' F2]; subst.
    assert (Hxy : cmp x y = Eq).
    { apply (le_of_both_eq TP).
      - assert (Hin : In y (x :: t1)).
        { assert (Hy : In y (eq_class y (x :: t1))).
          { rewrite Hc, eq_class_head. left. reflexivity. }
          unfold eq_class in Hy. apply filter_In in Hy. exact (proj1 Hy). }
        destruct Hin as [->|Hin].
        + unfold le_of. rewrite (tp_refl TP). discriminate.
        + rewrite Forall_forall in F1. exact (F1 y Hin).
      - assert (Hin : In x (y :: t2)).
        { assert (Hx : In x (eq_class x (y :: t2))).
          { rewrite <- Hc, eq_class_head. left. reflexivity. }
          unfold eq_class in Hx. apply filter_In in Hx. exact (proj1 Hx). }
        destruct Hin as [->|Hin].
        + unfold le_of. rewrite (tp_refl TP). discriminate.
        + rewrite Forall_forall in F2. exact (F2 x Hin). }
    assert (Hyx : y = x).
    { pose proof (Hc x) as Hx. rewrite eq_class_head in Hx.
      unfold eq_class in Hx. cbn [filter] in Hx. rewrite Hxy in Hx. cbn [is_eq] in Hx.
      inversion Hx. reflexivity. }
    subst y. f_equal.
    apply (IH S1' t2 S2').
    intros z. pose proof (Hc z) as Hz. unfold eq_class in *. cbn [filter] in Hz.
    destruct (is_eq (cmp z x)).
    + inversion Hz. reflexivity.
    + exact Hz.
Qed.

(* any stable sorting algorithm computes [isort] *)
Lemma any_stable_sort_agrees l out :
  Permutation l out -> SortedBy out -> StableWrt l out -> out = isort l.
Proof.
  intros _ Hs Hst. apply sorted_classes_unique.
  - exact Hs.
  - apply isort_sorted.
  - intros x. rewrite (Hst x). symmetry. apply isort_stable.
Qed.

(* sorted permutations are unique when Eq-classes are singletons *)
Lemma sorted_perm_unique l1 l2 :
  SortedBy l1 -> SortedBy l2 -> Permutation l1 l2 ->
  (forall x y, In x l1 -> In y l1 -> cmp x y = Eq -> x = y) -> l1 = l2.
Proof.
  intros S1 S2. apply sorted_strongly in S1. apply sorted_strongly in S2.
  revert l2 S2. induction l1 as [|x t1 IH]; intros l2 S2 Hp Hid.
  - apply Permutation_nil in Hp. symmetry. exact Hp.
  - destruct l2 as [|y t2].
    { apply Permutation_sym, Permutation_nil in Hp. discriminate Hp. }
    inversion S1 as [|x' t1' S1' F1]; subst.
    inversion S2 as [|y' t2' S2' F2]; subst.
    assert (Hyin : In y (x :: t1)).
    { apply (Permutation_in y (Permutation_sym Hp)). left. reflexivity. }
    assert (Hxin : In x (y :: t2)).
    { apply (Permutation_in x Hp). left. reflexivity. }
    assert (Hxy : cmp x y = Eq).
    { apply (le_of_both_eq TP).
      - destruct Hyin as [->|Hin].
        + unfold le_of. rewrite (tp_refl TP). discriminate.
        + rewrite Forall_forall in F1. exact (F1 y Hin).
      - destruct Hxin as [->|Hin].
        + unfold le_of. rewrite (tp_refl TP). discriminate.
        + rewrite Forall_forall in F2. exact (F2 x Hin). }
    assert (Heq : x = y).
    { apply Hid; [left; reflexivity|exact Hyin|exact Hxy]. }
    subst y. f_equal. apply (IH S1' t2 S2').
    + exact (Permutation_cons_inv Hp).
    + intros a b Ha Hb. apply Hid; right; assumption.
Qed.

(* order-insensitivity: the result depends on the multiset only *)
Lemma sort_unique l1 l2 :
  Permutation l1 l2 ->
  (forall x y, In x l1 -> In y l1 -> cmp x y = Eq -> x = y) ->
  isort l1 = isort l2.
Proof.
  intros Hp Hid. apply sorted_perm_unique.
  - apply isort_sorted.
  - apply isort_sorted.
  - eapply Permutation_trans; [apply Permutation_sym, isort_perm|].
    eapply Permutation_trans; [exact Hp|]. apply isort_perm.
  - intros x y Hx Hy. apply Hid.
    + exact (Permutation_in x (Permutation_sym (isort_perm l1)) Hx).
    + exact (Permutation_in y (Permutation_sym (isort_perm l1)) Hy).
Qed.
End Sort.
Arguments insert {A} cmp x l.
Arguments isort {A} cmp l.
Arguments SortedBy {A} cmp l.
Arguments eq_class {A} cmp x l.
Arguments StableWrt {A} cmp l out.
Arguments isort_perm {A} cmp l.
Arguments sorted_isort_id {A} cmp l _.
Arguments isort_sorted {A cmp} TP l.
Arguments isort_stable {A cmp} TP l.
Arguments any_stable_sort_agrees {A cmp} TP l out _ _ _.
Arguments sort_unique {A cmp} TP l1 l2 _ _.
Arguments sorted_perm_unique {A cmp} TP l1 l2 _ _ _ _.
Arguments sorted_classes_unique {A cmp} TP l1 l2 _ _ _.
