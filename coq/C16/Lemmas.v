From V Require Import Base.Text C16.Model.
From Coq Require Import Lia.
Arguments N.add : simpl never.
Arguments N.sub : simpl never.
Arguments N.leb : simpl never.

Lemma checked_sub_spec a b : (b <= a -> checked_sub a b = Some (a - b)) /\ (a < b -> checked_sub a b = None).
Proof.
  unfold checked_sub. destruct (N.leb_spec b a); split; intros; try reflexivity; lia.
Qed.

(* the checked operations fail exactly when the requested width is not available; they never underflow *)
Lemma sub_width_opt_spec s d :
  (d <= width s -> sub_width_opt s d = Some (MkShape (width s - d) (ind s) (offset s))) /\
  (width s < d -> sub_width_opt s d = None).
Proof.
  unfold sub_width_opt. destruct (checked_sub_spec (width s) d) as [H1 H2].
  split; intros H; [rewrite (H1 H)|rewrite (H2 H)]; reflexivity.
Qed.

Lemma shrink_left_opt_spec s d :
  (d <= width s -> shrink_left_opt s d = Some (MkShape (width s - d) (indent_add_n (ind s) d) (offset s + d))) /\
  (width s < d -> shrink_left_opt s d = None).
Proof.
  unfold shrink_left_opt. destruct (checked_sub_spec (width s) d) as [H1 H2].
  split; intros H; [rewrite (H1 H)|rewrite (H2 H)]; reflexivity.
Qed.

(* the right edge never moves right: used_width + width does not grow under the left-shrinking operations *)
Lemma shrink_left_edge s d s' : shrink_left_opt s d = Some s' -> used_width s' + width s' = used_width s + width s.
Proof.
  unfold shrink_left_opt, checked_sub. destruct (N.leb_spec d (width s)) as [H|H]; [|discriminate].
  intros E. inversion E. subst s'. unfold used_width, indent_add_n. cbn [block ind offset width]. lia.
Qed.
Lemma offset_left_edge s d s' : offset_left_opt s d = Some s' -> used_width s' + width s' = used_width s + width s.
Proof.
  unfold offset_left_opt, sub_width_opt, add_offset, checked_sub. cbn [width ind offset].
  destruct (N.leb_spec d (width s)) as [H|H]; [|discriminate].
  intros E. inversion E. subst s'. unfold used_width. cbn [block ind offset width]. lia.
Qed.
Lemma sub_width_edge s d s' : sub_width_opt s d = Some s' -> used_width s' + width s' <= used_width s + width s.
Proof.
  unfold sub_width_opt, checked_sub. destruct (N.leb_spec d (width s)) as [H|H]; [|discriminate].
  intros E. inversion E. subst s'. unfold used_width. cbn [block ind offset width]. lia.
Qed.

(* the unchecked Indent subtractions are defined exactly under their precondition *)
Lemma indent_sub_defined a b : (exists c, indent_sub a b = Some c) <-> (block b <= block a /\ align b <= align a).
Proof.
  unfold indent_sub, checked_sub.
  destruct (N.leb_spec (block b) (block a)), (N.leb_spec (align b) (align a)); split;
    try (intros [c Hc]; discriminate); try (intros [? ?]; lia); try (intros _; eexists; reflexivity); try (intros; split; assumption).
Qed.
Lemma indent_sub_n_defined a n : (exists c, indent_sub_n a n = Some c) <-> n <= align a.
Proof.
  unfold indent_sub_n, checked_sub. destruct (N.leb_spec n (align a)); split;
    try (intros [c Hc]; discriminate); try (intros; lia); try (intros _; eexists; reflexivity); try (intros; assumption).
Qed.

(* with_max_width / indented never produce a shape wider than the page allows *)
Lemma indented_fits m i : indent_width i + width (indented m i) <= N.max m (indent_width i).
Proof. unfold indented, saturating_sub. cbn [width]. lia. Qed.
