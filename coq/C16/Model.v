(* C16/Model.v — width arithmetic of src/shape.rs with explicit partiality.
   usize subtraction is modelled exactly: `checked_sub` -> option, `saturating_sub` -> truncated, the unchecked
   `-` of `impl Sub for Indent` / `impl Sub<usize> for Indent` -> option where None = the subtraction would
   underflow (a panic in builds with overflow checks, a wrap-around otherwise).  Additions are on N (usize
   additions of widths cannot overflow for any realisable page).
     shape.rs:116-140  Indent: Sub, Add<usize>, Sub<usize>
     shape.rs:169-300  Shape::{legacy, indented, with_max_width, visual_indent, block_indent, block_left,
                        add_offset, block, saturating_sub_width, sub_width_opt, shrink_left_opt, offset_left_opt,
                        used_width, rhs_overhead, comment, infinite_width} *)
From V Require Import Base.Text.

Record indent := MkIndent { block : N; align : N }.
Record shape := MkShape { width : N; ind : indent; offset : N }.

Definition checked_sub (a b : N) : option N := if b <=? a then Some (a - b) else None.
Definition saturating_sub (a b : N) : N := a - b.      (* N subtraction truncates at 0 *)

Definition indent_width (i : indent) : N := block i + align i.
Definition indent_add (a b : indent) : indent := MkIndent (block a + block b) (align a + align b).
Definition indent_sub (a b : indent) : option indent :=
  match checked_sub (block a) (block b), checked_sub (align a) (align b) with
  | Some x, Some y => Some (MkIndent x y)
  | _, _ => None
  end.
Definition indent_add_n (a : indent) (n : N) : indent := MkIndent (block a) (align a + n).
Definition indent_sub_n (a : indent) (n : N) : option indent :=
  match checked_sub (align a) n with Some y => Some (MkIndent (block a) y) | None => None end.
Definition block_only (a : indent) : indent := MkIndent (block a) 0.

Definition legacy (w : N) (i : indent) : shape := MkShape w i (align i).
Definition indented (max_width : N) (i : indent) : shape := MkShape (saturating_sub max_width (indent_width i)) i (align i).
Definition with_max_width (max_width : N) (s : shape) : shape :=
  MkShape (saturating_sub max_width (indent_width (ind s))) (ind s) (offset s).
Definition visual_indent (s : shape) (delta : N) : shape :=
  let a := offset s + delta in MkShape (width s) (MkIndent (block (ind s)) a) a.
Definition block_indent (s : shape) (delta : N) : shape :=
  if align (ind s) =? 0
  then MkShape (width s) (MkIndent (block (ind s) + delta) 0) 0
  else MkShape (width s) (indent_add_n (ind s) delta) (align (ind s) + delta).
Definition add_offset (s : shape) (delta : N) : shape := MkShape (width s) (ind s) (offset s + delta).
Definition shape_block (s : shape) : shape := MkShape (width s) (block_only (ind s)) (offset s).
Definition saturating_sub_width (s : shape) (delta : N) : shape := MkShape (saturating_sub (width s) delta) (ind s) (offset s).
Definition sub_width_opt (s : shape) (delta : N) : option shape :=
  match checked_sub (width s) delta with Some w => Some (MkShape w (ind s) (offset s)) | None => None end.
Definition block_left (s : shape) (delta : N) : option shape := sub_width_opt (block_indent s delta) delta.
Definition shrink_left_opt (s : shape) (delta : N) : option shape :=
  match checked_sub (width s) delta with
  | Some w => Some (MkShape w (indent_add_n (ind s) delta) (offset s + delta))
  | None => None
  end.
Definition offset_left_opt (s : shape) (delta : N) : option shape := sub_width_opt (add_offset s delta) delta.
Definition used_width (s : shape) : N := block (ind s) + offset s.
Definition rhs_overhead (max_width : N) (s : shape) : N := saturating_sub max_width (used_width s + width s).
Definition shape_comment (comment_width : N) (s : shape) : shape :=
  MkShape (N.min (width s) (saturating_sub comment_width (indent_width (ind s)))) (ind s) (offset s).
Definition infinite_width (s : shape) : shape := MkShape 8096 (ind s) (offset s).

(* a sequence of operations, for the correspondence run *)
Inductive sop := OVisual (d : N) | OBlockIndent (d : N) | OBlockLeft (d : N) | OAddOffset (d : N) | OBlock
               | OSatSubWidth (d : N) | OSubWidth (d : N) | OShrinkLeft (d : N) | OOffsetLeft (d : N)
               | OWithMaxWidth (m : N) | OComment (m : N) | OInfinite.
Definition apply_op (s : shape) (o : sop) : option shape :=
  match o with
  | OVisual d => Some (visual_indent s d)
  | OBlockIndent d => Some (block_indent s d)
  | OBlockLeft d => block_left s d
  | OAddOffset d => Some (add_offset s d)
  | OBlock => Some (shape_block s)
  | OSatSubWidth d => Some (saturating_sub_width s d)
  | OSubWidth d => sub_width_opt s d
  | OShrinkLeft d => shrink_left_opt s d
  | OOffsetLeft d => offset_left_opt s d
  | OWithMaxWidth m => Some (with_max_width m s)
  | OComment m => Some (shape_comment m s)
  | OInfinite => Some (infinite_width s)
  end.
(* ops are applied until one fails ("does not fit": an ordinary, recoverable rewrite failure) *)
Fixpoint apply_ops (s : shape) (os : list sop) : shape * bool :=
  match os with
  | [] => (s, true)
  | o :: os' => match apply_op s o with Some s' => apply_ops s' os' | None => (s, false) end
  end.
