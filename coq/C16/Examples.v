From V Require Import Base.Text C16.Model C16.Lemmas C16.Run.
Open Scope N_scope.
Example fits : sub_width_opt (MkShape 10 (MkIndent 4 0) 0) 3 = Some (MkShape 7 (MkIndent 4 0) 0). Proof. reflexivity. Qed.
Example does_not_fit : sub_width_opt (MkShape 2 (MkIndent 4 0) 0) 3 = None. Proof. reflexivity. Qed.
Example unchecked_underflows : indent_sub_n (MkIndent 4 1) 2 = None. Proof. reflexivity. Qed.
Example seq : run_ops 100 0 0 0 [(1, 4); (7, 10); (6, 200); (3, 1)] = ((90, 4, 10, 10), false). Proof. vm_compute. reflexivity. Qed.
