(* C16/Run.v — shape operation sequences for the correspondence run.
   op encoding (code, argument): 0 visual_indent, 1 block_indent, 2 block_left, 3 add_offset, 4 block,
   5 saturating_sub_width, 6 sub_width, 7 shrink_left, 8 offset_left, 9 with_max_width, 10 comment, 11 infinite_width *)
From V Require Import Base.Text C16.Model.
Open Scope N_scope.
Definition dec_op (p : N * N) : sop :=
  let '(c, d) := p in
  match c with
  | 0 => OVisual d | 1 => OBlockIndent d | 2 => OBlockLeft d | 3 => OAddOffset d | 4 => OBlock
  | 5 => OSatSubWidth d | 6 => OSubWidth d | 7 => OShrinkLeft d | 8 => OOffsetLeft d
  | 9 => OWithMaxWidth d | 10 => OComment d | _ => OInfinite
  end.
Definition run_ops (w b a o : N) (ops : list (N * N)) : (N * N * N * N) * bool :=
  let '(s, ok) := apply_ops (MkShape w (MkIndent b a) o) (map dec_op ops) in
  ((width s, block (ind s), align (ind s), offset s), ok).
