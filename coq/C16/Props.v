(* C16/Props.v — C16: "rustfmt never terminates abnormally ... it does not panic, abort, overflow its stack on
   ordinary nesting, or die from a signal, and a panic inside the Rust parser or inside the formatting of one macro is
   contained and reported as an ordinary failure of that input."  What a theorem can say is the arithmetic and the
   control decisions; stack depth, the allocator and rustc's parser are runtime facts that checks/c16.py searches. *)
From V Require Import Base.Text C16.Model C16.Lemmas.
From V Require C06.Model C06.Lemmas C05.Model C05.Lemmas C11.Ord C11.Model C11.Lemmas C03.Model C03.Lemmas.

(* width arithmetic goes through checked operations that turn "does not fit" into a recoverable failure:
   they fail exactly when the width is not available and never underflow *)
Theorem sub_width_total : forall s d,
  (d <= width s -> sub_width_opt s d = Some (MkShape (width s - d) (ind s) (offset s))) /\
  (width s < d -> sub_width_opt s d = None).
Proof. exact sub_width_opt_spec. Qed.
Print Assumptions sub_width_total.

Theorem shrink_left_total : forall s d,
  (d <= width s -> shrink_left_opt s d = Some (MkShape (width s - d) (indent_add_n (ind s) d) (offset s + d))) /\
  (width s < d -> shrink_left_opt s d = None).
Proof. exact shrink_left_opt_spec. Qed.
Print Assumptions shrink_left_total.

(* the right edge of a shape never moves right under the shrinking operations *)
Theorem right_edge_monotone : forall s d s',
  (shrink_left_opt s d = Some s' -> used_width s' + width s' = used_width s + width s) /\
  (offset_left_opt s d = Some s' -> used_width s' + width s' = used_width s + width s) /\
  (sub_width_opt s d = Some s' -> used_width s' + width s' <= used_width s + width s).
Proof. intros s d s'. split; [apply shrink_left_edge|split; [apply offset_left_edge|apply sub_width_edge]]. Qed.
Print Assumptions right_edge_monotone.

(* the two UNCHECKED subtractions of Indent are defined exactly under rhs <= lhs: every call site owes this *)
Theorem indent_sub_precondition : forall a b,
  (exists c, indent_sub a b = Some c) <-> (block b <= block a /\ align b <= align a).
Proof. exact indent_sub_defined. Qed.
Print Assumptions indent_sub_precondition.

Theorem indent_sub_n_precondition : forall a n, (exists c, indent_sub_n a n = Some c) <-> n <= align a.
Proof. exact indent_sub_n_defined. Qed.
Print Assumptions indent_sub_n_precondition.

(* exit status is 0 or 1 on both paths of main.rs (from C06) *)
Theorem exit_range : forall f c,
  (C06.Model.exit_file f c = 0 \/ C06.Model.exit_file f c = 1) /\ (C06.Model.exit_stdin f = 0 \/ C06.Model.exit_stdin f = 1).
Proof. exact C06.Lemmas.exit_range_lemma. Qed.
Print Assumptions exit_range.

(* the comparator handed to slice::sort is a total preorder, so sorting cannot panic on an inconsistent order (from C11) *)
Theorem sort_comparator_consistent : C11.Ord.TotalPreorder C11.Model.version_sort.
Proof. exact C11.Lemmas.vs_total_preorder. Qed.
Print Assumptions sort_comparator_consistent.

(* the comment/code segmentation never reaches its panic arm and never underflows its depth counters (from C03) *)
Theorem classify_never_panics : forall t, C03.Model.classify_panics t = false.
Proof. exact C03.Lemmas.classify_no_panic. Qed.
Print Assumptions classify_never_panics.
