(* C15/Run.v — encoders for the correspondence run.
   Flags as 7 booleans in ReportedErrors declaration order (operational, parsing, formatting,
   macro_format_failure, check, diff, unformatted_code). *)
From V Require Import Base.Text C12.Model C20.Model C06.Model C15.Model.
Open Scope N_scope.

Definition flags_of (l : list bool) : flags :=
  MkFlags (nth 0 l false) (nth 1 l false) (nth 2 l false) (nth 3 l false) (nth 4 l false) (nth 5 l false) (nth 6 l false).
Definition enc_flags (f : flags) : list bool :=
  [f_operational f; f_parsing f; f_formatting f; f_macro f; f_check f; f_diff f; f_unformatted f].

(* exit status of an invocation whose inputs contributed these flag sets, in order *)
Definition run_exit_multi (per_input : list (list bool)) (check : bool) : N :=
  exit_file (flags_sum (map flags_of per_input)) check.
(* the maximum of the single-input statuses (must be equal) *)
Definition run_exit_max (per_input : list (list bool)) (check : bool) : N :=
  fold_right N.max 0 (map (fun l => exit_file (flags_of l) check) per_input).
(* accumulated flags *)
Definition run_flags_multi (per_input : list (list bool)) : list bool :=
  enc_flags (flags_sum (map flags_of per_input)).

(* a whole invocation: per input (exists, is_dir, local-config: 0 none | 1 loads | 2 fails, and the formatter
   outcome: files (name, disk, formatted), parse-error flag, Err); session: emit mode number (C06/Run.v),
   make_backup, -l, quiet, newline_style = Auto.  Result: per processed input the list of
   (name, number of fs operations) and the exit status. *)
Definition in_enc := (bool * bool * N * (list (N * text * text) * bool * bool))%type.
Definition mode_of_N (n : N) : emit_mode :=
  match n with
  | 0 => MFiles | 1 => MStdout | 2 => MCoverage | 3 => MCheckstyle | 4 => MJson | 5 => MModifiedLines | _ => MDiff
  end.
Definition res_of (x : list (N * text * text) * bool * bool) : input_result :=
  match x with
  | (fs, perr, err) =>
      MkRes (map (fun f => MkFile (fst (fst f)) (snd (fst f)) (snd f) flags_zero) fs)
            (MkFlags false perr false false false false false) err
  end.
Definition run_invocation (mode : N) (backup l quiet auto check : bool) (ins : list in_enc) :
  list (list (N * N)) * N :=
  let c := MkCfg 0 auto (mode_of_N mode) backup (MkBits l quiet) in
  let table := map (fun x => res_of (snd x)) ins in
  let formatter := fun (_ : cfg) (i : input) => nth (N.to_nat i) table (MkRes [] flags_zero false) in
  let mins := map (fun ix => match snd ix with
                             | (ex, dir, loc, _) =>
                                 MkIn ex dir (match loc with 0 => LNone | 1 => LOk c | _ => LErr end) (N.of_nat (fst ix))
                             end) (combine (seq 0 (length ins)) ins) in
  let x := run_loop (fun p => p + 1) (fun p => p + 2) formatter (session_of_cfg c) mins in
  (map (fun r => map (fun f => (fst (fst f), N.of_nat (length (snd (fst f))))) (rp_files r)) (reports x),
   exit_of x check).
