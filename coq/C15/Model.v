(* C15/Model.v — the Session as a state machine, and main.rs's loop over the inputs.
   Sources modelled:
     src/lib.rs:440-468          Session (fields), Session::new          (session, session_new)
     src/lib.rs:470-479          Session::override_config                (override_config)
     src/formatting.rs:29-56     format_input_inner: self.errors.add(..) only on Ok   (format_one)
     src/formatting.rs:275-306   handle_formatted_file: write_file with self.config.newline_style() and
                                 self.emitter; has_diff => add_diff; source_file.push (emit_files)
     src/emitter/json.rs:7-10,93 JsonEmitter.mismatched_files: the only emitter state  (s_json)
     src/bin/main.rs:397-415     format_and_emit_report: Err => add_operational_error   (format_one)
     src/bin/main.rs:346-376     format: the loop, local configuration override         (run_loop)
     src/bin/main.rs:387-395     exit code                                              (exit_of)
   HYPOTHESIS recorded as the Section variable [formatter]: what the formatter proper (parser, module
   resolver, rewriting) yields for an input is a function of the effective configuration and of the input (its
   module tree) alone.  Everything else in this file is the code that exists around it.
   Definitions only; proofs are in Lemmas.v. *)
From V Require Import Base.Text C12.Model C20.Model C06.Model.
Local Open Scope N_scope.

(* the configuration as the control flow sees it: newline_style = Auto or not; the options create_emitter
   reads (emit_mode, make_backup, print_misformatted_file_names, verbose = Quiet); [cf_id] stands for every
   other option (it is only passed to the formatter) *)
Record cfg : Type := MkCfg {
  cf_id : N; cf_newline_auto : bool; cf_mode : emit_mode; cf_backup : bool; cf_bits : ebits
}.

Definition input := N.     (* identifies a crate root (path and the module tree below it) *)

(* one formatted file of an input: name, bytes on disk, formatted text, flags the formatter put in the report *)
Record file_res : Type := MkFile { fl_name : path; fl_disk : text; fl_fmt : text; fl_flags : flags }.

(* outcome of the formatter proper for one input: the files handed to the emitter, in order; flags added
   outside any file (parsing error); whether format_project returned Err (module resolution error, version
   mismatch, emitter io error after these files) *)
Record input_result : Type := MkRes { ir_files : list file_res; ir_extra : flags; ir_err : bool }.

Record session : Type := MkSession {
  s_cfg : cfg;                                  (* config                                             *)
  s_errors : flags;                             (* errors                                             *)
  s_emitter : emitter;                          (* emitter: created ONCE, from the configuration given to Session::new *)
  s_bits : ebits;                               (* what that emitter captured (-l, verbosity)         *)
  s_json : list (path * list (jblock text));    (* JsonEmitter.mismatched_files, printed by the footer *)
  s_source : list (path * text)                 (* source_file: pushed to, never read by the binary   *)
}.

(* what one input contributes: per file (name, file-system operations, output), and the flags merged into
   session.errors *)
Record report : Type := MkReport { rp_files : list (path * list op * out); rp_flags : flags }.

Definition operational_flag : flags := MkFlags true false false false false false false.

Section Session.
Variable tmp_of bk_of : path -> path.
Variable formatter : cfg -> input -> input_result.      (* the hypothesis *)

(* lib.rs:450-466 Session::new *)
Definition session_new (c : cfg) (mode : emit_mode) (make_backup : bool) (b : ebits) : session :=
  MkSession c flags_zero (create_emitter mode make_backup) b [] [].

(* main.rs:344 Session::new(config, ..): the emitter comes from the configuration of the INVOCATION *)
Definition session_of_cfg (c : cfg) : session := session_new c (cf_mode c) (cf_backup c) (cf_bits c).

Definition set_cfg (s : session) (c : cfg) : session :=
  MkSession c (s_errors s) (s_emitter s) (s_bits s) (s_json s) (s_source s).

(* handle_formatted_file for one file *)
Definition emit_file (s : session) (f : file_res) : list op * out * bool :=
  write_file tmp_of bk_of (s_emitter s) (s_bits s) (cf_newline_auto (s_cfg s)) false (fl_name f) (fl_disk f) (fl_fmt f).

Definition json_entry (name : path) (o : out) : list (path * list (jblock text)) :=
  match o with OutJsonAcc (Some bs) => [(name, bs)] | _ => [] end.

(* Session::format + format_and_emit_report for one input whose formatter outcome is [r] *)
Definition format_one (s : session) (r : input_result) : session * report :=
  let emitted := map (fun f => (f, emit_file s f)) (ir_files r) in
  let rep_flags :=
    flags_add (flags_sum (map (fun x => flags_add (fl_flags (fst x)) (diff_flag (e_has_diff (snd x)))) emitted))
              (ir_extra r) in
  let delta := if ir_err r then operational_flag else rep_flags in
  (MkSession (s_cfg s) (flags_add (s_errors s) delta) (s_emitter s) (s_bits s)
             (s_json s ++ concat (map (fun x => json_entry (fl_name (fst x)) (e_out (snd x))) emitted))
             (s_source s ++ map (fun f => (fl_name f, fl_fmt f)) (ir_files r)),
   MkReport (map (fun x => (fl_name (fst x), e_ops (snd x), e_out (snd x))) emitted) delta).

Definition format_input (s : session) (i : input) : session * report :=
  format_one s (formatter (s_cfg s) i).

(* lib.rs:470-479 override_config: swap, run, swap back *)
Definition override_config {U} (s : session) (c : cfg) (f : session -> session * U) : session * U :=
  let s1 := set_cfg s c in
  let r := f s1 in
  (set_cfg (fst r) (s_cfg s), snd r).

(* main.rs:346-376 *)
Inductive cfg_load : Type := LNone | LOk (c : cfg) | LErr.
Record minput : Type := MkIn { mi_exists : bool; mi_is_dir : bool; mi_local : cfg_load; mi_input : input }.

Definition bad_path_report : report := MkReport [] operational_flag.
Definition add_operational (s : session) : session :=
  MkSession (s_cfg s) (flags_add (s_errors s) operational_flag) (s_emitter s) (s_bits s) (s_json s) (s_source s).

(* (final session, per-input reports, aborted by `?`) *)
Fixpoint run_loop (s : session) (ins : list minput) : session * list report * bool :=
  match ins with
  | [] => (s, [], false)
  | m :: ins' =>
      if negb (mi_exists m) || mi_is_dir m then
        let r := run_loop (add_operational s) ins' in (fst (fst r), bad_path_report :: snd (fst r), snd r)
      else
        match mi_local m with
        | LErr => (s, [], true)
        | LNone =>
            let sr := format_input s (mi_input m) in
            let r := run_loop (fst sr) ins' in (fst (fst r), snd sr :: snd (fst r), snd r)
        | LOk c =>
            let sr := override_config s c (fun s' => format_input s' (mi_input m)) in
            let r := run_loop (fst sr) ins' in (fst (fst r), snd sr :: snd (fst r), snd r)
        end
  end.

Definition final_session (x : session * list report * bool) : session := fst (fst x).
Definition reports (x : session * list report * bool) : list report := snd (fst x).
Definition aborted (x : session * list report * bool) : bool := snd x.

(* main.rs:387-395 and main.rs:38-44 (Err => 1) *)
Definition exit_of (x : session * list report * bool) (check : bool) : N :=
  if aborted x then 1 else exit_file (s_errors (final_session x)) check.
End Session.
