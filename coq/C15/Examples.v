(* C15/Examples.v — non-vacuity for the C15 theorems and the _refuted witnesses *)
From Coq Require Import Permutation.
From V Require Import Base.Text C12.Model C20.Model C06.Model C06.Lemmas C15.Model C15.Lemmas.
Local Open Scope N_scope.

Definition tmp_of (p : path) : path := p + 1.
Definition bk_of (p : path) : path := p + 2.
Definition bits0 : ebits := MkBits false false.
Definition c_files : cfg := MkCfg 0 true MFiles false bits0.
Definition c_json : cfg := MkCfg 0 true MJson false bits0.
Definition c_check : cfg := MkCfg 0 true MDiff false bits0.
Definition c_local : cfg := MkCfg 1 false MFiles true bits0.

(* a formatter: input 10 is already formatted, 20 needs a change, 30 does not parse, 40 fails to resolve;
   the local configuration (cf_id 1) formats differently *)
Definition fmt (c : cfg) (i : input) : input_result :=
  match i with
  | 10 => MkRes [MkFile 10 [97; 10] [97; 10] flags_zero] flags_zero false
  | 20 => MkRes [MkFile 20 [97; 32; 10] (if cf_id c =? 1 then [65; 10] else [97; 10]) flags_zero;
                 MkFile 23 [98; 10] [98; 10] flags_zero] flags_zero false
  | 30 => MkRes [] (MkFlags false true false false false false false) false
  | _ => MkRes [] flags_zero true
  end.
Definition inp (i : input) : minput := MkIn true false LNone i.
Definition inp_local (i : input) : minput := MkIn true false (LOk c_local) i.
Definition inp_missing : minput := MkIn false false LNone 99.
Definition inp_cfgerr : minput := MkIn true false LErr 50.

Notation run := (run_loop tmp_of bk_of fmt).

(* per_input_independent / order_irrelevant: hypotheses met, reports non-trivial *)
Example no_abort : existsb aborts [inp 10; inp 20; inp_missing; inp 30] = false.
Proof. reflexivity. Qed.
Example files_run :
  map rp_files (reports (run (session_of_cfg c_files) [inp 10; inp 20])) =
  [[(10, [], OutNothing)]; [(20, [Write 20 [97; 10]], OutNothing); (23, [], OutNothing)]].
Proof. vm_compute. reflexivity. Qed.
Example files_run_reordered :
  map rp_files (reports (run (session_of_cfg c_files) [inp 20; inp 10])) =
  [[(20, [Write 20 [97; 10]], OutNothing); (23, [], OutNothing)]; [(10, [], OutNothing)]].
Proof. vm_compute. reflexivity. Qed.
Example a_permutation : Permutation [inp 10; inp 20; inp_missing] [inp_missing; inp 20; inp 10].
Proof. apply Permutation_rev. Qed.

(* exit_is_max: premise (fresh session) and the four kinds of single exits *)
Example fresh : s_errors (session_of_cfg c_check) = flags_zero.
Proof. reflexivity. Qed.
Example single_exits :
  map (exit_single tmp_of bk_of fmt (session_of_cfg c_check) true) [inp 10; inp 20; inp 30; inp 40; inp_missing; inp_cfgerr] =
  [0; 1; 1; 1; 1; 1].
Proof. vm_compute. reflexivity. Qed.
Example multi_exit_clean : exit_of (run (session_of_cfg c_check) [inp 10; inp 10]) true = 0.
Proof. vm_compute. reflexivity. Qed.
Example multi_exit_diff : exit_of (run (session_of_cfg c_check) [inp 10; inp 20; inp 10]) true = 1.
Proof. vm_compute. reflexivity. Qed.
Example multi_exit_nocheck : exit_of (run (session_of_cfg c_files) [inp 10; inp 20; inp 10]) false = 0.
Proof. vm_compute. reflexivity. Qed.

(* config_restored with an actual override; the local configuration's formatting is used for that input only *)
Example override_used_then_restored :
  let x := run (session_of_cfg c_files) [inp_local 20; inp 20] in
  s_cfg (final_session x) = c_files /\
  map rp_files (reports x) =
  [[(20, [Write 20 [65; 10]], OutNothing); (23, [], OutNothing)];
   [(20, [Write 20 [97; 10]], OutNothing); (23, [], OutNothing)]].
Proof. vm_compute. split; reflexivity. Qed.

(* json: entries accumulate in input order; reordering permutes them *)
Example json_acc :
  map fst (s_json (final_session (run (session_of_cfg c_json) [inp 20; inp 10; inp_local 20]))) = [20; 20].
Proof. vm_compute. reflexivity. Qed.

(* an Err from the formatter drops the report flags and sets the operational flag *)
Example err_input : map rp_flags (reports (run (session_of_cfg c_files) [inp 40])) = [operational_flag].
Proof. vm_compute. reflexivity. Qed.

(* order_irrelevant_cfgerr_refuted, concretely *)
Example cfgerr_order :
  map rp_files (reports (run (session_of_cfg c_files) [inp 20; inp_cfgerr])) =
    [[(20, [Write 20 [97; 10]], OutNothing); (23, [], OutNothing)]] /\
  reports (run (session_of_cfg c_files) [inp_cfgerr; inp 20]) = [] /\
  exit_of (run (session_of_cfg c_files) [inp_cfgerr; inp 20]) false = 1.
Proof. vm_compute. repeat split; reflexivity. Qed.

(* same_static: sessions that differ in accumulated state *)
Example static_after_run :
  same_static (session_of_cfg c_json) (final_session (run (session_of_cfg c_json) [inp 20; inp 30])).
Proof. repeat split. Qed.
