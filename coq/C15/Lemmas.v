(* C15/Lemmas.v — proofs for C15 *)
From Coq Require Import Permutation.
From V Require Import Base.Text C12.Model C20.Model C06.Model C06.Lemmas C15.Model.
Local Open Scope N_scope.

(* ------------------------------------------------------------------ *)
(* exit code: a join-preserving map from flags to {0,1} *)
Lemma exit_file_add a b c : exit_file (flags_add a b) c = N.max (exit_file a c) (exit_file b c).
Proof.
  unfold exit_file, flags_add; cbn [f_operational f_parsing f_diff f_check].
  destruct (f_operational a), (f_parsing a), (f_diff a), (f_check a),
           (f_operational b), (f_parsing b), (f_diff b), (f_check b), c; reflexivity.
Qed.

Lemma exit_file_zero c : exit_file flags_zero c = 0.
Proof. destruct c; reflexivity. Qed.

Lemma exit_file_sum l c : exit_file (flags_sum l) c = fold_right N.max 0 (map (fun f => exit_file f c) l).
Proof.
  induction l as [|f l IH]; [apply exit_file_zero|].
  rewrite flags_sum_cons, exit_file_add, IH. reflexivity.
Qed.

Lemma exit_file_le1 f c : exit_file f c <= 1.
Proof. destruct (exit_range_lemma f c) as [[H|H] _]; rewrite H; lia. Qed.

Lemma exit_file_mono a b c : exit_file a c <= exit_file (flags_add a b) c.
Proof. rewrite exit_file_add. lia. Qed.

Lemma max_list_le1 (l : list N) : (forall x, In x l -> x <= 1) -> fold_right N.max 0 l <= 1.
Proof.
  induction l as [|x l IH]; intros H; cbn [fold_right]; [lia|].
  assert (x <= 1) by (apply H; left; reflexivity).
  assert (fold_right N.max 0 l <= 1) by (apply IH; intros y Hy; apply H; right; exact Hy). lia.
Qed.

Lemma max_list_one (l : list N) : (forall x, In x l -> x <= 1) -> In 1 l -> fold_right N.max 0 l = 1.
Proof.
  intros Hle Hin. assert (H1 : fold_right N.max 0 l <= 1) by (apply max_list_le1; exact Hle).
  assert (H2 : 1 <= fold_right N.max 0 l).
  { clear Hle H1. induction l as [|x l IH]; [destruct Hin|]. cbn [fold_right].
    destruct Hin as [->|Hin]; [lia|]. specialize (IH Hin). lia. }
  lia.
Qed.

Lemma flags_sum_perm l l' : Permutation l l' -> flags_sum l = flags_sum l'.
Proof.
  intros H. induction H as [|x l l' H IH|x y l|l l' l'' H1 IH1 H2 IH2].
  - reflexivity.
  - rewrite !flags_sum_cons, IH. reflexivity.
  - rewrite !flags_sum_cons, !flags_add_assoc, (flags_add_comm y x). reflexivity.
  - congruence.
Qed.

Lemma perm_concat_map {A B} (g : A -> list B) l l' :
  Permutation l l' -> Permutation (concat (map g l)) (concat (map g l')).
Proof.
  intros H. induction H as [|x l l' H IH|x y l|l l' l'' H1 IH1 H2 IH2]; cbn [map concat].
  - constructor.
  - apply Permutation_app_head. exact IH.
  - rewrite !app_assoc. apply Permutation_app_tail. apply Permutation_app_comm.
  - eapply Permutation_trans; eassumption.
Qed.

(* ------------------------------------------------------------------ *)
Section Session.
Variable tmp_of bk_of : path -> path.
Variable formatter : cfg -> input -> input_result.
Notation format_one := (format_one tmp_of bk_of).
Notation format_input := (format_input tmp_of bk_of formatter).
Notation run_loop := (run_loop tmp_of bk_of formatter).
Notation emit_file := (emit_file tmp_of bk_of).

(* the parts of the session that an input's report can depend on *)
Definition same_static (s s' : session) : Prop :=
  s_cfg s = s_cfg s' /\ s_emitter s = s_emitter s' /\ s_bits s = s_bits s'.

Lemma same_static_refl s : same_static s s.
Proof. repeat split. Qed.
Lemma same_static_trans a b c : same_static a b -> same_static b c -> same_static a c.
Proof. intros (H1 & H2 & H3) (G1 & G2 & G3). repeat split; congruence. Qed.
Lemma same_static_sym a b : same_static a b -> same_static b a.
Proof. intros (H1 & H2 & H3). repeat split; congruence. Qed.

Lemma emit_file_static s s' f : same_static s s' -> emit_file s f = emit_file s' f.
Proof. intros (H1 & H2 & H3). unfold Model.emit_file. rewrite H1, H2, H3. reflexivity. Qed.

Lemma format_one_report_static s s' r : same_static s s' -> snd (format_one s r) = snd (format_one s' r).
Proof.
  intros H. unfold Model.format_one. cbn [snd].
  assert (Hm : map (fun f => (f, emit_file s f)) (ir_files r) = map (fun f => (f, emit_file s' f)) (ir_files r)).
  { apply map_ext. intros f. rewrite (emit_file_static s s' f H). reflexivity. }
  rewrite Hm. reflexivity.
Qed.

Lemma format_one_static s r : same_static s (fst (format_one s r)).
Proof. repeat split. Qed.

Lemma format_one_errors s r :
  s_errors (fst (format_one s r)) = flags_add (s_errors s) (rp_flags (snd (format_one s r))).
Proof. reflexivity. Qed.

Definition json_of_report (rep : report) : list (path * list (jblock text)) :=
  concat (map (fun x => json_entry (fst (fst x)) (snd x)) (rp_files rep)).

Lemma format_one_json s r :
  s_json (fst (format_one s r)) = s_json s ++ json_of_report (snd (format_one s r)).
Proof.
  unfold Model.format_one, json_of_report. cbn [fst snd s_json rp_files]. f_equal.
  rewrite !map_map. reflexivity.
Qed.

(* override_config restores the configuration whatever the closure does *)
Lemma override_restores {U} s c (f : session -> session * U) : s_cfg (fst (override_config s c f)) = s_cfg s.
Proof. reflexivity. Qed.

(* the effective configuration of an input, and what the input yields on its own *)
Definition eff_cfg (s : session) (m : minput) : cfg :=
  match mi_local m with LOk c => c | _ => s_cfg s end.

Definition bad_path (m : minput) : bool := negb (mi_exists m) || mi_is_dir m.
Definition aborts (m : minput) : bool :=
  negb (bad_path m) && match mi_local m with LErr => true | _ => false end.

Definition report_of (s : session) (m : minput) : report :=
  if bad_path m then bad_path_report
  else snd (format_one (set_cfg s (eff_cfg s m)) (formatter (eff_cfg s m) (mi_input m))).

(* the inputs before the first whose local configuration fails to load *)
Fixpoint processed (ins : list minput) : list minput :=
  match ins with
  | [] => []
  | m :: ins' => if aborts m then [] else m :: processed ins'
  end.

Lemma report_of_static s s' m : same_static s s' -> report_of s m = report_of s' m.
Proof.
  intros H. unfold report_of, eff_cfg. destruct H as (H1 & H2 & H3).
  destruct (bad_path m); [reflexivity|]. rewrite H1.
  apply format_one_report_static. repeat split; assumption.
Qed.

Lemma processed_all ins : existsb aborts ins = false -> processed ins = ins.
Proof.
  induction ins as [|m ins IH]; [reflexivity|]. cbn [existsb processed]. intros H.
  apply orb_false_iff in H. destruct H as [H1 H2]. rewrite H1, (IH H2). reflexivity.
Qed.

(* the loop, input by input *)
Lemma run_loop_cons s m ins :
  run_loop s (m :: ins) =
  if bad_path m then
    let r := run_loop (add_operational s) ins in (fst (fst r), bad_path_report :: snd (fst r), snd r)
  else
    match mi_local m with
    | LErr => (s, [], true)
    | LNone =>
        let sr := format_input s (mi_input m) in
        let r := run_loop (fst sr) ins in (fst (fst r), snd sr :: snd (fst r), snd r)
    | LOk c =>
        let sr := override_config s c (fun s' => format_input s' (mi_input m)) in
        let r := run_loop (fst sr) ins in (fst (fst r), snd sr :: snd (fst r), snd r)
    end.
Proof. reflexivity. Qed.

Lemma run_loop_spec ins : forall s,
  let x := run_loop s ins in
  reports x = map (report_of s) (processed ins) /\
  aborted x = existsb aborts ins /\
  same_static s (final_session x) /\
  s_errors (final_session x) = flags_add (s_errors s) (flags_sum (map rp_flags (reports x))) /\
  s_json (final_session x) = s_json s ++ concat (map json_of_report (reports x)).
Proof.
  induction ins as [|m ins IH]; intros s; cbv zeta.
  - cbn. rewrite flags_add_zero_r, app_nil_r. repeat split.
  - rewrite run_loop_cons. cbn [processed existsb].
    destruct (bad_path m) eqn:Eb.
    + assert (Ha : aborts m = false) by (unfold aborts; rewrite Eb; reflexivity).
      assert (Hr : report_of s m = bad_path_report) by (unfold report_of; rewrite Eb; reflexivity).
      rewrite Ha. cbn [map orb]. rewrite Hr.
      specialize (IH (add_operational s)). cbv zeta in IH. destruct IH as (I1 & I2 & I3 & I4 & I5).
      unfold reports, aborted, final_session in *. cbv zeta. cbn [fst snd].
      rewrite I1, I2. split; [|split; [|split; [|split]]].
      * replace (map (report_of (add_operational s)) (processed ins)) with (map (report_of s) (processed ins));
          [reflexivity|]. apply map_ext. intros m'. apply report_of_static. repeat split.
      * reflexivity.
      * eapply same_static_trans; [|exact I3]. repeat split.
      * rewrite I4, I1. cbn [s_errors add_operational map]. rewrite flags_sum_cons. cbn [rp_flags bad_path_report].
        rewrite flags_add_assoc. reflexivity.
      * rewrite I5, I1. reflexivity.
    + destruct (mi_local m) as [|c|] eqn:El.
      * (* LNone *)
        assert (Ha : aborts m = false) by (unfold aborts; rewrite Eb, El; reflexivity).
        assert (Hr : report_of s m = snd (format_one (set_cfg s (s_cfg s)) (formatter (s_cfg s) (mi_input m))))
          by (unfold report_of, eff_cfg; rewrite Eb, El; reflexivity).
        rewrite Ha. cbn [map orb]. rewrite Hr. cbv zeta.
        set (sr := format_input s (mi_input m)).
        specialize (IH (fst sr)). cbv zeta in IH. destruct IH as (I1 & I2 & I3 & I4 & I5).
        assert (Hst : same_static s (fst sr)) by (unfold sr, Model.format_input; apply format_one_static).
        assert (Hrep : snd sr = snd (format_one (set_cfg s (s_cfg s)) (formatter (s_cfg s) (mi_input m)))).
        { unfold sr, Model.format_input. apply format_one_report_static. repeat split. }
        unfold reports, aborted, final_session in *. cbn [fst snd].
        rewrite I1, I2. split; [|split; [|split; [|split]]].
        -- rewrite Hrep. replace (map (report_of (fst sr)) (processed ins)) with (map (report_of s) (processed ins));
             [reflexivity|]. apply map_ext. intros m'. apply report_of_static. exact Hst.
        -- reflexivity.
        -- eapply same_static_trans; [exact Hst|exact I3].
        -- rewrite I4, I1. cbn [map]. rewrite flags_sum_cons, flags_add_assoc. f_equal.
        -- rewrite I5, I1. cbn [map concat]. rewrite app_assoc. f_equal.
           unfold sr, Model.format_input. apply format_one_json.
      * (* LOk c *)
        assert (Ha : aborts m = false) by (unfold aborts; rewrite Eb, El; reflexivity).
        assert (Hr : report_of s m = snd (format_one (set_cfg s c) (formatter c (mi_input m))))
          by (unfold report_of, eff_cfg; rewrite Eb, El; reflexivity).
        rewrite Ha. cbn [map orb]. rewrite Hr. cbv zeta.
        set (sr := override_config s c (fun s' => format_input s' (mi_input m))).
        specialize (IH (fst sr)). cbv zeta in IH. destruct IH as (I1 & I2 & I3 & I4 & I5).
        assert (Hst : same_static s (fst sr)) by (unfold sr, override_config; repeat split).
        assert (Hrep : snd sr = snd (format_one (set_cfg s c) (formatter c (mi_input m)))).
        { unfold sr, override_config, Model.format_input. reflexivity. }
        unfold reports, aborted, final_session in *. cbn [fst snd].
        rewrite I1, I2. split; [|split; [|split; [|split]]].
        -- rewrite Hrep. replace (map (report_of (fst sr)) (processed ins)) with (map (report_of s) (processed ins));
             [reflexivity|]. apply map_ext. intros m'. apply report_of_static. exact Hst.
        -- reflexivity.
        -- eapply same_static_trans; [exact Hst|exact I3].
        -- rewrite I4, I1. cbn [map]. rewrite flags_sum_cons, flags_add_assoc. f_equal.
        -- rewrite I5, I1. cbn [map concat]. rewrite app_assoc. f_equal.
           unfold sr, override_config, Model.format_input. cbn [fst snd set_cfg s_json].
           rewrite (format_one_json (set_cfg s c)). reflexivity.
      * (* LErr *)
        assert (Ha : aborts m = true) by (unfold aborts; rewrite Eb, El; reflexivity).
        rewrite Ha. unfold reports, aborted, final_session. cbn [fst snd map orb concat].
        rewrite flags_sum_nil, flags_add_zero_r, app_nil_r. repeat split.
Qed.

(* what an input yields when it is the only one *)
Definition report_alone (s : session) (m : minput) : report :=
  hd bad_path_report (reports (run_loop s [m])).

Lemma report_alone_eq s m : aborts m = false -> report_alone s m = report_of s m.
Proof.
  intros H. unfold report_alone. destruct (run_loop_spec [m] s) as (H1 & _). cbv zeta in H1.
  rewrite H1. cbn [processed]. rewrite H. reflexivity.
Qed.

Lemma processed_no_abort ins : forall m, In m (processed ins) -> aborts m = false.
Proof.
  induction ins as [|m0 ins IH]; intros m Hin; [destruct Hin|]. cbn [processed] in Hin.
  destruct (aborts m0) eqn:E; [destruct Hin|]. destruct Hin as [<-|Hin]; [exact E|apply IH; exact Hin].
Qed.

Lemma config_restored_lemma s ins : s_cfg (final_session (run_loop s ins)) = s_cfg s.
Proof. destruct (run_loop_spec ins s) as (_ & _ & (H & _) & _). cbv zeta in H. symmetry. exact H. Qed.

Lemma emitter_fixed_lemma s ins :
  s_emitter (final_session (run_loop s ins)) = s_emitter s /\ s_bits (final_session (run_loop s ins)) = s_bits s.
Proof. destruct (run_loop_spec ins s) as (_ & _ & (_ & H1 & H2) & _). cbv zeta in H1, H2. auto. Qed.

Lemma per_input_independent_lemma s ins :
  reports (run_loop s ins) = map (report_alone s) (processed ins).
Proof.
  destruct (run_loop_spec ins s) as (H1 & _). cbv zeta in H1. rewrite H1.
  apply map_ext_in. intros m Hm. symmetry. apply report_alone_eq. apply (processed_no_abort ins). exact Hm.
Qed.

(* the report of an input does not depend on what the session accumulated before *)
Lemma report_history_free s s' m : same_static s s' -> report_alone s m = report_alone s' m.
Proof.
  intros H. unfold report_alone.
  destruct (run_loop_spec [m] s) as (H1 & _). destruct (run_loop_spec [m] s') as (H2 & _). cbv zeta in H1, H2.
  rewrite H1, H2. cbn [processed]. destruct (aborts m); [reflexivity|]. cbn [map hd]. apply report_of_static. exact H.
Qed.

Definition exit_single (s : session) (check : bool) (m : minput) : N := exit_of (run_loop s [m]) check.

Lemma exit_single_eq s check m : s_errors s = flags_zero ->
  exit_single s check m = if aborts m then 1 else exit_file (rp_flags (report_of s m)) check.
Proof.
  intros Hz. unfold exit_single, exit_of.
  destruct (run_loop_spec [m] s) as (H1 & H2 & _ & H4 & _). cbv zeta in H1, H2, H4.
  rewrite H2. cbn [existsb]. rewrite orb_false_r. destruct (aborts m) eqn:Ea; [reflexivity|].
  rewrite H4, H1, Hz, flags_add_zero_l. cbn [processed]. rewrite Ea. cbn [map].
  rewrite flags_sum_cons, flags_sum_nil, flags_add_zero_r. reflexivity.
Qed.

Lemma exit_single_le1 s check m : s_errors s = flags_zero -> exit_single s check m <= 1.
Proof. intros Hz. rewrite (exit_single_eq s check m Hz). destruct (aborts m); [lia|apply exit_file_le1]. Qed.

Lemma exit_is_max_lemma s check ins : s_errors s = flags_zero ->
  exit_of (run_loop s ins) check = fold_right N.max 0 (map (exit_single s check) ins).
Proof.
  intros Hz. unfold exit_of.
  destruct (run_loop_spec ins s) as (H1 & H2 & _ & H4 & _). cbv zeta in H1, H2, H4.
  rewrite H2. destruct (existsb aborts ins) eqn:Ea.
  - symmetry. apply max_list_one.
    + intros x Hx. apply in_map_iff in Hx. destruct Hx as (m & <- & _). apply exit_single_le1. exact Hz.
    + apply existsb_exists in Ea. destruct Ea as (m & Hin & Hm). apply in_map_iff. exists m. split; [|exact Hin].
      rewrite (exit_single_eq s check m Hz), Hm. reflexivity.
  - rewrite H4, H1, Hz, flags_add_zero_l, (processed_all ins Ea), exit_file_sum, !map_map.
    f_equal. apply map_ext_in. intros m Hm. rewrite (exit_single_eq s check m Hz).
    assert (Hna : aborts m = false).
    { destruct (aborts m) eqn:E; [|reflexivity]. exfalso.
      assert (existsb aborts ins = true) by (apply existsb_exists; exists m; auto). congruence. }
    rewrite Hna. reflexivity.
Qed.

Lemma existsb_perm {A} (g : A -> bool) l l' : Permutation l l' -> existsb g l = existsb g l'.
Proof.
  intros H. induction H as [|x l l' H IH|x y l|l l' l'' H1 IH1 H2 IH2]; cbn [existsb].
  - reflexivity.
  - rewrite IH. reflexivity.
  - rewrite !orb_assoc, (orb_comm (g y)). reflexivity.
  - congruence.
Qed.

Lemma order_irrelevant_lemma s check ins ins' :
  Permutation ins ins' -> existsb aborts ins = false ->
  exit_of (run_loop s ins) check = exit_of (run_loop s ins') check /\
  s_errors (final_session (run_loop s ins)) = s_errors (final_session (run_loop s ins')) /\
  reports (run_loop s ins) = map (report_alone s) ins /\
  reports (run_loop s ins') = map (report_alone s) ins' /\
  Permutation (reports (run_loop s ins)) (reports (run_loop s ins')) /\
  Permutation (s_json (final_session (run_loop s ins))) (s_json (final_session (run_loop s ins'))).
Proof.
  intros HP Ha. assert (Ha' : existsb aborts ins' = false) by (rewrite <- (existsb_perm aborts ins ins' HP); exact Ha).
  pose proof (per_input_independent_lemma s ins) as R1. pose proof (per_input_independent_lemma s ins') as R2.
  rewrite (processed_all ins Ha) in R1. rewrite (processed_all ins' Ha') in R2.
  assert (RP : Permutation (reports (run_loop s ins)) (reports (run_loop s ins'))).
  { rewrite R1, R2. apply Permutation_map. exact HP. }
  destruct (run_loop_spec ins s) as (_ & H2 & _ & H4 & H5). destruct (run_loop_spec ins' s) as (_ & G2 & _ & G4 & G5).
  cbv zeta in H2, H4, H5, G2, G4, G5.
  assert (HE : s_errors (final_session (run_loop s ins)) = s_errors (final_session (run_loop s ins'))).
  { rewrite H4, G4. f_equal. apply flags_sum_perm. apply Permutation_map. exact RP. }
  split; [|split; [exact HE|split; [exact R1|split; [exact R2|split; [exact RP|]]]]].
  - unfold exit_of. rewrite H2, G2, Ha, Ha', HE. reflexivity.
  - rewrite H5, G5. apply Permutation_app_head. apply perm_concat_map. exact RP.
Qed.

(* with a configuration that fails to load the order matters: whatever the formatter *)
Lemma order_cfgerr_refuted_lemma :
  exists (s : session) (ins ins' : list minput),
    Permutation ins ins' /\
    length (reports (run_loop s ins)) = 1%nat /\ length (reports (run_loop s ins')) = 0%nat.
Proof.
  exists (session_of_cfg (MkCfg 0 true MFiles false (MkBits false false))),
         [MkIn true false LNone 1; MkIn true false LErr 2], [MkIn true false LErr 2; MkIn true false LNone 1].
  split; [apply perm_swap|]. split; reflexivity.
Qed.

(* repeated runs: the same inputs from equal initial sessions give equal results (the model is a function) *)
Lemma deterministic_lemma s ins : forall x y, x = run_loop s ins -> y = run_loop s ins -> x = y.
Proof. intros x y -> ->. reflexivity. Qed.

(* formatting an input twice in one session: same report both times *)
Lemma same_input_twice_lemma s m : aborts m = false ->
  reports (run_loop s [m; m]) = [report_alone s m; report_alone s m].
Proof.
  intros H. rewrite per_input_independent_lemma. cbn [processed]. rewrite H. reflexivity.
Qed.
End Session.

(* the emitter options of a per-file (local) configuration are not the ones in effect *)
Definition demo_formatter (c : cfg) (i : input) : input_result :=
  MkRes [MkFile i [97; 10] [98; 10] flags_zero] flags_zero false.

Lemma local_emitter_options_ignored_lemma :
  exists (tmp_of bk_of : path -> path) (formatter : cfg -> input -> input_result) (scfg c : cfg) (i : input),
    cf_backup c = true /\ cf_backup scfg = false /\ cf_mode c = MFiles /\ cf_mode scfg = MFiles /\
    map rp_files (reports (run_loop tmp_of bk_of formatter (session_of_cfg scfg) [MkIn true false (LOk c) i])) =
      [[(i, [Write i [98; 10]], OutNothing)]] /\
    map rp_files (reports (run_loop tmp_of bk_of formatter (session_of_cfg c) [MkIn true false LNone i])) =
      [[(i, [Remove (i + 1); Write (i + 1) [98; 10]; Rename i (i + 2); Rename (i + 1) i], OutNothing)]].
Proof.
  exists (fun p => p + 1), (fun p => p + 2), demo_formatter,
         (MkCfg 0 true MFiles false (MkBits false false)), (MkCfg 0 true MFiles true (MkBits false false)), 1.
  repeat split.
Qed.

Lemma config_restored_both :
  (forall (U : Type) (s : session) (c : cfg) (f : session -> session * U), s_cfg (fst (override_config s c f)) = s_cfg s) /\
  (forall tmp_of bk_of formatter (s : session) (ins : list minput),
     s_cfg (final_session (run_loop tmp_of bk_of formatter s ins)) = s_cfg s).
Proof. split; [exact @override_restores|exact config_restored_lemma]. Qed.

Lemma per_input_independent_both tmp_of bk_of formatter (s : session) (ins : list minput) :
  reports (run_loop tmp_of bk_of formatter s ins) = map (report_alone tmp_of bk_of formatter s) (processed ins) /\
  (existsb aborts ins = false -> processed ins = ins).
Proof. split; [apply per_input_independent_lemma|apply processed_all]. Qed.
