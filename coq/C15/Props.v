(* C15/Props.v — C15: "The bytes rustfmt produces for a file depend only on that file's module tree and its
   effective configuration: they are the same across repeated runs, across processes, whether the source arrives
   as a path or on standard input, whatever other files were formatted before it in the same invocation or session
   and in whatever order, whatever the working directory and environment. The exit status of a multi-file
   invocation is the maximum of the single-file statuses and the per-file reports are those of the single-file
   runs."
   Scope: the Session state machine and main.rs's loop.  HYPOTHESIS (the parameter [formatter] of every theorem):
   the formatter proper is a function of the effective configuration and the input alone; the theorems show that
   the code AROUND it adds no other dependency.  For every list of inputs and every formatter: no bound. *)
From Coq Require Import Permutation.
From V Require Import Base.Text C12.Model C20.Model C06.Model C06.Lemmas C15.Model C15.Lemmas.
Local Open Scope N_scope.

(* override_config: the session configuration is restored after every input, whatever the closure does *)
Theorem config_restored :
  (forall (U : Type) (s : session) (c : cfg) (f : session -> session * U), s_cfg (fst (override_config s c f)) = s_cfg s) /\
  (forall tmp_of bk_of formatter (s : session) (ins : list minput),
     s_cfg (final_session (run_loop tmp_of bk_of formatter s ins)) = s_cfg s).
Proof. exact config_restored_both. Qed.
Print Assumptions config_restored.

(* clause "whatever other files were formatted before it": the report (per-file operations, outputs, flags) of
   each processed input is the report of a run on that input alone; processed = all inputs when no local
   configuration fails to load *)
Theorem per_input_independent : forall tmp_of bk_of formatter (s : session) (ins : list minput),
  reports (run_loop tmp_of bk_of formatter s ins) = map (report_alone tmp_of bk_of formatter s) (processed ins) /\
  (existsb aborts ins = false -> processed ins = ins).
Proof. exact per_input_independent_both. Qed.
Print Assumptions per_input_independent.

(* ... and that report does not depend on what the session accumulated (errors, json entries, source_file):
   only on the configuration, the emitter and its two bits *)
Theorem report_history_free : forall tmp_of bk_of formatter (s s' : session) (m : minput),
  same_static s s' -> report_alone tmp_of bk_of formatter s m = report_alone tmp_of bk_of formatter s' m.
Proof. exact Lemmas.report_history_free. Qed.
Print Assumptions report_history_free.

(* last sentence: exit status of a multi-file invocation = maximum of the single-file statuses *)
Theorem exit_is_max : forall tmp_of bk_of formatter (s : session) (check : bool) (ins : list minput),
  s_errors s = flags_zero ->
  exit_of (run_loop tmp_of bk_of formatter s ins) check =
  fold_right N.max 0 (map (exit_single tmp_of bk_of formatter s check) ins).
Proof. exact exit_is_max_lemma. Qed.
Print Assumptions exit_is_max.

(* the exit code is a join-preserving map of the flags *)
Theorem exit_monotone : forall (a b : flags) (c : bool),
  exit_file (flags_add a b) c = N.max (exit_file a c) (exit_file b c).
Proof. exact exit_file_add. Qed.
Print Assumptions exit_monotone.

(* clause "in whatever order": for a permutation of the inputs (all configurations loading), same exit status,
   same accumulated flags, the same per-input reports (each the single-input report), and the JSON document's
   entries are a permutation *)
Theorem order_irrelevant : forall tmp_of bk_of formatter (s : session) (check : bool) (ins ins' : list minput),
  Permutation ins ins' -> existsb aborts ins = false ->
  exit_of (run_loop tmp_of bk_of formatter s ins) check = exit_of (run_loop tmp_of bk_of formatter s ins') check /\
  s_errors (final_session (run_loop tmp_of bk_of formatter s ins)) =
    s_errors (final_session (run_loop tmp_of bk_of formatter s ins')) /\
  reports (run_loop tmp_of bk_of formatter s ins) = map (report_alone tmp_of bk_of formatter s) ins /\
  reports (run_loop tmp_of bk_of formatter s ins') = map (report_alone tmp_of bk_of formatter s) ins' /\
  Permutation (reports (run_loop tmp_of bk_of formatter s ins)) (reports (run_loop tmp_of bk_of formatter s ins')) /\
  Permutation (s_json (final_session (run_loop tmp_of bk_of formatter s ins)))
              (s_json (final_session (run_loop tmp_of bk_of formatter s ins'))).
Proof. exact order_irrelevant_lemma. Qed.
Print Assumptions order_irrelevant.

(* "in whatever order" REFUTED when a local rustfmt.toml fails to load: the inputs after it are not processed
   (main.rs:360 `?`), so the order decides which files are formatted; holds for every formatter *)
Theorem order_irrelevant_cfgerr_refuted : forall tmp_of bk_of formatter,
  exists (s : session) (ins ins' : list minput),
    Permutation ins ins' /\
    length (reports (run_loop tmp_of bk_of formatter s ins)) = 1%nat /\
    length (reports (run_loop tmp_of bk_of formatter s ins')) = 0%nat.
Proof. exact order_cfgerr_refuted_lemma. Qed.
Print Assumptions order_irrelevant_cfgerr_refuted.

(* "its effective configuration" REFUTED for the emitter options: the emitter is created once from the
   invocation's configuration (lib.rs:451); make_backup / emit_mode / print_misformatted_file_names of the
   per-file rustfmt.toml are not in effect (confirmed on the binary: make_backup = true in a discovered
   rustfmt.toml makes no .bk; the same file given with --config-path does) *)
Theorem effective_config_emitter_refuted :
  exists (tmp_of bk_of : path -> path) (formatter : cfg -> input -> input_result) (scfg c : cfg) (i : input),
    cf_backup c = true /\ cf_backup scfg = false /\ cf_mode c = MFiles /\ cf_mode scfg = MFiles /\
    map rp_files (reports (run_loop tmp_of bk_of formatter (session_of_cfg scfg) [MkIn true false (LOk c) i])) =
      [[(i, [Write i [98; 10]], OutNothing)]] /\
    map rp_files (reports (run_loop tmp_of bk_of formatter (session_of_cfg c) [MkIn true false LNone i])) =
      [[(i, [Remove (i + 1); Write (i + 1) [98; 10]; Rename i (i + 2); Rename (i + 1) i], OutNothing)]].
Proof. exact local_emitter_options_ignored_lemma. Qed.
Print Assumptions effective_config_emitter_refuted.

(* the emitter and its bits never change during a session *)
Theorem emitter_fixed : forall tmp_of bk_of formatter (s : session) (ins : list minput),
  s_emitter (final_session (run_loop tmp_of bk_of formatter s ins)) = s_emitter s /\
  s_bits (final_session (run_loop tmp_of bk_of formatter s ins)) = s_bits s.
Proof. exact emitter_fixed_lemma. Qed.
Print Assumptions emitter_fixed.

(* clause "across repeated runs": the same input twice in one session gives the same report twice *)
Theorem same_input_twice : forall tmp_of bk_of formatter (s : session) (m : minput),
  aborts m = false ->
  reports (run_loop tmp_of bk_of formatter s [m; m]) =
  [report_alone tmp_of bk_of formatter s m; report_alone tmp_of bk_of formatter s m].
Proof. exact same_input_twice_lemma. Qed.
Print Assumptions same_input_twice.

(* ReportedErrors::add is a join (re-exported from C06) *)
Theorem flags_add_assoc_comm_idem :
  (forall a b c, flags_add a (flags_add b c) = flags_add (flags_add a b) c) /\
  (forall a b, flags_add a b = flags_add b a) /\
  (forall a, flags_add a a = a) /\
  (forall a, flags_add flags_zero a = a).
Proof. exact flags_semilattice. Qed.
Print Assumptions flags_add_assoc_comm_idem.
