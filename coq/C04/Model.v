(* C04/Model.v — the skip predicates.
   Sources modelled:
     src/utils.rs:245-272   is_skip, is_skip_nested, contains_skip (on rustc's MetaItem, abstracted)
     src/skip.rs:17-79      SkipContext / SkipNameContext: extend, update, skip, skip_all
     src/skip.rs:84-127     is_skip_attr, get_skip_names
     src/visitor.rs         the save / update / restore bracket around an item (visit_item: skip_context_saved)
   Attribute meta items are abstract: a path printed as text (pprust::path_to_string), and for a list its
   arguments. *)
From V Require Import Base.Text.

Inductive meta : Type :=
| Word (path : text)                       (* #[path]            *)
| MList (path : text) (args : list marg)   (* #[path(args)]      *)
| NameValue (path : text)                  (* #[path = lit]      *)
with marg : Type :=
| MItem (m : meta)
| MLit.

(* "rustfmt::skip", "rustfmt_skip", "cfg_attr" *)
Definition SKIP : text := [114; 117; 115; 116; 102; 109; 116; 58; 58; 115; 107; 105; 112].
Definition DEPR_SKIP : text := [114; 117; 115; 116; 102; 109; 116; 95; 115; 107; 105; 112].
Definition CFG_ATTR : text := [99; 102; 103; 95; 97; 116; 116; 114].

Fixpoint is_skip (m : meta) : bool :=
  match m with
  | Word p => eqb_text p SKIP || eqb_text p DEPR_SKIP
  | MList p args =>
      eqb_text p CFG_ATTR &&
      match args with
      | [_; a2] => match a2 with MItem m' => is_skip m' | MLit => false end
      | _ => false
      end
  | NameValue _ => false
  end.

(* an attribute may have no meta form (a.meta() = None): option *)
Definition contains_skip (attrs : list (option meta)) : bool :=
  existsb (fun a => match a with Some m => is_skip m | None => false end) attrs.

(* ------------------------------------------------------------------ *)
(* SkipNameContext *)
Inductive name_ctx : Type := All | Values (names : list text).

Definition nc_default : name_ctx := Values [].
Definition nc_extend (c : name_ctx) (l : list text) : name_ctx :=
  match c with All => All | Values v => Values (v ++ l) end.
Definition nc_update (c other : name_ctx) : name_ctx :=
  match c, other with
  | All, _ => All
  | _, All => All
  | Values a, Values b => Values (a ++ b)
  end.
Definition nc_skip (c : name_ctx) (n : text) : bool :=
  match c with All => true | Values v => existsb (eqb_text n) v end.
Definition nc_skip_all (c : name_ctx) : name_ctx := All.

Record skip_ctx : Type := MkCtx { sc_macros : name_ctx; sc_attributes : name_ctx }.
Definition sc_default : skip_ctx := MkCtx nc_default nc_default.
(* update_with_attrs: names collected from #[rustfmt::skip::macros(..)] / ::attributes(..) *)
Definition sc_update_with (c : skip_ctx) (macros attributes : list text) : skip_ctx :=
  MkCtx (nc_extend (sc_macros c) macros) (nc_extend (sc_attributes c) attributes).
Definition sc_update (c other : skip_ctx) : skip_ctx :=
  MkCtx (nc_update (sc_macros c) (sc_macros other)) (nc_update (sc_attributes c) (sc_attributes other)).

(* the visitor's bracket: an item's own skip names are in force while its children are visited and are
   dropped again afterwards (visit_item: `let skip_context_saved = self.skip_context.clone(); ...;
   self.skip_context = skip_context_saved;`).  [visit] returns, for every item in document order, the
   context it was visited under. *)
Inductive itree : Type := INode (macros attributes : list text) (children : list itree).

Fixpoint visit (c : skip_ctx) (t : itree) : list skip_ctx :=
  match t with
  | INode ms ats children =>
      let c' := sc_update_with c ms ats in
      c' :: flat_map (visit c') children
  end.
Definition visit_siblings (c : skip_ctx) (ts : list itree) : list (list skip_ctx) := map (visit c) ts.
