From V Require Import Base.Text C04.Model C04.Lemmas.
Example nested_cfg_attr : is_skip (MList CFG_ATTR [MItem (Word [120]); MItem (MList CFG_ATTR [MItem (Word [121]); MItem (Word SKIP)])]) = true.
Proof. reflexivity. Qed.
Example three_args_not_skip : is_skip (MList CFG_ATTR [MItem (Word [120]); MItem (Word SKIP); MItem (Word SKIP)]) = false.
Proof. reflexivity. Qed.
Example first_arg_not_skip : is_skip (MList CFG_ATTR [MItem (Word SKIP); MItem (Word [120])]) = false.
Proof. reflexivity. Qed.
Example scoped : visit_siblings sc_default [INode [[97]] [] []; INode [] [] []] =
  [[MkCtx (Values [[97]]) (Values [])]; [MkCtx (Values []) (Values [])]].
Proof. reflexivity. Qed.
