(* C04/Run.v — encodings for the correspondence run.
   A meta item is encoded as nested lists of N: [0; path...]  hmm: constructors are used directly instead:
   the check renders Gallina constructor terms (Word / MList / NameValue / MItem / MLit). *)
From V Require Import Base.Text C04.Model.
Definition run_contains_skip (attrs : list (option meta)) : bool := contains_skip attrs.
Definition run_ctx (macros attributes : list text) (all_macros : bool) (queries : list text) : list (bool * bool) :=
  let c := sc_update_with (MkCtx (if all_macros then All else nc_default) nc_default) macros attributes in
  map (fun q => (nc_skip (sc_macros c) q, nc_skip (sc_attributes c) q)) queries.
