(* C04/Props.v — C04: "An item, statement, expression, field, variant, match arm or module carrying
   #[rustfmt::skip] (directly or via cfg_attr, or the deprecated rustfmt_skip), the arguments of a macro named by
   rustfmt::skip::macros ..., and an attribute named by rustfmt::skip::attributes appear in the output with their
   original bytes ...".  Theorems about the recognition of the marker and the scoping of the name lists; that every
   rewriter consults them is checked syntactically (Gen/SkipSites.v) and end to end (checks/c04.py). *)
From V Require Import Base.Text C04.Model C04.Lemmas.

(* recognised exactly for rustfmt::skip, rustfmt_skip, and cfg_attr(c, m) with exactly two arguments whose second
   is itself recognised — nested cfg_attr to any depth *)
Theorem is_skip_spec : forall m, is_skip m = true <-> IsSkip m.
Proof. intros m. split; [apply is_skip_sound|apply is_skip_complete]. Qed.
Print Assumptions is_skip_spec.

(* the name lists only grow: update / extend never un-skip a name; All is absorbing *)
Theorem ctx_update_spec : forall c o n, nc_skip (nc_update c o) n = nc_skip c n || nc_skip o n.
Proof. exact nc_update_skip. Qed.
Print Assumptions ctx_update_spec.

Theorem ctx_extend_spec : forall c l n, nc_skip (nc_extend c l) n = nc_skip c n || existsb (eqb_text n) l.
Proof. exact nc_extend_skip. Qed.
Print Assumptions ctx_extend_spec.

(* a name skipped on entry of an item stays skipped for everything inside it *)
Theorem ctx_monotone : forall t c c' n, In c' (visit c t) ->
  (nc_skip (sc_macros c) n = true -> nc_skip (sc_macros c') n = true) /\
  (nc_skip (sc_attributes c) n = true -> nc_skip (sc_attributes c') n = true).
Proof. exact visit_monotone. Qed.
Print Assumptions ctx_monotone.

(* scoping: the contexts under which an item's subtree is visited do not depend on its siblings' own lists *)
Theorem ctx_scoped : forall c before after t before' after',
  nth_error (visit_siblings c (before ++ t :: after)) (length before) = Some (visit c t) /\
  nth_error (visit_siblings c (before' ++ t :: after')) (length before') = Some (visit c t).
Proof.
  intros c before after t before' after'. unfold visit_siblings.
  split; rewrite map_app, nth_error_app2, map_length, Nat.sub_diag by (rewrite map_length; apply Nat.le_refl); reflexivity.
Qed.
Print Assumptions ctx_scoped.
