From V Require Import Base.Text C04.Model.

Inductive IsSkip : meta -> Prop :=
| sk_word : IsSkip (Word SKIP)
| sk_depr : IsSkip (Word DEPR_SKIP)
| sk_cfg : forall c m, IsSkip m -> IsSkip (MList CFG_ATTR [c; MItem m]).

Lemma is_skip_sound : forall m, is_skip m = true -> IsSkip m.
Proof.
  fix IH 1. intros [p|p args|p]; cbn [is_skip]; intros H.
  - apply orb_true_iff in H. destruct H as [H|H]; apply eqb_text_spec in H; subst; constructor.
  - apply andb_true_iff in H. destruct H as [Hp Ha]. apply eqb_text_spec in Hp. subst p.
    destruct args as [|c [|a2 [|x rest]]]; try discriminate.
    destruct a2 as [m'|]; [|discriminate]. constructor. apply IH. exact Ha.
  - discriminate.
Qed.

Lemma is_skip_complete : forall m, IsSkip m -> is_skip m = true.
Proof.
  induction 1 as [| |c m H IH]; cbn [is_skip].
  - rewrite (proj2 (eqb_text_spec SKIP SKIP) eq_refl). reflexivity.
  - rewrite (proj2 (eqb_text_spec DEPR_SKIP DEPR_SKIP) eq_refl). apply orb_true_r.
  - rewrite (proj2 (eqb_text_spec CFG_ATTR CFG_ATTR) eq_refl). exact IH.
Qed.

Lemma existsb_app_true {A} (f : A -> bool) a b : existsb f (a ++ b) = existsb f a || existsb f b.
Proof. apply existsb_app. Qed.

Lemma nc_update_skip c o n : nc_skip (nc_update c o) n = nc_skip c n || nc_skip o n.
Proof.
  destruct c as [|a], o as [|b]; cbn [nc_update nc_skip]; rewrite ?orb_true_r; try reflexivity.
  apply existsb_app.
Qed.
Lemma nc_extend_skip c l n : nc_skip (nc_extend c l) n = nc_skip c n || existsb (eqb_text n) l.
Proof. destruct c as [|a]; cbn [nc_extend nc_skip]; [reflexivity|apply existsb_app]. Qed.

(* every context in a subtree's visit extends the context the subtree was entered with *)
Lemma visit_monotone : forall t c c' n, In c' (visit c t) ->
  (nc_skip (sc_macros c) n = true -> nc_skip (sc_macros c') n = true) /\
  (nc_skip (sc_attributes c) n = true -> nc_skip (sc_attributes c') n = true).
Proof.
  fix IH 1. intros [ms ats children] c c' n Hin. cbn [visit] in Hin.
  set (c1 := sc_update_with c ms ats) in *.
  assert (H1 : (nc_skip (sc_macros c) n = true -> nc_skip (sc_macros c1) n = true) /\
               (nc_skip (sc_attributes c) n = true -> nc_skip (sc_attributes c1) n = true)).
  { unfold c1, sc_update_with. cbn [sc_macros sc_attributes]. rewrite !nc_extend_skip.
    split; intros ->; reflexivity. }
  destruct Hin as [<-|Hin]; [exact H1|].
  destruct H1 as [H1a H1b].
  induction children as [|ch rest IHr]; cbn [flat_map] in Hin; [contradiction|].
  apply in_app_or in Hin. destruct Hin as [Hin|Hin].
  - destruct (IH ch c1 c' n Hin) as [Ha Hb]. split; auto.
  - apply IHr. exact Hin.
Qed.
