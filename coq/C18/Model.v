(* C18/Model.v — executable model of cargo-fmt (src/cargo-fmt/main.rs).
   Sources modelled (all in /repo/src/cargo-fmt/main.rs):
     85-151   execute                                  (execute, translate_check)
     162-207  convert_message_format_to_rustfmt_args   (convert_message_format)
     223-231  handle_command_status                    (handle_command_status)
     233-251  get_rustfmt_info                         (get_rustfmt_info)
     253-263  format_crate                             (format_crate)
     267-313  Target, from_target, Eq/Ord on path      (target, from_target, kinsert on t_path)
     325-333  CargoFmtStrategy::from_opts              (strategy_from_opts)
     336-360  get_targets                              (get_targets_gen, get_targets)
     362-402  get_targets_root_only                    (get_targets_root_only)
     404-438  get_targets_recursive                    (rec_gen, get_targets_recursive)
     440-465  get_targets_with_hitlist                 (hitlist_loop, get_targets_with_hitlist)
     467-471  add_targets                              (add_targets)
     473-528  run_rustfmt                              (by_edition, spawn_loop, exit_code_gen, run_rustfmt)
     530-548  get_cargo_metadata                       (the oracle w_meta)
   Two intended repairs are modelled next to the code that exists and selected by ONE line each:
     vkey_all         := vkey_name               (or vkey_path: visited keyed by manifest path); get_targets_all uses it
     failure_code_of  := failure_code            (or failure_code_fixed: a status without code is a failure)
   Definitions only; proofs are in Lemmas.v. *)
From Coq Require Import String Ascii ZArith.
From V Require Import Base.Text.
Open Scope N_scope.
Open Scope list_scope.

(* ------------------------------------------------------------------ *)
(* identifiers *)
Definition path := N.      (* a PathBuf; N order = Ord for PathBuf on the paths that occur *)
Definition pkgname := N.   (* a package name; N order = Ord for String on the names that occur *)
Definition edition := N.   (* cargo_metadata::Edition as its year; derived Ord = declaration order = year order *)

Definition txt (s : string) : text := map N_of_ascii (list_ascii_of_string s).

(* cargo_metadata::Target, the three fields that cargo-fmt reads *)
Record src_target := MkSrc { st_src : path; st_kind : N; st_edition : edition }.
(* cargo_metadata::Dependency: name (the PACKAGE name, not the rename) and path (a directory) *)
Record dep := MkDep { d_name : pkgname; d_path : option path }.
Record pkg := MkPkg { p_name : pkgname; p_manifest : path; p_targets : list src_target; p_deps : list dep }.
Record metadata := MkMeta { workspace_root : path; packages : list pkg }.

(* main.rs:267 Target *)
Record target := MkT { t_path : path; t_kind : N; t_edition : edition }.

(* std::process::ExitStatus of one rustfmt child, or the failure of Command::spawn *)
Inductive status := Exited (code : Z) | Signaled | SpawnFailed.

Inductive arg := AFile (p : path) | AStr (t : text) | AEdition (e : edition).   (* AEdition e = edition.as_str() *)
Record invocation := MkInv { i_stdout_null : bool; i_argv : list arg }.

Inductive error :=
| EMetadata                 (* get_cargo_metadata failed *)
| ENoTargets                (* get_targets: Failed to find targets *)
| ENotMember (n : pkgname)  (* get_targets_with_hitlist: package is not a member of the workspace *)
| ESpawn                    (* Command::spawn failed *)
| EFuel.                    (* model artefact: the recursion ran out of fuel (never with enough fuel) *)
Inductive res (A : Type) := Ok (a : A) | Err (e : error).
Arguments Ok {A} a.
Arguments Err {A} e.

(* the environment of one cargo-fmt run: trusted oracles *)
Record world := MkWorld {
  w_meta : option path -> option metadata;  (* get_cargo_metadata(manifest_path): cargo metadata --no-deps
                                               [--manifest-path p], run in the current directory; None = failure *)
  w_canon : path -> path;                   (* fs::canonicalize(p).unwrap_or(p) *)
  w_exists : path -> bool;                  (* Path::exists *)
  w_toml_in : path -> path;                 (* dir.join(Cargo.toml) *)
  w_cwd : path;                             (* env::current_dir()?.canonicalize()? *)
  w_path_of : text -> path;                 (* PathBuf::from(string) *)
  w_child : invocation -> status            (* what happens to the rustfmt child spawned with this command line *)
}.

(* ------------------------------------------------------------------ *)
(* BTreeSet<T> ordered by a key: strictly ascending list; insert of an element whose key is present
   leaves the set unchanged (alloc::collections::BTreeSet::insert: the entry is not updated) *)
Section Keyed.
Variable A : Type.
Variable key : A -> N.
Fixpoint kinsert (x : A) (s : list A) : list A :=
  match s with
  | [] => [x]
  | u :: s' => if key x <? key u then x :: s
               else if key x =? key u then s
               else u :: kinsert x s'
  end.
Definition kinsert_all (l : list A) (s : list A) : list A := fold_left (fun s x => kinsert x s) l s.
End Keyed.
Arguments kinsert {A} key x s.
Arguments kinsert_all {A} key l s.

Definition tset := list target.                 (* BTreeSet<Target>, key t_path *)
Definition nset := list N.                      (* BTreeSet<String> / BTreeSet<&String> *)
Definition nset_insert (n : N) (s : nset) : nset := kinsert (fun x => x) n s.
Definition nset_mem (n : N) (s : nset) : bool := existsb (N.eqb n) s.
(* BTreeSet::remove: (was present, set without it) *)
Fixpoint nset_remove (n : N) (s : nset) : bool * nset :=
  match s with
  | [] => (false, [])
  | u :: s' => if n =? u then (true, s')
               else let '(b, r) := nset_remove n s' in (b, u :: r)
  end.

Section Model.
Variable w : world.

(* main.rs:277 Target::from_target *)
Definition from_target (t : src_target) : target :=
  MkT (w_canon w (st_src t)) (st_kind t) (st_edition t).

(* main.rs:467 add_targets (and the identical loops at 397 and 450) *)
Definition add_targets (ts : list src_target) (s : tset) : tset :=
  kinsert_all t_path (map from_target ts) s.

(* main.rs:362 get_targets_root_only *)
Definition get_targets_root_only (marg : option path) (s : tset) : res tset :=
  match w_meta w marg with
  | None => Err EMetadata
  | Some md =>
      let wr := w_canon w (workspace_root md) in
      let '(in_workspace_root, current_dir_manifest) :=
        match marg with
        | Some target_manifest => (wr =? target_manifest, w_canon w target_manifest)
        | None => (wr =? w_cwd w, w_toml_in w (w_cwd w))
        end in
      let package_targets :=
        match packages md with
        | [p] => p_targets p
        | ps => flat_map p_targets
                  (filter (fun p => in_workspace_root || (w_canon w (p_manifest p) =? current_dir_manifest)) ps)
        end in
      Ok (add_targets package_targets s)
  end.

(* main.rs:404 get_targets_recursive, generic in the key under which a dependency is recorded in `visited`.
   state = (targets, visited).  The recursion is bounded by fuel; rec_gen 0 is the out-of-fuel error. *)
Section Rec.
Variable vkey : pkgname -> path -> N.   (* name and manifest path of the dependency -> key *)

Section Step.
Variable recf : path -> tset * nset -> res (tset * nset).   (* the recursive call *)
Variable md : metadata.
(* main.rs:419-434  for dependency in &package.dependencies *)
Fixpoint deps_loop (ds : list dep) (st : tset * nset) : res (tset * nset) :=
  match ds with
  | [] => Ok st
  | d :: ds' =>
      match d_path d with
      | None => deps_loop ds' st
      | Some dir =>
          let manifest_path := w_toml_in w dir in
          if nset_mem (vkey (d_name d) manifest_path) (snd st) then deps_loop ds' st
          else if w_exists w manifest_path
                  && negb (existsb (fun p => p_manifest p =? manifest_path) (packages md))
          then match recf manifest_path (fst st, nset_insert (vkey (d_name d) manifest_path) (snd st)) with
               | Ok st' => deps_loop ds' st'
               | Err e => Err e
               end
          else deps_loop ds' st
      end
  end.
(* main.rs:410-435  for package in &metadata.packages *)
Fixpoint pkgs_loop (ps : list pkg) (st : tset * nset) : res (tset * nset) :=
  match ps with
  | [] => Ok st
  | p :: ps' =>
      match deps_loop (p_deps p) (add_targets (p_targets p) (fst st), snd st) with
      | Ok st' => pkgs_loop ps' st'
      | Err e => Err e
      end
  end.
End Step.

Fixpoint rec_gen (fuel : nat) (marg : option path) (st : tset * nset) : res (tset * nset) :=
  match fuel with
  | O => Err EFuel
  | S f =>
      match w_meta w marg with
      | None => Err EMetadata
      | Some md => pkgs_loop (fun m => rec_gen f (Some m)) md (packages md) st
      end
  end.
End Rec.

Definition vkey_name (n : pkgname) (m : path) : N := n.   (* the code: visited.contains(&dependency.name) *)
Definition vkey_path (n : pkgname) (m : path) : N := m.   (* the repair: keyed by the dependency's manifest path *)
Definition get_targets_recursive := rec_gen vkey_name.
Definition get_targets_recursive_fixed := rec_gen vkey_path.
(* THE SWITCH (1 of 2): the key used by the recursion of cargo fmt --all (vkey_name = the code, vkey_path = the repair) *)
Definition vkey_all := vkey_path.
Definition get_targets_all := rec_gen vkey_all.

(* main.rs:440 get_targets_with_hitlist *)
Fixpoint hitlist_loop (ps : list pkg) (hs : nset) (s : tset) : nset * tset :=
  match ps with
  | [] => (hs, s)
  | p :: ps' =>
      let '(found, hs') := nset_remove (p_name p) hs in
      if found then hitlist_loop ps' hs' (add_targets (p_targets p) s)
      else hitlist_loop ps' hs' s
  end.
Definition get_targets_with_hitlist (marg : option path) (hitlist : list pkgname) (s : tset) : res tset :=
  match w_meta w marg with
  | None => Err EMetadata
  | Some md =>
      let workspace_hitlist := fold_left (fun h n => nset_insert n h) hitlist [] in
      match hitlist_loop (packages md) workspace_hitlist s with
      | ([], s') => Ok s'
      | (n :: _, _) => Err (ENotMember n)      (* workspace_hitlist.iter().next(): the least remaining name *)
      end
  end.

(* main.rs:316 CargoFmtStrategy *)
Inductive strategy := SAll | SSome (hitlist : list pkgname) | SRoot.

(* main.rs:336 get_targets *)
Definition get_targets_gen (rec_all : nat -> option path -> tset * nset -> res (tset * nset))
           (fuel : nat) (st : strategy) (marg : option path) : res tset :=
  let r := match st with
           | SRoot => get_targets_root_only marg []
           | SAll => match rec_all fuel marg ([], []) with Ok x => Ok (fst x) | Err e => Err e end
           | SSome hitlist => get_targets_with_hitlist marg hitlist []
           end in
  match r with
  | Err e => Err e
  | Ok [] => Err ENoTargets
  | Ok s => Ok s
  end.
Definition get_targets := get_targets_gen get_targets_all.
Definition get_targets_fixed := get_targets_gen get_targets_recursive_fixed.

(* ------------------------------------------------------------------ *)
(* main.rs:478-488 the BTreeMap<&Edition, Vec<&PathBuf>> built by the fold *)
Fixpoint bm_push (e : edition) (p : path) (m : list (edition * list path)) : list (edition * list path) :=
  match m with
  | [] => [(e, [p])]
  | (e', fs) :: m' => if e <? e' then (e, [p]) :: m
                      else if e =? e' then (e', fs ++ [p]) :: m'
                      else (e', fs) :: bm_push e p m'
  end.
Definition by_edition (ts : tset) : list (edition * list path) :=
  fold_left (fun h t => bm_push (t_edition t) (t_path t) h) ts [].

Inductive verbosity := Verbose | Normal | Quiet.
Definition is_quiet (v : verbosity) : bool := match v with Quiet => true | _ => false end.

(* main.rs:506-510 the command line: files, then --edition E, then fmt_args *)
Definition mk_invocation (v : verbosity) (e : edition) (files : list path) (fmt_args : list text) : invocation :=
  MkInv (is_quiet v) (map AFile files ++ [AStr (txt "--edition"); AEdition e] ++ map AStr fmt_args).

(* main.rs:490-521 the loop: spawn, then wait, one edition after the other; a failing spawn returns at once.
   Result: the waited statuses (None = the spawn error was propagated) and the commands spawned or attempted *)
Fixpoint spawn_loop (v : verbosity) (groups : list (edition * list path)) (fmt_args : list text)
  : option (list status) * list invocation :=
  match groups with
  | [] => (Some [], [])
  | (e, files) :: gs =>
      let inv := mk_invocation v e files fmt_args in
      match w_child w inv with
      | SpawnFailed => (None, [inv])
      | s => let '(r, invs) := spawn_loop v gs fmt_args in
             (match r with Some ss => Some (s :: ss) | None => None end, inv :: invs)
      end
  end.

(* ExitStatus::code / success *)
Definition status_code (s : status) : option Z :=
  match s with Exited c => Some c | _ => None end.
Definition status_success (s : status) : bool :=
  match s with Exited c => Z.eqb c 0 | _ => false end.

Definition SUCCESS : Z := 0.
Definition FAILURE : Z := 1.

(* main.rs:525 the closure  |s| if s.success() { None } else { s.code() } *)
Definition failure_code (s : status) : option Z :=
  if status_success s then None else status_code s.
(* the repair: a status without a code (death by signal) counts as FAILURE *)
Definition failure_code_fixed (s : status) : option Z :=
  if status_success s then None else Some (match status_code s with Some c => c | None => FAILURE end).
(* THE SWITCH (2 of 2): how a child status contributes to the exit code *)
Definition failure_code_of := failure_code_fixed.

Fixpoint filter_map {A B} (f : A -> option B) (l : list A) : list B :=
  match l with
  | [] => []
  | x :: l' => match f x with Some y => y :: filter_map f l' | None => filter_map f l' end
  end.

(* main.rs:523-527  status.iter().filter_map(..).next().unwrap_or(SUCCESS) *)
Definition fold_statuses (fc : status -> option Z) (ss : list status) : Z :=
  match filter_map fc ss with c :: _ => c | [] => SUCCESS end.

(* main.rs:473 run_rustfmt *)
Definition run_rustfmt (targets : tset) (fmt_args : list text) (v : verbosity) : res Z * list invocation :=
  let '(r, invs) := spawn_loop v (by_edition targets) fmt_args in
  (match r with Some ss => Ok (fold_statuses failure_code_of ss) | None => Err ESpawn end, invs).

(* main.rs:223 handle_command_status *)
Definition handle_command_status (r : res Z) : Z :=
  match r with Err _ => FAILURE | Ok c => c end.

(* main.rs:253 format_crate *)
Definition format_crate (fuel : nat) (v : verbosity) (st : strategy) (rustfmt_args : list text)
           (marg : option path) : res Z * list invocation :=
  match get_targets fuel st marg with
  | Err e => (Err e, [])
  | Ok targets => run_rustfmt targets rustfmt_args v
  end.

(* main.rs:233 get_rustfmt_info (rustfmt --version, --help, --print-config: nothing is formatted) *)
Definition get_rustfmt_info (args : list text) : res Z * list invocation :=
  let inv := MkInv false (map AStr args) in
  (match w_child w inv with
   | SpawnFailed => Err ESpawn
   | s => if status_success s then Ok SUCCESS
          else Ok (match status_code s with Some c => c | None => SUCCESS end)
   end, [inv]).

(* ------------------------------------------------------------------ *)
(* str::starts_with / ends_with *)
Fixpoint starts_with (pre t : text) : bool :=
  match pre, t with
  | [], _ => true
  | c :: pre', d :: t' => (c =? d) && starts_with pre' t'
  | _ :: _, [] => false
  end.
Definition ends_with (suf t : text) : bool := starts_with (rev suf) (rev t).

(* main.rs:162 convert_message_format_to_rustfmt_args; None = Err(msg) *)
Definition convert_message_format (message_format : text) (rustfmt_args : list text) : option (list text) :=
  let contains_emit_mode := existsb (starts_with (txt "--emit")) rustfmt_args in
  let contains_check := existsb (fun a => eqb_text a (txt "--check")) rustfmt_args in
  let contains_list_files :=
    existsb (fun a => eqb_text a (txt "-l") || eqb_text a (txt "--files-with-diff")) rustfmt_args in
  if eqb_text message_format (txt "short") then
    Some (if contains_list_files then rustfmt_args else rustfmt_args ++ [txt "-l"])
  else if eqb_text message_format (txt "json") then
    if contains_emit_mode then None
    else if contains_check then None
    else Some (rustfmt_args ++ [txt "--emit"; txt "json"])
  else if eqb_text message_format (txt "human") then Some rustfmt_args
  else None.

(* main.rs:32 Opts as parsed by clap *)
Record opts := MkOpts {
  o_quiet : bool; o_verbose : bool; o_version : bool;
  o_packages : list pkgname;
  o_manifest_path : option text;
  o_message_format : option text;
  o_rustfmt_options : list text;     (* everything after -- *)
  o_format_all : bool;
  o_check : bool
}.

(* main.rs:326 CargoFmtStrategy::from_opts *)
Definition strategy_from_opts (o : opts) : strategy :=
  match o_format_all o, o_packages o with
  | false, [] => SRoot
  | true, _ => SAll
  | false, ps => SSome ps
  end.

(* main.rs:122-127 *)
Definition translate_check (check : bool) (rustfmt_args : list text) : list text :=
  if check then
    if existsb (fun a => eqb_text a (txt "--check")) rustfmt_args then rustfmt_args
    else rustfmt_args ++ [txt "--check"]
  else rustfmt_args.

(* main.rs:112-116 *)
Definition is_info_option (s : text) : bool :=
  existsb (eqb_text s) [txt "--print-config"; txt "-h"; txt "--help"; txt "-V"; txt "--version"]
  || starts_with (txt "--help=") s || starts_with (txt "--print-config=") s.

(* main.rs:85 execute: (exit status, rustfmt commands spawned or attempted, in order) *)
Definition execute (fuel : nat) (o : opts) : Z * list invocation :=
  match (match o_verbose o, o_quiet o with
         | false, false => Some Normal
         | false, true => Some Quiet
         | true, false => Some Verbose
         | true, true => None
         end) with
  | None => (FAILURE, [])
  | Some v =>
      if o_version o then
        let '(r, invs) := get_rustfmt_info [txt "--version"] in (handle_command_status r, invs)
      else if existsb is_info_option (o_rustfmt_options o) then
        let '(r, invs) := get_rustfmt_info (o_rustfmt_options o) in (handle_command_status r, invs)
      else
        let st := strategy_from_opts o in
        let rustfmt_args := translate_check (o_check o) (o_rustfmt_options o) in
        match (match o_message_format o with
               | Some mf => convert_message_format mf rustfmt_args
               | None => Some rustfmt_args
               end) with
        | None => (FAILURE, [])
        | Some rustfmt_args =>
            match o_manifest_path o with
            | Some specified =>
                if negb (ends_with (txt "Cargo.toml") specified) then (FAILURE, [])
                else let '(r, invs) := format_crate fuel v st rustfmt_args (Some (w_path_of w specified)) in
                     (handle_command_status r, invs)
            | None =>
                let '(r, invs) := format_crate fuel v st rustfmt_args None in
                (handle_command_status r, invs)
            end
        end
  end.

End Model.

(* ------------------------------------------------------------------ *)
(* The exit status as a function of the fates of the planned rustfmt commands, in order (those after a
   failed spawn are never run): this is handle_command_status (run_rustfmt ..) seen from outside. *)
Fixpoint waited (ss : list status) : option (list status) :=
  match ss with
  | [] => Some []
  | SpawnFailed :: _ => None
  | s :: r => match waited r with Some l => Some (s :: l) | None => None end
  end.
Definition exit_code_gen (fc : status -> option Z) (ss : list status) : Z :=
  match waited ss with
  | None => FAILURE
  | Some l => fold_statuses fc l
  end.
Definition exit_code := exit_code_gen failure_code.
Definition exit_code_fixed := exit_code_gen failure_code_fixed.
Definition exit_code_of := exit_code_gen failure_code_of.
