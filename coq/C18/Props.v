(* C18/Props.v — the property theorems of C18 (statements only; proofs in Lemmas.v).
   C18: "`cargo fmt` invokes rustfmt on exactly the root source files of all targets of the selected packages (the
   current package, the packages named with -p, or with --all every workspace member and every local path
   dependency, transitively), each file once, each with the edition declared for its target, passing through the
   options given after `--` and `--check` / `--message-format`; its exit status is non-zero exactly when some
   rustfmt invocation failed, and an unknown package or unusable manifest path is an error before anything is
   formatted."

   TRUSTED ORACLES (fields of the record `world`, universally quantified in every theorem):
     w_meta    : option path -> option metadata   the result of `cargo metadata --no-deps [--manifest-path p]`
                                                  (get_cargo_metadata, main.rs:530); None = it failed
     w_canon   : fs::canonicalize(p).unwrap_or(p);  w_exists : Path::exists;  w_toml_in : dir.join(Cargo.toml)
     w_cwd     : the canonical current directory;   w_path_of : PathBuf::from
     w_child   : invocation -> status               what happens to the rustfmt child with that command line
   Also trusted: BTreeSet / BTreeMap iterate in key order and `insert` of an equal element keeps the old one; the
   order on paths, names and editions is the order of their N identifiers; std::process::exit keeps a child's
   code (0..255 on Unix) as it is.
   `fuel` bounds the recursion of --all; fuel_enough and fuel_irrelevant show that it does not matter.
   SWITCHES (Model.v): vkey_all (visited keyed by name / by manifest path) and failure_code_of.  Theorems about
   get_targets / exit_code_of hold for both settings; `_refuted` theorems name the code that exists explicitly
   (get_targets_recursive, exit_code), `fixed_` theorems the repaired one. *)
From Coq Require Import String Ascii ZArith Sorted.
From V Require Import Base.Text C18.Model C18.Lemmas.
Open Scope N_scope.
Open Scope list_scope.

(* ---------------- which files ---------------- *)

(* Root (no -p, no --all): exactly the targets of the packages of the metadata that are selected by main.rs:381-395:
   the only package, or every package when the canonical workspace root equals cwd (without --manifest-path) or
   equals the --manifest-path argument itself, or the package whose canonical manifest path is cwd/Cargo.toml
   (resp. the canonical --manifest-path); inserted in metadata order *)
Theorem targets_spec_root : forall (w : world) (fuel : nat) (marg : option path) (s : tset),
  get_targets w fuel SRoot marg = Ok s ->
  exists md, w_meta w marg = Some md /\ selects w (root_selected w marg md) s /\
             s = add_targets w (flat_map p_targets (root_packages w marg md)) [].
Proof. exact targets_spec_root_lemma. Qed.
Print Assumptions targets_spec_root.

(* ... but pointing at a virtual workspace root with --manifest-path is not the same as running there: the
   workspace root DIRECTORY is compared with the manifest FILE (main.rs:370), so no package is selected *)
Theorem root_manifest_path_same_as_cwd_refuted :
  exists (w : world) (fuel : nat) (md : metadata) (s : tset),
    w_meta w None = Some md /\ w_meta w (Some (w_toml_in w (w_cwd w))) = Some md /\
    get_targets w fuel SRoot None = Ok s /\
    get_targets w fuel SRoot (Some (w_toml_in w (w_cwd w))) = Err ENoTargets.
Proof. exact root_manifest_path_refuted_lemma. Qed.
Print Assumptions root_manifest_path_same_as_cwd_refuted.

(* -p names: exactly the targets of the first workspace package with each given name; every name is a member *)
Theorem targets_spec_some : forall (w : world) (fuel : nat) (hitlist : list pkgname) (marg : option path) (s : tset),
  get_targets w fuel (SSome hitlist) marg = Ok s ->
  exists md, w_meta w marg = Some md /\ selects w (some_selected hitlist md) s /\
             (forall n, In n hitlist -> exists p, In p (packages md) /\ p_name p = n) /\
             s = add_targets w (flat_map p_targets
                   (hit_list (packages md) (fold_left (fun h n => nset_insert n h) hitlist []))) [].
Proof. exact targets_spec_some_lemma. Qed.
Print Assumptions targets_spec_some.

(* --all: exactly the targets of all packages of all metadata reachable through path dependencies that exist and
   are not members of the metadata that mentions them -- provided no two followed edges carry the same
   dependency NAME to different manifests *)
Theorem targets_spec_all : forall (w : world) (fuel : nat) (marg : option path) (s : tset),
  distinct_dep_names w marg ->
  get_targets w fuel SAll marg = Ok s -> selects w (all_selected w marg) s.
Proof. exact targets_spec_all_lemma. Qed.
Print Assumptions targets_spec_all.

(* partial: without the hypothesis only one half remains: nothing outside the closure is formatted *)
Theorem targets_spec_all_partial : forall (w : world) (fuel : nat) (marg : option path) (s : tset),
  get_targets w fuel SAll marg = Ok s ->
  forall t, In t s -> exists p st, all_selected w marg p /\ In st (p_targets p) /\ t = from_target w st.
Proof. exact targets_all_sound. Qed.
Print Assumptions targets_spec_all_partial.

(* the code that exists (visited keyed by dependency name) loses the second of two path dependencies with the
   same package name: witness = workspace {a -> util at ext/util, b -> util at ext2/util}; whatever the fuel *)
Theorem targets_spec_all_refuted :
  exists (w : world) (fuel : nat) (marg : option path) (s : tset) (p : pkg) (st : src_target),
    get_targets_gen w (get_targets_recursive w) fuel SAll marg = Ok s /\
    (forall k, get_targets_gen w (get_targets_recursive w) (k + fuel) SAll marg = Ok s) /\
    all_selected w marg p /\ In st (p_targets p) /\ ~ In (w_canon w (st_src st)) (tpaths s).
Proof. exact targets_spec_all_refuted_lemma. Qed.
Print Assumptions targets_spec_all_refuted.

(* the repair (visited keyed by the dependency's manifest path) needs no hypothesis *)
Theorem fixed_targets_spec_all : forall (w : world) (fuel : nat) (marg : option path) (s : tset),
  get_targets_fixed w fuel SAll marg = Ok s -> selects w (all_selected w marg) s.
Proof. exact fixed_targets_spec_all_lemma. Qed.
Print Assumptions fixed_targets_spec_all.

(* termination: when the keys of all followed edges lie in a finite list U, fuel > |U| never runs out --
   cyclic path dependencies included *)
Theorem fuel_enough : forall (w : world) (U : list N) (fuel : nat) (st : strategy) (marg : option path),
  (forall m n mp, Reach w marg m -> Edge w m n mp -> In (vkey_all n mp) U) ->
  (List.length U < fuel)%nat -> get_targets w fuel st marg <> Err EFuel.
Proof. exact fuel_enough_lemma. Qed.
Print Assumptions fuel_enough.

(* ... and more fuel never changes an answer *)
Theorem fuel_irrelevant : forall (w : world) (fuel k : nat) (st : strategy) (marg : option path) (r : res tset),
  get_targets w fuel st marg = r -> r <> Err EFuel -> get_targets w (k + fuel) st marg = r.
Proof. exact fuel_irrelevant_lemma. Qed.
Print Assumptions fuel_irrelevant.

(* ---------------- each file once, with which edition ---------------- *)

Theorem each_path_once : forall (w : world) (fuel : nat) (st : strategy) (marg : option path) (s : tset),
  get_targets w fuel st marg = Ok s -> NoDup (map t_path s) /\ StronglySorted N.lt (map t_path s).
Proof. exact each_path_once_lemma. Qed.
Print Assumptions each_path_once.

(* ... and the command lines together name each of these files exactly once *)
Theorem each_file_once_in_invocations : forall s : tset,
  NoDup (map t_path s) ->
  NoDup (concat (map snd (by_edition s))) /\
  (forall p, In p (concat (map snd (by_edition s))) <-> In p (map t_path s)).
Proof. exact files_once_lemma. Qed.
Print Assumptions each_file_once_in_invocations.

(* for a canonical path shared by several inserted targets, the element kept (hence the edition used) is that of
   the FIRST target inserted with that path: BTreeSet::insert does not replace.  The insertion sequences are given
   by targets_spec_root / targets_spec_some *)
Theorem edition_of_target : forall (l : list target) (t : target),
  In t (kinsert_all t_path l []) <->
  exists l1 l2, l = l1 ++ t :: l2 /\ ~ In (t_path t) (map t_path l1).
Proof. exact edition_of_target_lemma. Qed.
Print Assumptions edition_of_target.

(* hence "each with the edition declared for its target" fails for a file that is the root of two targets with
   different editions: witness = packages a (2015) and b (2021) with the same lib.rs; b's target is formatted
   with 2015 only *)
Theorem edition_shared_file_refuted :
  exists (w : world) (fuel : nat) (marg : option path) (md : metadata) (s : tset) (p : pkg) (st : src_target),
    get_targets w fuel SRoot marg = Ok s /\ w_meta w marg = Some md /\
    root_selected w marg md p /\ In st (p_targets p) /\
    forall t, In t s -> t_path t = w_canon w (st_src st) -> t_edition t <> st_edition st.
Proof. exact edition_shared_file_refuted_lemma. Qed.
Print Assumptions edition_shared_file_refuted.

(* ---------------- the rustfmt command lines ---------------- *)

(* one group per edition present, in ascending edition order, each with the files of that edition in set order *)
Theorem by_edition_spec : forall s : tset,
  StronglySorted N.lt (map fst (by_edition s)) /\
  (forall e, In e (map fst (by_edition s)) <-> exists t, In t s /\ t_edition t = e) /\
  (forall e fs, In (e, fs) (by_edition s) -> fs = map t_path (filter (fun t => t_edition t =? e) s)).
Proof. exact by_edition_spec_lemma. Qed.
Print Assumptions by_edition_spec.

(* run_rustfmt spawns the planned commands one after the other (argv = files ++ [--edition; E] ++ args, stdout
   null iff -q) up to and including the first whose spawn fails; its status is exit_code_of their fates *)
Theorem invocations_spec : forall (w : world) (s : tset) (args : list text) (v : verbosity),
  handle_command_status (fst (run_rustfmt w s args v)) = exit_code_of (map (w_child w) (planned v s args)) /\
  snd (run_rustfmt w s args v) = upto_spawn_failure w (planned v s args) /\
  (forall i, In i (planned v s args) ->
     exists e files, In (e, files) (by_edition s) /\
       i = MkInv (is_quiet v) (map AFile files ++ [AStr (txt "--edition"); AEdition e] ++ map AStr args)) /\
  ((forall i, In i (planned v s args) -> w_child w i <> SpawnFailed) ->
   snd (run_rustfmt w s args v) = planned v s args).
Proof. exact invocations_spec_lemma. Qed.
Print Assumptions invocations_spec.

(* the options after -- reach every rustfmt verbatim and first; cargo-fmt only appends *)
Theorem passthrough : forall (o : opts) (a : list text),
  final_args o = Some a ->
  exists extra, a = o_rustfmt_options o ++ extra /\
    forall x, In x extra -> In x [txt "--check"; txt "-l"; txt "--emit"; txt "json"].
Proof. exact passthrough_lemma. Qed.
Print Assumptions passthrough.

(* --check adds exactly one --check, unless one was already given after -- *)
Theorem check_flag : forall a : list text,
  translate_check false a = a /\
  (In (txt "--check") a -> translate_check true a = a) /\
  (~ In (txt "--check") a -> translate_check true a = a ++ [txt "--check"]).
Proof. exact check_flag_lemma. Qed.
Print Assumptions check_flag.

Theorem message_format_short : forall a : list text,
  (has_list_files a -> convert_message_format (txt "short") a = Some a) /\
  (~ has_list_files a -> convert_message_format (txt "short") a = Some (a ++ [txt "-l"])).
Proof. exact message_format_short_lemma. Qed.
Print Assumptions message_format_short.

(* json: an error together with any --emit... or --check (also the one added by cargo fmt --check) *)
Theorem message_format_json : forall a : list text,
  (has_emit a \/ In (txt "--check") a -> convert_message_format (txt "json") a = None) /\
  (~ has_emit a -> ~ In (txt "--check") a ->
   convert_message_format (txt "json") a = Some (a ++ [txt "--emit"; txt "json"])).
Proof. exact message_format_json_lemma. Qed.
Print Assumptions message_format_json.

Theorem message_format_human : forall a : list text, convert_message_format (txt "human") a = Some a.
Proof. exact message_format_human_lemma. Qed.
Print Assumptions message_format_human.

Theorem message_format_other : forall (mf : text) (a : list text),
  mf <> txt "short" -> mf <> txt "json" -> mf <> txt "human" -> convert_message_format mf a = None.
Proof. exact message_format_other_lemma. Qed.
Print Assumptions message_format_other.

(* execute outside the --version / --help / --print-config requests: the strategy, the translated options and the
   manifest argument go to format_crate; its targets decide between an error and the run of the planned commands.
   -q and -v are not handed to rustfmt (they only select stdout and printing) *)
Theorem execute_spec : forall (w : world) (fuel : nat) (o : opts) (v : verbosity) (a : list text) (marg : option path),
  info_request o = false -> verbosity_of o = Some v -> final_args o = Some a -> manifest_arg w o = Some marg ->
  match get_targets w fuel (strategy_from_opts o) marg with
  | Err _ => execute w fuel o = (FAILURE, [])
  | Ok s => execute w fuel o = (exit_code_of (map (w_child w) (planned v s a)),
                                upto_spawn_failure w (planned v s a))
  end.
Proof. exact execute_spec_lemma. Qed.
Print Assumptions execute_spec.

(* ---------------- exit status ---------------- *)

(* false of the code that exists: a child killed by a signal has no code and is dropped by the filter_map *)
Theorem exit_iff_refuted :
  exists ss : list status, ~ (exit_code ss <> 0%Z <-> exists s, In s ss /\ s <> Exited 0).
Proof. exact exit_iff_refuted_lemma. Qed.
Print Assumptions exit_iff_refuted.

(* partial: it holds when no child dies from a signal (failed spawns included) *)
Theorem exit_iff_partial : forall ss : list status,
  ~ In Signaled ss -> (exit_code_of ss <> 0%Z <-> exists s, In s ss /\ s <> Exited 0).
Proof. exact exit_of_iff_nosig_lemma. Qed.
Print Assumptions exit_iff_partial.

(* the repair (a status without a code is a failure) makes it unconditional *)
Theorem fixed_exit_iff : forall ss : list status,
  exit_code_fixed ss <> 0%Z <-> exists s, In s ss /\ s <> Exited 0.
Proof. exact fixed_exit_iff_lemma. Qed.
Print Assumptions fixed_exit_iff.

(* end to end, same restriction: non-zero exactly when some spawned rustfmt did not exit with 0 *)
Theorem execute_exit_partial :
  forall (w : world) (fuel : nat) (o : opts) (v : verbosity) (a : list text) (marg : option path) (s : tset),
  info_request o = false -> verbosity_of o = Some v -> final_args o = Some a -> manifest_arg w o = Some marg ->
  get_targets w fuel (strategy_from_opts o) marg = Ok s ->
  (forall i, In i (planned v s a) -> w_child w i <> Signaled) ->
  (fst (execute w fuel o) <> 0%Z <-> exists i, In i (snd (execute w fuel o)) /\ w_child w i <> Exited 0).
Proof. exact execute_exit_lemma. Qed.
Print Assumptions execute_exit_partial.

(* ---------------- errors before anything is formatted ---------------- *)

(* -p with a name that is no workspace member: the error names the least such name; no rustfmt is run *)
Theorem unknown_package_before_format :
  forall (w : world) (fuel : nat) (v : verbosity) (a : list text) (hitlist : list pkgname) (marg : option path)
         (md : metadata) (n : pkgname),
  w_meta w marg = Some md -> In n hitlist -> (forall p, In p (packages md) -> p_name p <> n) ->
  exists n', get_targets w fuel (SSome hitlist) marg = Err (ENotMember n') /\
             In n' hitlist /\ (forall p, In p (packages md) -> p_name p <> n') /\ n' <= n /\
             format_crate w fuel v (SSome hitlist) a marg = (Err (ENotMember n'), []).
Proof. exact unknown_package_before_format_lemma. Qed.
Print Assumptions unknown_package_before_format.

(* ... but together with --all the -p names are ignored (main.rs:329): an unknown package is then no error *)
Theorem unknown_package_with_all_refuted :
  exists (w : world) (fuel : nat) (o : opts) (n : pkgname) (md : metadata),
    o_format_all o = true /\ In n (o_packages o) /\ manifest_arg w o = Some None /\
    w_meta w None = Some md /\ (forall p, In p (packages md) -> p_name p <> n) /\
    fst (execute w fuel o) = 0%Z /\ snd (execute w fuel o) <> [].
Proof. exact unknown_package_with_all_refuted_lemma. Qed.
Print Assumptions unknown_package_with_all_refuted.

(* cargo metadata fails at the (current or given) manifest: error, no rustfmt is run *)
Theorem metadata_failure_before_format :
  forall (w : world) (fuel : nat) (v : verbosity) (st : strategy) (a : list text) (marg : option path),
  w_meta w marg = None -> (0 < fuel)%nat ->
  format_crate w fuel v st a marg = (Err EMetadata, []).
Proof. exact metadata_failure_before_format_lemma. Qed.
Print Assumptions metadata_failure_before_format.

(* any error of the target selection (also cargo metadata failing on a dependency met during --all) comes
   before the first rustfmt *)
Theorem target_error_before_format :
  forall (w : world) (fuel : nat) (v : verbosity) (st : strategy) (a : list text) (marg : option path) (e : error),
  get_targets w fuel st marg = Err e -> format_crate w fuel v st a marg = (Err e, []).
Proof. exact format_crate_err. Qed.
Print Assumptions target_error_before_format.

(* -q with -v, a bad --message-format combination, or a --manifest-path that does not end in Cargo.toml:
   exit status 1 and no rustfmt is run *)
Theorem usage_error_before_format : forall (w : world) (fuel : nat) (o : opts),
  info_request o = false ->
  verbosity_of o = None \/ final_args o = None \/ manifest_arg w o = None ->
  execute w fuel o = (FAILURE, []).
Proof. exact execute_usage_error. Qed.
Print Assumptions usage_error_before_format.
