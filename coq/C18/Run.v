(* C18/Run.v — encodings of model results for the correspondence run.

   N-ENCODING (what the check has to supply).
   * Every file path that occurs (manifests, target source files AFTER canonicalisation) gets an N identifier
     such that N order = Ord for PathBuf (component-wise, each component by bytes).  A directory is never named
     directly: it is represented by the identifier of the Cargo.toml inside it (cwd by cwd/Cargo.toml, the
     workspace root by workspace_root/Cargo.toml, a dependency's `path` by path/Cargo.toml).  Internally a file f
     becomes the model path 2f and the directory of manifest m the model path 2m+1, so that a directory never
     equals a file (main.rs:370 compares the two) and dir.join(Cargo.toml) is 2m+1 |-> 2m.
   * Package names get N identifiers such that N order = Ord for String (the error names the LEAST missing one).
   * Editions are their year (2015, 2018, 2021, 2024).
   * metas : for each manifest path at which `cargo metadata --no-deps --manifest-path M` succeeds, the pair
       (M, (workspace_root/Cargo.toml, [ (name, manifest_path, [(src_path, edition)], [(dep name, dep manifest)]) ]))
     with packages, targets and dependencies in the order of the JSON; a dependency without `path` has None.
     A manifest exists (Path::exists) iff it is a key of metas or is listed in `broken` (exists, but cargo
     metadata fails on it).  The entry for the manifest of the current directory must be present under the key
     cur_manifest = cwd/Cargo.toml (when cwd has no Cargo.toml of its own, this key is still cwd/Cargo.toml and
     the entry is what cargo metadata finds by searching upwards).
   * strategy : 0 Root, 1 Some hitlist, 2 All.
   * result: Some [(path, edition)] in BTreeSet order = the order of the command line; None = error. *)
From Coq Require Import String Ascii ZArith.
From V Require Import Base.Text C18.Model.
Open Scope N_scope.
Open Scope list_scope.

Definition enc_pkg := (N * N * list (N * N) * list (N * option N))%type.
Definition enc_meta := (N * list enc_pkg)%type.

Definition fileP (f : N) : path := 2 * f.
Definition dirP (m : N) : path := 2 * m + 1.

Definition dec_pkg (p : enc_pkg) : pkg :=
  let '(name, manifest, targets, deps) := p in
  MkPkg name (fileP manifest)
        (map (fun t => MkSrc (fileP (fst t)) 0 (snd t)) targets)
        (map (fun d => MkDep (fst d) (match snd d with Some m => Some (dirP m) | None => None end)) deps).
Definition dec_meta (m : enc_meta) : metadata :=
  MkMeta (dirP (fst m)) (map dec_pkg (snd m)).

Fixpoint lookup (k : N) (l : list (N * enc_meta)) : option enc_meta :=
  match l with
  | [] => None
  | (k', v) :: l' => if k =? k' then Some v else lookup k l'
  end.

Definition run_world (cur_manifest : N) (metas : list (N * enc_meta)) (broken : list N) : world :=
  MkWorld
    (fun marg => match marg with
                 | None => option_map dec_meta (lookup cur_manifest metas)
                 | Some p => if N.even p then option_map dec_meta (lookup (N.div2 p) metas) else None
                 end)
    (fun p => p)
    (fun p => N.even p && (existsb (fun kv => fst kv =? N.div2 p) metas || existsb (N.eqb (N.div2 p)) broken))
    (fun d => d - 1)
    (dirP cur_manifest)
    (fun _ => 0)
    (fun _ => Exited 0).

Definition dec_strategy (s : N) (hitlist : list N) : strategy :=
  if s =? 0 then SRoot else if s =? 1 then SSome hitlist else SAll.

(* enough fuel: one more than the number of dependency entries in all metadata *)
Definition run_fuel (metas : list (N * enc_meta)) : nat :=
  S (List.length (flat_map (fun kv => flat_map (fun p => snd p) (snd (snd kv))) metas)).

Definition enc_targets (r : res tset) : option (list (N * N)) :=
  match r with
  | Ok s => Some (map (fun t => (N.div2 (t_path t), t_edition t)) s)
  | Err _ => None
  end.
(* 0 ok, 1 cargo metadata failed, 2 Failed to find targets, 3 not a member (with the name), 4 spawn, 5 fuel *)
Definition enc_error (r : res tset) : N * N :=
  match r with
  | Ok _ => (0, 0)
  | Err EMetadata => (1, 0)
  | Err ENoTargets => (2, 0)
  | Err (ENotMember n) => (3, n)
  | Err ESpawn => (4, 0)
  | Err EFuel => (5, 0)
  end.

(* general form: with_manifest_path = true models `--manifest-path cur_manifest` *)
Definition run_targets_res (with_manifest_path : bool) (strategy : N) (hitlist : list N) (cur_manifest : N)
           (metas : list (N * enc_meta)) (broken : list N) : res tset :=
  get_targets (run_world cur_manifest metas broken) (run_fuel metas) (dec_strategy strategy hitlist)
              (if with_manifest_path then Some (fileP cur_manifest) else None).

(* cargo fmt [-p ..|--all] run in the directory of cur_manifest *)
Definition run_targets (strategy : N) (hitlist : list N) (cur_manifest : N) (metas : list (N * enc_meta))
  : option (list (N * N)) :=
  enc_targets (run_targets_res false strategy hitlist cur_manifest metas []).
(* cargo fmt --manifest-path cur_manifest *)
Definition run_targets_mp (strategy : N) (hitlist : list N) (cur_manifest : N) (metas : list (N * enc_meta))
  : option (list (N * N)) :=
  enc_targets (run_targets_res true strategy hitlist cur_manifest metas []).
Definition run_targets_ex (with_manifest_path : bool) (strategy : N) (hitlist : list N) (cur_manifest : N)
           (metas : list (N * enc_meta)) (broken : list N) : option (list (N * N)) * (N * N) :=
  let r := run_targets_res with_manifest_path strategy hitlist cur_manifest metas broken in
  (enc_targets r, enc_error r).
(* the same with the repaired recursion (visited keyed by manifest path) *)
Definition run_targets_fixed (strategy : N) (hitlist : list N) (cur_manifest : N) (metas : list (N * enc_meta))
  : option (list (N * N)) :=
  enc_targets (get_targets_fixed (run_world cur_manifest metas []) (run_fuel metas)
                                 (dec_strategy strategy hitlist) None).

(* the rustfmt command lines for a target set given as (path, edition) in BTreeSet order:
   one (edition, files) per command, in the order in which they are spawned *)
Definition run_invocations (targets : list (N * N)) : list (N * list N) :=
  by_edition (map (fun t => MkT (fst t) 0 (snd t)) targets).

(* full argv of each command: files as (0, id), strings as (1, text), the edition as (2, year) *)
Definition enc_arg (a : arg) : N * text :=
  match a with AFile p => (0, [p]) | AStr t => (1, t) | AEdition e => (2, [e]) end.
Definition run_argv (targets : list (N * N)) (fmt_args : list text) : list (list (N * text)) :=
  map (fun g => map enc_arg (i_argv (mk_invocation Normal (fst g) (snd g) fmt_args)))
      (run_invocations targets).

(* the options handed to every rustfmt: --check, --message-format and everything after `--`; None = usage error *)
Definition run_args (check : bool) (message_format : option text) (rustfmt_options : list text)
  : option (list text) :=
  let a := translate_check check rustfmt_options in
  match message_format with Some mf => convert_message_format mf a | None => Some a end.

(* exit status from the children's statuses in spawn order: Some c = exited with code c, None = killed by a signal *)
Definition dec_status (s : option N) : status :=
  match s with Some c => Exited (Z.of_N c) | None => Signaled end.
Definition run_exit (statuses : list (option N)) : N := Z.to_N (exit_code_of (map dec_status statuses)).
Definition run_exit_fixed (statuses : list (option N)) : N := Z.to_N (exit_code_fixed (map dec_status statuses)).

(* ------------------------------------------------------------------ *)
(* end to end: the model's `execute` on an encoded world.
   statuses : for an edition (year), what happens to the rustfmt child run for it: Some c = exits with code c,
   None = killed by a signal; editions not listed exit with 0.
   with_manifest_path = true models `--manifest-path cur_manifest` (given as any string ending in Cargo.toml).
   result: (exit status, argv of every rustfmt command spawned, in order; elements as in run_argv) *)
Fixpoint status_lookup (e : N) (l : list (N * option N)) : status :=
  match l with
  | [] => Exited 0
  | (e', s) :: l' => if e =? e' then dec_status s else status_lookup e l'
  end.
Definition edition_of_argv (a : list arg) : N :=
  fold_left (fun acc x => match x with AEdition e => e | _ => acc end) a 0.
Definition enc_arg_world (a : arg) : N * text :=
  match a with AFile p => (0, [N.div2 p]) | AStr t => (1, t) | AEdition e => (2, [e]) end.

Definition run_execute (with_manifest_path quiet verbose all : bool) (packages : list N)
           (check : bool) (message_format : option text) (rustfmt_options : list text)
           (cur_manifest : N) (metas : list (N * enc_meta)) (broken : list N)
           (statuses : list (N * option N)) : N * list (list (N * text)) :=
  let w0 := run_world cur_manifest metas broken in
  let w := MkWorld (w_meta w0) (w_canon w0) (w_exists w0) (w_toml_in w0) (w_cwd w0)
                   (fun _ => fileP cur_manifest)
                   (fun inv => status_lookup (edition_of_argv (i_argv inv)) statuses) in
  let o := MkOpts quiet verbose false packages
                  (if with_manifest_path then Some (txt "Cargo.toml") else None)
                  message_format rustfmt_options all check in
  let r := execute w (run_fuel metas) o in
  (Z.to_N (fst r), map (fun inv => map enc_arg_world (i_argv inv)) (snd r)).

(* run_exit for commands given as (edition, files) in spawn order, with the statuses by edition *)
Definition run_exit_by_edition (statuses : list (N * option N)) (invs : list (N * list N)) : N :=
  Z.to_N (exit_code_of (map (fun g => status_lookup (fst g) statuses) invs)).
