(* C18/Examples.v — non-vacuity: concrete values meeting the hypotheses of every implication of Props.v, on the
   scratch workspace of Lemmas.v section 10 (x_world: members a 2015, b 2021, c 2018; a and b share a lib.rs;
   a -> util at ext/util, b -> util (depname 5) or util2 (depname 7) at ext2/util, both outside the workspace).
   The computed results are the ones observed with the real cargo-fmt binary on that workspace.
   Since the repairs 44e033c / 3ddf33c both switches of Model.v select the repaired code; the examples stated
   through get_targets / execute / exit_code_of show the repaired behaviour, those naming get_targets_recursive /
   exit_code the behaviour before the repairs. *)
From Coq Require Import String Ascii ZArith Sorted.
From V Require Import Base.Text C18.Model C18.Lemmas.
Open Scope N_scope.
Open Scope list_scope.

Definition W5 := x_world 5 105 x_ok.     (* two dependencies called util; run in the workspace root *)
Definition W7 := x_world 7 105 x_ok.     (* distinct dependency names *)
Definition W5a := x_world 5 106 x_ok.    (* run in ws/a *)

(* the switches as they stand: visited keyed by manifest path, a status without code is a failure *)
Example switches_repaired : vkey_all = vkey_path /\ failure_code_of = failure_code_fixed.
Proof. split; reflexivity. Qed.

(* ---------------- Root ---------------- *)
Example root_in_ws_root :
  get_targets W5 5 SRoot None = Ok [MkT 8 1 2015; MkT 10 1 2021; MkT 12 0 2018; MkT 13 0 2015].
Proof. vm_compute. reflexivity. Qed.
Example root_in_member :
  get_targets W5a 5 SRoot None = Ok [MkT 8 1 2015; MkT 13 0 2015].
Proof. vm_compute. reflexivity. Qed.
Example root_manifest_path_member :
  get_targets W5 5 SRoot (Some 6) = Ok [MkT 8 1 2015; MkT 13 0 2015].
Proof. vm_compute. reflexivity. Qed.
Example root_manifest_path_virtual : get_targets W5 5 SRoot (Some 5) = Err ENoTargets.
Proof. vm_compute. reflexivity. Qed.
(* in a subdirectory (cwd = 108 = ws/a/src, no Cargo.toml there): cargo finds the workspace, cargo-fmt no package *)
Example root_in_subdirectory : get_targets (x_world 5 108 x_ok) 5 SRoot None = Err ENoTargets.
Proof. vm_compute. reflexivity. Qed.

(* ---------------- Some ---------------- *)
Example some_a_c :
  get_targets W5 5 (SSome [3; 1]) None = Ok [MkT 8 1 2015; MkT 12 0 2018; MkT 13 0 2015].
Proof. vm_compute. reflexivity. Qed.
Example some_unknown : get_targets W5 5 (SSome [8; 1; 6]) None = Err (ENotMember 6).
Proof. vm_compute. reflexivity. Qed.
Example unknown_hyps :
  w_meta W5 None = Some (x_ws 5) /\ In 6 [8; 1; 6] /\ (forall p, In p (packages (x_ws 5)) -> p_name p <> 6).
Proof.
  split; [reflexivity|]. split; [right; right; left; reflexivity|].
  intros p Hp. cbn in Hp. destruct Hp as [<-|[<-|[<-|[]]]]; discriminate.
Qed.

(* ---------------- All ---------------- *)
(* repaired: both packages called util are formatted *)
Example all_repaired :
  get_targets W5 5 SAll None
  = Ok [MkT 2 0 2018; MkT 4 0 2021; MkT 8 1 2015; MkT 10 1 2021; MkT 12 0 2018; MkT 13 0 2015].
Proof. vm_compute. reflexivity. Qed.
(* before the repair (visited keyed by name): ext2/util/src/lib.rs (4) is missing *)
Example all_name_collision :
  get_targets_gen W5 (get_targets_recursive W5) 5 SAll None
  = Ok [MkT 2 0 2018; MkT 8 1 2015; MkT 10 1 2021; MkT 12 0 2018; MkT 13 0 2015].
Proof. vm_compute. reflexivity. Qed.
Example all_fixed :
  get_targets_fixed W5 5 SAll None
  = Ok [MkT 2 0 2018; MkT 4 0 2021; MkT 8 1 2015; MkT 10 1 2021; MkT 12 0 2018; MkT 13 0 2015].
Proof. vm_compute. reflexivity. Qed.
Example all_distinct_names :
  get_targets W7 5 SAll None
  = Ok [MkT 2 0 2018; MkT 4 0 2021; MkT 8 1 2015; MkT 10 1 2021; MkT 12 0 2018; MkT 13 0 2015].
Proof. vm_compute. reflexivity. Qed.

(* all edges of a table-defined world *)
Definition dep_pairs (w : world) (tbl : list (option path * metadata)) : list (pkgname * path) :=
  flat_map (fun km => flat_map (fun p => flat_map (fun d => match d_path d with
                                                            | Some dir => [(d_name d, w_toml_in w dir)]
                                                            | None => []
                                                            end) (p_deps p)) (packages (snd km))) tbl.
Lemma lookup_meta_in tbl m md : lookup_meta tbl m = Some md -> exists k, In (k, md) tbl.
Proof.
  induction tbl as [|[k md'] tbl IH]; cbn [lookup_meta]; [discriminate|].
  destruct (match k, m with None, None => true | Some a, Some b => a =? b | _, _ => false end).
  - intros H. inversion H; subst. exists k. left. reflexivity.
  - intros H. destruct (IH H) as (k' & Hk'). exists k'. right. exact Hk'.
Qed.
Lemma Edge_in_table w tbl m n mp :
  (forall m0, w_meta w m0 = lookup_meta tbl m0) -> Edge w m n mp -> In (n, mp) (dep_pairs w tbl).
Proof.
  intros Hw (md & p & d & dir & Hm & Hp & Hd & Hn & Hdir & Hmp & _ & _).
  rewrite Hw in Hm. destruct (lookup_meta_in _ _ _ Hm) as (k & Hk).
  unfold dep_pairs. apply in_flat_map. exists (k, md). split; [exact Hk|]. cbn [snd].
  apply in_flat_map. exists p. split; [exact Hp|]. apply in_flat_map. exists d. split; [exact Hd|].
  rewrite Hdir. left. subst. reflexivity.
Qed.
Definition functional_pairs (l : list (N * N)) : bool :=
  forallb (fun a => forallb (fun b => negb (fst a =? fst b) || (snd a =? snd b)) l) l.
Lemma functional_pairs_ok l : functional_pairs l = true ->
  forall n a b, In (n, a) l -> In (n, b) l -> a = b.
Proof.
  unfold functional_pairs. rewrite forallb_forall. intros H n a b Ha Hb.
  specialize (H _ Ha). rewrite forallb_forall in H. specialize (H _ Hb). cbn [fst snd] in H.
  rewrite N.eqb_refl in H. cbn in H. apply N.eqb_eq. exact H.
Qed.

Example distinct_names_hold : distinct_dep_names W7 None.
Proof.
  intros m1 m2 n mp1 mp2 _ He1 _ He2.
  apply (Edge_in_table W7 (x_tbl 7)) in He1; [|intros m0; reflexivity].
  apply (Edge_in_table W7 (x_tbl 7)) in He2; [|intros m0; reflexivity].
  apply (functional_pairs_ok (dep_pairs W7 (x_tbl 7))) with n; [vm_compute; reflexivity|exact He1|exact He2].
Qed.
(* ... and fail in W5, where the name util leads to two manifests *)
Example distinct_names_fail : functional_pairs (dep_pairs W5 (x_tbl 5)) = false.
Proof. vm_compute. reflexivity. Qed.

(* the hypothesis of fuel_enough: every edge key (whatever the switch) lies in a list of 6 identifiers *)
Example fuel_universe : forall m n mp, Reach W5 None m -> Edge W5 m n mp -> In (vkey_all n mp) [2; 5; 7; 9; 1; 3].
Proof.
  intros m n mp _ He. apply (Edge_in_table W5 (x_tbl 5)) in He; [|intros m0; reflexivity].
  assert (Hall : forallb (fun a => existsb (N.eqb (vkey_all (fst a) (snd a))) [2; 5; 7; 9; 1; 3])
                         (dep_pairs W5 (x_tbl 5)) = true) by (vm_compute; reflexivity).
  rewrite forallb_forall in Hall. specialize (Hall _ He). cbn [fst snd] in Hall.
  apply existsb_exists in Hall. destruct Hall as (x & Hx & E). apply N.eqb_eq in E. subst x. exact Hx.
Qed.
Example fuel_enough_applies : (List.length [2; 5; 7; 9; 1; 3] < 7)%nat /\ get_targets W5 7 SAll None <> Err EFuel.
Proof. split; [cbn; lia|]. vm_compute. discriminate. Qed.
(* cyclic path dependencies between two workspaces terminate: x -> y -> x *)
Definition cyc_tbl : list (option path * metadata) :=
  [(None, MkMeta 101 [MkPkg 1 2 [MkSrc 3 0 2021] [MkDep 2 (Some 105)]]);
   (Some 2, MkMeta 101 [MkPkg 1 2 [MkSrc 3 0 2021] [MkDep 2 (Some 105)]]);
   (Some 5, MkMeta 104 [MkPkg 2 5 [MkSrc 6 0 2018] [MkDep 1 (Some 102); MkDep 3 (Some 107)];
                        MkPkg 3 7 [MkSrc 8 0 2015] []])].
Definition Wcyc : world :=
  MkWorld (lookup_meta cyc_tbl) (fun p => p) (fun p => existsb (N.eqb p) [2; 5; 7]) (fun d => d - 100) 101
          (fun _ => 0) x_ok.
Example cyclic_terminates :
  get_targets Wcyc 3 SAll None = Ok [MkT 3 0 2021; MkT 6 0 2018; MkT 8 0 2015] /\
  get_targets Wcyc 2 SAll None = Err EFuel.
Proof. split; vm_compute; reflexivity. Qed.
Example fuel_irrelevant_applies :
  get_targets Wcyc 3 SAll None <> Err EFuel /\ get_targets Wcyc (4 + 3) SAll None = get_targets Wcyc 3 SAll None.
Proof. split; [vm_compute; discriminate|vm_compute; reflexivity]. Qed.

(* ---------------- once / editions ---------------- *)
Definition S5 : tset := [MkT 2 0 2018; MkT 8 1 2015; MkT 10 1 2021; MkT 12 0 2018; MkT 13 0 2015].
Definition S6 : tset := [MkT 2 0 2018; MkT 4 0 2021; MkT 8 1 2015; MkT 10 1 2021; MkT 12 0 2018; MkT 13 0 2015].
Example s5_nodup : NoDup (map t_path S5).
Proof. apply sorted_lt_NoDup. cbn. repeat constructor. Qed.
Example s5_groups : by_edition S5 = [(2015, [8; 13]); (2018, [2; 12]); (2021, [10])].
Proof. vm_compute. reflexivity. Qed.
Example s6_groups : by_edition S6 = [(2015, [8; 13]); (2018, [2; 12]); (2021, [4; 10])].
Proof. vm_compute. reflexivity. Qed.
(* the shared file: a's lib (2015) is inserted before b's (2021) and stays *)
Example shared_file_first_wins :
  kinsert_all t_path [MkT 13 0 2015; MkT 8 1 2015; MkT 13 0 2021; MkT 10 1 2021] []
  = [MkT 8 1 2015; MkT 10 1 2021; MkT 13 0 2015].
Proof. vm_compute. reflexivity. Qed.

(* ---------------- command lines, exit status ---------------- *)
Definition argsC : list text := [txt "--config"; txt "max_width=50"; txt "--check"].
Example planned_s5 :
  map i_argv (planned Normal S5 argsC) =
  [ [AFile 8; AFile 13; AStr (txt "--edition"); AEdition 2015] ++ map AStr argsC;
    [AFile 2; AFile 12; AStr (txt "--edition"); AEdition 2018] ++ map AStr argsC;
    [AFile 10; AStr (txt "--edition"); AEdition 2021] ++ map AStr argsC ].
Proof. vm_compute. reflexivity. Qed.
Example no_spawn_failure : forall i, In i (planned Normal S5 argsC) -> w_child W5 i <> SpawnFailed.
Proof. intros i _. discriminate. Qed.

(* a child world: 2015 exits 0, 2018 is scripted, 2021 exits 7 *)
Definition child_by_edition (s2018 : status) : invocation -> status :=
  fun i => if existsb (fun a => match a with AEdition e => e =? 2018 | _ => false end) (i_argv i) then s2018
           else if existsb (fun a => match a with AEdition e => e =? 2021 | _ => false end) (i_argv i) then Exited 7
           else Exited 0.
Definition o_all : opts := MkOpts false false false [] None None [] true false.
Example exit_code_3 : fst (execute (x_world 5 105 (child_by_edition (Exited 3))) 5 o_all) = 3%Z.
Proof. vm_compute. reflexivity. Qed.
(* since the repair (fix: commit 44e033c) a signal death is a failure; before it this was 7 (the signal was dropped) *)
Example exit_signal_is_failure : fst (execute (x_world 5 105 (child_by_edition Signaled)) 5 o_all) = 1%Z.
Proof. vm_compute. reflexivity. Qed.
(* before the repair the signal death was dropped: the same statuses gave 7 *)
Example exit_signal_dropped_before :
  exit_code [Exited 0; Signaled; Exited 7] = 7%Z /\ exit_code_of [Exited 0; Signaled; Exited 7] = 1%Z.
Proof. split; vm_compute; reflexivity. Qed.
Example spawn_failure_stops :
  let r := execute (x_world 5 105 (child_by_edition SpawnFailed)) 5 o_all in
  fst r = 1%Z /\ List.length (snd r) = 2%nat.
Proof. vm_compute. split; reflexivity. Qed.
Example exit_examples :
  exit_code [Exited 0; Exited 3; Exited 7] = 3%Z /\ exit_code [Signaled; Signaled] = 0%Z /\
  exit_code_fixed [Signaled; Exited 3] = 1%Z /\ exit_code_of [Signaled; Signaled] = 1%Z /\
  exit_code [Exited 0; SpawnFailed; Exited 0] = 1%Z /\
  ~ In Signaled [Exited 0; Exited 3; SpawnFailed].
Proof.
  repeat split; try (vm_compute; reflexivity). intros [H|[H|[H|[]]]]; discriminate.
Qed.
Example execute_exit_hyps :
  let w := x_world 5 105 (child_by_edition (Exited 3)) in
  info_request o_all = false /\ verbosity_of o_all = Some Normal /\ final_args o_all = Some [] /\
  manifest_arg w o_all = Some None /\ get_targets w 5 (strategy_from_opts o_all) None = Ok S6 /\
  (forall i, In i (planned Normal S6 []) -> w_child w i <> Signaled).
Proof.
  repeat split; try (vm_compute; reflexivity).
  intros i Hi. cbn in Hi. destruct Hi as [<-|[<-|[<-|[]]]]; vm_compute; discriminate.
Qed.

(* ---------------- option translation ---------------- *)
Definition o_flags : opts :=
  MkOpts true false false [1; 3] (Some (txt "ws/Cargo.toml")) (Some (txt "short")) [txt "--config"; txt "x=1"] false true.
Example flags_translated :
  final_args o_flags = Some [txt "--config"; txt "x=1"; txt "--check"; txt "-l"] /\
  verbosity_of o_flags = Some Quiet /\ manifest_arg W5 o_flags = Some (Some 5) /\ info_request o_flags = false /\
  strategy_from_opts o_flags = SSome [1; 3].
Proof. repeat split; vm_compute; reflexivity. Qed.
Example check_cases :
  In (txt "--check") [txt "--check"; txt "-x"] /\ ~ In (txt "--check") [txt "-x"].
Proof. split; [left; reflexivity|]. intros [H|[]]. vm_compute in H. discriminate. Qed.
Example list_files_cases :
  has_list_files [txt "--files-with-diff"] /\ ~ has_list_files [txt "-x"].
Proof.
  split; [right; left; reflexivity|]. intros [[H|[]]|[H|[]]]; vm_compute in H; discriminate.
Qed.
Example json_cases :
  has_emit [txt "--emit=files"] /\ ~ has_emit [txt "-x"] /\ ~ In (txt "--check") [txt "-x"] /\
  convert_message_format (txt "json") (translate_check true []) = None.
Proof.
  split; [exists (txt "--emit=files"); split; [left; reflexivity|vm_compute; reflexivity]|].
  split; [intros (x & [<-|[]] & H); vm_compute in H; discriminate|].
  split; [intros [H|[]]; vm_compute in H; discriminate|vm_compute; reflexivity].
Qed.
Example other_format :
  txt "bogus" <> txt "short" /\ txt "bogus" <> txt "json" /\ txt "bogus" <> txt "human".
Proof. repeat split; intros H; vm_compute in H; discriminate. Qed.

(* ---------------- errors ---------------- *)
Example metadata_failure_hyp : w_meta W5 (Some 77) = None /\ get_targets W5 5 SAll (Some 77) = Err EMetadata.
Proof. split; vm_compute; reflexivity. Qed.
Example usage_error_cases :
  verbosity_of (MkOpts true true false [] None None [] false false) = None /\
  final_args (MkOpts false false false [] None (Some (txt "json")) [] false true) = None /\
  manifest_arg W5 (MkOpts false false false [] (Some (txt "ws/a")) None [] false false) = None /\
  info_request (MkOpts false false false [] None None [txt "--help=config"] false false) = true.
Proof. repeat split; vm_compute; reflexivity. Qed.
(* a string that merely ends in Cargo.toml is accepted by cargo-fmt (main.rs:137) and left to cargo metadata *)
Example manifest_suffix_only :
  manifest_arg W5 (MkOpts false false false [] (Some (txt "ws/xCargo.toml")) None [] false false) = Some (Some 5).
Proof. vm_compute. reflexivity. Qed.
