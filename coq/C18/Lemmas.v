(* C18/Lemmas.v — specification vocabulary and all proofs for C18 (cargo fmt). *)
From Coq Require Import String Ascii ZArith Sorted.
From V Require Import Base.Text C18.Model.
Open Scope N_scope.
Open Scope list_scope.
Arguments N.add : simpl never.
Arguments N.sub : simpl never.
Arguments N.mul : simpl never.
Arguments N.ltb : simpl never.
Arguments N.leb : simpl never.
Arguments N.eqb : simpl never.

(* ================================================================== *)
(* 1. keyed sets (BTreeSet) *)
Section KeyedLemmas.
Variable A : Type.
Variable key : A -> N.

Definition ksorted (s : list A) : Prop := StronglySorted (fun a b => key a < key b) s.

Lemma kinsert_incl x s y : In y (kinsert key x s) -> y = x \/ In y s.
Proof.
  induction s as [|u s IH]; cbn [kinsert].
  - intros [H|[]]; auto.
  - destruct (key x <? key u) eqn:E1.
    + intros [H|H]; auto.
    + destruct (key x =? key u) eqn:E2; [auto|].
      intros [H|H]; [right; left; exact H|].
      destruct (IH H) as [H1|H1]; [auto|right; right; exact H1].
Qed.

Lemma kinsert_keeps x s y : In y s -> In y (kinsert key x s).
Proof.
  induction s as [|u s IH]; cbn [kinsert]; [intros []|].
  intros Hy. destruct (key x <? key u) eqn:E1; [right; exact Hy|].
  destruct (key x =? key u) eqn:E2; [exact Hy|].
  destruct Hy as [Hy|Hy]; [left; exact Hy|right; apply IH; exact Hy].
Qed.

Lemma kinsert_keys x s k : In k (map key (kinsert key x s)) <-> k = key x \/ In k (map key s).
Proof.
  induction s as [|u s IH]; cbn [kinsert map In].
  - split; [intros [H|[]]; auto|intros [H|[]]; auto].
  - destruct (key x <? key u) eqn:E1; cbn [map In].
    + split; [intros [H|[H|H]]; auto|intros [H|[H|H]]; auto].
    + destruct (key x =? key u) eqn:E2; cbn [map In].
      * apply N.eqb_eq in E2. split; [intros [H|H]; auto|].
        intros [H|[H|H]]; auto. left. congruence.
      * rewrite IH. split; [intros [H|[H|H]]; auto|intros [H|[H|H]]; auto].
Qed.

Lemma kinsert_new x s : ~ In (key x) (map key s) -> In x (kinsert key x s).
Proof.
  induction s as [|u s IH]; cbn [kinsert map In]; intros Hn; [left; reflexivity|].
  destruct (key x <? key u) eqn:E1; [left; reflexivity|].
  destruct (key x =? key u) eqn:E2.
  - apply N.eqb_eq in E2. exfalso. apply Hn. left. symmetry. exact E2.
  - right. apply IH. intros H. apply Hn. right. exact H.
Qed.

Lemma ksorted_inv u s : ksorted (u :: s) -> ksorted s /\ Forall (fun b => key u < key b) s.
Proof. intros H. inversion H; subst. split; assumption. Qed.

Lemma kinsert_same x s : ksorted s -> In (key x) (map key s) -> kinsert key x s = s.
Proof.
  induction s as [|u s IH]; cbn [kinsert map In]; intros Hs Hin; [destruct Hin|].
  destruct (ksorted_inv _ _ Hs) as [Hs' Hall].
  destruct (key x <? key u) eqn:E1.
  - apply N.ltb_lt in E1. exfalso. destruct Hin as [Hin|Hin]; [lia|].
    apply in_map_iff in Hin. destruct Hin as (b & Hb & Hbs).
    rewrite Forall_forall in Hall. specialize (Hall b Hbs). lia.
  - destruct (key x =? key u) eqn:E2; [reflexivity|].
    apply N.eqb_neq in E2. f_equal. apply IH; [exact Hs'|].
    destruct Hin as [Hin|Hin]; [congruence|exact Hin].
Qed.

Lemma kinsert_sorted x s : ksorted s -> ksorted (kinsert key x s).
Proof.
  induction s as [|u s IH]; cbn [kinsert]; intros Hs.
  - constructor; constructor.
  - destruct (ksorted_inv _ _ Hs) as [Hs' Hall].
    destruct (key x <? key u) eqn:E1.
    + apply N.ltb_lt in E1. constructor; [exact Hs|].
      constructor; [exact E1|]. rewrite Forall_forall in *. intros b Hb. specialize (Hall b Hb). lia.
    + destruct (key x =? key u) eqn:E2; [exact Hs|].
      apply N.ltb_ge in E1. apply N.eqb_neq in E2.
      constructor; [apply IH; exact Hs'|].
      rewrite Forall_forall in *. intros b Hb.
      destruct (kinsert_incl _ _ _ Hb) as [->|Hb']; [lia|apply Hall; exact Hb'].
Qed.

Lemma kinsert_In x s y : ksorted s ->
  (In y (kinsert key x s) <-> In y s \/ (y = x /\ ~ In (key x) (map key s))).
Proof.
  intros Hs. split.
  - intros Hy. destruct (in_dec N.eq_dec (key x) (map key s)) as [Hin|Hnin].
    + rewrite (kinsert_same _ _ Hs Hin) in Hy. left. exact Hy.
    + destruct (kinsert_incl _ _ _ Hy) as [->|Hy']; [right; split; [reflexivity|exact Hnin]|left; exact Hy'].
  - intros [Hy|[-> Hn]]; [apply kinsert_keeps; exact Hy|apply kinsert_new; exact Hn].
Qed.

Lemma kinsert_all_cons x l s : kinsert_all key (x :: l) s = kinsert_all key l (kinsert key x s).
Proof. reflexivity. Qed.

Lemma kinsert_all_app l1 l2 s : kinsert_all key (l1 ++ l2) s = kinsert_all key l2 (kinsert_all key l1 s).
Proof. unfold kinsert_all. apply fold_left_app. Qed.

Lemma kinsert_all_sorted l : forall s, ksorted s -> ksorted (kinsert_all key l s).
Proof.
  induction l as [|x l IH]; intros s Hs; [exact Hs|].
  rewrite kinsert_all_cons. apply IH. apply kinsert_sorted. exact Hs.
Qed.

Lemma kinsert_all_keys l : forall s k,
  In k (map key (kinsert_all key l s)) <-> In k (map key l) \/ In k (map key s).
Proof.
  induction l as [|x l IH]; intros s k.
  - cbn. split; [auto|intros [[]|H]; exact H].
  - rewrite kinsert_all_cons, IH, kinsert_keys. cbn [map In].
    split; [intros [H|[H|H]]; auto|intros [[H|H]|H]; auto].
Qed.

Lemma kinsert_all_keeps l : forall s y, In y s -> In y (kinsert_all key l s).
Proof.
  induction l as [|x l IH]; intros s y Hy; [exact Hy|].
  rewrite kinsert_all_cons. apply IH. apply kinsert_keeps. exact Hy.
Qed.

Lemma kinsert_all_from l : forall s y, In y (kinsert_all key l s) -> In y s \/ In y l.
Proof.
  induction l as [|x l IH]; intros s y Hy; [left; exact Hy|].
  rewrite kinsert_all_cons in Hy. destruct (IH _ _ Hy) as [H|H].
  - destruct (kinsert_incl _ _ _ H) as [->|H']; [right; left; reflexivity|left; exact H'].
  - right; right; exact H.
Qed.

(* the element kept for a key is the FIRST one inserted with that key *)
Lemma kinsert_all_In l : forall s y, ksorted s ->
  (In y (kinsert_all key l s) <->
   In y s \/ (~ In (key y) (map key s) /\
              exists l1 l2, l = l1 ++ y :: l2 /\ ~ In (key y) (map key l1))).
Proof.
  induction l as [|x l IH]; intros s y Hs.
  - cbn. split; [auto|]. intros [H|(_ & l1 & l2 & H & _)]; [exact H|]. destruct l1; discriminate.
  - rewrite kinsert_all_cons, (IH _ _ (kinsert_sorted x _ Hs)), (kinsert_In x _ y Hs). split.
    + intros [[H|[-> Hn]]|(Hn & l1 & l2 & -> & Hl1)].
      * left; exact H.
      * right. split; [exact Hn|]. exists [], l. split; [reflexivity|intros []].
      * rewrite kinsert_keys in Hn. right. split; [intros H; apply Hn; right; exact H|].
        exists (x :: l1), l2. split; [reflexivity|].
        cbn [map In]. intros [H|H]; [apply Hn; left; symmetry; exact H|exact (Hl1 H)].
    + intros [H|(Hn & l1 & l2 & Heq & Hl1)]; [left; left; exact H|].
      destruct l1 as [|x' l1]; cbn [app] in Heq; inversion Heq; subst.
      * left; right. split; [reflexivity|exact Hn].
      * right. split.
        -- rewrite kinsert_keys. cbn [map In] in Hl1. intros [H|H]; [apply Hl1; left; symmetry; exact H|exact (Hn H)].
        -- exists l1, l2. split; [reflexivity|]. intros H. apply Hl1. right. exact H.
Qed.

Lemma ksorted_keys s : ksorted s -> StronglySorted N.lt (map key s).
Proof.
  induction s as [|u s IH]; intros Hs; cbn [map]; [constructor|].
  destruct (ksorted_inv _ _ Hs) as [Hs' Hall]. constructor; [apply IH; exact Hs'|].
  rewrite Forall_forall in *. intros k Hk. apply in_map_iff in Hk. destruct Hk as (b & <- & Hb). apply Hall; exact Hb.
Qed.
End KeyedLemmas.
Arguments ksorted {A}.
Arguments kinsert_incl {A}.
Arguments kinsert_keeps {A}.
Arguments kinsert_keys {A}.
Arguments kinsert_new {A}.
Arguments kinsert_same {A}.
Arguments kinsert_sorted {A}.
Arguments kinsert_In {A}.
Arguments kinsert_all_cons {A}.
Arguments kinsert_all_app {A}.
Arguments kinsert_all_sorted {A}.
Arguments kinsert_all_keys {A}.
Arguments kinsert_all_keeps {A}.
Arguments kinsert_all_from {A}.
Arguments kinsert_all_In {A}.
Arguments ksorted_keys {A}.
Arguments ksorted_inv {A}.

Lemma sorted_lt_NoDup (l : list N) : StronglySorted N.lt l -> NoDup l.
Proof.
  induction l as [|x l IH]; intros H; [constructor|].
  inversion H as [|? ? Hl Hall]; subst. constructor; [|apply IH; exact Hl].
  intros Hin. rewrite Forall_forall in Hall. specialize (Hall x Hin). lia.
Qed.

(* nset *)
Lemma nset_mem_iff n s : nset_mem n s = true <-> In n s.
Proof.
  unfold nset_mem. rewrite existsb_exists. split.
  - intros (x & Hx & E). apply N.eqb_eq in E. subst. exact Hx.
  - intros H. exists n. split; [exact H|apply N.eqb_refl].
Qed.
Lemma nset_mem_false n s : nset_mem n s = false <-> ~ In n s.
Proof. rewrite <- nset_mem_iff. destruct (nset_mem n s); split; congruence. Qed.

Lemma nset_insert_In n s k : In k (nset_insert n s) <-> k = n \/ In k s.
Proof.
  unfold nset_insert. pose proof (kinsert_keys (fun x : N => x) n s k) as H.
  rewrite !map_id in H. exact H.
Qed.

Definition nsorted (s : nset) : Prop := StronglySorted N.lt s.
Lemma nsorted_ksorted s : nsorted s <-> ksorted (fun x : N => x) s.
Proof. unfold nsorted, ksorted. split; intros H; exact H. Qed.
Lemma nset_insert_sorted n s : nsorted s -> nsorted (nset_insert n s).
Proof. rewrite !nsorted_ksorted. apply kinsert_sorted. Qed.

Lemma nset_remove_fst n s : fst (nset_remove n s) = true <-> In n s.
Proof.
  induction s as [|u s IH]; cbn [nset_remove In fst].
  - split; [discriminate|intros []].
  - destruct (n =? u) eqn:E.
    + apply N.eqb_eq in E. cbn. split; auto.
    + apply N.eqb_neq in E. destruct (nset_remove n s) as [b r]. cbn [fst] in *.
      rewrite IH. split; [auto|intros [H|H]; [congruence|exact H]].
Qed.

Lemma nset_remove_snd n s x : nsorted s -> (In x (snd (nset_remove n s)) <-> In x s /\ x <> n).
Proof.
  induction s as [|u s IH]; cbn [nset_remove In snd]; intros Hs.
  - split; [intros []|intros [[] _]].
  - inversion Hs as [|? ? Hs' Hall]; subst. rewrite Forall_forall in Hall.
    destruct (n =? u) eqn:E.
    + apply N.eqb_eq in E. subst u. cbn [snd]. split.
      * intros H. split; [right; exact H|]. intros ->. specialize (Hall _ H). lia.
      * intros [[H|H] Hne]; [congruence|exact H].
    + apply N.eqb_neq in E. specialize (IH Hs'). destruct (nset_remove n s) as [b r]. cbn [snd] in *.
      cbn [In]. rewrite IH. split.
      * intros [H|[H Hne]]; [split; [left; exact H|congruence]|split; [right; exact H|exact Hne]].
      * intros [[H|H] Hne]; [left; exact H|right; split; assumption].
Qed.

Lemma nset_remove_sorted n s : nsorted s -> nsorted (snd (nset_remove n s)).
Proof.
  induction s as [|u s IH]; cbn [nset_remove snd]; intros Hs; [constructor|].
  inversion Hs as [|? ? Hs' Hall]; subst.
  destruct (n =? u) eqn:E; [exact Hs'|].
  specialize (IH Hs').
  assert (Hall' : forall x, In x (snd (nset_remove n s)) -> u < x).
  { intros x Hx. rewrite Forall_forall in Hall. apply Hall.
    destruct (nset_remove_snd n s x Hs') as [H1 _]. apply H1. exact Hx. }
  destruct (nset_remove n s) as [b r]. cbn [snd] in *.
  constructor; [exact IH|]. rewrite Forall_forall. exact Hall'.
Qed.

Lemma nset_from_list_spec (l : list N) : forall s, nsorted s ->
  nsorted (fold_left (fun h n => nset_insert n h) l s) /\
  (forall k, In k (fold_left (fun h n => nset_insert n h) l s) <-> In k l \/ In k s).
Proof.
  induction l as [|x l IH]; intros s Hs; cbn [fold_left].
  - split; [exact Hs|]. intros k. cbn. split; [auto|intros [[]|H]; exact H].
  - destruct (IH _ (nset_insert_sorted x _ Hs)) as [H1 H2]. split; [exact H1|].
    intros k. rewrite H2, nset_insert_In. cbn [In]. split; [intros [H|[H|H]]; auto|intros [[H|H]|H]; auto].
Qed.
