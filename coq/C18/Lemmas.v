(* C18/Lemmas.v — specification vocabulary and all proofs for C18 (cargo fmt). *)
From Coq Require Import String Ascii ZArith Sorted.
From V Require Import Base.Text C18.Model.
Open Scope N_scope.
Open Scope list_scope.
Arguments N.add : simpl never.
Arguments N.sub : simpl never.
Arguments N.mul : simpl never.
Arguments N.ltb : simpl never.
Arguments N.leb : simpl never.
Arguments N.eqb : simpl never.

(* ================================================================== *)
(* 1. keyed sets (BTreeSet) *)
Section KeyedLemmas.
Variable A : Type.
Variable key : A -> N.

Definition ksorted (s : list A) : Prop := StronglySorted (fun a b => key a < key b) s.

Lemma kinsert_incl x s y : In y (kinsert key x s) -> y = x \/ In y s.
Proof.
  induction s as [|u s IH]; cbn [kinsert].
  - intros [H|[]]; auto.
  - destruct (key x <? key u) eqn:E1.
    + intros [H|H]; auto.
    + destruct (key x =? key u) eqn:E2; [auto|].
      intros [H|H]; [right; left; exact H|].
      destruct (IH H) as [H1|H1]; [auto|right; right; exact H1].
Qed.

Lemma kinsert_keeps x s y : In y s -> In y (kinsert key x s).
Proof.
  induction s as [|u s IH]; cbn [kinsert]; [intros []|].
  intros Hy. destruct (key x <? key u) eqn:E1; [right; exact Hy|].
  destruct (key x =? key u) eqn:E2; [exact Hy|].
  destruct Hy as [Hy|Hy]; [left; exact Hy|right; apply IH; exact Hy].
Qed.

Lemma kinsert_keys x s k : In k (map key (kinsert key x s)) <-> k = key x \/ In k (map key s).
Proof.
  induction s as [|u s IH]; cbn [kinsert map In].
  - split; [intros [H|[]]; auto|intros [H|[]]; auto].
  - destruct (key x <? key u) eqn:E1; cbn [map In].
    + split; [intros [H|[H|H]]; auto|intros [H|[H|H]]; auto].
    + destruct (key x =? key u) eqn:E2; cbn [map In].
      * apply N.eqb_eq in E2. split; [intros [H|H]; auto|].
        intros [H|[H|H]]; auto. left. congruence.
      * rewrite IH. split; [intros [H|[H|H]]; auto|intros [H|[H|H]]; auto].
Qed.

Lemma kinsert_new x s : ~ In (key x) (map key s) -> In x (kinsert key x s).
Proof.
  induction s as [|u s IH]; cbn [kinsert map In]; intros Hn; [left; reflexivity|].
  destruct (key x <? key u) eqn:E1; [left; reflexivity|].
  destruct (key x =? key u) eqn:E2.
  - apply N.eqb_eq in E2. exfalso. apply Hn. left. symmetry. exact E2.
  - right. apply IH. intros H. apply Hn. right. exact H.
Qed.

Lemma ksorted_inv u s : ksorted (u :: s) -> ksorted s /\ Forall (fun b => key u < key b) s.
Proof. intros H. inversion H; subst. split; assumption. Qed.

Lemma kinsert_same x s : ksorted s -> In (key x) (map key s) -> kinsert key x s = s.
Proof.
  induction s as [|u s IH]; cbn [kinsert map In]; intros Hs Hin; [destruct Hin|].
  destruct (ksorted_inv _ _ Hs) as [Hs' Hall].
  destruct (key x <? key u) eqn:E1.
  - apply N.ltb_lt in E1. exfalso. destruct Hin as [Hin|Hin]; [lia|].
    apply in_map_iff in Hin. destruct Hin as (b & Hb & Hbs).
    rewrite Forall_forall in Hall. specialize (Hall b Hbs). lia.
  - destruct (key x =? key u) eqn:E2; [reflexivity|].
    apply N.eqb_neq in E2. f_equal. apply IH; [exact Hs'|].
    destruct Hin as [Hin|Hin]; [congruence|exact Hin].
Qed.

Lemma kinsert_sorted x s : ksorted s -> ksorted (kinsert key x s).
Proof.
  induction s as [|u s IH]; cbn [kinsert]; intros Hs.
  - constructor; constructor.
  - destruct (ksorted_inv _ _ Hs) as [Hs' Hall].
    destruct (key x <? key u) eqn:E1.
    + apply N.ltb_lt in E1. constructor; [exact Hs|].
      constructor; [exact E1|]. rewrite Forall_forall in *. intros b Hb. specialize (Hall b Hb). lia.
    + destruct (key x =? key u) eqn:E2; [exact Hs|].
      apply N.ltb_ge in E1. apply N.eqb_neq in E2.
      constructor; [apply IH; exact Hs'|].
      rewrite Forall_forall in *. intros b Hb.
      destruct (kinsert_incl _ _ _ Hb) as [->|Hb']; [lia|apply Hall; exact Hb'].
Qed.

Lemma kinsert_In x s y : ksorted s ->
  (In y (kinsert key x s) <-> In y s \/ (y = x /\ ~ In (key x) (map key s))).
Proof.
  intros Hs. split.
  - intros Hy. destruct (in_dec N.eq_dec (key x) (map key s)) as [Hin|Hnin].
    + rewrite (kinsert_same _ _ Hs Hin) in Hy. left. exact Hy.
    + destruct (kinsert_incl _ _ _ Hy) as [->|Hy']; [right; split; [reflexivity|exact Hnin]|left; exact Hy'].
  - intros [Hy|[-> Hn]]; [apply kinsert_keeps; exact Hy|apply kinsert_new; exact Hn].
Qed.

Lemma kinsert_all_cons x l s : kinsert_all key (x :: l) s = kinsert_all key l (kinsert key x s).
Proof. reflexivity. Qed.

Lemma kinsert_all_app l1 l2 s : kinsert_all key (l1 ++ l2) s = kinsert_all key l2 (kinsert_all key l1 s).
Proof. unfold kinsert_all. apply fold_left_app. Qed.

Lemma kinsert_all_sorted l : forall s, ksorted s -> ksorted (kinsert_all key l s).
Proof.
  induction l as [|x l IH]; intros s Hs; [exact Hs|].
  rewrite kinsert_all_cons. apply IH. apply kinsert_sorted. exact Hs.
Qed.

Lemma kinsert_all_keys l : forall s k,
  In k (map key (kinsert_all key l s)) <-> In k (map key l) \/ In k (map key s).
Proof.
  induction l as [|x l IH]; intros s k.
  - cbn. split; [auto|intros [[]|H]; exact H].
  - rewrite kinsert_all_cons, IH, kinsert_keys. cbn [map In].
    split; [intros [H|[H|H]]; auto|intros [[H|H]|H]; auto].
Qed.

Lemma kinsert_all_keeps l : forall s y, In y s -> In y (kinsert_all key l s).
Proof.
  induction l as [|x l IH]; intros s y Hy; [exact Hy|].
  rewrite kinsert_all_cons. apply IH. apply kinsert_keeps. exact Hy.
Qed.

Lemma kinsert_all_from l : forall s y, In y (kinsert_all key l s) -> In y s \/ In y l.
Proof.
  induction l as [|x l IH]; intros s y Hy; [left; exact Hy|].
  rewrite kinsert_all_cons in Hy. destruct (IH _ _ Hy) as [H|H].
  - destruct (kinsert_incl _ _ _ H) as [->|H']; [right; left; reflexivity|left; exact H'].
  - right; right; exact H.
Qed.

(* the element kept for a key is the FIRST one inserted with that key *)
Lemma kinsert_all_In l : forall s y, ksorted s ->
  (In y (kinsert_all key l s) <->
   In y s \/ (~ In (key y) (map key s) /\
              exists l1 l2, l = l1 ++ y :: l2 /\ ~ In (key y) (map key l1))).
Proof.
  induction l as [|x l IH]; intros s y Hs.
  - cbn. split; [auto|]. intros [H|(_ & l1 & l2 & H & _)]; [exact H|]. destruct l1; discriminate.
  - rewrite kinsert_all_cons, (IH _ _ (kinsert_sorted x _ Hs)), (kinsert_In x _ y Hs). split.
    + intros [[H|[-> Hn]]|(Hn & l1 & l2 & -> & Hl1)].
      * left; exact H.
      * right. split; [exact Hn|]. exists [], l. split; [reflexivity|intros []].
      * rewrite kinsert_keys in Hn. right. split; [intros H; apply Hn; right; exact H|].
        exists (x :: l1), l2. split; [reflexivity|].
        cbn [map In]. intros [H|H]; [apply Hn; left; symmetry; exact H|exact (Hl1 H)].
    + intros [H|(Hn & l1 & l2 & Heq & Hl1)]; [left; left; exact H|].
      destruct l1 as [|x' l1]; cbn [app] in Heq; inversion Heq; subst.
      * left; right. split; [reflexivity|exact Hn].
      * right. split.
        -- rewrite kinsert_keys. cbn [map In] in Hl1. intros [H|H]; [apply Hl1; left; symmetry; exact H|exact (Hn H)].
        -- exists l1, l2. split; [reflexivity|]. intros H. apply Hl1. right. exact H.
Qed.

Lemma ksorted_keys s : ksorted s -> StronglySorted N.lt (map key s).
Proof.
  induction s as [|u s IH]; intros Hs; cbn [map]; [constructor|].
  destruct (ksorted_inv _ _ Hs) as [Hs' Hall]. constructor; [apply IH; exact Hs'|].
  rewrite Forall_forall in *. intros k Hk. apply in_map_iff in Hk. destruct Hk as (b & <- & Hb). apply Hall; exact Hb.
Qed.
End KeyedLemmas.
Arguments ksorted {A}.
Arguments kinsert_incl {A}.
Arguments kinsert_keeps {A}.
Arguments kinsert_keys {A}.
Arguments kinsert_new {A}.
Arguments kinsert_same {A}.
Arguments kinsert_sorted {A}.
Arguments kinsert_In {A}.
Arguments kinsert_all_cons {A}.
Arguments kinsert_all_app {A}.
Arguments kinsert_all_sorted {A}.
Arguments kinsert_all_keys {A}.
Arguments kinsert_all_keeps {A}.
Arguments kinsert_all_from {A}.
Arguments kinsert_all_In {A}.
Arguments ksorted_keys {A}.
Arguments ksorted_inv {A}.

Lemma sorted_lt_NoDup (l : list N) : StronglySorted N.lt l -> NoDup l.
Proof.
  induction l as [|x l IH]; intros H; [constructor|].
  inversion H as [|? ? Hl Hall]; subst. constructor; [|apply IH; exact Hl].
  intros Hin. rewrite Forall_forall in Hall. specialize (Hall x Hin). lia.
Qed.

(* nset *)
Lemma nset_mem_iff n s : nset_mem n s = true <-> In n s.
Proof.
  unfold nset_mem. rewrite existsb_exists. split.
  - intros (x & Hx & E). apply N.eqb_eq in E. subst. exact Hx.
  - intros H. exists n. split; [exact H|apply N.eqb_refl].
Qed.
Lemma nset_mem_false n s : nset_mem n s = false <-> ~ In n s.
Proof. rewrite <- nset_mem_iff. destruct (nset_mem n s); split; congruence. Qed.

Lemma nset_insert_In n s k : In k (nset_insert n s) <-> k = n \/ In k s.
Proof.
  unfold nset_insert. pose proof (kinsert_keys (fun x : N => x) n s k) as H.
  rewrite !map_id in H. exact H.
Qed.

Definition nsorted (s : nset) : Prop := StronglySorted N.lt s.
Lemma nsorted_ksorted s : nsorted s <-> ksorted (fun x : N => x) s.
Proof. unfold nsorted, ksorted. split; intros H; exact H. Qed.
Lemma nset_insert_sorted n s : nsorted s -> nsorted (nset_insert n s).
Proof. rewrite !nsorted_ksorted. apply kinsert_sorted. Qed.

Lemma nset_remove_fst n s : fst (nset_remove n s) = true <-> In n s.
Proof.
  induction s as [|u s IH]; cbn [nset_remove In fst].
  - split; [discriminate|intros []].
  - destruct (n =? u) eqn:E.
    + apply N.eqb_eq in E. cbn. split; auto.
    + apply N.eqb_neq in E. destruct (nset_remove n s) as [b r]. cbn [fst] in *.
      rewrite IH. split; [auto|intros [H|H]; [congruence|exact H]].
Qed.

Lemma nset_remove_snd n s x : nsorted s -> (In x (snd (nset_remove n s)) <-> In x s /\ x <> n).
Proof.
  induction s as [|u s IH]; cbn [nset_remove In snd]; intros Hs.
  - split; [intros []|intros [[] _]].
  - inversion Hs as [|? ? Hs' Hall]; subst. rewrite Forall_forall in Hall.
    destruct (n =? u) eqn:E.
    + apply N.eqb_eq in E. subst u. cbn [snd]. split.
      * intros H. split; [right; exact H|]. intros ->. specialize (Hall _ H). lia.
      * intros [[H|H] Hne]; [congruence|exact H].
    + apply N.eqb_neq in E. specialize (IH Hs'). destruct (nset_remove n s) as [b r]. cbn [snd] in *.
      cbn [In]. rewrite IH. split.
      * intros [H|[H Hne]]; [split; [left; exact H|congruence]|split; [right; exact H|exact Hne]].
      * intros [[H|H] Hne]; [left; exact H|right; split; assumption].
Qed.

Lemma nset_remove_sorted n s : nsorted s -> nsorted (snd (nset_remove n s)).
Proof.
  induction s as [|u s IH]; cbn [nset_remove snd]; intros Hs; [constructor|].
  inversion Hs as [|? ? Hs' Hall]; subst.
  destruct (n =? u) eqn:E; [exact Hs'|].
  specialize (IH Hs').
  assert (Hall' : forall x, In x (snd (nset_remove n s)) -> u < x).
  { intros x Hx. rewrite Forall_forall in Hall. apply Hall.
    destruct (nset_remove_snd n s x Hs') as [H1 _]. apply H1. exact Hx. }
  destruct (nset_remove n s) as [b r]. cbn [snd] in *.
  constructor; [exact IH|]. rewrite Forall_forall. exact Hall'.
Qed.

Lemma nset_from_list_spec (l : list N) : forall s, nsorted s ->
  nsorted (fold_left (fun h n => nset_insert n h) l s) /\
  (forall k, In k (fold_left (fun h n => nset_insert n h) l s) <-> In k l \/ In k s).
Proof.
  induction l as [|x l IH]; intros s Hs; cbn [fold_left].
  - split; [exact Hs|]. intros k. cbn. split; [auto|intros [[]|H]; exact H].
  - destruct (IH _ (nset_insert_sorted x _ Hs)) as [H1 H2]. split; [exact H1|].
    intros k. rewrite H2, nset_insert_In. cbn [In]. split; [intros [H|[H|H]]; auto|intros [[H|H]|H]; auto].
Qed.

(* ================================================================== *)
(* 2. specification vocabulary *)
Definition tpaths (s : tset) : list path := map t_path s.
Definition tsorted (s : tset) : Prop := ksorted t_path s.

(* [s] is exactly the targets of the packages satisfying [sel]: every element of s is (the canonical path,
   kind and edition of) a target of a selected package, and every target of a selected package has its
   canonical path in s *)
Definition selects (w : world) (sel : pkg -> Prop) (s : tset) : Prop :=
  (forall t, In t s -> exists p st, sel p /\ In st (p_targets p) /\ t = from_target w st) /\
  (forall p st, sel p -> In st (p_targets p) -> In (w_canon w (st_src st)) (tpaths s)).

(* Root: main.rs:368-379 *)
Definition root_in_workspace_root (w : world) (marg : option path) (md : metadata) : bool :=
  match marg with
  | Some m => w_canon w (workspace_root md) =? m
  | None => w_canon w (workspace_root md) =? w_cwd w
  end.
Definition root_current_manifest (w : world) (marg : option path) : path :=
  match marg with
  | Some m => w_canon w m
  | None => w_toml_in w (w_cwd w)
  end.
(* the packages whose targets Root inserts, in insertion order *)
Definition root_packages (w : world) (marg : option path) (md : metadata) : list pkg :=
  match packages md with
  | [p] => [p]
  | ps => filter (fun p => root_in_workspace_root w marg md
                           || (w_canon w (p_manifest p) =? root_current_manifest w marg)) ps
  end.
Definition root_selected (w : world) (marg : option path) (md : metadata) (p : pkg) : Prop :=
  In p (packages md) /\
  (List.length (packages md) = 1%nat \/ root_in_workspace_root w marg md = true
   \/ w_canon w (p_manifest p) = root_current_manifest w marg).

(* Some hitlist: the first package of the metadata with a given name *)
Definition first_with_name (ps : list pkg) (p : pkg) : Prop :=
  exists pre post, ps = pre ++ p :: post /\ forall q, In q pre -> p_name q <> p_name p.
Definition some_selected (hitlist : list pkgname) (md : metadata) (p : pkg) : Prop :=
  In (p_name p) hitlist /\ first_with_name (packages md) p.
(* ... in insertion order *)
Fixpoint hit_list (ps : list pkg) (hs : nset) : list pkg :=
  match ps with
  | [] => []
  | p :: ps' => if fst (nset_remove (p_name p) hs)
                then p :: hit_list ps' (snd (nset_remove (p_name p) hs))
                else hit_list ps' (snd (nset_remove (p_name p) hs))
  end.
Fixpoint remaining (ps : list pkg) (hs : nset) : nset :=
  match ps with
  | [] => hs
  | p :: ps' => remaining ps' (snd (nset_remove (p_name p) hs))
  end.

(* All: the dependency edges that the recursion follows, and their closure *)
Definition Edge (w : world) (m : option path) (n : pkgname) (mp : path) : Prop :=
  exists md p d dir,
    w_meta w m = Some md /\ In p (packages md) /\ In d (p_deps p) /\ d_name d = n /\
    d_path d = Some dir /\ mp = w_toml_in w dir /\ w_exists w mp = true /\
    (forall q, In q (packages md) -> p_manifest q <> mp).
Inductive Reach (w : world) (root : option path) : option path -> Prop :=
| Reach_root : Reach w root root
| Reach_step : forall m n mp, Reach w root m -> Edge w m n mp -> Reach w root (Some mp).
Definition all_selected (w : world) (root : option path) (p : pkg) : Prop :=
  exists m md, Reach w root m /\ w_meta w m = Some md /\ In p (packages md).
(* no two followed edges carry the same dependency name to different manifests *)
Definition distinct_dep_names (w : world) (root : option path) : Prop :=
  forall m1 m2 n mp1 mp2,
    Reach w root m1 -> Edge w m1 n mp1 -> Reach w root m2 -> Edge w m2 n mp2 -> mp1 = mp2.

(* the rustfmt commands that run_rustfmt plans, and those it gets to spawn *)
Definition planned (v : verbosity) (s : tset) (fmt_args : list text) : list invocation :=
  map (fun g => mk_invocation v (fst g) (snd g) fmt_args) (by_edition s).
Fixpoint upto_spawn_failure (w : world) (pl : list invocation) : list invocation :=
  match pl with
  | [] => []
  | i :: r => match w_child w i with SpawnFailed => [i] | _ => i :: upto_spawn_failure w r end
  end.

(* execute: the pieces of its option handling *)
Definition verbosity_of (o : opts) : option verbosity :=
  match o_verbose o, o_quiet o with
  | false, false => Some Normal
  | false, true => Some Quiet
  | true, false => Some Verbose
  | true, true => None
  end.
Definition final_args (o : opts) : option (list text) :=
  let a := translate_check (o_check o) (o_rustfmt_options o) in
  match o_message_format o with
  | Some mf => convert_message_format mf a
  | None => Some a
  end.
(* Some marg = the manifest argument handed to format_crate; None = rejected *)
Definition manifest_arg (w : world) (o : opts) : option (option path) :=
  match o_manifest_path o with
  | Some specified => if ends_with (txt "Cargo.toml") specified then Some (Some (w_path_of w specified)) else None
  | None => Some None
  end.
Definition info_request (o : opts) : bool := o_version o || existsb is_info_option (o_rustfmt_options o).

(* ================================================================== *)
(* 3. add_targets *)
Section Targets.
Variable w : world.

Lemma add_targets_app l1 l2 s : add_targets w (l1 ++ l2) s = add_targets w l2 (add_targets w l1 s).
Proof. unfold add_targets. rewrite map_app. apply kinsert_all_app. Qed.

Lemma add_targets_sorted ts s : tsorted s -> tsorted (add_targets w ts s).
Proof. apply kinsert_all_sorted. Qed.

Lemma add_targets_paths ts s k :
  In k (tpaths (add_targets w ts s)) <-> (exists st, In st ts /\ k = w_canon w (st_src st)) \/ In k (tpaths s).
Proof.
  unfold tpaths, add_targets. rewrite kinsert_all_keys. rewrite map_map. cbn [from_target t_path].
  rewrite in_map_iff. split.
  - intros [(st & <- & Hst)|H]; [left; exists st; split; [exact Hst|reflexivity]|right; exact H].
  - intros [(st & Hst & ->)|H]; [left; exists st; split; [reflexivity|exact Hst]|right; exact H].
Qed.

Lemma add_targets_keeps ts s t : In t s -> In t (add_targets w ts s).
Proof. apply kinsert_all_keeps. Qed.

Lemma add_targets_from ts s t :
  In t (add_targets w ts s) -> In t s \/ exists st, In st ts /\ t = from_target w st.
Proof.
  intros H. destruct (kinsert_all_from _ _ _ _ H) as [H1|H1]; [left; exact H1|right].
  apply in_map_iff in H1. destruct H1 as (st & <- & Hst). exists st. split; [exact Hst|reflexivity].
Qed.

Lemma tsorted_nil : tsorted [].
Proof. constructor. Qed.

Lemma selects_of_list (sel : pkg -> Prop) (pkgs : list pkg) :
  (forall p, sel p <-> In p pkgs) -> selects w sel (add_targets w (flat_map p_targets pkgs) []).
Proof.
  intros Hsel. split.
  - intros t Ht. destruct (add_targets_from _ _ _ Ht) as [[]|(st & Hst & ->)].
    apply in_flat_map in Hst. destruct Hst as (p & Hp & Hst).
    exists p, st. split; [apply Hsel; exact Hp|split; [exact Hst|reflexivity]].
  - intros p st Hp Hst. apply add_targets_paths. left. exists st. split; [|reflexivity].
    apply in_flat_map. exists p. split; [apply Hsel; exact Hp|exact Hst].
Qed.

(* ------------------------------------------------------------------ *)
(* get_targets_gen *)
Lemma get_targets_gen_ok rec_all fuel st marg s :
  get_targets_gen w rec_all fuel st marg = Ok s ->
  s <> [] /\
  match st with
  | SRoot => get_targets_root_only w marg [] = Ok s
  | SAll => exists v, rec_all fuel marg ([], []) = Ok (s, v)
  | SSome hitlist => get_targets_with_hitlist w marg hitlist [] = Ok s
  end.
Proof.
  unfold get_targets_gen. destruct st as [|hl|].
  - destruct (rec_all fuel marg ([], [])) as [[s0 v0]|e]; [|discriminate]. cbn [fst].
    destruct s0 as [|t s0]; [discriminate|]. intros H. inversion H; subst. split; [discriminate|]. exists v0. reflexivity.
  - destruct (get_targets_with_hitlist w marg hl []) as [s0|e]; [|discriminate].
    destruct s0 as [|t s0]; [discriminate|]. intros H. inversion H; subst. split; [discriminate|reflexivity].
  - destruct (get_targets_root_only w marg []) as [s0|e]; [|discriminate].
    destruct s0 as [|t s0]; [discriminate|]. intros H. inversion H; subst. split; [discriminate|reflexivity].
Qed.

Lemma get_targets_gen_err rec_all fuel st marg e :
  match st with
  | SRoot => get_targets_root_only w marg [] = Err e
  | SAll => rec_all fuel marg ([], []) = Err e
  | SSome hitlist => get_targets_with_hitlist w marg hitlist [] = Err e
  end -> get_targets_gen w rec_all fuel st marg = Err e.
Proof.
  unfold get_targets_gen. destruct st as [|hl|]; intros ->; reflexivity.
Qed.

(* ------------------------------------------------------------------ *)
(* Root *)
Lemma root_only_eq marg md s :
  w_meta w marg = Some md ->
  get_targets_root_only w marg s = Ok (add_targets w (flat_map p_targets (root_packages w marg md)) s).
Proof.
  intros Hm. unfold get_targets_root_only, root_packages, root_in_workspace_root, root_current_manifest. rewrite Hm.
  destruct marg as [m|]; cbv zeta iota beta.
  - destruct (packages md) as [|p [|p' ps]]; try reflexivity.
    cbn [flat_map]. rewrite app_nil_r. reflexivity.
  - destruct (packages md) as [|p [|p' ps]]; try reflexivity.
    cbn [flat_map]. rewrite app_nil_r. reflexivity.
Qed.

Lemma root_packages_iff marg md p : In p (root_packages w marg md) <-> root_selected w marg md p.
Proof.
  unfold root_packages, root_selected.
  set (f := fun p0 : pkg => root_in_workspace_root w marg md
                            || (w_canon w (p_manifest p0) =? root_current_manifest w marg)).
  assert (Hf : forall q, f q = true <->
     (root_in_workspace_root w marg md = true \/ w_canon w (p_manifest q) = root_current_manifest w marg)).
  { intros q. unfold f. rewrite orb_true_iff, N.eqb_eq. reflexivity. }
  destruct (packages md) as [|a [|b ps]].
  - cbn. split; [intros []|intros [[] _]].
  - cbn [In List.length]. split; [intros [<-|[]]; split; [left; reflexivity|left; reflexivity]|].
    intros [H _]. exact H.
  - rewrite filter_In, Hf. split.
    + intros [Hin H]. split; [exact Hin|right; exact H].
    + intros [Hin [H|H]]; [cbn in H; discriminate|split; [exact Hin|exact H]].
Qed.

Lemma root_metadata_err marg s : w_meta w marg = None -> get_targets_root_only w marg s = Err EMetadata.
Proof. intros H. unfold get_targets_root_only. rewrite H. reflexivity. Qed.

Lemma root_ok_meta marg s s' : get_targets_root_only w marg s = Ok s' -> exists md, w_meta w marg = Some md.
Proof.
  unfold get_targets_root_only. destruct (w_meta w marg) as [md|]; [exists md; reflexivity|discriminate].
Qed.

(* ------------------------------------------------------------------ *)
(* Some hitlist *)
Lemma hitlist_loop_eq ps : forall hs s,
  hitlist_loop w ps hs s = (remaining ps hs, add_targets w (flat_map p_targets (hit_list ps hs)) s).
Proof.
  induction ps as [|p ps IH]; intros hs s; cbn [hitlist_loop remaining hit_list flat_map].
  - reflexivity.
  - destruct (nset_remove (p_name p) hs) as [found hs']. cbn [fst snd].
    destruct found; rewrite IH; [|reflexivity].
    cbn [flat_map]. rewrite add_targets_app. reflexivity.
Qed.

Lemma remaining_spec ps : forall hs, nsorted hs ->
  nsorted (remaining ps hs) /\
  (forall k, In k (remaining ps hs) <-> In k hs /\ forall p, In p ps -> p_name p <> k).
Proof.
  induction ps as [|a ps IH]; intros hs Hs; cbn [remaining].
  - split; [exact Hs|]. intros k. split; [intros H; split; [exact H|intros p []]|intros [H _]; exact H].
  - destruct (IH _ (nset_remove_sorted (p_name a) _ Hs)) as [H1 H2]. split; [exact H1|].
    intros k. rewrite H2, (nset_remove_snd (p_name a) hs k Hs). split.
    + intros [[Hk Hne] Hall]. split; [exact Hk|]. intros p [<-|Hp]; [congruence|apply Hall; exact Hp].
    + intros [Hk Hall]. split; [split; [exact Hk|]|].
      * intros ->. apply (Hall a); [left; reflexivity|reflexivity].
      * intros p Hp. apply Hall. right. exact Hp.
Qed.

Lemma hit_list_spec ps : forall hs p, nsorted hs ->
  (In p (hit_list ps hs) <-> In (p_name p) hs /\ first_with_name ps p).
Proof.
  induction ps as [|a ps IH]; intros hs p Hs; cbn [hit_list].
  - split; [intros []|]. intros [_ (pre & post & H & _)]. destruct pre; discriminate.
  - pose proof (nset_remove_sorted (p_name a) _ Hs) as Hs1.
    pose proof (fun x => nset_remove_snd (p_name a) hs x Hs) as Hsnd.
    pose proof (nset_remove_fst (p_name a) hs) as Hfst.
    specialize (IH (snd (nset_remove (p_name a) hs)) p Hs1).
    assert (Hright : In p (hit_list ps (snd (nset_remove (p_name a) hs))) ->
                     In (p_name p) hs /\ first_with_name (a :: ps) p).
    { intros H. apply IH in H. destruct H as [Hin (pre & post & -> & Hpre)].
      apply Hsnd in Hin. destruct Hin as [Hin Hne]. split; [exact Hin|].
      exists (a :: pre), post. split; [reflexivity|].
      intros q [<-|Hq]; [congruence|apply Hpre; exact Hq]. }
    assert (Hleft : In (p_name p) hs -> first_with_name (a :: ps) p ->
                    (p = a /\ In (p_name a) hs) \/ In p (hit_list ps (snd (nset_remove (p_name a) hs)))).
    { intros Hin (pre & post & Heq & Hpre). destruct pre as [|a' pre]; cbn [app] in Heq; injection Heq as Ha Hps.
      - left. split; [symmetry; exact Ha|rewrite Ha; exact Hin].
      - subst a' ps. right. apply IH. split.
        + apply Hsnd. split; [exact Hin|]. intros E. apply (Hpre a); [left; reflexivity|]. symmetry. exact E.
        + exists pre, post. split; [reflexivity|]. intros q Hq. apply Hpre. right. exact Hq. }
    destruct (fst (nset_remove (p_name a) hs)) eqn:Ef.
    + cbn [In]. split.
      * intros [<-|H]; [|apply Hright; exact H].
        split; [apply Hfst; reflexivity|]. exists [], ps. split; [reflexivity|intros q []].
      * intros [Hin Hf]. destruct (Hleft Hin Hf) as [[-> _]|H]; [left; reflexivity|right; exact H].
    + split; [exact Hright|].
      intros [Hin Hf]. destruct (Hleft Hin Hf) as [[-> Ha]|H]; [|exact H].
      apply Hfst in Ha. congruence.
Qed.

Lemma hitlist_from_list_sorted hitlist :
  nsorted (fold_left (fun h n => nset_insert n h) hitlist []) /\
  (forall k, In k (fold_left (fun h n => nset_insert n h) hitlist []) <-> In k hitlist).
Proof.
  assert (H0 : nsorted []) by constructor.
  destruct (nset_from_list_spec hitlist [] H0) as [H1 H2]. split; [exact H1|].
  intros k. rewrite H2. cbn [In]. split; [intros [H|[]]; exact H|auto].
Qed.

Lemma with_hitlist_cases marg hitlist s md :
  w_meta w marg = Some md ->
  let hs := fold_left (fun h n => nset_insert n h) hitlist [] in
  (remaining (packages md) hs = [] /\
   get_targets_with_hitlist w marg hitlist s
   = Ok (add_targets w (flat_map p_targets (hit_list (packages md) hs)) s))
  \/ (exists n r, remaining (packages md) hs = n :: r /\
                  get_targets_with_hitlist w marg hitlist s = Err (ENotMember n)).
Proof.
  intros Hm hs. unfold get_targets_with_hitlist. rewrite Hm. fold hs. rewrite hitlist_loop_eq.
  destruct (remaining (packages md) hs) as [|n r].
  - left. split; reflexivity.
  - right. exists n, r. split; reflexivity.
Qed.
End Targets.

(* ================================================================== *)
(* 4. the recursion of --all *)
Lemma member_check_false (ps : list pkg) (mp : path) :
  existsb (fun p => p_manifest p =? mp) ps = false <-> (forall q, In q ps -> p_manifest q <> mp).
Proof.
  split.
  - intros H q Hq E. assert (Ht : existsb (fun p => p_manifest p =? mp) ps = true).
    { apply existsb_exists. exists q. split; [exact Hq|apply N.eqb_eq; exact E]. }
    congruence.
  - intros H. destruct (existsb (fun p => p_manifest p =? mp) ps) eqn:E; [|reflexivity].
    apply existsb_exists in E. destruct E as (q & Hq & E). apply N.eqb_eq in E. exfalso. exact (H q Hq E).
Qed.

Lemma filter_len_le {A} (f g : A -> bool) (l : list A) :
  (forall x, In x l -> f x = true -> g x = true) ->
  (List.length (filter f l) <= List.length (filter g l))%nat.
Proof.
  induction l as [|x l IH]; intros H; cbn [filter]; [lia|].
  assert (IH' := IH (fun y Hy => H y (or_intror Hy))).
  destruct (f x) eqn:Ef.
  - rewrite (H x (or_introl eq_refl) Ef). cbn [List.length]. lia.
  - destruct (g x); cbn [List.length]; lia.
Qed.
Lemma filter_len_lt {A} (f g : A -> bool) (l : list A) (x0 : A) :
  (forall x, In x l -> f x = true -> g x = true) ->
  In x0 l -> f x0 = false -> g x0 = true ->
  (List.length (filter f l) < List.length (filter g l))%nat.
Proof.
  induction l as [|x l IH]; intros H Hin Hf Hg; [destruct Hin|]. cbn [filter].
  assert (Hle := filter_len_le f g l (fun y Hy => H y (or_intror Hy))).
  destruct Hin as [->|Hin].
  - rewrite Hf, Hg. cbn [List.length]. lia.
  - assert (IH' := IH (fun y Hy => H y (or_intror Hy)) Hin Hf Hg).
    destruct (f x) eqn:Ef.
    + rewrite (H x (or_introl eq_refl) Ef). cbn [List.length]. lia.
    + destruct (g x); cbn [List.length]; lia.
Qed.
Lemma filter_len_all {A} (f : A -> bool) (l : list A) : (List.length (filter f l) <= List.length l)%nat.
Proof.
  induction l as [|x l IH]; cbn [filter List.length]; [lia|]. destruct (f x); cbn [List.length]; lia.
Qed.

Section AllRec.
Variable w : world.
Variable root : option path.
Variable vkey : pkgname -> path -> N.

Definition covered (m : option path) (s : tset) : Prop :=
  forall md p st, w_meta w m = Some md -> In p (packages md) -> In st (p_targets p) ->
                  In (w_canon w (st_src st)) (tpaths s).
Definition edges_keyed (m : option path) (v : nset) : Prop :=
  forall n mp, Edge w m n mp -> In (vkey n mp) v.

(* what happens between two states of (targets, visited); C = the manifests on which the recursive
   function was called (and returned) in between *)
Record T (C : list (option path)) (st st' : tset * nset) : Prop := MkTr {
  T_paths : forall k, In k (tpaths (fst st)) -> In k (tpaths (fst st'));
  T_vis : forall k, In k (snd st) -> In k (snd st');
  T_C : forall c, In c C -> Reach w root c /\ covered c (fst st') /\ edges_keyed c (snd st');
  T_newvis : forall k, In k (snd st') ->
     In k (snd st) \/ exists c n mp, Reach w root c /\ Edge w c n mp /\ k = vkey n mp /\ In (Some mp) C;
  T_sound : forall t, In t (fst st') ->
     In t (fst st) \/ exists p st0, all_selected w root p /\ In st0 (p_targets p) /\ t = from_target w st0;
  T_sorted : tsorted (fst st) -> tsorted (fst st')
}.
Arguments T_paths {C st st'}.
Arguments T_vis {C st st'}.
Arguments T_C {C st st'}.
Arguments T_newvis {C st st'}.
Arguments T_sound {C st st'}.
Arguments T_sorted {C st st'}.

Lemma T_refl st : T [] st st.
Proof.
  constructor; auto.
  intros c [].
Qed.

Lemma T_trans C1 C2 a b c : T C1 a b -> T C2 b c -> T (C1 ++ C2) a c.
Proof.
  intros H1 H2. constructor.
  - intros k Hk. apply (T_paths H2). apply (T_paths H1). exact Hk.
  - intros k Hk. apply (T_vis H2). apply (T_vis H1). exact Hk.
  - intros x Hx. apply in_app_or in Hx. destruct Hx as [Hx|Hx].
    + destruct (T_C H1 x Hx) as (Hr & Hc & He). split; [exact Hr|]. split.
      * intros md p st Hm Hp Hst. apply (T_paths H2). exact (Hc md p st Hm Hp Hst).
      * intros n mp Hedge. apply (T_vis H2). exact (He n mp Hedge).
    + exact (T_C H2 x Hx).
  - intros k Hk. destruct (T_newvis H2 k Hk) as [Hb|(x & n & mp & Hr & He & Hkk & Hin)].
    + destruct (T_newvis H1 k Hb) as [Ha|(x & n & mp & Hr & He & Hkk & Hin)]; [left; exact Ha|].
      right. exists x, n, mp. repeat split; try assumption. apply in_or_app. left. exact Hin.
    + right. exists x, n, mp. repeat split; try assumption. apply in_or_app. right. exact Hin.
  - intros t Ht. destruct (T_sound H2 t Ht) as [Hb|Hsel]; [|right; exact Hsel].
    exact (T_sound H1 t Hb).
  - intros Hs. apply (T_sorted H2). apply (T_sorted H1). exact Hs.
Qed.

Lemma T_add_targets m md p s v :
  Reach w root m -> w_meta w m = Some md -> In p (packages md) ->
  T [] (s, v) (add_targets w (p_targets p) s, v).
Proof.
  intros Hr Hm Hp. constructor; cbn [fst snd].
  - intros k Hk. apply add_targets_paths. right. exact Hk.
  - auto.
  - intros c [].
  - auto.
  - intros t Ht. destruct (add_targets_from _ _ _ _ Ht) as [H|(st0 & Hst0 & ->)]; [left; exact H|].
    right. exists p, st0. split; [exists m, md; auto|split; [exact Hst0|reflexivity]].
  - apply add_targets_sorted.
Qed.

Lemma T_insert C s v k st' c n mp :
  T C (s, nset_insert k v) st' -> Reach w root c -> Edge w c n mp -> k = vkey n mp -> In (Some mp) C ->
  T C (s, v) st'.
Proof.
  intros H Hr He Hk Hin. constructor; cbn [fst snd].
  - exact (T_paths H).
  - intros x Hx. apply (T_vis H). cbn [snd]. apply nset_insert_In. right. exact Hx.
  - exact (T_C H).
  - intros x Hx. destruct (T_newvis H x Hx) as [Hx'|Hx']; [|right; exact Hx'].
    cbn [snd] in Hx'. apply nset_insert_In in Hx'. destruct Hx' as [->|Hx']; [|left; exact Hx'].
    right. exists c, n, mp. repeat split; assumption.
  - exact (T_sound H).
  - exact (T_sorted H).
Qed.

Lemma T_add_C C st st' m :
  T C st st' -> Reach w root m -> covered m (fst st') -> edges_keyed m (snd st') -> T (m :: C) st st'.
Proof.
  intros H Hr Hc He. constructor.
  - exact (T_paths H).
  - exact (T_vis H).
  - intros c [<-|Hc']; [split; [exact Hr|split; [exact Hc|exact He]]|exact (T_C H c Hc')].
  - intros k Hk. destruct (T_newvis H k Hk) as [Hk'|(c & n & mp & H1 & H2 & H3 & H4)]; [left; exact Hk'|].
    right. exists c, n, mp. repeat split; try assumption. right. exact H4.
  - exact (T_sound H).
  - exact (T_sorted H).
Qed.

Definition recf_ok (recf : path -> tset * nset -> res (tset * nset)) : Prop :=
  forall mp st st', Reach w root (Some mp) -> recf mp st = Ok st' -> exists C, T C st st' /\ In (Some mp) C.

Definition dep_keyed (md : metadata) (d : dep) (v : nset) : Prop :=
  forall dir, d_path d = Some dir -> w_exists w (w_toml_in w dir) = true ->
              (forall q, In q (packages md) -> p_manifest q <> w_toml_in w dir) ->
              In (vkey (d_name d) (w_toml_in w dir)) v.

Lemma deps_loop_T recf m md p :
  recf_ok recf -> Reach w root m -> w_meta w m = Some md -> In p (packages md) ->
  forall ds st st', (forall d, In d ds -> In d (p_deps p)) ->
    deps_loop w vkey recf md ds st = Ok st' ->
    exists C, T C st st' /\ forall d, In d ds -> dep_keyed md d (snd st').
Proof.
  intros Hrec Hr Hm Hp. induction ds as [|d ds IH]; intros st st' Hsub Hrun; cbn [deps_loop] in Hrun.
  - inversion Hrun; subst. exists []. split; [apply T_refl|intros d []].
  - assert (Hsub' : forall d0, In d0 ds -> In d0 (p_deps p)) by (intros d0 Hd0; apply Hsub; right; exact Hd0).
    destruct (d_path d) as [dir|] eqn:Edir.
    + destruct (nset_mem (vkey (d_name d) (w_toml_in w dir)) (snd st)) eqn:Emem.
      * destruct (IH st st' Hsub' Hrun) as (C & HT & Hk). exists C. split; [exact HT|].
        intros d0 [<-|Hd0]; [|apply Hk; exact Hd0].
        intros dir0 Hdir0 _ _. rewrite Edir in Hdir0. inversion Hdir0; subst dir0.
        apply (T_vis HT). apply nset_mem_iff. exact Emem.
      * destruct (w_exists w (w_toml_in w dir)
                  && negb (existsb (fun p0 => p_manifest p0 =? w_toml_in w dir) (packages md))) eqn:Etest.
        -- apply andb_true_iff in Etest. destruct Etest as [Eex Enm].
           apply negb_true_iff in Enm. rewrite member_check_false in Enm.
           assert (Hedge : Edge w m (d_name d) (w_toml_in w dir)).
           { exists md, p, d, dir. repeat split; try assumption; try reflexivity.
             apply Hsub. left. reflexivity. }
           assert (Hr' : Reach w root (Some (w_toml_in w dir))) by (eapply Reach_step; eassumption).
           destruct (recf (w_toml_in w dir)
                          (fst st, nset_insert (vkey (d_name d) (w_toml_in w dir)) (snd st))) as [st1|e] eqn:Erec;
             [|discriminate].
           destruct (Hrec _ _ _ Hr' Erec) as (C1 & HT1 & Hin1).
           assert (HT1' : T C1 st st1).
           { destruct st as [s v]. cbn [fst snd] in *.
             eapply T_insert; [exact HT1|exact Hr|exact Hedge|reflexivity|exact Hin1]. }
           destruct (IH st1 st' Hsub' Hrun) as (C2 & HT2 & Hk). exists (C1 ++ C2).
           split; [eapply T_trans; eassumption|].
           intros d0 [<-|Hd0]; [|apply Hk; exact Hd0].
           intros dir0 Hdir0 _ _. rewrite Edir in Hdir0. inversion Hdir0; subst dir0.
           apply (T_vis HT2). apply (T_vis HT1). cbn [snd]. apply nset_insert_In. left. reflexivity.
        -- destruct (IH st st' Hsub' Hrun) as (C & HT & Hk). exists C. split; [exact HT|].
           intros d0 [<-|Hd0]; [|apply Hk; exact Hd0].
           intros dir0 Hdir0 Hex Hnm. rewrite Edir in Hdir0. inversion Hdir0; subst dir0.
           rewrite Hex in Etest. apply member_check_false in Hnm. rewrite Hnm in Etest. discriminate.
    + destruct (IH st st' Hsub' Hrun) as (C & HT & Hk). exists C. split; [exact HT|].
      intros d0 [<-|Hd0]; [|apply Hk; exact Hd0].
      intros dir0 Hdir0. rewrite Edir in Hdir0. discriminate.
Qed.

Lemma dep_keyed_mono md d v v' : (forall k, In k v -> In k v') -> dep_keyed md d v -> dep_keyed md d v'.
Proof. intros Hsub H dir H1 H2 H3. apply Hsub. exact (H dir H1 H2 H3). Qed.

Lemma pkgs_loop_T recf m md :
  recf_ok recf -> Reach w root m -> w_meta w m = Some md ->
  forall ps st st', (forall p, In p ps -> In p (packages md)) ->
    pkgs_loop w vkey recf md ps st = Ok st' ->
    exists C, T C st st' /\
      (forall p st0, In p ps -> In st0 (p_targets p) -> In (w_canon w (st_src st0)) (tpaths (fst st'))) /\
      (forall p d, In p ps -> In d (p_deps p) -> dep_keyed md d (snd st')).
Proof.
  intros Hrec Hr Hm. induction ps as [|p ps IH]; intros st st' Hsub Hrun; cbn [pkgs_loop] in Hrun.
  - inversion Hrun; subst. exists []. split; [apply T_refl|]. split; [intros p st0 []|intros p d []].
  - assert (Hp : In p (packages md)) by (apply Hsub; left; reflexivity).
    assert (Hsub' : forall p0, In p0 ps -> In p0 (packages md)) by (intros p0 Hp0; apply Hsub; right; exact Hp0).
    destruct (deps_loop w vkey recf md (p_deps p) (add_targets w (p_targets p) (fst st), snd st)) as [st1|e] eqn:Ed;
      [|discriminate].
    destruct (deps_loop_T recf m md p Hrec Hr Hm Hp (p_deps p) _ _ (fun d Hd => Hd) Ed) as (C1 & HT1 & Hk1).
    destruct (IH st1 st' Hsub' Hrun) as (C2 & HT2 & Hc2 & Hk2).
    assert (HT0 : T [] st (add_targets w (p_targets p) (fst st), snd st)).
    { destruct st as [s v]. cbn [fst snd]. eapply T_add_targets; eassumption. }
    exists (([] ++ C1) ++ C2). split; [eapply T_trans; [eapply T_trans; eassumption|exact HT2]|]. split.
    + intros p0 st0 [<-|Hp0] Hst0; [|apply (Hc2 p0 st0 Hp0 Hst0)].
      apply (T_paths HT2). apply (T_paths HT1). cbn [fst]. apply add_targets_paths. left.
      exists st0. split; [exact Hst0|reflexivity].
    + intros p0 d [<-|Hp0] Hd; [|apply (Hk2 p0 d Hp0 Hd)].
      eapply dep_keyed_mono; [exact (T_vis HT2)|]. apply Hk1. exact Hd.
Qed.

Lemma rec_gen_T : forall fuel m st st',
  Reach w root m -> rec_gen w vkey fuel m st = Ok st' -> exists C, T C st st' /\ In m C.
Proof.
  induction fuel as [|f IH]; intros m st st' Hr Hrun; cbn [rec_gen] in Hrun; [discriminate|].
  destruct (w_meta w m) as [md|] eqn:Hm; [|discriminate].
  assert (Hrec : recf_ok (fun mp => rec_gen w vkey f (Some mp))).
  { intros mp st0 st0' Hr0 Hrun0. exact (IH _ _ _ Hr0 Hrun0). }
  destruct (pkgs_loop_T _ m md Hrec Hr Hm (packages md) _ _ (fun p Hp => Hp) Hrun) as (C & HT & Hc & Hk).
  exists (m :: C). split; [|left; reflexivity].
  apply T_add_C; [exact HT|exact Hr| |].
  - intros md' p st0 Hm' Hp Hst0. rewrite Hm in Hm'. inversion Hm'; subst md'. exact (Hc p st0 Hp Hst0).
  - intros n mp (md' & p & d & dir & Hm' & Hp & Hd & Hn & Hdir & Hmp & Hex & Hnm).
    rewrite Hm in Hm'. inversion Hm'; subst md'. subst n mp. exact (Hk p d Hp Hd dir Hdir Hex Hnm).
Qed.

Definition key_inj : Prop :=
  forall m1 n1 mp1 m2 n2 mp2,
    Reach w root m1 -> Edge w m1 n1 mp1 -> Reach w root m2 -> Edge w m2 n2 mp2 ->
    vkey n1 mp1 = vkey n2 mp2 -> mp1 = mp2.

Lemma rec_gen_sound fuel s v :
  rec_gen w vkey fuel root ([], []) = Ok (s, v) ->
  tsorted s /\ forall t, In t s -> exists p st, all_selected w root p /\ In st (p_targets p) /\ t = from_target w st.
Proof.
  intros Hrun. destruct (rec_gen_T fuel _ _ _ (Reach_root w root) Hrun) as (C & HT & _). split.
  - apply (T_sorted HT). apply tsorted_nil.
  - intros t Ht. destruct (T_sound HT t Ht) as [[]|H]. exact H.
Qed.

Lemma rec_gen_complete fuel s v :
  key_inj -> rec_gen w vkey fuel root ([], []) = Ok (s, v) ->
  forall p st, all_selected w root p -> In st (p_targets p) -> In (w_canon w (st_src st)) (tpaths s).
Proof.
  intros Hinj Hrun. destruct (rec_gen_T fuel _ _ _ (Reach_root w root) Hrun) as (C & HT & HrootC).
  assert (Hall : forall m, Reach w root m -> In m C).
  { intros m Hr. induction Hr as [|m n mp Hr IHr He]; [exact HrootC|].
    destruct (T_C HT m IHr) as (_ & _ & Hk). specialize (Hk n mp He). cbn [snd] in Hk.
    destruct (T_newvis HT _ Hk) as [[]|(c & n' & mp' & Hr' & He' & Hkey & Hin)].
    rewrite (Hinj m n mp c n' mp' Hr He Hr' He' Hkey). exact Hin. }
  intros p st (m & md & Hr & Hm & Hp) Hst.
  destruct (T_C HT m (Hall m Hr)) as (_ & Hc & _). exact (Hc md p st Hm Hp Hst).
Qed.

(* ---------------- termination: enough fuel ---------------- *)
Variable U : list N.
Hypothesis HU : forall m n mp, Reach w root m -> Edge w m n mp -> In (vkey n mp) U.

Definition missing (v : nset) : nat := List.length (filter (fun k => negb (nset_mem k v)) U).

Lemma missing_mono v v' : (forall k, In k v -> In k v') -> (missing v' <= missing v)%nat.
Proof.
  intros Hsub. apply filter_len_le. intros x _ Hx. apply negb_true_iff in Hx. apply negb_true_iff.
  apply nset_mem_false. apply nset_mem_false in Hx. intros H. apply Hx. exact (Hsub x H). 
Qed.
Lemma missing_mono_back v v' : (forall k, In k v -> In k v') -> (missing v' <= missing v)%nat.
Proof. exact (missing_mono v v'). Qed.

Lemma missing_insert k v : In k U -> ~ In k v -> (missing (nset_insert k v) < missing v)%nat.
Proof.
  intros HkU Hkv. apply (filter_len_lt _ _ U k).
  - intros x _ Hx. apply negb_true_iff in Hx. apply negb_true_iff.
    apply nset_mem_false. apply nset_mem_false in Hx. intros H. apply Hx. apply nset_insert_In. right. exact H.
  - exact HkU.
  - apply negb_false_iff. apply nset_mem_iff. apply nset_insert_In. left. reflexivity.
  - apply negb_true_iff. apply nset_mem_false. exact Hkv.
Qed.

Definition recf_fuel (f : nat) (recf : path -> tset * nset -> res (tset * nset)) : Prop :=
  forall mp st, Reach w root (Some mp) -> (missing (snd st) < f)%nat -> recf mp st <> Err EFuel.

Lemma deps_loop_fuel f recf m md p :
  recf_ok recf -> recf_fuel f recf -> Reach w root m -> w_meta w m = Some md -> In p (packages md) ->
  forall ds st, (forall d, In d ds -> In d (p_deps p)) -> (missing (snd st) <= f)%nat ->
    deps_loop w vkey recf md ds st <> Err EFuel.
Proof.
  intros Hrec Hfuel Hr Hm Hp. induction ds as [|d ds IH]; intros st Hsub Hmiss; cbn [deps_loop]; [discriminate|].
  assert (Hsub' : forall d0, In d0 ds -> In d0 (p_deps p)) by (intros d0 Hd0; apply Hsub; right; exact Hd0).
  destruct (d_path d) as [dir|] eqn:Edir; [|apply IH; assumption].
  destruct (nset_mem (vkey (d_name d) (w_toml_in w dir)) (snd st)) eqn:Emem; [apply IH; assumption|].
  destruct (w_exists w (w_toml_in w dir)
            && negb (existsb (fun p0 => p_manifest p0 =? w_toml_in w dir) (packages md))) eqn:Etest;
    [|apply IH; assumption].
  apply andb_true_iff in Etest. destruct Etest as [Eex Enm].
  apply negb_true_iff in Enm. rewrite member_check_false in Enm.
  assert (Hedge : Edge w m (d_name d) (w_toml_in w dir)).
  { exists md, p, d, dir. repeat split; try assumption; try reflexivity. apply Hsub. left. reflexivity. }
  assert (Hr' : Reach w root (Some (w_toml_in w dir))) by (eapply Reach_step; eassumption).
  apply nset_mem_false in Emem.
  pose proof (missing_insert _ _ (HU _ _ _ Hr Hedge) Emem) as Hlt.
  destruct (recf (w_toml_in w dir) (fst st, nset_insert (vkey (d_name d) (w_toml_in w dir)) (snd st)))
    as [st1|e] eqn:Erec.
  - destruct (Hrec _ _ _ Hr' Erec) as (C1 & HT1 & _). apply IH; [exact Hsub'|].
    assert (Hle : (missing (snd st1) <= missing (nset_insert (vkey (d_name d) (w_toml_in w dir)) (snd st)))%nat).
    { apply missing_mono. exact (T_vis HT1). }
    lia.
  - intros Heq. inversion Heq; subst e. apply (Hfuel (w_toml_in w dir) _ Hr') in Erec; [exact Erec|].
    cbn [snd]. lia.
Qed.

Lemma pkgs_loop_fuel f recf m md :
  recf_ok recf -> recf_fuel f recf -> Reach w root m -> w_meta w m = Some md ->
  forall ps st, (forall p, In p ps -> In p (packages md)) -> (missing (snd st) <= f)%nat ->
    pkgs_loop w vkey recf md ps st <> Err EFuel.
Proof.
  intros Hrec Hfuel Hr Hm. induction ps as [|p ps IH]; intros st Hsub Hmiss; cbn [pkgs_loop]; [discriminate|].
  assert (Hp : In p (packages md)) by (apply Hsub; left; reflexivity).
  assert (Hsub' : forall p0, In p0 ps -> In p0 (packages md)) by (intros p0 Hp0; apply Hsub; right; exact Hp0).
  destruct (deps_loop w vkey recf md (p_deps p) (add_targets w (p_targets p) (fst st), snd st)) as [st1|e] eqn:Ed.
  - destruct (deps_loop_T recf m md p Hrec Hr Hm Hp (p_deps p) _ _ (fun d Hd => Hd) Ed) as (C1 & HT1 & _).
    apply IH; [exact Hsub'|].
    assert (Hle : (missing (snd st1) <= missing (snd st))%nat) by (apply missing_mono; exact (T_vis HT1)).
    lia.
  - intros Heq. inversion Heq; subst e.
    exact (deps_loop_fuel f recf m md p Hrec Hfuel Hr Hm Hp (p_deps p)
                          (add_targets w (p_targets p) (fst st), snd st) (fun d Hd => Hd) Hmiss Ed).
Qed.

Lemma rec_gen_fuel : forall f m st,
  Reach w root m -> (missing (snd st) < f)%nat -> rec_gen w vkey f m st <> Err EFuel.
Proof.
  induction f as [|f IH]; intros m st Hr Hmiss; [lia|]. cbn [rec_gen].
  destruct (w_meta w m) as [md|] eqn:Hm; [|discriminate].
  apply (pkgs_loop_fuel f _ m md).
  - intros mp st0 st0' Hr0 Hrun0. exact (rec_gen_T _ _ _ _ Hr0 Hrun0).
  - intros mp st0 Hr0 Hm0. exact (IH _ _ Hr0 Hm0).
  - exact Hr.
  - exact Hm.
  - auto.
  - lia.
Qed.

Lemma rec_gen_fuel_enough fuel :
  (List.length U < fuel)%nat -> rec_gen w vkey fuel root ([], []) <> Err EFuel.
Proof.
  intros H. apply rec_gen_fuel; [apply Reach_root|].
  unfold missing. pose proof (filter_len_all (fun k => negb (nset_mem k (snd (@nil target, @nil N)))) U). lia.
Qed.
End AllRec.
