(* C18/Lemmas.v — specification vocabulary and all proofs for C18 (cargo fmt). *)
From Coq Require Import String Ascii ZArith Sorted.
From V Require Import Base.Text C18.Model.
Open Scope N_scope.
Open Scope list_scope.
Arguments N.add : simpl never.
Arguments N.sub : simpl never.
Arguments N.mul : simpl never.
Arguments N.ltb : simpl never.
Arguments N.leb : simpl never.
Arguments N.eqb : simpl never.

(* ================================================================== *)
(* 1. keyed sets (BTreeSet) *)
Section KeyedLemmas.
Variable A : Type.
Variable key : A -> N.

Definition ksorted (s : list A) : Prop := StronglySorted (fun a b => key a < key b) s.

Lemma kinsert_incl x s y : In y (kinsert key x s) -> y = x \/ In y s.
Proof.
  induction s as [|u s IH]; cbn [kinsert].
  - intros [H|[]]; auto.
  - destruct (key x <? key u) eqn:E1.
    + intros [H|H]; auto.
    + destruct (key x =? key u) eqn:E2; [auto|].
      intros [H|H]; [right; left; exact H|].
      destruct (IH H) as [H1|H1]; [auto|right; right; exact H1].
Qed.

Lemma kinsert_keeps x s y : In y s -> In y (kinsert key x s).
Proof.
  induction s as [|u s IH]; cbn [kinsert]; [intros []|].
  intros Hy. destruct (key x <? key u) eqn:E1; [right; exact Hy|].
  destruct (key x =? key u) eqn:E2; [exact Hy|].
  destruct Hy as [Hy|Hy]; [left; exact Hy|right; apply IH; exact Hy].
Qed.

Lemma kinsert_keys x s k : In k (map key (kinsert key x s)) <-> k = key x \/ In k (map key s).
Proof.
  induction s as [|u s IH]; cbn [kinsert map In].
  - split; [intros [H|[]]; auto|intros [H|[]]; auto].
  - destruct (key x <? key u) eqn:E1; cbn [map In].
    + split; [intros [H|[H|H]]; auto|intros [H|[H|H]]; auto].
    + destruct (key x =? key u) eqn:E2; cbn [map In].
      * apply N.eqb_eq in E2. split; [intros [H|H]; auto|].
        intros [H|[H|H]]; auto. left. congruence.
      * rewrite IH. split; [intros [H|[H|H]]; auto|intros [H|[H|H]]; auto].
Qed.

Lemma kinsert_new x s : ~ In (key x) (map key s) -> In x (kinsert key x s).
Proof.
  induction s as [|u s IH]; cbn [kinsert map In]; intros Hn; [left; reflexivity|].
  destruct (key x <? key u) eqn:E1; [left; reflexivity|].
  destruct (key x =? key u) eqn:E2.
  - apply N.eqb_eq in E2. exfalso. apply Hn. left. symmetry. exact E2.
  - right. apply IH. intros H. apply Hn. right. exact H.
Qed.

Lemma ksorted_inv u s : ksorted (u :: s) -> ksorted s /\ Forall (fun b => key u < key b) s.
Proof. intros H. inversion H; subst. split; assumption. Qed.

Lemma kinsert_same x s : ksorted s -> In (key x) (map key s) -> kinsert key x s = s.
Proof.
  induction s as [|u s IH]; cbn [kinsert map In]; intros Hs Hin; [destruct Hin|].
  destruct (ksorted_inv _ _ Hs) as [Hs' Hall].
  destruct (key x <? key u) eqn:E1.
  - apply N.ltb_lt in E1. exfalso. destruct Hin as [Hin|Hin]; [lia|].
    apply in_map_iff in Hin. destruct Hin as (b & Hb & Hbs).
    rewrite Forall_forall in Hall. specialize (Hall b Hbs). lia.
  - destruct (key x =? key u) eqn:E2; [reflexivity|].
    apply N.eqb_neq in E2. f_equal. apply IH; [exact Hs'|].
    destruct Hin as [Hin|Hin]; [congruence|exact Hin].
Qed.

Lemma kinsert_sorted x s : ksorted s -> ksorted (kinsert key x s).
Proof.
  induction s as [|u s IH]; cbn [kinsert]; intros Hs.
  - constructor; constructor.
  - destruct (ksorted_inv _ _ Hs) as [Hs' Hall].
    destruct (key x <? key u) eqn:E1.
    + apply N.ltb_lt in E1. constructor; [exact Hs|].
      constructor; [exact E1|]. rewrite Forall_forall in *. intros b Hb. specialize (Hall b Hb). lia.
    + destruct (key x =? key u) eqn:E2; [exact Hs|].
      apply N.ltb_ge in E1. apply N.eqb_neq in E2.
      constructor; [apply IH; exact Hs'|].
      rewrite Forall_forall in *. intros b Hb.
      destruct (kinsert_incl _ _ _ Hb) as [->|Hb']; [lia|apply Hall; exact Hb'].
Qed.

Lemma kinsert_In x s y : ksorted s ->
  (In y (kinsert key x s) <-> In y s \/ (y = x /\ ~ In (key x) (map key s))).
Proof.
  intros Hs. split.
  - intros Hy. destruct (in_dec N.eq_dec (key x) (map key s)) as [Hin|Hnin].
    + rewrite (kinsert_same _ _ Hs Hin) in Hy. left. exact Hy.
    + destruct (kinsert_incl _ _ _ Hy) as [->|Hy']; [right; split; [reflexivity|exact Hnin]|left; exact Hy'].
  - intros [Hy|[-> Hn]]; [apply kinsert_keeps; exact Hy|apply kinsert_new; exact Hn].
Qed.

Lemma kinsert_all_cons x l s : kinsert_all key (x :: l) s = kinsert_all key l (kinsert key x s).
Proof. reflexivity. Qed.

Lemma kinsert_all_app l1 l2 s : kinsert_all key (l1 ++ l2) s = kinsert_all key l2 (kinsert_all key l1 s).
Proof. unfold kinsert_all. apply fold_left_app. Qed.

Lemma kinsert_all_sorted l : forall s, ksorted s -> ksorted (kinsert_all key l s).
Proof.
  induction l as [|x l IH]; intros s Hs; [exact Hs|].
  rewrite kinsert_all_cons. apply IH. apply kinsert_sorted. exact Hs.
Qed.

Lemma kinsert_all_keys l : forall s k,
  In k (map key (kinsert_all key l s)) <-> In k (map key l) \/ In k (map key s).
Proof.
  induction l as [|x l IH]; intros s k.
  - cbn. split; [auto|intros [[]|H]; exact H].
  - rewrite kinsert_all_cons, IH, kinsert_keys. cbn [map In].
    split; [intros [H|[H|H]]; auto|intros [[H|H]|H]; auto].
Qed.

Lemma kinsert_all_keeps l : forall s y, In y s -> In y (kinsert_all key l s).
Proof.
  induction l as [|x l IH]; intros s y Hy; [exact Hy|].
  rewrite kinsert_all_cons. apply IH. apply kinsert_keeps. exact Hy.
Qed.

Lemma kinsert_all_from l : forall s y, In y (kinsert_all key l s) -> In y s \/ In y l.
Proof.
  induction l as [|x l IH]; intros s y Hy; [left; exact Hy|].
  rewrite kinsert_all_cons in Hy. destruct (IH _ _ Hy) as [H|H].
  - destruct (kinsert_incl _ _ _ H) as [->|H']; [right; left; reflexivity|left; exact H'].
  - right; right; exact H.
Qed.

(* the element kept for a key is the FIRST one inserted with that key *)
Lemma kinsert_all_In l : forall s y, ksorted s ->
  (In y (kinsert_all key l s) <->
   In y s \/ (~ In (key y) (map key s) /\
              exists l1 l2, l = l1 ++ y :: l2 /\ ~ In (key y) (map key l1))).
Proof.
  induction l as [|x l IH]; intros s y Hs.
  - cbn. split; [auto|]. intros [H|(_ & l1 & l2 & H & _)]; [exact H|]. destruct l1; discriminate.
  - rewrite kinsert_all_cons, (IH _ _ (kinsert_sorted x _ Hs)), (kinsert_In x _ y Hs). split.
    + intros [[H|[-> Hn]]|(Hn & l1 & l2 & -> & Hl1)].
      * left; exact H.
      * right. split; [exact Hn|]. exists [], l. split; [reflexivity|intros []].
      * rewrite kinsert_keys in Hn. right. split; [intros H; apply Hn; right; exact H|].
        exists (x :: l1), l2. split; [reflexivity|].
        cbn [map In]. intros [H|H]; [apply Hn; left; symmetry; exact H|exact (Hl1 H)].
    + intros [H|(Hn & l1 & l2 & Heq & Hl1)]; [left; left; exact H|].
      destruct l1 as [|x' l1]; cbn [app] in Heq; inversion Heq; subst.
      * left; right. split; [reflexivity|exact Hn].
      * right. split.
        -- rewrite kinsert_keys. cbn [map In] in Hl1. intros [H|H]; [apply Hl1; left; symmetry; exact H|exact (Hn H)].
        -- exists l1, l2. split; [reflexivity|]. intros H. apply Hl1. right. exact H.
Qed.

Lemma ksorted_keys s : ksorted s -> StronglySorted N.lt (map key s).
Proof.
  induction s as [|u s IH]; intros Hs; cbn [map]; [constructor|].
  destruct (ksorted_inv _ _ Hs) as [Hs' Hall]. constructor; [apply IH; exact Hs'|].
  rewrite Forall_forall in *. intros k Hk. apply in_map_iff in Hk. destruct Hk as (b & <- & Hb). apply Hall; exact Hb.
Qed.
End KeyedLemmas.
Arguments ksorted {A}.
Arguments kinsert_incl {A}.
Arguments kinsert_keeps {A}.
Arguments kinsert_keys {A}.
Arguments kinsert_new {A}.
Arguments kinsert_same {A}.
Arguments kinsert_sorted {A}.
Arguments kinsert_In {A}.
Arguments kinsert_all_cons {A}.
Arguments kinsert_all_app {A}.
Arguments kinsert_all_sorted {A}.
Arguments kinsert_all_keys {A}.
Arguments kinsert_all_keeps {A}.
Arguments kinsert_all_from {A}.
Arguments kinsert_all_In {A}.
Arguments ksorted_keys {A}.
Arguments ksorted_inv {A}.

Lemma sorted_lt_NoDup (l : list N) : StronglySorted N.lt l -> NoDup l.
Proof.
  induction l as [|x l IH]; intros H; [constructor|].
  inversion H as [|? ? Hl Hall]; subst. constructor; [|apply IH; exact Hl].
  intros Hin. rewrite Forall_forall in Hall. specialize (Hall x Hin). lia.
Qed.

(* nset *)
Lemma nset_mem_iff n s : nset_mem n s = true <-> In n s.
Proof.
  unfold nset_mem. rewrite existsb_exists. split.
  - intros (x & Hx & E). apply N.eqb_eq in E. subst. exact Hx.
  - intros H. exists n. split; [exact H|apply N.eqb_refl].
Qed.
Lemma nset_mem_false n s : nset_mem n s = false <-> ~ In n s.
Proof. rewrite <- nset_mem_iff. destruct (nset_mem n s); split; congruence. Qed.

Lemma nset_insert_In n s k : In k (nset_insert n s) <-> k = n \/ In k s.
Proof.
  unfold nset_insert. pose proof (kinsert_keys (fun x : N => x) n s k) as H.
  rewrite !map_id in H. exact H.
Qed.

Definition nsorted (s : nset) : Prop := StronglySorted N.lt s.
Lemma nsorted_ksorted s : nsorted s <-> ksorted (fun x : N => x) s.
Proof. unfold nsorted, ksorted. split; intros H; exact H. Qed.
Lemma nset_insert_sorted n s : nsorted s -> nsorted (nset_insert n s).
Proof. rewrite !nsorted_ksorted. apply kinsert_sorted. Qed.

Lemma nset_remove_fst n s : fst (nset_remove n s) = true <-> In n s.
Proof.
  induction s as [|u s IH]; cbn [nset_remove In fst].
  - split; [discriminate|intros []].
  - destruct (n =? u) eqn:E.
    + apply N.eqb_eq in E. cbn. split; auto.
    + apply N.eqb_neq in E. destruct (nset_remove n s) as [b r]. cbn [fst] in *.
      rewrite IH. split; [auto|intros [H|H]; [congruence|exact H]].
Qed.

Lemma nset_remove_snd n s x : nsorted s -> (In x (snd (nset_remove n s)) <-> In x s /\ x <> n).
Proof.
  induction s as [|u s IH]; cbn [nset_remove In snd]; intros Hs.
  - split; [intros []|intros [[] _]].
  - inversion Hs as [|? ? Hs' Hall]; subst. rewrite Forall_forall in Hall.
    destruct (n =? u) eqn:E.
    + apply N.eqb_eq in E. subst u. cbn [snd]. split.
      * intros H. split; [right; exact H|]. intros ->. specialize (Hall _ H). lia.
      * intros [[H|H] Hne]; [congruence|exact H].
    + apply N.eqb_neq in E. specialize (IH Hs'). destruct (nset_remove n s) as [b r]. cbn [snd] in *.
      cbn [In]. rewrite IH. split.
      * intros [H|[H Hne]]; [split; [left; exact H|congruence]|split; [right; exact H|exact Hne]].
      * intros [[H|H] Hne]; [left; exact H|right; split; assumption].
Qed.

Lemma nset_remove_sorted n s : nsorted s -> nsorted (snd (nset_remove n s)).
Proof.
  induction s as [|u s IH]; cbn [nset_remove snd]; intros Hs; [constructor|].
  inversion Hs as [|? ? Hs' Hall]; subst.
  destruct (n =? u) eqn:E; [exact Hs'|].
  specialize (IH Hs').
  assert (Hall' : forall x, In x (snd (nset_remove n s)) -> u < x).
  { intros x Hx. rewrite Forall_forall in Hall. apply Hall.
    destruct (nset_remove_snd n s x Hs') as [H1 _]. apply H1. exact Hx. }
  destruct (nset_remove n s) as [b r]. cbn [snd] in *.
  constructor; [exact IH|]. rewrite Forall_forall. exact Hall'.
Qed.

Lemma nset_from_list_spec (l : list N) : forall s, nsorted s ->
  nsorted (fold_left (fun h n => nset_insert n h) l s) /\
  (forall k, In k (fold_left (fun h n => nset_insert n h) l s) <-> In k l \/ In k s).
Proof.
  induction l as [|x l IH]; intros s Hs; cbn [fold_left].
  - split; [exact Hs|]. intros k. cbn. split; [auto|intros [[]|H]; exact H].
  - destruct (IH _ (nset_insert_sorted x _ Hs)) as [H1 H2]. split; [exact H1|].
    intros k. rewrite H2, nset_insert_In. cbn [In]. split; [intros [H|[H|H]]; auto|intros [[H|H]|H]; auto].
Qed.

(* ================================================================== *)
(* 2. specification vocabulary *)
Definition tpaths (s : tset) : list path := map t_path s.
Definition tsorted (s : tset) : Prop := ksorted t_path s.

(* [s] is exactly the targets of the packages satisfying [sel]: every element of s is (the canonical path,
   kind and edition of) a target of a selected package, and every target of a selected package has its
   canonical path in s *)
Definition selects (w : world) (sel : pkg -> Prop) (s : tset) : Prop :=
  (forall t, In t s -> exists p st, sel p /\ In st (p_targets p) /\ t = from_target w st) /\
  (forall p st, sel p -> In st (p_targets p) -> In (w_canon w (st_src st)) (tpaths s)).

(* Root: main.rs:368-379 *)
Definition root_in_workspace_root (w : world) (marg : option path) (md : metadata) : bool :=
  match marg with
  | Some m => w_canon w (workspace_root md) =? m
  | None => w_canon w (workspace_root md) =? w_cwd w
  end.
Definition root_current_manifest (w : world) (marg : option path) : path :=
  match marg with
  | Some m => w_canon w m
  | None => w_toml_in w (w_cwd w)
  end.
(* the packages whose targets Root inserts, in insertion order *)
Definition root_packages (w : world) (marg : option path) (md : metadata) : list pkg :=
  match packages md with
  | [p] => [p]
  | ps => filter (fun p => root_in_workspace_root w marg md
                           || (w_canon w (p_manifest p) =? root_current_manifest w marg)) ps
  end.
Definition root_selected (w : world) (marg : option path) (md : metadata) (p : pkg) : Prop :=
  In p (packages md) /\
  (List.length (packages md) = 1%nat \/ root_in_workspace_root w marg md = true
   \/ w_canon w (p_manifest p) = root_current_manifest w marg).

(* Some hitlist: the first package of the metadata with a given name *)
Definition first_with_name (ps : list pkg) (p : pkg) : Prop :=
  exists pre post, ps = pre ++ p :: post /\ forall q, In q pre -> p_name q <> p_name p.
Definition some_selected (hitlist : list pkgname) (md : metadata) (p : pkg) : Prop :=
  In (p_name p) hitlist /\ first_with_name (packages md) p.
(* ... in insertion order *)
Fixpoint hit_list (ps : list pkg) (hs : nset) : list pkg :=
  match ps with
  | [] => []
  | p :: ps' => if fst (nset_remove (p_name p) hs)
                then p :: hit_list ps' (snd (nset_remove (p_name p) hs))
                else hit_list ps' (snd (nset_remove (p_name p) hs))
  end.
Fixpoint remaining (ps : list pkg) (hs : nset) : nset :=
  match ps with
  | [] => hs
  | p :: ps' => remaining ps' (snd (nset_remove (p_name p) hs))
  end.

(* All: the dependency edges that the recursion follows, and their closure *)
Definition Edge (w : world) (m : option path) (n : pkgname) (mp : path) : Prop :=
  exists md p d dir,
    w_meta w m = Some md /\ In p (packages md) /\ In d (p_deps p) /\ d_name d = n /\
    d_path d = Some dir /\ mp = w_toml_in w dir /\ w_exists w mp = true /\
    (forall q, In q (packages md) -> p_manifest q <> mp).
Inductive Reach (w : world) (root : option path) : option path -> Prop :=
| Reach_root : Reach w root root
| Reach_step : forall m n mp, Reach w root m -> Edge w m n mp -> Reach w root (Some mp).
Definition all_selected (w : world) (root : option path) (p : pkg) : Prop :=
  exists m md, Reach w root m /\ w_meta w m = Some md /\ In p (packages md).
(* no two followed edges carry the same dependency name to different manifests *)
Definition distinct_dep_names (w : world) (root : option path) : Prop :=
  forall m1 m2 n mp1 mp2,
    Reach w root m1 -> Edge w m1 n mp1 -> Reach w root m2 -> Edge w m2 n mp2 -> mp1 = mp2.

(* the rustfmt commands that run_rustfmt plans, and those it gets to spawn *)
Definition planned (v : verbosity) (s : tset) (fmt_args : list text) : list invocation :=
  map (fun g => mk_invocation v (fst g) (snd g) fmt_args) (by_edition s).
Fixpoint upto_spawn_failure (w : world) (pl : list invocation) : list invocation :=
  match pl with
  | [] => []
  | i :: r => match w_child w i with SpawnFailed => [i] | _ => i :: upto_spawn_failure w r end
  end.

(* execute: the pieces of its option handling *)
Definition verbosity_of (o : opts) : option verbosity :=
  match o_verbose o, o_quiet o with
  | false, false => Some Normal
  | false, true => Some Quiet
  | true, false => Some Verbose
  | true, true => None
  end.
Definition final_args (o : opts) : option (list text) :=
  let a := translate_check (o_check o) (o_rustfmt_options o) in
  match o_message_format o with
  | Some mf => convert_message_format mf a
  | None => Some a
  end.
(* Some marg = the manifest argument handed to format_crate; None = rejected *)
Definition manifest_arg (w : world) (o : opts) : option (option path) :=
  match o_manifest_path o with
  | Some specified => if ends_with (txt "Cargo.toml") specified then Some (Some (w_path_of w specified)) else None
  | None => Some None
  end.
Definition info_request (o : opts) : bool := o_version o || existsb is_info_option (o_rustfmt_options o).

(* ================================================================== *)
(* 3. add_targets *)
Section Targets.
Variable w : world.

Lemma add_targets_app l1 l2 s : add_targets w (l1 ++ l2) s = add_targets w l2 (add_targets w l1 s).
Proof. unfold add_targets. rewrite map_app. apply kinsert_all_app. Qed.

Lemma add_targets_sorted ts s : tsorted s -> tsorted (add_targets w ts s).
Proof. apply kinsert_all_sorted. Qed.

Lemma add_targets_paths ts s k :
  In k (tpaths (add_targets w ts s)) <-> (exists st, In st ts /\ k = w_canon w (st_src st)) \/ In k (tpaths s).
Proof.
  unfold tpaths, add_targets. rewrite kinsert_all_keys. rewrite map_map. cbn [from_target t_path].
  rewrite in_map_iff. split.
  - intros [(st & <- & Hst)|H]; [left; exists st; split; [exact Hst|reflexivity]|right; exact H].
  - intros [(st & Hst & ->)|H]; [left; exists st; split; [reflexivity|exact Hst]|right; exact H].
Qed.

Lemma add_targets_keeps ts s t : In t s -> In t (add_targets w ts s).
Proof. apply kinsert_all_keeps. Qed.

Lemma add_targets_from ts s t :
  In t (add_targets w ts s) -> In t s \/ exists st, In st ts /\ t = from_target w st.
Proof.
  intros H. destruct (kinsert_all_from _ _ _ _ H) as [H1|H1]; [left; exact H1|right].
  apply in_map_iff in H1. destruct H1 as (st & <- & Hst). exists st. split; [exact Hst|reflexivity].
Qed.

Lemma tsorted_nil : tsorted [].
Proof. constructor. Qed.

Lemma selects_of_list (sel : pkg -> Prop) (pkgs : list pkg) :
  (forall p, sel p <-> In p pkgs) -> selects w sel (add_targets w (flat_map p_targets pkgs) []).
Proof.
  intros Hsel. split.
  - intros t Ht. destruct (add_targets_from _ _ _ Ht) as [[]|(st & Hst & ->)].
    apply in_flat_map in Hst. destruct Hst as (p & Hp & Hst).
    exists p, st. split; [apply Hsel; exact Hp|split; [exact Hst|reflexivity]].
  - intros p st Hp Hst. apply add_targets_paths. left. exists st. split; [|reflexivity].
    apply in_flat_map. exists p. split; [apply Hsel; exact Hp|exact Hst].
Qed.

(* ------------------------------------------------------------------ *)
(* get_targets_gen *)
Lemma get_targets_gen_ok rec_all fuel st marg s :
  get_targets_gen w rec_all fuel st marg = Ok s ->
  s <> [] /\
  match st with
  | SRoot => get_targets_root_only w marg [] = Ok s
  | SAll => exists v, rec_all fuel marg ([], []) = Ok (s, v)
  | SSome hitlist => get_targets_with_hitlist w marg hitlist [] = Ok s
  end.
Proof.
  unfold get_targets_gen. destruct st as [|hl|].
  - destruct (rec_all fuel marg ([], [])) as [[s0 v0]|e]; [|discriminate]. cbn [fst].
    destruct s0 as [|t s0]; [discriminate|]. intros H. inversion H; subst. split; [discriminate|]. exists v0. reflexivity.
  - destruct (get_targets_with_hitlist w marg hl []) as [s0|e]; [|discriminate].
    destruct s0 as [|t s0]; [discriminate|]. intros H. inversion H; subst. split; [discriminate|reflexivity].
  - destruct (get_targets_root_only w marg []) as [s0|e]; [|discriminate].
    destruct s0 as [|t s0]; [discriminate|]. intros H. inversion H; subst. split; [discriminate|reflexivity].
Qed.

Lemma get_targets_gen_err rec_all fuel st marg e :
  match st with
  | SRoot => get_targets_root_only w marg [] = Err e
  | SAll => rec_all fuel marg ([], []) = Err e
  | SSome hitlist => get_targets_with_hitlist w marg hitlist [] = Err e
  end -> get_targets_gen w rec_all fuel st marg = Err e.
Proof.
  unfold get_targets_gen. destruct st as [|hl|]; intros ->; reflexivity.
Qed.

(* ------------------------------------------------------------------ *)
(* Root *)
Lemma root_only_eq marg md s :
  w_meta w marg = Some md ->
  get_targets_root_only w marg s = Ok (add_targets w (flat_map p_targets (root_packages w marg md)) s).
Proof.
  intros Hm. unfold get_targets_root_only, root_packages, root_in_workspace_root, root_current_manifest. rewrite Hm.
  destruct marg as [m|]; cbv zeta iota beta.
  - destruct (packages md) as [|p [|p' ps]]; try reflexivity.
    cbn [flat_map]. rewrite app_nil_r. reflexivity.
  - destruct (packages md) as [|p [|p' ps]]; try reflexivity.
    cbn [flat_map]. rewrite app_nil_r. reflexivity.
Qed.

Lemma root_packages_iff marg md p : In p (root_packages w marg md) <-> root_selected w marg md p.
Proof.
  unfold root_packages, root_selected.
  set (f := fun p0 : pkg => root_in_workspace_root w marg md
                            || (w_canon w (p_manifest p0) =? root_current_manifest w marg)).
  assert (Hf : forall q, f q = true <->
     (root_in_workspace_root w marg md = true \/ w_canon w (p_manifest q) = root_current_manifest w marg)).
  { intros q. unfold f. rewrite orb_true_iff, N.eqb_eq. reflexivity. }
  destruct (packages md) as [|a [|b ps]].
  - cbn. split; [intros []|intros [[] _]].
  - cbn [In List.length]. split; [intros [<-|[]]; split; [left; reflexivity|left; reflexivity]|].
    intros [H _]. exact H.
  - rewrite filter_In, Hf. split.
    + intros [Hin H]. split; [exact Hin|right; exact H].
    + intros [Hin [H|H]]; [cbn in H; discriminate|split; [exact Hin|exact H]].
Qed.

Lemma root_metadata_err marg s : w_meta w marg = None -> get_targets_root_only w marg s = Err EMetadata.
Proof. intros H. unfold get_targets_root_only. rewrite H. reflexivity. Qed.

Lemma root_ok_meta marg s s' : get_targets_root_only w marg s = Ok s' -> exists md, w_meta w marg = Some md.
Proof.
  unfold get_targets_root_only. destruct (w_meta w marg) as [md|]; [exists md; reflexivity|discriminate].
Qed.

(* ------------------------------------------------------------------ *)
(* Some hitlist *)
Lemma hitlist_loop_eq ps : forall hs s,
  hitlist_loop w ps hs s = (remaining ps hs, add_targets w (flat_map p_targets (hit_list ps hs)) s).
Proof.
  induction ps as [|p ps IH]; intros hs s; cbn [hitlist_loop remaining hit_list flat_map].
  - reflexivity.
  - destruct (nset_remove (p_name p) hs) as [found hs']. cbn [fst snd].
    destruct found; rewrite IH; [|reflexivity].
    cbn [flat_map]. rewrite add_targets_app. reflexivity.
Qed.

Lemma remaining_spec ps : forall hs, nsorted hs ->
  nsorted (remaining ps hs) /\
  (forall k, In k (remaining ps hs) <-> In k hs /\ forall p, In p ps -> p_name p <> k).
Proof.
  induction ps as [|a ps IH]; intros hs Hs; cbn [remaining].
  - split; [exact Hs|]. intros k. split; [intros H; split; [exact H|intros p []]|intros [H _]; exact H].
  - destruct (IH _ (nset_remove_sorted (p_name a) _ Hs)) as [H1 H2]. split; [exact H1|].
    intros k. rewrite H2, (nset_remove_snd (p_name a) hs k Hs). split.
    + intros [[Hk Hne] Hall]. split; [exact Hk|]. intros p [<-|Hp]; [congruence|apply Hall; exact Hp].
    + intros [Hk Hall]. split; [split; [exact Hk|]|].
      * intros ->. apply (Hall a); [left; reflexivity|reflexivity].
      * intros p Hp. apply Hall. right. exact Hp.
Qed.

Lemma hit_list_spec ps : forall hs p, nsorted hs ->
  (In p (hit_list ps hs) <-> In (p_name p) hs /\ first_with_name ps p).
Proof.
  induction ps as [|a ps IH]; intros hs p Hs; cbn [hit_list].
  - split; [intros []|]. intros [_ (pre & post & H & _)]. destruct pre; discriminate.
  - pose proof (nset_remove_sorted (p_name a) _ Hs) as Hs1.
    pose proof (fun x => nset_remove_snd (p_name a) hs x Hs) as Hsnd.
    pose proof (nset_remove_fst (p_name a) hs) as Hfst.
    specialize (IH (snd (nset_remove (p_name a) hs)) p Hs1).
    assert (Hright : In p (hit_list ps (snd (nset_remove (p_name a) hs))) ->
                     In (p_name p) hs /\ first_with_name (a :: ps) p).
    { intros H. apply IH in H. destruct H as [Hin (pre & post & -> & Hpre)].
      apply Hsnd in Hin. destruct Hin as [Hin Hne]. split; [exact Hin|].
      exists (a :: pre), post. split; [reflexivity|].
      intros q [<-|Hq]; [congruence|apply Hpre; exact Hq]. }
    assert (Hleft : In (p_name p) hs -> first_with_name (a :: ps) p ->
                    (p = a /\ In (p_name a) hs) \/ In p (hit_list ps (snd (nset_remove (p_name a) hs)))).
    { intros Hin (pre & post & Heq & Hpre). destruct pre as [|a' pre]; cbn [app] in Heq; injection Heq as Ha Hps.
      - left. split; [symmetry; exact Ha|rewrite Ha; exact Hin].
      - subst a' ps. right. apply IH. split.
        + apply Hsnd. split; [exact Hin|]. intros E. apply (Hpre a); [left; reflexivity|]. symmetry. exact E.
        + exists pre, post. split; [reflexivity|]. intros q Hq. apply Hpre. right. exact Hq. }
    destruct (fst (nset_remove (p_name a) hs)) eqn:Ef.
    + cbn [In]. split.
      * intros [<-|H]; [|apply Hright; exact H].
        split; [apply Hfst; reflexivity|]. exists [], ps. split; [reflexivity|intros q []].
      * intros [Hin Hf]. destruct (Hleft Hin Hf) as [[-> _]|H]; [left; reflexivity|right; exact H].
    + split; [exact Hright|].
      intros [Hin Hf]. destruct (Hleft Hin Hf) as [[-> Ha]|H]; [|exact H].
      apply Hfst in Ha. congruence.
Qed.

Lemma hitlist_from_list_sorted hitlist :
  nsorted (fold_left (fun h n => nset_insert n h) hitlist []) /\
  (forall k, In k (fold_left (fun h n => nset_insert n h) hitlist []) <-> In k hitlist).
Proof.
  assert (H0 : nsorted []) by constructor.
  destruct (nset_from_list_spec hitlist [] H0) as [H1 H2]. split; [exact H1|].
  intros k. rewrite H2. cbn [In]. split; [intros [H|[]]; exact H|auto].
Qed.

Lemma with_hitlist_cases marg hitlist s md :
  w_meta w marg = Some md ->
  let hs := fold_left (fun h n => nset_insert n h) hitlist [] in
  (remaining (packages md) hs = [] /\
   get_targets_with_hitlist w marg hitlist s
   = Ok (add_targets w (flat_map p_targets (hit_list (packages md) hs)) s))
  \/ (exists n r, remaining (packages md) hs = n :: r /\
                  get_targets_with_hitlist w marg hitlist s = Err (ENotMember n)).
Proof.
  intros Hm hs. unfold get_targets_with_hitlist. rewrite Hm. fold hs. rewrite hitlist_loop_eq.
  destruct (remaining (packages md) hs) as [|n r].
  - left. split; reflexivity.
  - right. exists n, r. split; reflexivity.
Qed.
End Targets.

(* ================================================================== *)
(* 4. the recursion of --all *)
Lemma member_check_false (ps : list pkg) (mp : path) :
  existsb (fun p => p_manifest p =? mp) ps = false <-> (forall q, In q ps -> p_manifest q <> mp).
Proof.
  split.
  - intros H q Hq E. assert (Ht : existsb (fun p => p_manifest p =? mp) ps = true).
    { apply existsb_exists. exists q. split; [exact Hq|apply N.eqb_eq; exact E]. }
    congruence.
  - intros H. destruct (existsb (fun p => p_manifest p =? mp) ps) eqn:E; [|reflexivity].
    apply existsb_exists in E. destruct E as (q & Hq & E). apply N.eqb_eq in E. exfalso. exact (H q Hq E).
Qed.

Lemma filter_len_le {A} (f g : A -> bool) (l : list A) :
  (forall x, In x l -> f x = true -> g x = true) ->
  (List.length (filter f l) <= List.length (filter g l))%nat.
Proof.
  induction l as [|x l IH]; intros H; cbn [filter]; [lia|].
  assert (IH' := IH (fun y Hy => H y (or_intror Hy))).
  destruct (f x) eqn:Ef.
  - rewrite (H x (or_introl eq_refl) Ef). cbn [List.length]. lia.
  - destruct (g x); cbn [List.length]; lia.
Qed.
Lemma filter_len_lt {A} (f g : A -> bool) (l : list A) (x0 : A) :
  (forall x, In x l -> f x = true -> g x = true) ->
  In x0 l -> f x0 = false -> g x0 = true ->
  (List.length (filter f l) < List.length (filter g l))%nat.
Proof.
  induction l as [|x l IH]; intros H Hin Hf Hg; [destruct Hin|]. cbn [filter].
  assert (Hle := filter_len_le f g l (fun y Hy => H y (or_intror Hy))).
  destruct Hin as [->|Hin].
  - rewrite Hf, Hg. cbn [List.length]. lia.
  - assert (IH' := IH (fun y Hy => H y (or_intror Hy)) Hin Hf Hg).
    destruct (f x) eqn:Ef.
    + rewrite (H x (or_introl eq_refl) Ef). cbn [List.length]. lia.
    + destruct (g x); cbn [List.length]; lia.
Qed.
Lemma filter_len_all {A} (f : A -> bool) (l : list A) : (List.length (filter f l) <= List.length l)%nat.
Proof.
  induction l as [|x l IH]; cbn [filter List.length]; [lia|]. destruct (f x); cbn [List.length]; lia.
Qed.

Section AllRec.
Variable w : world.
Variable root : option path.
Variable vkey : pkgname -> path -> N.

Definition covered (m : option path) (s : tset) : Prop :=
  forall md p st, w_meta w m = Some md -> In p (packages md) -> In st (p_targets p) ->
                  In (w_canon w (st_src st)) (tpaths s).
Definition edges_keyed (m : option path) (v : nset) : Prop :=
  forall n mp, Edge w m n mp -> In (vkey n mp) v.

(* what happens between two states of (targets, visited); C = the manifests on which the recursive
   function was called (and returned) in between *)
Record T (C : list (option path)) (st st' : tset * nset) : Prop := MkTr {
  T_paths : forall k, In k (tpaths (fst st)) -> In k (tpaths (fst st'));
  T_vis : forall k, In k (snd st) -> In k (snd st');
  T_C : forall c, In c C -> Reach w root c /\ covered c (fst st') /\ edges_keyed c (snd st');
  T_newvis : forall k, In k (snd st') ->
     In k (snd st) \/ exists c n mp, Reach w root c /\ Edge w c n mp /\ k = vkey n mp /\ In (Some mp) C;
  T_sound : forall t, In t (fst st') ->
     In t (fst st) \/ exists p st0, all_selected w root p /\ In st0 (p_targets p) /\ t = from_target w st0;
  T_sorted : tsorted (fst st) -> tsorted (fst st')
}.
Arguments T_paths {C st st'}.
Arguments T_vis {C st st'}.
Arguments T_C {C st st'}.
Arguments T_newvis {C st st'}.
Arguments T_sound {C st st'}.
Arguments T_sorted {C st st'}.

Lemma T_refl st : T [] st st.
Proof.
  constructor; auto.
  intros c [].
Qed.

Lemma T_trans C1 C2 a b c : T C1 a b -> T C2 b c -> T (C1 ++ C2) a c.
Proof.
  intros H1 H2. constructor.
  - intros k Hk. apply (T_paths H2). apply (T_paths H1). exact Hk.
  - intros k Hk. apply (T_vis H2). apply (T_vis H1). exact Hk.
  - intros x Hx. apply in_app_or in Hx. destruct Hx as [Hx|Hx].
    + destruct (T_C H1 x Hx) as (Hr & Hc & He). split; [exact Hr|]. split.
      * intros md p st Hm Hp Hst. apply (T_paths H2). exact (Hc md p st Hm Hp Hst).
      * intros n mp Hedge. apply (T_vis H2). exact (He n mp Hedge).
    + exact (T_C H2 x Hx).
  - intros k Hk. destruct (T_newvis H2 k Hk) as [Hb|(x & n & mp & Hr & He & Hkk & Hin)].
    + destruct (T_newvis H1 k Hb) as [Ha|(x & n & mp & Hr & He & Hkk & Hin)]; [left; exact Ha|].
      right. exists x, n, mp. repeat split; try assumption. apply in_or_app. left. exact Hin.
    + right. exists x, n, mp. repeat split; try assumption. apply in_or_app. right. exact Hin.
  - intros t Ht. destruct (T_sound H2 t Ht) as [Hb|Hsel]; [|right; exact Hsel].
    exact (T_sound H1 t Hb).
  - intros Hs. apply (T_sorted H2). apply (T_sorted H1). exact Hs.
Qed.

Lemma T_add_targets m md p s v :
  Reach w root m -> w_meta w m = Some md -> In p (packages md) ->
  T [] (s, v) (add_targets w (p_targets p) s, v).
Proof.
  intros Hr Hm Hp. constructor; cbn [fst snd].
  - intros k Hk. apply add_targets_paths. right. exact Hk.
  - auto.
  - intros c [].
  - auto.
  - intros t Ht. destruct (add_targets_from _ _ _ _ Ht) as [H|(st0 & Hst0 & ->)]; [left; exact H|].
    right. exists p, st0. split; [exists m, md; auto|split; [exact Hst0|reflexivity]].
  - apply add_targets_sorted.
Qed.

Lemma T_insert C s v k st' c n mp :
  T C (s, nset_insert k v) st' -> Reach w root c -> Edge w c n mp -> k = vkey n mp -> In (Some mp) C ->
  T C (s, v) st'.
Proof.
  intros H Hr He Hk Hin. constructor; cbn [fst snd].
  - exact (T_paths H).
  - intros x Hx. apply (T_vis H). cbn [snd]. apply nset_insert_In. right. exact Hx.
  - exact (T_C H).
  - intros x Hx. destruct (T_newvis H x Hx) as [Hx'|Hx']; [|right; exact Hx'].
    cbn [snd] in Hx'. apply nset_insert_In in Hx'. destruct Hx' as [->|Hx']; [|left; exact Hx'].
    right. exists c, n, mp. repeat split; assumption.
  - exact (T_sound H).
  - exact (T_sorted H).
Qed.

Lemma T_add_C C st st' m :
  T C st st' -> Reach w root m -> covered m (fst st') -> edges_keyed m (snd st') -> T (m :: C) st st'.
Proof.
  intros H Hr Hc He. constructor.
  - exact (T_paths H).
  - exact (T_vis H).
  - intros c [<-|Hc']; [split; [exact Hr|split; [exact Hc|exact He]]|exact (T_C H c Hc')].
  - intros k Hk. destruct (T_newvis H k Hk) as [Hk'|(c & n & mp & H1 & H2 & H3 & H4)]; [left; exact Hk'|].
    right. exists c, n, mp. repeat split; try assumption. right. exact H4.
  - exact (T_sound H).
  - exact (T_sorted H).
Qed.

Definition recf_ok (recf : path -> tset * nset -> res (tset * nset)) : Prop :=
  forall mp st st', Reach w root (Some mp) -> recf mp st = Ok st' -> exists C, T C st st' /\ In (Some mp) C.

Definition dep_keyed (md : metadata) (d : dep) (v : nset) : Prop :=
  forall dir, d_path d = Some dir -> w_exists w (w_toml_in w dir) = true ->
              (forall q, In q (packages md) -> p_manifest q <> w_toml_in w dir) ->
              In (vkey (d_name d) (w_toml_in w dir)) v.

Lemma deps_loop_T recf m md p :
  recf_ok recf -> Reach w root m -> w_meta w m = Some md -> In p (packages md) ->
  forall ds st st', (forall d, In d ds -> In d (p_deps p)) ->
    deps_loop w vkey recf md ds st = Ok st' ->
    exists C, T C st st' /\ forall d, In d ds -> dep_keyed md d (snd st').
Proof.
  intros Hrec Hr Hm Hp. induction ds as [|d ds IH]; intros st st' Hsub Hrun; cbn [deps_loop] in Hrun.
  - inversion Hrun; subst. exists []. split; [apply T_refl|intros d []].
  - assert (Hsub' : forall d0, In d0 ds -> In d0 (p_deps p)) by (intros d0 Hd0; apply Hsub; right; exact Hd0).
    destruct (d_path d) as [dir|] eqn:Edir.
    + destruct (nset_mem (vkey (d_name d) (w_toml_in w dir)) (snd st)) eqn:Emem.
      * destruct (IH st st' Hsub' Hrun) as (C & HT & Hk). exists C. split; [exact HT|].
        intros d0 [<-|Hd0]; [|apply Hk; exact Hd0].
        intros dir0 Hdir0 _ _. rewrite Edir in Hdir0. inversion Hdir0; subst dir0.
        apply (T_vis HT). apply nset_mem_iff. exact Emem.
      * destruct (w_exists w (w_toml_in w dir)
                  && negb (existsb (fun p0 => p_manifest p0 =? w_toml_in w dir) (packages md))) eqn:Etest.
        -- apply andb_true_iff in Etest. destruct Etest as [Eex Enm].
           apply negb_true_iff in Enm. rewrite member_check_false in Enm.
           assert (Hedge : Edge w m (d_name d) (w_toml_in w dir)).
           { exists md, p, d, dir. repeat split; try assumption; try reflexivity.
             apply Hsub. left. reflexivity. }
           assert (Hr' : Reach w root (Some (w_toml_in w dir))) by (eapply Reach_step; eassumption).
           destruct (recf (w_toml_in w dir)
                          (fst st, nset_insert (vkey (d_name d) (w_toml_in w dir)) (snd st))) as [st1|e] eqn:Erec;
             [|discriminate].
           destruct (Hrec _ _ _ Hr' Erec) as (C1 & HT1 & Hin1).
           assert (HT1' : T C1 st st1).
           { destruct st as [s v]. cbn [fst snd] in *.
             eapply T_insert; [exact HT1|exact Hr|exact Hedge|reflexivity|exact Hin1]. }
           destruct (IH st1 st' Hsub' Hrun) as (C2 & HT2 & Hk). exists (C1 ++ C2).
           split; [eapply T_trans; eassumption|].
           intros d0 [<-|Hd0]; [|apply Hk; exact Hd0].
           intros dir0 Hdir0 _ _. rewrite Edir in Hdir0. inversion Hdir0; subst dir0.
           apply (T_vis HT2). apply (T_vis HT1). cbn [snd]. apply nset_insert_In. left. reflexivity.
        -- destruct (IH st st' Hsub' Hrun) as (C & HT & Hk). exists C. split; [exact HT|].
           intros d0 [<-|Hd0]; [|apply Hk; exact Hd0].
           intros dir0 Hdir0 Hex Hnm. rewrite Edir in Hdir0. inversion Hdir0; subst dir0.
           rewrite Hex in Etest. apply member_check_false in Hnm. rewrite Hnm in Etest. discriminate.
    + destruct (IH st st' Hsub' Hrun) as (C & HT & Hk). exists C. split; [exact HT|].
      intros d0 [<-|Hd0]; [|apply Hk; exact Hd0].
      intros dir0 Hdir0. rewrite Edir in Hdir0. discriminate.
Qed.

Lemma dep_keyed_mono md d v v' : (forall k, In k v -> In k v') -> dep_keyed md d v -> dep_keyed md d v'.
Proof. intros Hsub H dir H1 H2 H3. apply Hsub. exact (H dir H1 H2 H3). Qed.

Lemma pkgs_loop_T recf m md :
  recf_ok recf -> Reach w root m -> w_meta w m = Some md ->
  forall ps st st', (forall p, In p ps -> In p (packages md)) ->
    pkgs_loop w vkey recf md ps st = Ok st' ->
    exists C, T C st st' /\
      (forall p st0, In p ps -> In st0 (p_targets p) -> In (w_canon w (st_src st0)) (tpaths (fst st'))) /\
      (forall p d, In p ps -> In d (p_deps p) -> dep_keyed md d (snd st')).
Proof.
  intros Hrec Hr Hm. induction ps as [|p ps IH]; intros st st' Hsub Hrun; cbn [pkgs_loop] in Hrun.
  - inversion Hrun; subst. exists []. split; [apply T_refl|]. split; [intros p st0 []|intros p d []].
  - assert (Hp : In p (packages md)) by (apply Hsub; left; reflexivity).
    assert (Hsub' : forall p0, In p0 ps -> In p0 (packages md)) by (intros p0 Hp0; apply Hsub; right; exact Hp0).
    destruct (deps_loop w vkey recf md (p_deps p) (add_targets w (p_targets p) (fst st), snd st)) as [st1|e] eqn:Ed;
      [|discriminate].
    destruct (deps_loop_T recf m md p Hrec Hr Hm Hp (p_deps p) _ _ (fun d Hd => Hd) Ed) as (C1 & HT1 & Hk1).
    destruct (IH st1 st' Hsub' Hrun) as (C2 & HT2 & Hc2 & Hk2).
    assert (HT0 : T [] st (add_targets w (p_targets p) (fst st), snd st)).
    { destruct st as [s v]. cbn [fst snd]. eapply T_add_targets; eassumption. }
    exists (([] ++ C1) ++ C2). split; [eapply T_trans; [eapply T_trans; eassumption|exact HT2]|]. split.
    + intros p0 st0 [<-|Hp0] Hst0; [|apply (Hc2 p0 st0 Hp0 Hst0)].
      apply (T_paths HT2). apply (T_paths HT1). cbn [fst]. apply add_targets_paths. left.
      exists st0. split; [exact Hst0|reflexivity].
    + intros p0 d [<-|Hp0] Hd; [|apply (Hk2 p0 d Hp0 Hd)].
      eapply dep_keyed_mono; [exact (T_vis HT2)|]. apply Hk1. exact Hd.
Qed.

Lemma rec_gen_T : forall fuel m st st',
  Reach w root m -> rec_gen w vkey fuel m st = Ok st' -> exists C, T C st st' /\ In m C.
Proof.
  induction fuel as [|f IH]; intros m st st' Hr Hrun; cbn [rec_gen] in Hrun; [discriminate|].
  destruct (w_meta w m) as [md|] eqn:Hm; [|discriminate].
  assert (Hrec : recf_ok (fun mp => rec_gen w vkey f (Some mp))).
  { intros mp st0 st0' Hr0 Hrun0. exact (IH _ _ _ Hr0 Hrun0). }
  destruct (pkgs_loop_T _ m md Hrec Hr Hm (packages md) _ _ (fun p Hp => Hp) Hrun) as (C & HT & Hc & Hk).
  exists (m :: C). split; [|left; reflexivity].
  apply T_add_C; [exact HT|exact Hr| |].
  - intros md' p st0 Hm' Hp Hst0. rewrite Hm in Hm'. inversion Hm'; subst md'. exact (Hc p st0 Hp Hst0).
  - intros n mp (md' & p & d & dir & Hm' & Hp & Hd & Hn & Hdir & Hmp & Hex & Hnm).
    rewrite Hm in Hm'. inversion Hm'; subst md'. subst n mp. exact (Hk p d Hp Hd dir Hdir Hex Hnm).
Qed.

Definition key_inj : Prop :=
  forall m1 n1 mp1 m2 n2 mp2,
    Reach w root m1 -> Edge w m1 n1 mp1 -> Reach w root m2 -> Edge w m2 n2 mp2 ->
    vkey n1 mp1 = vkey n2 mp2 -> mp1 = mp2.

Lemma rec_gen_sound fuel s v :
  rec_gen w vkey fuel root ([], []) = Ok (s, v) ->
  tsorted s /\ forall t, In t s -> exists p st, all_selected w root p /\ In st (p_targets p) /\ t = from_target w st.
Proof.
  intros Hrun. destruct (rec_gen_T fuel _ _ _ (Reach_root w root) Hrun) as (C & HT & _). split.
  - apply (T_sorted HT). apply tsorted_nil.
  - intros t Ht. destruct (T_sound HT t Ht) as [[]|H]. exact H.
Qed.

Lemma rec_gen_complete fuel s v :
  key_inj -> rec_gen w vkey fuel root ([], []) = Ok (s, v) ->
  forall p st, all_selected w root p -> In st (p_targets p) -> In (w_canon w (st_src st)) (tpaths s).
Proof.
  intros Hinj Hrun. destruct (rec_gen_T fuel _ _ _ (Reach_root w root) Hrun) as (C & HT & HrootC).
  assert (Hall : forall m, Reach w root m -> In m C).
  { intros m Hr. induction Hr as [|m n mp Hr IHr He]; [exact HrootC|].
    destruct (T_C HT m IHr) as (_ & _ & Hk). specialize (Hk n mp He). cbn [snd] in Hk.
    destruct (T_newvis HT _ Hk) as [[]|(c & n' & mp' & Hr' & He' & Hkey & Hin)].
    rewrite (Hinj m n mp c n' mp' Hr He Hr' He' Hkey). exact Hin. }
  intros p st (m & md & Hr & Hm & Hp) Hst.
  destruct (T_C HT m (Hall m Hr)) as (_ & Hc & _). exact (Hc md p st Hm Hp Hst).
Qed.

(* ---------------- termination: enough fuel ---------------- *)
Variable U : list N.
Hypothesis HU : forall m n mp, Reach w root m -> Edge w m n mp -> In (vkey n mp) U.

Definition missing (v : nset) : nat := List.length (filter (fun k => negb (nset_mem k v)) U).

Lemma missing_mono v v' : (forall k, In k v -> In k v') -> (missing v' <= missing v)%nat.
Proof.
  intros Hsub. apply filter_len_le. intros x _ Hx. apply negb_true_iff in Hx. apply negb_true_iff.
  apply nset_mem_false. apply nset_mem_false in Hx. intros H. apply Hx. exact (Hsub x H). 
Qed.

Lemma missing_insert k v : In k U -> ~ In k v -> (missing (nset_insert k v) < missing v)%nat.
Proof.
  intros HkU Hkv. apply (filter_len_lt _ _ U k).
  - intros x _ Hx. apply negb_true_iff in Hx. apply negb_true_iff.
    apply nset_mem_false. apply nset_mem_false in Hx. intros H. apply Hx. apply nset_insert_In. right. exact H.
  - exact HkU.
  - apply negb_false_iff. apply nset_mem_iff. apply nset_insert_In. left. reflexivity.
  - apply negb_true_iff. apply nset_mem_false. exact Hkv.
Qed.

Definition recf_fuel (f : nat) (recf : path -> tset * nset -> res (tset * nset)) : Prop :=
  forall mp st, Reach w root (Some mp) -> (missing (snd st) < f)%nat -> recf mp st <> Err EFuel.

Lemma deps_loop_fuel f recf m md p :
  recf_ok recf -> recf_fuel f recf -> Reach w root m -> w_meta w m = Some md -> In p (packages md) ->
  forall ds st, (forall d, In d ds -> In d (p_deps p)) -> (missing (snd st) <= f)%nat ->
    deps_loop w vkey recf md ds st <> Err EFuel.
Proof.
  intros Hrec Hfuel Hr Hm Hp. induction ds as [|d ds IH]; intros st Hsub Hmiss; cbn [deps_loop]; [discriminate|].
  assert (Hsub' : forall d0, In d0 ds -> In d0 (p_deps p)) by (intros d0 Hd0; apply Hsub; right; exact Hd0).
  destruct (d_path d) as [dir|] eqn:Edir; [|apply IH; assumption].
  destruct (nset_mem (vkey (d_name d) (w_toml_in w dir)) (snd st)) eqn:Emem; [apply IH; assumption|].
  destruct (w_exists w (w_toml_in w dir)
            && negb (existsb (fun p0 => p_manifest p0 =? w_toml_in w dir) (packages md))) eqn:Etest;
    [|apply IH; assumption].
  apply andb_true_iff in Etest. destruct Etest as [Eex Enm].
  apply negb_true_iff in Enm. rewrite member_check_false in Enm.
  assert (Hedge : Edge w m (d_name d) (w_toml_in w dir)).
  { exists md, p, d, dir. repeat split; try assumption; try reflexivity. apply Hsub. left. reflexivity. }
  assert (Hr' : Reach w root (Some (w_toml_in w dir))) by (eapply Reach_step; eassumption).
  apply nset_mem_false in Emem.
  pose proof (missing_insert _ _ (HU _ _ _ Hr Hedge) Emem) as Hlt.
  destruct (recf (w_toml_in w dir) (fst st, nset_insert (vkey (d_name d) (w_toml_in w dir)) (snd st)))
    as [st1|e] eqn:Erec.
  - destruct (Hrec _ _ _ Hr' Erec) as (C1 & HT1 & _). apply IH; [exact Hsub'|].
    assert (Hle : (missing (snd st1) <= missing (nset_insert (vkey (d_name d) (w_toml_in w dir)) (snd st)))%nat).
    { apply missing_mono. exact (T_vis HT1). }
    lia.
  - intros Heq. inversion Heq; subst e. apply (Hfuel (w_toml_in w dir) _ Hr') in Erec; [exact Erec|].
    cbn [snd]. lia.
Qed.

Lemma pkgs_loop_fuel f recf m md :
  recf_ok recf -> recf_fuel f recf -> Reach w root m -> w_meta w m = Some md ->
  forall ps st, (forall p, In p ps -> In p (packages md)) -> (missing (snd st) <= f)%nat ->
    pkgs_loop w vkey recf md ps st <> Err EFuel.
Proof.
  intros Hrec Hfuel Hr Hm. induction ps as [|p ps IH]; intros st Hsub Hmiss; cbn [pkgs_loop]; [discriminate|].
  assert (Hp : In p (packages md)) by (apply Hsub; left; reflexivity).
  assert (Hsub' : forall p0, In p0 ps -> In p0 (packages md)) by (intros p0 Hp0; apply Hsub; right; exact Hp0).
  destruct (deps_loop w vkey recf md (p_deps p) (add_targets w (p_targets p) (fst st), snd st)) as [st1|e] eqn:Ed.
  - destruct (deps_loop_T recf m md p Hrec Hr Hm Hp (p_deps p) _ _ (fun d Hd => Hd) Ed) as (C1 & HT1 & _).
    apply IH; [exact Hsub'|].
    assert (Hle : (missing (snd st1) <= missing (snd st))%nat) by (apply missing_mono; exact (T_vis HT1)).
    lia.
  - intros Heq. inversion Heq; subst e.
    exact (deps_loop_fuel f recf m md p Hrec Hfuel Hr Hm Hp (p_deps p)
                          (add_targets w (p_targets p) (fst st), snd st) (fun d Hd => Hd) Hmiss Ed).
Qed.

Lemma rec_gen_fuel : forall f m st,
  Reach w root m -> (missing (snd st) < f)%nat -> rec_gen w vkey f m st <> Err EFuel.
Proof.
  induction f as [|f IH]; intros m st Hr Hmiss; [lia|]. cbn [rec_gen].
  destruct (w_meta w m) as [md|] eqn:Hm; [|discriminate].
  apply (pkgs_loop_fuel f _ m md).
  - intros mp st0 st0' Hr0 Hrun0. exact (rec_gen_T _ _ _ _ Hr0 Hrun0).
  - intros mp st0 Hr0 Hm0. exact (IH _ _ Hr0 Hm0).
  - exact Hr.
  - exact Hm.
  - auto.
  - lia.
Qed.

Lemma rec_gen_fuel_enough fuel :
  (List.length U < fuel)%nat -> rec_gen w vkey fuel root ([], []) <> Err EFuel.
Proof.
  intros H. apply rec_gen_fuel; [apply Reach_root|].
  unfold missing. apply Nat.le_lt_trans with (List.length U); [apply filter_len_all|exact H].
Qed.
End AllRec.

(* ---------------- the answer does not depend on the amount of fuel ---------------- *)
Section FuelMono.
Variable w : world.
Variable vkey : pkgname -> path -> N.

Definition recf_le (r1 r2 : path -> tset * nset -> res (tset * nset)) : Prop :=
  forall mp st r, r1 mp st = r -> r <> Err EFuel -> r2 mp st = r.

Lemma deps_loop_le r1 r2 md : recf_le r1 r2 ->
  forall ds st r, deps_loop w vkey r1 md ds st = r -> r <> Err EFuel -> deps_loop w vkey r2 md ds st = r.
Proof.
  intros Hle. induction ds as [|d ds IH]; intros st r Hrun Hne; cbn [deps_loop] in *; [exact Hrun|].
  destruct (d_path d) as [dir|]; [|apply IH; assumption].
  destruct (nset_mem (vkey (d_name d) (w_toml_in w dir)) (snd st)); [apply IH; assumption|].
  destruct (w_exists w (w_toml_in w dir)
            && negb (existsb (fun p0 => p_manifest p0 =? w_toml_in w dir) (packages md)));
    [|apply IH; assumption].
  destruct (r1 (w_toml_in w dir) (fst st, nset_insert (vkey (d_name d) (w_toml_in w dir)) (snd st)))
    as [st1|e] eqn:E1.
  - rewrite (Hle _ _ _ E1); [|discriminate]. apply IH; assumption.
  - rewrite (Hle _ _ _ E1); [exact Hrun|]. rewrite Hrun. exact Hne.
Qed.

Lemma pkgs_loop_le r1 r2 md : recf_le r1 r2 ->
  forall ps st r, pkgs_loop w vkey r1 md ps st = r -> r <> Err EFuel -> pkgs_loop w vkey r2 md ps st = r.
Proof.
  intros Hle. induction ps as [|p ps IH]; intros st r Hrun Hne; cbn [pkgs_loop] in *; [exact Hrun|].
  destruct (deps_loop w vkey r1 md (p_deps p) (add_targets w (p_targets p) (fst st), snd st)) as [st1|e] eqn:E1.
  - rewrite (deps_loop_le r1 r2 md Hle _ _ _ E1); [|discriminate]. apply IH; assumption.
  - rewrite (deps_loop_le r1 r2 md Hle _ _ _ E1); [exact Hrun|]. rewrite Hrun. exact Hne.
Qed.

Lemma rec_gen_S : forall f m st r,
  rec_gen w vkey f m st = r -> r <> Err EFuel -> rec_gen w vkey (S f) m st = r.
Proof.
  induction f as [|f IH]; intros m st r Hrun Hne.
  - cbn [rec_gen] in Hrun. congruence.
  - cbn [rec_gen] in Hrun. change (rec_gen w vkey (S (S f)) m st) with
      (match w_meta w m with
       | None => Err EMetadata
       | Some md => pkgs_loop w vkey (fun mp => rec_gen w vkey (S f) (Some mp)) md (packages md) st
       end).
    destruct (w_meta w m) as [md|]; [|exact Hrun].
    apply (pkgs_loop_le (fun mp => rec_gen w vkey f (Some mp))); [|exact Hrun|exact Hne].
    intros mp st0 r0 H0 Hne0. exact (IH _ _ _ H0 Hne0).
Qed.

Lemma rec_gen_more_fuel f k m st r :
  rec_gen w vkey f m st = r -> r <> Err EFuel -> rec_gen w vkey (k + f) m st = r.
Proof.
  intros Hrun Hne. induction k as [|k IH]; [exact Hrun|]. cbn [Nat.add]. apply rec_gen_S; assumption.
Qed.
End FuelMono.

(* ================================================================== *)
(* 5. get_targets: the three strategies *)
Lemma vkey_all_cases : vkey_all = vkey_name \/ vkey_all = vkey_path.
Proof. first [left; reflexivity|right; reflexivity]. Qed.

Lemma name_dec (ps : list pkg) (n : pkgname) :
  (exists p, In p ps /\ p_name p = n) \/ (forall p, In p ps -> p_name p <> n).
Proof.
  induction ps as [|a ps IH].
  - right. intros p [].
  - destruct (N.eq_dec (p_name a) n) as [E|E].
    + left. exists a. split; [left; reflexivity|exact E].
    + destruct IH as [(p & Hp & Hn)|Hall].
      * left. exists p. split; [right; exact Hp|exact Hn].
      * right. intros p [<-|Hp]; [exact E|apply Hall; exact Hp].
Qed.

Section Top.
Variable w : world.
Variable rec_all : nat -> option path -> tset * nset -> res (tset * nset).

Lemma targets_root_lemma fuel marg s :
  get_targets_gen w rec_all fuel SRoot marg = Ok s ->
  exists md, w_meta w marg = Some md /\ selects w (root_selected w marg md) s /\
             s = add_targets w (flat_map p_targets (root_packages w marg md)) [].
Proof.
  intros H. apply get_targets_gen_ok in H. destruct H as [_ H].
  destruct (root_ok_meta _ _ _ _ H) as (md & Hm). exists md. split; [exact Hm|].
  rewrite (root_only_eq w marg md [] Hm) in H. inversion H as [Hs]. split; [|reflexivity].
  apply selects_of_list. intros p. symmetry. apply root_packages_iff.
Qed.

Lemma targets_some_lemma fuel hl marg s :
  get_targets_gen w rec_all fuel (SSome hl) marg = Ok s ->
  exists md, w_meta w marg = Some md /\ selects w (some_selected hl md) s /\
             (forall n, In n hl -> exists p, In p (packages md) /\ p_name p = n) /\
             s = add_targets w (flat_map p_targets
                   (hit_list (packages md) (fold_left (fun h n => nset_insert n h) hl []))) [].
Proof.
  intros H. apply get_targets_gen_ok in H. destruct H as [_ H].
  destruct (w_meta w marg) as [md|] eqn:Hm; [|unfold get_targets_with_hitlist in H; rewrite Hm in H; discriminate].
  exists md. split; [reflexivity|].
  destruct (hitlist_from_list_sorted hl) as [Hsorted Hin].
  destruct (with_hitlist_cases w marg hl [] md Hm) as [[Hrem Heq]|(n & r & Hrem & Heq)];
    [|rewrite Heq in H; discriminate].
  rewrite Heq in H. inversion H as [Hs]. clear H.
  destruct (remaining_spec (packages md) _ Hsorted) as [_ Hrs]. rewrite Hrem in Hrs.
  split; [|split; [|reflexivity]].
  - apply selects_of_list. intros p. rewrite (hit_list_spec (packages md) _ p Hsorted), Hin. reflexivity.
  - intros n Hn. destruct (name_dec (packages md) n) as [Hex|Hall]; [exact Hex|].
    exfalso. apply (proj2 (Hrs n)). split; [apply Hin; exact Hn|exact Hall].
Qed.

Lemma unknown_package_lemma fuel hl marg md n :
  w_meta w marg = Some md -> In n hl -> (forall p, In p (packages md) -> p_name p <> n) ->
  exists n', get_targets_gen w rec_all fuel (SSome hl) marg = Err (ENotMember n') /\
             In n' hl /\ (forall p, In p (packages md) -> p_name p <> n') /\ n' <= n.
Proof.
  intros Hm Hn Hun.
  destruct (hitlist_from_list_sorted hl) as [Hsorted Hin].
  destruct (remaining_spec (packages md) _ Hsorted) as [Hrsorted Hrs].
  assert (Hnr : In n (remaining (packages md) (fold_left (fun h n0 => nset_insert n0 h) hl []))).
  { apply Hrs. split; [apply Hin; exact Hn|exact Hun]. }
  destruct (with_hitlist_cases w marg hl [] md Hm) as [[Hrem Heq]|(n' & r & Hrem & Heq)].
  - rewrite Hrem in Hnr. destruct Hnr.
  - exists n'. split; [apply get_targets_gen_err; exact Heq|].
    rewrite Hrem in Hrs, Hnr, Hrsorted.
    destruct (proj1 (Hrs n') (or_introl eq_refl)) as [H1 H2].
    split; [apply Hin; exact H1|]. split; [exact H2|].
    inversion Hrsorted as [|? ? _ Hall]; subst. rewrite Forall_forall in Hall.
    destruct Hnr as [->|Hnr]; [lia|]. specialize (Hall n Hnr). lia.
Qed.

Lemma get_targets_gen_sorted_rs fuel st marg s :
  (st = SAll -> forall v, rec_all fuel marg ([], []) = Ok (s, v) -> tsorted s) ->
  get_targets_gen w rec_all fuel st marg = Ok s -> tsorted s.
Proof.
  intros Hall H. destruct st as [|hl|].
  - apply get_targets_gen_ok in H. destruct H as [_ (v & H)]. exact (Hall eq_refl v H).
  - destruct (targets_some_lemma _ _ _ _ H) as (md & _ & _ & _ & ->). apply add_targets_sorted. apply tsorted_nil.
  - destruct (targets_root_lemma _ _ _ H) as (md & _ & _ & ->). apply add_targets_sorted. apply tsorted_nil.
Qed.

Lemma get_targets_gen_fuel_err fuel st marg :
  get_targets_gen w rec_all fuel st marg = Err EFuel -> st = SAll /\ rec_all fuel marg ([], []) = Err EFuel.
Proof.
  unfold get_targets_gen. destruct st as [|hl|].
  - destruct (rec_all fuel marg ([], [])) as [[s0 v0]|e]; cbn [fst].
    + destruct s0; discriminate.
    + intros H. inversion H; subst. split; reflexivity.
  - unfold get_targets_with_hitlist. destruct (w_meta w marg) as [md|]; [|discriminate].
    destruct (hitlist_loop w (packages md) (fold_left (fun h n => nset_insert n h) hl []) []) as [[|n r] s'].
    + destruct s'; discriminate.
    + discriminate.
  - unfold get_targets_root_only. destruct (w_meta w marg) as [md|]; [|discriminate].
    destruct marg as [m|];
      match goal with |- context [Ok ?x] => destruct x; discriminate end.
Qed.
End Top.

Section TopAll.
Variable w : world.

Lemma targets_all_sound_lemma vkey fuel marg s :
  get_targets_gen w (rec_gen w vkey) fuel SAll marg = Ok s ->
  forall t, In t s -> exists p st, all_selected w marg p /\ In st (p_targets p) /\ t = from_target w st.
Proof.
  intros H. apply get_targets_gen_ok in H. destruct H as [_ (v & H)].
  exact (proj2 (rec_gen_sound w marg vkey fuel s v H)).
Qed.

Lemma targets_all_lemma vkey fuel marg s :
  key_inj w marg vkey ->
  get_targets_gen w (rec_gen w vkey) fuel SAll marg = Ok s -> selects w (all_selected w marg) s.
Proof.
  intros Hinj H. split; [exact (targets_all_sound_lemma vkey fuel marg s H)|].
  apply get_targets_gen_ok in H. destruct H as [_ (v & H)].
  exact (rec_gen_complete w marg vkey fuel s v Hinj H).
Qed.

Lemma key_inj_name marg : distinct_dep_names w marg -> key_inj w marg vkey_name.
Proof.
  intros Hd m1 n1 mp1 m2 n2 mp2 Hr1 He1 Hr2 He2 Hk. unfold vkey_name in Hk. subst n2.
  exact (Hd m1 m2 n1 mp1 mp2 Hr1 He1 Hr2 He2).
Qed.
Lemma key_inj_path marg : key_inj w marg vkey_path.
Proof. intros m1 n1 mp1 m2 n2 mp2 _ _ _ _ Hk. exact Hk. Qed.

Lemma targets_spec_all_lemma fuel marg s :
  distinct_dep_names w marg -> get_targets w fuel SAll marg = Ok s -> selects w (all_selected w marg) s.
Proof.
  intros Hd. unfold get_targets, get_targets_all.
  destruct vkey_all_cases as [E|E]; rewrite E; apply targets_all_lemma;
    [apply key_inj_name; exact Hd|apply key_inj_path].
Qed.

Lemma targets_all_sound fuel marg s :
  get_targets w fuel SAll marg = Ok s ->
  forall t, In t s -> exists p st, all_selected w marg p /\ In st (p_targets p) /\ t = from_target w st.
Proof. unfold get_targets, get_targets_all. apply targets_all_sound_lemma. Qed.

Lemma fixed_targets_spec_all_lemma fuel marg s :
  get_targets_fixed w fuel SAll marg = Ok s -> selects w (all_selected w marg) s.
Proof. unfold get_targets_fixed, get_targets_recursive_fixed. apply targets_all_lemma. apply key_inj_path. Qed.

Lemma sorted_gen vkey fuel st marg s :
  get_targets_gen w (rec_gen w vkey) fuel st marg = Ok s -> tsorted s.
Proof.
  apply get_targets_gen_sorted_rs. intros _ v H. exact (proj1 (rec_gen_sound w marg vkey fuel s v H)).
Qed.

Lemma each_path_once_lemma fuel st marg s :
  get_targets w fuel st marg = Ok s -> NoDup (map t_path s) /\ StronglySorted N.lt (map t_path s).
Proof.
  intros H. apply sorted_gen in H. apply ksorted_keys in H. split; [apply sorted_lt_NoDup; exact H|exact H].
Qed.

Lemma fuel_enough_lemma (U : list N) fuel st marg :
  (forall m n mp, Reach w marg m -> Edge w m n mp -> In (vkey_all n mp) U) ->
  (List.length U < fuel)%nat -> get_targets w fuel st marg <> Err EFuel.
Proof.
  intros HU Hlen H. apply get_targets_gen_fuel_err in H. destruct H as [_ H].
  exact (rec_gen_fuel_enough w marg vkey_all U HU fuel Hlen H).
Qed.

Lemma fuel_irrelevant_lemma fuel k st marg r :
  get_targets w fuel st marg = r -> r <> Err EFuel -> get_targets w (k + fuel) st marg = r.
Proof.
  unfold get_targets, get_targets_gen, get_targets_all. destruct st as [|hl|]; try (intros H _; exact H).
  destruct (rec_gen w vkey_all fuel marg ([], [])) as [x|e] eqn:E; intros H Hne.
  - rewrite (rec_gen_more_fuel w vkey_all fuel k marg _ _ E); [exact H|discriminate].
  - rewrite (rec_gen_more_fuel w vkey_all fuel k marg _ _ E); [exact H|].
    rewrite <- H in Hne. intros Heq. apply Hne. inversion Heq. reflexivity.
Qed.

Lemma metadata_failure_lemma fuel st marg :
  w_meta w marg = None -> (0 < fuel)%nat -> get_targets w fuel st marg = Err EMetadata.
Proof.
  intros Hm Hf. apply get_targets_gen_err. destruct st as [|hl|].
  - unfold get_targets_all. destruct fuel as [|f]; [lia|]. cbn [rec_gen]. rewrite Hm. reflexivity.
  - unfold get_targets_with_hitlist. rewrite Hm. reflexivity.
  - apply root_metadata_err. exact Hm.
Qed.
End TopAll.

(* ================================================================== *)
(* 6. by_edition: the BTreeMap from editions to file lists *)
Definition group (e : edition) (ts : tset) : list path :=
  map t_path (filter (fun t => t_edition t =? e) ts).
Definition editions (ts : tset) : nset :=
  fold_left (fun h n => nset_insert n h) (map t_edition ts) [].

Lemma group_app e l1 l2 : group e (l1 ++ l2) = group e l1 ++ group e l2.
Proof. unfold group. rewrite filter_app, map_app. reflexivity. Qed.

Lemma editions_spec ts : nsorted (editions ts) /\ forall e, In e (editions ts) <-> exists t, In t ts /\ t_edition t = e.
Proof.
  assert (H0 : nsorted []) by constructor.
  destruct (nset_from_list_spec (map t_edition ts) [] H0) as [H1 H2]. split; [exact H1|].
  intros e. unfold editions. rewrite H2, in_map_iff. cbn [In].
  split.
  - intros [(t & Ht & Hin)|[]]. exists t. split; assumption.
  - intros (t & Hin & Ht). left. exists t. split; assumption.
Qed.

Lemma editions_snoc ts t : editions (ts ++ [t]) = nset_insert (t_edition t) (editions ts).
Proof. unfold editions. rewrite map_app, fold_left_app. reflexivity. Qed.

Lemma bm_push_map (e0 : edition) (p : path) (g : edition -> list path) :
  forall es, nsorted es -> (~ In e0 es -> g e0 = []) ->
  bm_push e0 p (map (fun e => (e, g e)) es)
  = map (fun e => (e, g e ++ (if e0 =? e then [p] else []))) (nset_insert e0 es).
Proof.
  unfold nset_insert.
  induction es as [|u es IH]; intros Hs Hg; cbn [map bm_push kinsert].
  - rewrite N.eqb_refl, (Hg (fun H => H)). reflexivity.
  - inversion Hs as [|? ? Hs' Hall]; subst. rewrite Forall_forall in Hall.
    assert (Hext : ~ In e0 es ->
                   map (fun e => (e, g e ++ (if e0 =? e then [p] else []))) es = map (fun e => (e, g e)) es).
    { intros Hn. apply map_ext_in. intros a Ha. destruct (e0 =? a) eqn:E.
      - apply N.eqb_eq in E. subst a. contradiction.
      - rewrite app_nil_r. reflexivity. }
    destruct (e0 <? u) eqn:E1.
    + apply N.ltb_lt in E1.
      assert (Hn : ~ In e0 (u :: es)).
      { intros [H|H]; [lia|]. specialize (Hall _ H). lia. }
      cbn [map]. rewrite N.eqb_refl, (Hg Hn). cbn [app].
      assert (E : e0 =? u = false) by (apply N.eqb_neq; lia). rewrite E, app_nil_r.
      rewrite Hext; [reflexivity|]. intros H. apply Hn. right. exact H.
    + destruct (e0 =? u) eqn:E2.
      * apply N.eqb_eq in E2. subst u. cbn [map]. rewrite N.eqb_refl.
        rewrite Hext; [reflexivity|]. intros H. specialize (Hall _ H). lia.
      * cbn [map]. rewrite E2, app_nil_r. f_equal. apply IH; [exact Hs'|].
        intros Hn. apply Hg. intros [H|H]; [apply N.eqb_neq in E2; congruence|exact (Hn H)].
Qed.

Lemma by_edition_snoc ts t : by_edition (ts ++ [t]) = bm_push (t_edition t) (t_path t) (by_edition ts).
Proof. unfold by_edition. rewrite fold_left_app. reflexivity. Qed.

Lemma by_edition_eq : forall ts, by_edition ts = map (fun e => (e, group e ts)) (editions ts).
Proof.
  induction ts as [|t ts IH] using rev_ind; [reflexivity|].
  rewrite by_edition_snoc, IH, editions_snoc.
  destruct (editions_spec ts) as [Hs Hin].
  rewrite (bm_push_map (t_edition t) (t_path t) (fun e => group e ts) (editions ts) Hs).
  - apply map_ext. intros e. rewrite group_app. unfold group at 3. cbn [filter].
    destruct (t_edition t =? e); reflexivity.
  - intros Hn. unfold group. destruct (filter (fun t0 => t_edition t0 =? t_edition t) ts) as [|t' l] eqn:Ef; [reflexivity|].
    exfalso. apply Hn. apply Hin. exists t'.
    assert (Ht' : In t' (filter (fun t0 => t_edition t0 =? t_edition t) ts)) by (rewrite Ef; left; reflexivity).
    apply filter_In in Ht'. destruct Ht' as [H1 H2]. apply N.eqb_eq in H2. split; assumption.
Qed.

Lemma by_edition_fst ts : map fst (by_edition ts) = editions ts.
Proof. rewrite by_edition_eq, map_map. cbn [fst]. apply map_id. Qed.

Lemma by_edition_spec_lemma ts :
  StronglySorted N.lt (map fst (by_edition ts)) /\
  (forall e, In e (map fst (by_edition ts)) <-> exists t, In t ts /\ t_edition t = e) /\
  (forall e fs, In (e, fs) (by_edition ts) -> fs = group e ts).
Proof.
  rewrite by_edition_fst. destruct (editions_spec ts) as [H1 H2]. split; [exact H1|]. split; [exact H2|].
  intros e fs H. rewrite by_edition_eq in H. apply in_map_iff in H. destruct H as (e' & Heq & _).
  inversion Heq; subst. reflexivity.
Qed.

Lemma bm_push_len e p m :
  List.length (concat (map snd (bm_push e p m))) = S (List.length (concat (map snd m))).
Proof.
  induction m as [|[e' fs] m IH]; cbn [bm_push map snd concat]; [reflexivity|].
  destruct (e <? e'); [reflexivity|]. destruct (e =? e'); cbn [map snd concat].
  - rewrite !app_length. cbn [List.length]. lia.
  - rewrite !app_length, IH. lia.
Qed.

Lemma by_edition_len : forall ts, List.length (concat (map snd (by_edition ts))) = List.length ts.
Proof.
  induction ts as [|t ts IH] using rev_ind; [reflexivity|].
  rewrite by_edition_snoc, bm_push_len, IH, app_length. cbn [List.length]. lia.
Qed.

Lemma by_edition_files ts p :
  In p (concat (map snd (by_edition ts))) <-> In p (map t_path ts).
Proof.
  rewrite by_edition_eq, map_map. cbn [snd]. rewrite in_concat. split.
  - intros (fs & Hfs & Hp). apply in_map_iff in Hfs. destruct Hfs as (e & <- & _).
    unfold group in Hp. apply in_map_iff in Hp. destruct Hp as (t & <- & Ht).
    apply filter_In in Ht. apply in_map. exact (proj1 Ht).
  - intros Hp. apply in_map_iff in Hp. destruct Hp as (t & <- & Ht).
    exists (group (t_edition t) ts). split.
    + apply in_map_iff. exists (t_edition t). split; [reflexivity|].
      apply (proj2 (editions_spec ts)). exists t. split; [exact Ht|reflexivity].
    + unfold group. apply in_map. apply filter_In. split; [exact Ht|apply N.eqb_refl].
Qed.

Lemma files_once_lemma ts :
  NoDup (map t_path ts) ->
  NoDup (concat (map snd (by_edition ts))) /\
  (forall p, In p (concat (map snd (by_edition ts))) <-> In p (map t_path ts)).
Proof.
  intros Hnd. split; [|apply by_edition_files].
  apply (NoDup_incl_NoDup (l := map t_path ts)); [exact Hnd| |].
  - rewrite by_edition_len, map_length. lia.
  - intros p Hp. apply by_edition_files. exact Hp.
Qed.

(* ================================================================== *)
(* 7. run_rustfmt and the exit status *)
Lemma failure_code_of_cases : failure_code_of = failure_code \/ failure_code_of = failure_code_fixed.
Proof. first [left; reflexivity|right; reflexivity]. Qed.

Section Run.
Variable w : world.

Lemma spawn_loop_spec v args : forall groups,
  spawn_loop w v groups args
  = (waited (map (w_child w) (map (fun g => mk_invocation v (fst g) (snd g) args) groups)),
     upto_spawn_failure w (map (fun g => mk_invocation v (fst g) (snd g) args) groups)).
Proof.
  induction groups as [|[e files] gs IH]; cbn [spawn_loop map waited upto_spawn_failure fst snd]; [reflexivity|].
  destruct (w_child w (mk_invocation v e files args)) as [c| |] eqn:E; try reflexivity; rewrite IH; reflexivity.
Qed.

Lemma run_rustfmt_eq s args v :
  run_rustfmt w s args v
  = (match waited (map (w_child w) (planned v s args)) with
     | Some ss => Ok (fold_statuses failure_code_of ss)
     | None => Err ESpawn
     end, upto_spawn_failure w (planned v s args)).
Proof. unfold run_rustfmt, planned. rewrite spawn_loop_spec. reflexivity. Qed.

Lemma run_rustfmt_spec_lemma s args v :
  handle_command_status (fst (run_rustfmt w s args v)) = exit_code_of (map (w_child w) (planned v s args)) /\
  snd (run_rustfmt w s args v) = upto_spawn_failure w (planned v s args).
Proof.
  rewrite run_rustfmt_eq. cbn [fst snd]. split; [|reflexivity].
  unfold exit_code_of, exit_code_gen. destruct (waited (map (w_child w) (planned v s args))); reflexivity.
Qed.

Lemma upto_all pl : (forall i, In i pl -> w_child w i <> SpawnFailed) -> upto_spawn_failure w pl = pl.
Proof.
  induction pl as [|i pl IH]; intros H; cbn [upto_spawn_failure]; [reflexivity|].
  destruct (w_child w i) eqn:E; try (rewrite IH; [reflexivity|intros j Hj; apply H; right; exact Hj]).
  exfalso. apply (H i (or_introl eq_refl)). exact E.
Qed.

Lemma upto_incl pl i : In i (upto_spawn_failure w pl) -> In i pl.
Proof.
  induction pl as [|j pl IH]; cbn [upto_spawn_failure]; [intros []|].
  destruct (w_child w j); intros [H|H]; try (left; exact H); try (right; apply IH; exact H); destruct H.
Qed.

(* some child that did not succeed among the planned ones <-> among the spawned ones *)
Lemma upto_failure pl :
  (exists i, In i pl /\ w_child w i <> Exited 0) <->
  (exists i, In i (upto_spawn_failure w pl) /\ w_child w i <> Exited 0).
Proof.
  split.
  - induction pl as [|j pl IH]; intros (i & Hi & Hne); [destruct Hi|]. cbn [upto_spawn_failure].
    destruct (w_child w j) eqn:E.
    + destruct Hi as [<-|Hi]; [exists j; split; [left; reflexivity|exact Hne]|].
      destruct (IH (ex_intro _ i (conj Hi Hne))) as (i' & Hi' & Hne'). exists i'. split; [right; exact Hi'|exact Hne'].
    + exists j. split; [left; reflexivity|]. rewrite E. discriminate.
    + exists j. split; [left; reflexivity|]. rewrite E. discriminate.
  - intros (i & Hi & Hne). exists i. split; [apply upto_incl; exact Hi|exact Hne].
Qed.
End Run.

Lemma waited_cases ss :
  (waited ss = None /\ In SpawnFailed ss) \/ (waited ss = Some ss /\ ~ In SpawnFailed ss).
Proof.
  induction ss as [|s ss IH]; cbn [waited]; [right; split; [reflexivity|intros []]|].
  destruct s as [c| |].
  - destruct IH as [[-> Hin]|[-> Hn]]; [left; split; [reflexivity|right; exact Hin]|].
    right. split; [reflexivity|]. intros [H|H]; [discriminate|exact (Hn H)].
  - destruct IH as [[-> Hin]|[-> Hn]]; [left; split; [reflexivity|right; exact Hin]|].
    right. split; [reflexivity|]. intros [H|H]; [discriminate|exact (Hn H)].
  - left. split; [reflexivity|left; reflexivity].
Qed.

Lemma fold_statuses_nonzero (fc : status -> option Z) (l : list status) :
  (forall s c, fc s = Some c -> c <> 0%Z) -> fc (Exited 0) = None ->
  (forall s, In s l -> fc s = None -> s = Exited 0) ->
  (fold_statuses fc l <> 0%Z <-> exists s, In s l /\ s <> Exited 0).
Proof.
  intros Hnz H0. unfold fold_statuses.
  induction l as [|s l IH]; intros Hnone; cbn [filter_map].
  - unfold SUCCESS. split; [intros H; congruence|intros (s & [] & _)].
  - destruct (fc s) as [c|] eqn:E.
    + split; [|intros _; exact (Hnz s c E)]. intros _. exists s. split; [left; reflexivity|].
      intros ->. rewrite H0 in E. discriminate.
    + pose proof (Hnone s (or_introl eq_refl) E) as ->.
      rewrite (IH (fun s' Hs' => Hnone s' (or_intror Hs'))). split.
      * intros (s' & Hs' & Hne). exists s'. split; [right; exact Hs'|exact Hne].
      * intros (s' & [<-|Hs'] & Hne); [congruence|exists s'; split; assumption].
Qed.

Lemma exit_gen_iff (fc : status -> option Z) (ss : list status) :
  (forall s c, fc s = Some c -> c <> 0%Z) -> fc (Exited 0) = None ->
  (forall s, In s ss -> s <> SpawnFailed -> fc s = None -> s = Exited 0) ->
  (exit_code_gen fc ss <> 0%Z <-> exists s, In s ss /\ s <> Exited 0).
Proof.
  intros Hnz H0 Hnone. unfold exit_code_gen.
  destruct (waited_cases ss) as [[-> Hin]|[-> Hn]].
  - unfold FAILURE. split; [|intros _; discriminate].
    intros _. exists SpawnFailed. split; [exact Hin|discriminate].
  - apply fold_statuses_nonzero; [exact Hnz|exact H0|].
    intros s Hs. apply Hnone; [exact Hs|]. intros ->. exact (Hn Hs).
Qed.

Lemma failure_code_nz s c : failure_code s = Some c -> c <> 0%Z.
Proof.
  unfold failure_code. destruct s as [c'| |]; cbn [status_success status_code]; try discriminate.
  destruct (Z.eqb c' 0) eqn:E; [discriminate|]. intros H. inversion H; subst. apply Z.eqb_neq. exact E.
Qed.
Lemma failure_code_fixed_nz s c : failure_code_fixed s = Some c -> c <> 0%Z.
Proof.
  unfold failure_code_fixed. destruct s as [c'| |]; cbn [status_success status_code].
  - destruct (Z.eqb c' 0) eqn:E; [discriminate|]. intros H. inversion H; subst. apply Z.eqb_neq. exact E.
  - intros H. inversion H. unfold FAILURE. discriminate.
  - intros H. inversion H. unfold FAILURE. discriminate.
Qed.
Lemma failure_code_none s : failure_code s = None -> s = Exited 0 \/ s = Signaled \/ s = SpawnFailed.
Proof.
  unfold failure_code. destruct s as [c| |]; cbn [status_success status_code]; auto.
  destruct (Z.eqb c 0) eqn:E; [|discriminate]. apply Z.eqb_eq in E. subst. auto.
Qed.
Lemma failure_code_fixed_none s : failure_code_fixed s = None -> s = Exited 0.
Proof.
  unfold failure_code_fixed. destruct s as [c| |]; cbn [status_success status_code]; try discriminate.
  destruct (Z.eqb c 0) eqn:E; [|discriminate]. apply Z.eqb_eq in E. subst. reflexivity.
Qed.

Lemma fixed_exit_iff_lemma ss : exit_code_fixed ss <> 0%Z <-> exists s, In s ss /\ s <> Exited 0.
Proof.
  apply exit_gen_iff; [exact failure_code_fixed_nz|reflexivity|].
  intros s _ _. apply failure_code_fixed_none.
Qed.

Lemma exit_iff_nosig_lemma ss : ~ In Signaled ss -> (exit_code ss <> 0%Z <-> exists s, In s ss /\ s <> Exited 0).
Proof.
  intros Hns. apply exit_gen_iff; [exact failure_code_nz|reflexivity|].
  intros s Hs Hnsf Hnone. destruct (failure_code_none s Hnone) as [H|[H|H]]; [exact H|subst; contradiction|contradiction].
Qed.

Lemma exit_of_iff_nosig_lemma ss :
  ~ In Signaled ss -> (exit_code_of ss <> 0%Z <-> exists s, In s ss /\ s <> Exited 0).
Proof.
  intros Hns. unfold exit_code_of. destruct failure_code_of_cases as [E|E]; rewrite E.
  - apply exit_iff_nosig_lemma. exact Hns.
  - apply fixed_exit_iff_lemma.
Qed.

Lemma exit_iff_refuted_lemma :
  exists ss, ~ (exit_code ss <> 0%Z <-> exists s, In s ss /\ s <> Exited 0).
Proof.
  exists [Signaled]. intros [_ H]. apply H; [|reflexivity].
  exists Signaled. split; [left; reflexivity|discriminate].
Qed.

(* ================================================================== *)
(* 8. option translation *)
Lemma existsb_text_In (c : text) (l : list text) : existsb (fun a => eqb_text a c) l = true <-> In c l.
Proof.
  rewrite existsb_exists. split.
  - intros (x & Hx & E). apply eqb_text_spec in E. subst. exact Hx.
  - intros H. exists c. split; [exact H|apply eqb_text_spec; reflexivity].
Qed.
Lemma existsb_text_notIn (c : text) (l : list text) : existsb (fun a => eqb_text a c) l = false <-> ~ In c l.
Proof. rewrite <- existsb_text_In. destruct (existsb (fun a => eqb_text a c) l); split; congruence. Qed.

Lemma eqb_text_refl t : eqb_text t t = true.
Proof. apply eqb_text_spec. reflexivity. Qed.
Lemma eqb_text_neq a b : a <> b -> eqb_text a b = false.
Proof. intros H. destruct (eqb_text a b) eqn:E; [|reflexivity]. apply eqb_text_spec in E. contradiction. Qed.

Lemma check_flag_lemma (a : list text) :
  translate_check false a = a /\
  (In (txt "--check") a -> translate_check true a = a) /\
  (~ In (txt "--check") a -> translate_check true a = a ++ [txt "--check"]).
Proof.
  unfold translate_check. split; [reflexivity|]. split; intros H.
  - apply existsb_text_In in H. rewrite H. reflexivity.
  - apply existsb_text_notIn in H. rewrite H. reflexivity.
Qed.

Definition has_list_files (a : list text) : Prop := In (txt "-l") a \/ In (txt "--files-with-diff") a.
Definition has_emit (a : list text) : Prop := exists x, In x a /\ starts_with (txt "--emit") x = true.

Lemma list_files_existsb a :
  existsb (fun x => eqb_text x (txt "-l") || eqb_text x (txt "--files-with-diff")) a = true <-> has_list_files a.
Proof.
  unfold has_list_files. rewrite existsb_exists. split.
  - intros (x & Hx & E). apply orb_true_iff in E. destruct E as [E|E]; apply eqb_text_spec in E; subst; auto.
  - intros [H|H]; [exists (txt "-l")|exists (txt "--files-with-diff")]; (split; [exact H|]);
      rewrite eqb_text_refl; [reflexivity|apply orb_true_r].
Qed.

Lemma message_format_short_lemma a :
  (has_list_files a -> convert_message_format (txt "short") a = Some a) /\
  (~ has_list_files a -> convert_message_format (txt "short") a = Some (a ++ [txt "-l"])).
Proof.
  unfold convert_message_format. rewrite eqb_text_refl.
  destruct (existsb (fun x => eqb_text x (txt "-l") || eqb_text x (txt "--files-with-diff")) a) eqn:E.
  - apply list_files_existsb in E. split; [reflexivity|contradiction].
  - split; [|reflexivity]. intros H. apply list_files_existsb in H. congruence.
Qed.

Lemma message_format_json_lemma a :
  (has_emit a \/ In (txt "--check") a -> convert_message_format (txt "json") a = None) /\
  (~ has_emit a -> ~ In (txt "--check") a ->
   convert_message_format (txt "json") a = Some (a ++ [txt "--emit"; txt "json"])).
Proof.
  unfold convert_message_format.
  assert (E1 : eqb_text (txt "json") (txt "short") = false) by (vm_compute; reflexivity).
  rewrite E1, eqb_text_refl.
  destruct (existsb (starts_with (txt "--emit")) a) eqn:Ee.
  - split; [reflexivity|]. intros Hn. exfalso. apply Hn. apply existsb_exists in Ee. exact Ee.
  - destruct (existsb (fun x => eqb_text x (txt "--check")) a) eqn:Ec.
    + split; [reflexivity|]. intros _ Hn. apply existsb_text_In in Ec. contradiction.
    + split; [|reflexivity]. intros [He|Hc].
      * unfold has_emit in He. rewrite <- existsb_exists in He. congruence.
      * apply existsb_text_In in Hc. congruence.
Qed.

Lemma message_format_human_lemma a : convert_message_format (txt "human") a = Some a.
Proof.
  unfold convert_message_format.
  assert (E1 : eqb_text (txt "human") (txt "short") = false) by (vm_compute; reflexivity).
  assert (E2 : eqb_text (txt "human") (txt "json") = false) by (vm_compute; reflexivity).
  rewrite E1, E2, eqb_text_refl. reflexivity.
Qed.

Lemma message_format_other_lemma mf a :
  mf <> txt "short" -> mf <> txt "json" -> mf <> txt "human" -> convert_message_format mf a = None.
Proof.
  intros H1 H2 H3. unfold convert_message_format.
  rewrite (eqb_text_neq _ _ H1), (eqb_text_neq _ _ H2), (eqb_text_neq _ _ H3). reflexivity.
Qed.

(* everything after -- is handed on verbatim, in order, before anything that cargo-fmt adds *)
Lemma passthrough_lemma (o : opts) (a : list text) :
  final_args o = Some a ->
  exists extra, a = o_rustfmt_options o ++ extra /\
    forall x, In x extra -> In x [txt "--check"; txt "-l"; txt "--emit"; txt "json"].
Proof.
  unfold final_args.
  assert (Hc : exists e1, translate_check (o_check o) (o_rustfmt_options o) = o_rustfmt_options o ++ e1 /\
                          forall x, In x e1 -> x = txt "--check").
  { unfold translate_check. destruct (o_check o).
    - destruct (existsb (fun x => eqb_text x (txt "--check")) (o_rustfmt_options o)).
      + exists []. split; [rewrite app_nil_r; reflexivity|intros x []].
      + exists [txt "--check"]. split; [reflexivity|]. intros x [<-|[]]. reflexivity.
    - exists []. split; [rewrite app_nil_r; reflexivity|intros x []]. }
  destruct Hc as (e1 & -> & He1).
  destruct (o_message_format o) as [mf|].
  - unfold convert_message_format.
    destruct (eqb_text mf (txt "short")).
    + destruct (existsb _ _); intros H; inversion H; subst.
      * exists e1. split; [reflexivity|]. intros x Hx. rewrite (He1 x Hx). left. reflexivity.
      * exists (e1 ++ [txt "-l"]). split; [rewrite app_assoc; reflexivity|].
        intros x Hx. apply in_app_or in Hx. destruct Hx as [Hx|[<-|[]]]; [rewrite (He1 x Hx); left; reflexivity|].
        right; left; reflexivity.
    + destruct (eqb_text mf (txt "json")).
      * destruct (existsb (starts_with (txt "--emit")) _); [discriminate|].
        destruct (existsb _ _); [discriminate|]. intros H; inversion H; subst.
        exists (e1 ++ [txt "--emit"; txt "json"]). split; [rewrite app_assoc; reflexivity|].
        intros x Hx. apply in_app_or in Hx. destruct Hx as [Hx|[<-|[<-|[]]]].
        -- rewrite (He1 x Hx). left. reflexivity.
        -- right; right; left; reflexivity.
        -- right; right; right; left; reflexivity.
      * destruct (eqb_text mf (txt "human")); [|discriminate]. intros H; inversion H; subst.
        exists e1. split; [reflexivity|]. intros x Hx. rewrite (He1 x Hx). left. reflexivity.
  - intros H; inversion H; subst. exists e1. split; [reflexivity|].
    intros x Hx. rewrite (He1 x Hx). left. reflexivity.
Qed.

(* ================================================================== *)
(* 9. format_crate and execute *)
Section Exec.
Variable w : world.

Lemma format_crate_err fuel v st a marg e :
  get_targets w fuel st marg = Err e -> format_crate w fuel v st a marg = (Err e, []).
Proof. intros H. unfold format_crate. rewrite H. reflexivity. Qed.

Lemma format_crate_ok fuel v st a marg s :
  get_targets w fuel st marg = Ok s -> format_crate w fuel v st a marg = run_rustfmt w s a v.
Proof. intros H. unfold format_crate. rewrite H. reflexivity. Qed.

Lemma execute_format_path fuel (o : opts) v a marg :
  info_request o = false -> verbosity_of o = Some v -> final_args o = Some a -> manifest_arg w o = Some marg ->
  execute w fuel o =
  (handle_command_status (fst (format_crate w fuel v (strategy_from_opts o) a marg)),
   snd (format_crate w fuel v (strategy_from_opts o) a marg)).
Proof.
  unfold info_request, verbosity_of, final_args, manifest_arg, execute. intros Hi Hv Ha Hm.
  apply orb_false_iff in Hi. destruct Hi as [Hi1 Hi2]. rewrite Hv, Hi1, Hi2.
  destruct (o_message_format o) as [mf|].
  - rewrite Ha. destruct (o_manifest_path o) as [sp|].
    + destruct (ends_with (txt "Cargo.toml") sp); [|discriminate]. inversion Hm; subst. cbn [negb].
      destruct (format_crate w fuel v (strategy_from_opts o) a (Some (w_path_of w sp))); reflexivity.
    + inversion Hm; subst. destruct (format_crate w fuel v (strategy_from_opts o) a None); reflexivity.
  - inversion Ha; subst. destruct (o_manifest_path o) as [sp|].
    + destruct (ends_with (txt "Cargo.toml") sp); [|discriminate]. inversion Hm; subst. cbn [negb].
      destruct (format_crate w fuel v (strategy_from_opts o) _ (Some (w_path_of w sp))); reflexivity.
    + inversion Hm; subst. destruct (format_crate w fuel v (strategy_from_opts o) _ None); reflexivity.
Qed.

Lemma execute_usage_error fuel (o : opts) :
  info_request o = false ->
  verbosity_of o = None \/ final_args o = None \/ manifest_arg w o = None ->
  execute w fuel o = (FAILURE, []).
Proof.
  unfold info_request, verbosity_of, final_args, manifest_arg, execute. intros Hi H.
  apply orb_false_iff in Hi. destruct Hi as [Hi1 Hi2].
  destruct (match o_verbose o, o_quiet o with
            | false, false => Some Normal | false, true => Some Quiet
            | true, false => Some Verbose | true, true => None end) as [v|] eqn:Ev; [|reflexivity].
  rewrite Hi1, Hi2.
  destruct H as [H|[H|H]]; [discriminate| |].
  - destruct (o_message_format o) as [mf|]; [rewrite H; reflexivity|discriminate].
  - destruct (match o_message_format o with
              | Some mf => convert_message_format mf (translate_check (o_check o) (o_rustfmt_options o))
              | None => Some (translate_check (o_check o) (o_rustfmt_options o)) end) as [a|]; [|reflexivity].
    destruct (o_manifest_path o) as [sp|]; [|discriminate].
    destruct (ends_with (txt "Cargo.toml") sp); [discriminate|reflexivity].
Qed.

(* the whole formatting path in one statement *)
Lemma execute_spec_lemma fuel (o : opts) v a marg :
  info_request o = false -> verbosity_of o = Some v -> final_args o = Some a -> manifest_arg w o = Some marg ->
  match get_targets w fuel (strategy_from_opts o) marg with
  | Err _ => execute w fuel o = (FAILURE, [])
  | Ok s => execute w fuel o = (exit_code_of (map (w_child w) (planned v s a)),
                                upto_spawn_failure w (planned v s a))
  end.
Proof.
  intros Hi Hv Ha Hm. rewrite (execute_format_path fuel o v a marg Hi Hv Ha Hm).
  destruct (get_targets w fuel (strategy_from_opts o) marg) as [s|e] eqn:E.
  - rewrite (format_crate_ok fuel v _ a marg s E).
    destruct (run_rustfmt_spec_lemma w s a v) as [H1 H2]. rewrite H1, H2. reflexivity.
  - rewrite (format_crate_err fuel v _ a marg e E). reflexivity.
Qed.

Lemma execute_exit_lemma fuel (o : opts) v a marg s :
  info_request o = false -> verbosity_of o = Some v -> final_args o = Some a -> manifest_arg w o = Some marg ->
  get_targets w fuel (strategy_from_opts o) marg = Ok s ->
  (forall i, In i (planned v s a) -> w_child w i <> Signaled) ->
  (fst (execute w fuel o) <> 0%Z <-> exists i, In i (snd (execute w fuel o)) /\ w_child w i <> Exited 0).
Proof.
  intros Hi Hv Ha Hm Hs Hns. pose proof (execute_spec_lemma fuel o v a marg Hi Hv Ha Hm) as H.
  rewrite Hs in H. rewrite H. cbn [fst snd]. rewrite <- upto_failure.
  rewrite exit_of_iff_nosig_lemma.
  - split.
    + intros (st & Hst & Hne). apply in_map_iff in Hst. destruct Hst as (i & <- & Hin). exists i. split; assumption.
    + intros (i & Hin & Hne). exists (w_child w i). split; [apply in_map; exact Hin|exact Hne].
  - intros Hin. apply in_map_iff in Hin. destruct Hin as (i & Hc & Hin). exact (Hns i Hin Hc).
Qed.

Lemma invocation_shape v s a i :
  In i (planned v s a) ->
  exists e files, In (e, files) (by_edition s) /\
    i = MkInv (is_quiet v) (map AFile files ++ [AStr (txt "--edition"); AEdition e] ++ map AStr a).
Proof.
  unfold planned. intros H. apply in_map_iff in H. destruct H as ([e files] & <- & Hin).
  exists e, files. split; [exact Hin|reflexivity].
Qed.
End Exec.

(* ================================================================== *)
(* 10. witness worlds and refutations *)
Fixpoint lookup_meta (tbl : list (option path * metadata)) (m : option path) : option metadata :=
  match tbl with
  | [] => None
  | (k, md) :: tbl' =>
      if (match k, m with
          | None, None => true
          | Some a, Some b => a =? b
          | _, _ => false
          end) then Some md else lookup_meta tbl' m
  end.

(* The scratch workspace used to validate the model against the real binary.
   files: 1 ext/util/Cargo.toml  2 ext/util/src/lib.rs  3 ext2/util/Cargo.toml  4 ext2/util/src/lib.rs
          5 ws/Cargo.toml (virtual)  6 ws/a/Cargo.toml  8 ws/a/src/main.rs  9 ws/b/Cargo.toml  10 ws/b/src/main.rs
          11 ws/c/Cargo.toml  12 ws/c/src/lib.rs  13 ws/shared/lib.rs
          213 ws/a/../shared/lib.rs  313 ws/b/../shared/lib.rs  (both canonicalise to 13)
   directories: 100 + the identifier of their Cargo.toml.   names: a 1, b 2, c 3, util 5, zzz 6, util2 7.
   a (2015) and b (2021) share the file 13; a depends on util at ext/util, b on a package called util at ext2/util *)
Definition x_pkg_a : pkg := MkPkg 1 6 [MkSrc 213 0 2015; MkSrc 8 1 2015] [MkDep 2 (Some 109); MkDep 5 (Some 101)].
Definition x_pkg_b (depname : pkgname) : pkg :=
  MkPkg 2 9 [MkSrc 313 0 2021; MkSrc 10 1 2021] [MkDep depname (Some 103); MkDep 9 None].
Definition x_pkg_c : pkg := MkPkg 3 11 [MkSrc 12 0 2018] [].
Definition x_pkg_u1 : pkg := MkPkg 5 1 [MkSrc 2 0 2018] [].
Definition x_pkg_u2 (name : pkgname) : pkg := MkPkg name 3 [MkSrc 4 0 2021] [].
Definition x_ws (depname : pkgname) : metadata := MkMeta 105 [x_pkg_a; x_pkg_b depname; x_pkg_c].
Definition x_tbl (depname : pkgname) : list (option path * metadata) :=
  [(None, x_ws depname); (Some 5, x_ws depname); (Some 6, x_ws depname); (Some 9, x_ws depname);
   (Some 11, x_ws depname); (Some 1, MkMeta 101 [x_pkg_u1]); (Some 3, MkMeta 103 [x_pkg_u2 depname])].
(* depname = 5: the second dependency is also called util; depname = 7: distinct names *)
Definition x_world (depname : pkgname) (cwd : path) (child : invocation -> status) : world :=
  MkWorld (lookup_meta (x_tbl depname))
          (fun p => if (p =? 213) || (p =? 313) then 13 else p)
          (fun p => existsb (N.eqb p) [1; 3; 5; 6; 9; 11])
          (fun d => d - 100)
          cwd
          (fun _ => 5)
          child.
Definition x_ok : invocation -> status := fun _ => Exited 0.

Lemma targets_spec_all_refuted_lemma :
  exists (w : world) (fuel : nat) (marg : option path) (s : tset) (p : pkg) (st : src_target),
    get_targets_gen w (get_targets_recursive w) fuel SAll marg = Ok s /\
    (forall k, get_targets_gen w (get_targets_recursive w) (k + fuel) SAll marg = Ok s) /\
    all_selected w marg p /\ In st (p_targets p) /\ ~ In (w_canon w (st_src st)) (tpaths s).
Proof.
  exists (x_world 5 105 x_ok), 5%nat, None,
         [MkT 2 0 2018; MkT 8 1 2015; MkT 10 1 2021; MkT 12 0 2018; MkT 13 0 2015],
         (x_pkg_u2 5), (MkSrc 4 0 2021).
  assert (H5 : get_targets_gen (x_world 5 105 x_ok) (get_targets_recursive (x_world 5 105 x_ok)) 5 SAll None
               = Ok [MkT 2 0 2018; MkT 8 1 2015; MkT 10 1 2021; MkT 12 0 2018; MkT 13 0 2015])
    by (vm_compute; reflexivity).
  split; [exact H5|]. split.
  - intros k. unfold get_targets_gen in *. unfold get_targets_recursive in *.
    destruct (rec_gen (x_world 5 105 x_ok) vkey_name 5 None ([], [])) as [x|e] eqn:E; [|discriminate].
    rewrite (rec_gen_more_fuel _ _ 5 k None _ _ E); [exact H5|discriminate].
  - split; [|split; [left; reflexivity|vm_compute; intros [H|[H|[H|[H|[H|[]]]]]]; discriminate]].
    exists (Some 3), (MkMeta 103 [x_pkg_u2 5]). split; [|split; [reflexivity|left; reflexivity]].
    apply (Reach_step (x_world 5 105 x_ok) None None 5 3 (Reach_root _ _)).
    exists (x_ws 5), (x_pkg_b 5), (MkDep 5 (Some 103)), 103.
    repeat split; try reflexivity.
    + right; left; reflexivity.
    + left; reflexivity.
    + intros q Hq. cbn in Hq. destruct Hq as [<-|[<-|[<-|[]]]]; discriminate.
Qed.

Definition x_opts_all_unknown : opts := MkOpts false false false [6] None None [] true false.

Lemma unknown_package_with_all_refuted_lemma :
  exists (w : world) (fuel : nat) (o : opts) (n : pkgname) (md : metadata),
    o_format_all o = true /\ In n (o_packages o) /\ manifest_arg w o = Some None /\
    w_meta w None = Some md /\ (forall p, In p (packages md) -> p_name p <> n) /\
    fst (execute w fuel o) = 0%Z /\ snd (execute w fuel o) <> [].
Proof.
  exists (x_world 5 105 x_ok), 5%nat, x_opts_all_unknown, 6, (x_ws 5).
  repeat split; try reflexivity.
  - left; reflexivity.
  - intros p Hp. cbn in Hp. destruct Hp as [<-|[<-|[<-|[]]]]; discriminate.
  - vm_compute. discriminate.
Qed.

(* the file shared by a (2015) and b (2021) is formatted once, with a's edition *)
Lemma edition_shared_file_refuted_lemma :
  exists (w : world) (fuel : nat) (marg : option path) (md : metadata) (s : tset) (p : pkg) (st : src_target),
    get_targets w fuel SRoot marg = Ok s /\ w_meta w marg = Some md /\
    root_selected w marg md p /\ In st (p_targets p) /\
    forall t, In t s -> t_path t = w_canon w (st_src st) -> t_edition t <> st_edition st.
Proof.
  exists (x_world 5 105 x_ok), 5%nat, None, (x_ws 5),
         [MkT 8 1 2015; MkT 10 1 2021; MkT 12 0 2018; MkT 13 0 2015], (x_pkg_b 5), (MkSrc 313 0 2021).
  split; [vm_compute; reflexivity|]. split; [reflexivity|]. split; [|split; [left; reflexivity|]].
  - split; [right; left; reflexivity|]. right; left. reflexivity.
  - intros t Ht Hp. cbn in Ht. destruct Ht as [<-|[<-|[<-|[<-|[]]]]]; cbn in Hp; discriminate.
Qed.

(* cargo fmt run in the (virtual) workspace root formats every member; naming the same manifest with
   --manifest-path finds no target: main.rs:370 compares the root DIRECTORY with the manifest FILE *)
Lemma root_manifest_path_refuted_lemma :
  exists (w : world) (fuel : nat) (md : metadata) (s : tset),
    w_meta w None = Some md /\ w_meta w (Some (w_toml_in w (w_cwd w))) = Some md /\
    get_targets w fuel SRoot None = Ok s /\
    get_targets w fuel SRoot (Some (w_toml_in w (w_cwd w))) = Err ENoTargets.
Proof.
  exists (x_world 5 105 x_ok), 5%nat, (x_ws 5), [MkT 8 1 2015; MkT 10 1 2021; MkT 12 0 2018; MkT 13 0 2015].
  repeat split; vm_compute; reflexivity.
Qed.

(* ================================================================== *)
(* 11. the remaining statements of Props.v *)
Lemma edition_of_target_lemma (l : list target) (t : target) :
  In t (kinsert_all t_path l []) <->
  exists l1 l2, l = l1 ++ t :: l2 /\ ~ In (t_path t) (map t_path l1).
Proof.
  rewrite (kinsert_all_In t_path l [] t (tsorted_nil)). cbn [map In]. split.
  - intros [[]|(_ & H)]. exact H.
  - intros H. right. split; [intros []|exact H].
Qed.

Lemma invocations_spec_lemma (w : world) (s : tset) (args : list text) (v : verbosity) :
  handle_command_status (fst (run_rustfmt w s args v)) = exit_code_of (map (w_child w) (planned v s args)) /\
  snd (run_rustfmt w s args v) = upto_spawn_failure w (planned v s args) /\
  (forall i, In i (planned v s args) ->
     exists e files, In (e, files) (by_edition s) /\
       i = MkInv (is_quiet v) (map AFile files ++ [AStr (txt "--edition"); AEdition e] ++ map AStr args)) /\
  ((forall i, In i (planned v s args) -> w_child w i <> SpawnFailed) ->
   snd (run_rustfmt w s args v) = planned v s args).
Proof.
  destruct (run_rustfmt_spec_lemma w s args v) as [H1 H2].
  split; [exact H1|]. split; [exact H2|]. split; [intros i; apply invocation_shape|].
  intros H. rewrite H2. apply upto_all. exact H.
Qed.

Lemma targets_spec_root_lemma (w : world) (fuel : nat) (marg : option path) (s : tset) :
  get_targets w fuel SRoot marg = Ok s ->
  exists md, w_meta w marg = Some md /\ selects w (root_selected w marg md) s /\
             s = add_targets w (flat_map p_targets (root_packages w marg md)) [].
Proof. exact (targets_root_lemma w (get_targets_all w) fuel marg s). Qed.

Lemma targets_spec_some_lemma (w : world) (fuel : nat) (hitlist : list pkgname) (marg : option path) (s : tset) :
  get_targets w fuel (SSome hitlist) marg = Ok s ->
  exists md, w_meta w marg = Some md /\ selects w (some_selected hitlist md) s /\
             (forall n, In n hitlist -> exists p, In p (packages md) /\ p_name p = n) /\
             s = add_targets w (flat_map p_targets
                   (hit_list (packages md) (fold_left (fun h n => nset_insert n h) hitlist []))) [].
Proof. exact (targets_some_lemma w (get_targets_all w) fuel hitlist marg s). Qed.

Lemma unknown_package_before_format_lemma
      (w : world) (fuel : nat) (v : verbosity) (a : list text) (hitlist : list pkgname) (marg : option path)
      (md : metadata) (n : pkgname) :
  w_meta w marg = Some md -> In n hitlist -> (forall p, In p (packages md) -> p_name p <> n) ->
  exists n', get_targets w fuel (SSome hitlist) marg = Err (ENotMember n') /\
             In n' hitlist /\ (forall p, In p (packages md) -> p_name p <> n') /\ n' <= n /\
             format_crate w fuel v (SSome hitlist) a marg = (Err (ENotMember n'), []).
Proof.
  intros Hm Hn Hun.
  destruct (unknown_package_lemma w (get_targets_all w) fuel hitlist marg md n Hm Hn Hun) as (n' & H1 & H2 & H3 & H4).
  exists n'. repeat split; try assumption. apply format_crate_err. exact H1.
Qed.

Lemma metadata_failure_before_format_lemma
      (w : world) (fuel : nat) (v : verbosity) (st : strategy) (a : list text) (marg : option path) :
  w_meta w marg = None -> (0 < fuel)%nat ->
  format_crate w fuel v st a marg = (Err EMetadata, []).
Proof. intros Hm Hf. apply format_crate_err. apply metadata_failure_lemma; assumption. Qed.
