(* C08/Model.v — executable model of rustfmt's whitespace and newline discipline.
   Sources modelled:
     src/formatting/newline_style.rs:9-82   apply_newline_style, effective_newline_style,
                                            auto_detect_newline_style, native_newline_style,
                                            convert_to_windows_newlines, convert_to_unix_newlines
     rustc_span/src/lib.rs normalize_newlines (what the caller's `entire_snippet()` has been through)
     src/source_file.rs:19-21               append_newline
     src/formatting.rs:474-491, 529-594     format_lines' truncation and the evolution of
                                            FormatLines::newline_count in iterate/new_line/char
     src/missed_spans.rs:116-137            push_vertical_spaces
     src/shape.rs:24-101                    Indent::{new, from_width, block_indent, block_unindent,
                                            width, to_string, to_string_with_newline, to_string_inner}
     src/utils.rs:527-552                   remove_trailing_white_spaces
     src/visitor.rs:992-1005                skip_empty_lines
   NOT modelled: CharClasses (remove_trailing_white_spaces takes the (kind, char) stream it
   yields), usize overflow of additions, byte offsets (the model counts chars; where the code
   counts bytes the affected chars are ASCII, see the comments at each place).
   cfg!(windows) is false (native style = Unix).
   Definitions only; proofs are in Lemmas.v. *)
From V Require Import Base.Text.
From V Require C07.Model.
Open Scope N_scope.

Notation kind := V.C07.Model.kind.
Notation InString := V.C07.Model.InString.
Notation Normal := V.C07.Model.Normal.

(* ------------------------------------------------------------------ *)
(* 1. newline_style.rs *)

(* config/options.rs:20 enum NewlineStyle, declaration order *)
Inductive newline_style : Type := NSAuto | NSWindows | NSUnix | NSNative.

(* newline_style.rs:21 enum EffectiveNewlineStyle *)
Inductive eff_style : Type := Windows | Unix.

(* newline_style.rs:58 native_newline_style; cfg!(windows) = false *)
Definition native_newline_style : eff_style := Unix.

(* newline_style.rs:44 `raw_input_text.chars().position(|ch| ch == LINE_FEED)` *)
Fixpoint position_lf (t : text) : option nat :=
  match t with
  | [] => None
  | c :: t' => if is_lf c then Some O
               else match position_lf t' with Some p => Some (S p) | None => None end
  end.

(* newline_style.rs:43 auto_detect_newline_style.  `p - 1` on nat is
   saturating_sub(1); nth_error is chars().nth *)
Definition auto_detect (t : text) : eff_style :=
  match position_lf t with
  | Some p =>
      match nth_error t (p - 1)%nat with
      | Some c => if is_cr c then Windows else Unix
      | None => Unix
      end
  | None => native_newline_style
  end.

(* newline_style.rs:26 effective_newline_style *)
Definition effective_newline_style (s : newline_style) (raw_input_text : text) : eff_style :=
  match s with
  | NSAuto => auto_detect raw_input_text
  | NSNative => native_newline_style
  | NSWindows => Windows
  | NSUnix => Unix
  end.

(* newline_style.rs:66 convert_to_windows_newlines: chars().peekable() loop *)
Fixpoint to_windows (t : text) : text :=
  match t with
  | [] => []
  | c :: t' =>
      if is_lf c then CR :: LF :: to_windows t'
      else if is_cr c then
        match t' with
        | d :: _ => if is_lf d then to_windows t' else c :: to_windows t'
        | [] => c :: to_windows t'
        end
      else c :: to_windows t'
  end.

(* newline_style.rs:80 convert_to_unix_newlines = str::replace(CR LF, LF):
   leftmost non-overlapping matches, one pass, the replacement is not rescanned *)
Fixpoint to_unix (t : text) : text :=
  match t with
  | [] => []
  | c :: t' =>
      if is_cr c then
        match t' with
        | d :: t'' => if is_lf d then LF :: to_unix t'' else c :: to_unix t'
        | [] => [c]
        end
      else c :: to_unix t'
  end.

(* newline_style.rs:9 apply_newline_style *)
Definition apply_newline_style (s : newline_style) (formatted raw_input_text : text) : text :=
  match effective_newline_style s raw_input_text with
  | Windows => to_windows formatted
  | Unix => to_unix formatted
  end.

(* rustc_span normalize_newlines: every CR that immediately precedes an LF is
   removed, a lone CR stays.  formatting.rs:243-247 passes
   snippet_provider.entire_snippet() = SourceFile::src, which has been through it. *)
Fixpoint rustc_normalize (t : text) : text :=
  match t with
  | [] => []
  | c :: t' =>
      match t' with
      | d :: _ => if is_cr c && is_lf d then rustc_normalize t' else c :: rustc_normalize t'
      | [] => [c]
      end
  end.

(* the style Auto resolves to, as a function of the bytes of the file on disk *)
Definition auto_style_seen (raw : text) : eff_style := auto_detect (rustc_normalize raw).

(* the whole pipeline step formatting.rs:243 for a file whose bytes are raw *)
Definition apply_to_file (s : newline_style) (formatted raw : text) : text :=
  apply_newline_style s formatted (rustc_normalize raw).

(* specification vocabulary: delete each CR that immediately precedes an LF
   (what is left when the terminators are made uniform) *)
Definition strip_term (t : text) : text := rustc_normalize t.

(* ------------------------------------------------------------------ *)
(* 2. the tail of the file: append_newline + format_lines' truncate *)

(* formatting.rs:529-541, 576, 583: newline_count along iterate.  CR: `continue`
   (count untouched); LF: new_line, `newline_count += 1`; anything else: char,
   `newline_count = 0`.  The kinds and the other fields do not influence it. *)
Fixpoint scan_nl (n : N) (t : text) : N :=
  match t with
  | [] => n
  | c :: t' =>
      if is_cr c then scan_nl n t'
      else if is_lf c then scan_nl (n + 1) t'
      else scan_nl 0 t'
  end.
Definition newline_count (t : text) : N := scan_nl 0 t.

(* formatting.rs:484-488: length kept by `text.truncate(text.len() - newline_count + 1)`.
   The code counts bytes; the newline_count - 1 bytes removed lie in the final
   run of CR/LF chars (which contains newline_count LFs), one byte each. *)
Definition truncate_len (t : text) : N :=
  let len := N.of_nat (length t) in
  if 1 <? newline_count t then len - newline_count t + 1 else len.
Definition truncate (t : text) : text := firstn (N.to_nat (truncate_len t)) t.

(* source_file.rs:19 append_newline *)
Definition append_newline (t : text) : text := t ++ [LF].

(* formatting.rs:233-241 *)
Definition finish (buf : text) : text := truncate (append_newline buf).

(* formatting.rs:233-247: the emitted text of a file *)
Definition emit (s : newline_style) (buf raw : text) : text :=
  apply_to_file s (finish buf) raw.

(* ------------------------------------------------------------------ *)
(* 3. missed_spans.rs:116 push_vertical_spaces *)

(* lines 118-133: the new value of newline_count *)
Definition vspace (lo hi offset n : N) : N :=
  let newline_upper_bound := hi + 1 in
  let newline_lower_bound := lo + 1 in
  if newline_upper_bound <? n + offset then
    if newline_upper_bound <=? offset then 0 else newline_upper_bound - offset
  else if n + offset <? newline_lower_bound then
    if newline_lower_bound <=? offset then 0 else newline_lower_bound - offset
  else n.

(* line 117: self.buffer.chars().rev().take_while(|c| *c == LF).count() *)
Fixpoint take_lf (r : text) : nat :=
  match r with
  | c :: r' => if is_lf c then S (take_lf r') else O
  | [] => O
  end.
Definition trailing_lfs (buf : text) : N := N.of_nat (take_lf (rev buf)).

(* lines 116-137 on the buffer *)
Definition push_vertical_spaces (lo hi : N) (buf : text) (n : N) : text :=
  buf ++ repeat LF (N.to_nat (vspace lo hi (trailing_lfs buf) n)).

(* ------------------------------------------------------------------ *)
(* 4. shape.rs Indent *)

Record indent : Type := MkIndent { block_indent : N; alignment : N }.

Definition checked_sub (a b : N) : option N := if b <=? a then Some (a - b) else None.
Definition checked_div (a b : N) : option N := if b =? 0 then None else Some (a / b).

(* shape.rs:32 from_width; None = division by zero panic (tab_spaces = 0) *)
Definition from_width (hard_tabs : bool) (tab_spaces width : N) : option indent :=
  if hard_tabs then
    match checked_div width tab_spaces with
    | Some tab_num => Some (MkIndent (tab_spaces * tab_num) (width mod tab_spaces))
    | None => None
    end
  else Some (MkIndent width 0).

(* shape.rs:53 block_indent *)
Definition indent_block_indent (tab_spaces : N) (i : indent) : indent :=
  MkIndent (block_indent i + tab_spaces) (alignment i).

(* shape.rs:58 block_unindent; None = underflow of `self.block_indent -= tab_spaces` *)
Definition indent_block_unindent (tab_spaces : N) (i : indent) : option indent :=
  if block_indent i <? tab_spaces then Some (MkIndent (block_indent i) 0)
  else match checked_sub (block_indent i) tab_spaces with
       | Some b => Some (MkIndent b (alignment i))
       | None => None
       end.

(* shape.rs:67 width *)
Definition indent_width (i : indent) : N := block_indent i + alignment i.

(* shape.rs:20-22 *)
Definition INDENT_BUFFER_LEN : N := 80.
Definition INDENT_BUFFER : text := LF :: repeat SP 80.

(* shape.rs:89-99, the allocating path *)
Definition indent_slow (offset num_tabs num_spaces : N) : text :=
  (if offset =? 0 then [LF] else []) ++ repeat TAB (N.to_nat num_tabs) ++ repeat SP (N.to_nat num_spaces).

(* shape.rs:87 &INDENT_BUFFER[offset..=num_chars]; None = slice index panic
   (start > end + 1; end < len is implied by the guard of the fast path).
   All chars of INDENT_BUFFER are one byte. *)
Definition indent_fast (offset num_chars : N) : option text :=
  if offset <=? num_chars + 1
  then Some (skipn (N.to_nat offset) (firstn (N.to_nat (num_chars + 1)) INDENT_BUFFER))
  else None.

(* shape.rs:79 to_string_inner; None = panic (division by zero or slice) *)
Definition to_string_inner (hard_tabs : bool) (tab_spaces : N) (i : indent) (offset : N) : option text :=
  match (if hard_tabs
         then match checked_div (block_indent i) tab_spaces with
              | Some q => Some (q, alignment i)
              | None => None
              end
         else Some (0, indent_width i)) with
  | None => None
  | Some (num_tabs, num_spaces) =>
      let num_chars := num_tabs + num_spaces in
      if (num_tabs =? 0) && (num_chars + offset <=? INDENT_BUFFER_LEN)
      then indent_fast offset num_chars
      else Some (indent_slow offset num_tabs num_spaces)
  end.

Definition indent_string (hard_tabs : bool) (tab_spaces block align offset : N) : option text :=
  to_string_inner hard_tabs tab_spaces (MkIndent block align) offset.

(* shape.rs:71 to_string / shape.rs:75 to_string_with_newline *)
Definition indent_to_string (hard_tabs : bool) (tab_spaces : N) (i : indent) : option text :=
  to_string_inner hard_tabs tab_spaces i 1.
Definition indent_to_string_with_newline (hard_tabs : bool) (tab_spaces : N) (i : indent) : option text :=
  to_string_inner hard_tabs tab_spaces i 0.

(* ------------------------------------------------------------------ *)
(* 5. utils.rs:527 remove_trailing_white_spaces *)

Definition kind_is_instring (k : kind) : bool :=
  match k with InString => true | _ => false end.

(* the body of the for loop on the state (buffer, space_buffer) *)
Definition rtws_step (st : text * text) (p : kind * char) : text * text :=
  let (buffer, space_buffer) := st in
  let (char_kind, c) := p in
  if is_lf c then
    ((if kind_is_instring char_kind then buffer ++ space_buffer else buffer) ++ [LF], [])
  else if is_whitespace c then (buffer, space_buffer ++ [c])
  else (buffer ++ space_buffer ++ [c], []).

Definition remove_trailing_white_spaces (s : list (kind * char)) : text :=
  fst (fold_left rtws_step s ([], [])).

(* Specification device (not in the Rust code): the same loop, but every char
   that reaches the buffer keeps its kind.  Used to state idempotence for a
   re-run in which every surviving char is classified as before. *)
Definition rtws_step_k (st : list (kind * char) * list (kind * char)) (p : kind * char) :=
  let (buffer, space_buffer) := st in
  let (char_kind, c) := p in
  if is_lf c then
    ((if kind_is_instring char_kind then buffer ++ space_buffer else buffer) ++ [p], [])
  else if is_whitespace c then (buffer, space_buffer ++ [p])
  else (buffer ++ space_buffer ++ [p], []).
Definition rtws_kinded (s : list (kind * char)) : list (kind * char) :=
  fst (fold_left rtws_step_k s ([], [])).

(* str::trim_end on a text *)
Fixpoint drop_ws (r : text) : text :=
  match r with
  | c :: r' => if is_whitespace c then drop_ws r' else r
  | [] => []
  end.
Definition trim_end (t : text) : text := rev (drop_ws (rev t)).

(* ------------------------------------------------------------------ *)
(* 6. visitor.rs:992 skip_empty_lines, on the text from last_pos to end_pos.
   start = the text at last_pos; t = the scan position inside the current
   line, every char between the two being whitespace other than LF.
   opt_span_after(.., LF) uses find_uncommented, but a line made of whitespace
   only contains no comment or string opener, so on the lines that are
   accepted it is the plain search; on the first line that is not
   whitespace-only the loop returns wherever the LF is found.  Result: the
   text at the final last_pos. *)
Fixpoint skip_el (start t : text) : text :=
  match t with
  | [] => start
  | c :: t' =>
      if is_lf c then skip_el t' t'
      else if is_whitespace c then skip_el start t'
      else start
  end.
Definition skip_empty_lines (t : text) : text := skip_el t t.
(* the new last_pos, in chars from the old one (all skipped chars are
   whitespace; byte offset = this only if they are ASCII) *)
Definition skip_empty_lines_pos (t : text) : N :=
  N.of_nat (length t - length (skip_empty_lines t)).

(* ------------------------------------------------------------------ *)
(* Vocabulary of the property *)

(* every LF is immediately preceded by CR *)
Definition all_lf_after_cr (t : text) : Prop :=
  forall i, nth_error t i = Some LF -> exists j, i = S j /\ nth_error t j = Some CR.
(* no CR is immediately followed by LF *)
Definition no_crlf (t : text) : Prop :=
  forall i, nth_error t i = Some CR -> nth_error t (S i) <> Some LF.
(* no CR CR LF *)
Definition no_cr_cr_lf (t : text) : Prop :=
  forall i, nth_error t i = Some CR -> nth_error t (S i) = Some CR -> nth_error t (S (S i)) <> Some LF.
(* the first line terminator of t is CR LF *)
Definition first_term_is_crlf (t : text) : Prop :=
  exists pre post, t = pre ++ CR :: LF :: post /\ ~ In LF pre.
(* the first LF of t is preceded by CR CR *)
Definition first_term_is_crcrlf (t : text) : Prop :=
  exists pre post, t = pre ++ CR :: CR :: LF :: post /\ ~ In LF pre.
(* t ends with exactly one LF *)
Definition ends_with_one_lf (t : text) : Prop :=
  exists body, t = body ++ [LF] /\ forall b', body <> b' ++ [LF].
(* t ends with exactly one CR LF *)
Definition ends_with_one_crlf (t : text) : Prop :=
  exists body, t = body ++ [CR; LF] /\ forall b', body <> b' ++ [LF].
(* no LF is immediately preceded by a whitespace char other than LF *)
Definition no_trailing_ws (t : text) : Prop :=
  forall i c, nth_error t i = Some c -> nth_error t (S i) = Some LF ->
              is_whitespace c = true -> c = LF.
Definition all_ws (t : text) : Prop := Forall (fun c => is_whitespace c = true) t.
(* the first line of t (up to its LF, or all of t) has a non-whitespace char *)
Definition first_line_nonblank (t : text) : Prop :=
  exists l c r, t = l ++ c :: r /\ ~ In LF l /\ is_whitespace c = false.
(* the rest of the text has no LF, or its first line is not blank *)
Definition skip_stop (r : text) : Prop := ~ In LF r \/ first_line_nonblank r.
(* a stretch of the stream without LF *)
Definition no_lf_stream (l : list (kind * char)) : Prop := Forall (fun p => snd p <> LF) l.
(* the columns an indent string occupies: a tab counts tab_spaces *)
Definition visual_width (tab_spaces : N) (t : text) : N :=
  fold_right (fun c acc => (if c =? TAB then tab_spaces else 1) + acc) 0 t.
