(* C08/Run.v — encodings of model results for the correspondence run.

   style codes (config/options.rs NewlineStyle order): 0 Auto, 1 Windows, 2 Unix,
   3 Native (anything above 3: Native).  Effective styles: 1 Windows, 2 Unix.

   run_apply_newline style formatted raw_seen
       apply_newline_style(style, &mut formatted, raw_seen); raw_seen is the text
       handed to the function (the caller has already normalised it)
   run_apply_to_file style formatted raw    the same with raw = bytes of the file
       (the model applies rustc's normalize_newlines first)
   run_rustc_normalize t                    rustc_span normalize_newlines
   run_auto_detect t                        auto_detect_newline_style: 1 Windows, 2 Unix
   run_to_windows, run_to_unix              the two converters
   run_newline_count t                      FormatLines::newline_count after iterate
   run_truncate t                           number of chars kept by format_lines' truncate
   run_finish buf                           append_newline then truncate
   run_vspace lo hi offset n                new newline_count of push_vertical_spaces
   run_push_vspace lo hi buf n              the buffer after push_vertical_spaces
   run_indent_opt hard_tabs tab_spaces block alignment offset
                                            Indent::new(block, alignment).to_string_inner(config, offset);
                                            None = panic (tab_spaces = 0 with hard_tabs, or slice)
   run_indent ...                           the same, None printed as the empty text
   run_from_width hard_tabs tab_spaces w    Some (block_indent, alignment), None = panic
   run_block_unindent tab_spaces block alignment   Some (block_indent, alignment), None = underflow
   run_remove_trailing_ws stream            stream of (kind, char), kind 0..9 as in C07/Run.v
                                            (9 or above: InString)
   run_skip_empty_lines t                   chars skipped by skip_empty_lines *)
From V Require Import Base.Text C08.Model.
From V Require C07.Run.
Open Scope N_scope.

Definition style_of_N (n : N) : newline_style :=
  match n with 0 => NSAuto | 1 => NSWindows | 2 => NSUnix | _ => NSNative end.
Definition enc_eff (e : eff_style) : N := match e with Windows => 1 | Unix => 2 end.

Definition run_apply_newline (style : N) (formatted raw_seen : text) : text :=
  apply_newline_style (style_of_N style) formatted raw_seen.
Definition run_apply_to_file (style : N) (formatted raw : text) : text :=
  apply_to_file (style_of_N style) formatted raw.
Definition run_rustc_normalize (t : text) : text := rustc_normalize t.
Definition run_auto_detect (t : text) : N := enc_eff (auto_detect t).
Definition run_to_windows (t : text) : text := to_windows t.
Definition run_to_unix (t : text) : text := to_unix t.

Definition run_newline_count (t : text) : N := newline_count t.
Definition run_truncate (t : text) : N := truncate_len t.
Definition run_finish (buf : text) : text := finish buf.

Definition run_vspace (lo hi offset n : N) : N := vspace lo hi offset n.
Definition run_push_vspace (lo hi : N) (buf : text) (n : N) : text := push_vertical_spaces lo hi buf n.

Definition run_indent_opt (hard_tabs : bool) (tab_spaces block alignment offset : N) : option text :=
  indent_string hard_tabs tab_spaces block alignment offset.
Definition run_indent (hard_tabs : bool) (tab_spaces block alignment offset : N) : text :=
  match indent_string hard_tabs tab_spaces block alignment offset with Some t => t | None => [] end.
Definition enc_indent (i : indent) : N * N := (block_indent i, alignment i).
Definition run_from_width (hard_tabs : bool) (tab_spaces w : N) : option (N * N) :=
  option_map enc_indent (from_width hard_tabs tab_spaces w).
Definition run_block_unindent (tab_spaces block alignment : N) : option (N * N) :=
  option_map enc_indent (indent_block_unindent tab_spaces (MkIndent block alignment)).

Definition run_remove_trailing_ws (s : list (N * N)) : text :=
  remove_trailing_white_spaces (map (fun p => (V.C07.Run.kind_of_N (fst p), snd p)) s).

Definition run_skip_empty_lines (t : text) : N := skip_empty_lines_pos t.
