(* C08/Examples.v — non-vacuity: each hypothesis of a C08 theorem is met by a non-trivial value,
   and the witnesses of the ..._refuted theorems, spelled out *)
From V Require Import Base.Text C08.Model C08.Lemmas.
Local Open Scope N_scope.

(* ---- the witnesses of the refuted clauses *)

(* CR CR LF under Unix: one CR goes, a CR LF is left *)
Example ex_unix_crcrlf : to_unix [CR; CR; LF] = [CR; LF] /\ to_unix [CR; LF] = [LF].
Proof. vm_compute. auto. Qed.
Example ex_unix_crcrlf_strip : strip_term (to_unix [CR; CR; LF]) = [LF] /\ strip_term [CR; CR; LF] = [CR; LF].
Proof. vm_compute. auto. Qed.
(* the same text under Windows is left alone *)
Example ex_windows_crcrlf : to_windows [CR; CR; LF] = [CR; CR; LF].
Proof. vm_compute. reflexivity. Qed.

(* a file a CR LF b CR LF: first terminator CR LF, yet Auto resolves to Unix; the text
   apply_newline_style is handed is a LF b LF *)
Example ex_auto_crlf_file :
  rustc_normalize [97; CR; LF; 98; CR; LF] = [97; LF; 98; LF] /\
  auto_detect [97; CR; LF; 98; CR; LF] = Windows /\
  auto_style_seen [97; CR; LF; 98; CR; LF] = Unix /\
  apply_to_file NSAuto [120; LF] [97; CR; LF; 98; CR; LF] = [120; LF].
Proof. vm_compute. auto. Qed.
(* only CR CR LF makes Auto say Windows *)
Example ex_auto_crcrlf_file :
  first_term_is_crcrlf [97; CR; CR; LF] /\ auto_style_seen [97; CR; CR; LF] = Windows.
Proof.
  split; [|reflexivity]. exists [97], []. split; [reflexivity|]. intros [H|[]]; discriminate H.
Qed.

(* buffer a LF CR: append gives a LF CR LF, the scanner counts 2 (CR skipped, count kept), one char is
   cut: a LF CR, which does not end with LF at all *)
Example ex_tail_lf_cr :
  newline_count [97; LF; CR; LF] = 2 /\ finish [97; LF; CR] = [97; LF; CR].
Proof. vm_compute. auto. Qed.
(* a CR LF LF-run at the end of the buffer (CRs first) is fine *)
Example ex_tail_cr_first : finish [97; CR; LF; LF; LF] = [97; CR; LF].
Proof. vm_compute. reflexivity. Qed.
(* truncate twice differs from once *)
Example ex_truncate_twice :
  truncate [LF; LF; CR; CR] = [LF; LF; CR] /\ truncate [LF; LF; CR] = [LF; LF].
Proof. vm_compute. auto. Qed.

(* lower bound 2, upper bound 1: nothing requested, 3 newlines pushed (2 blank lines > upper bound 1) *)
Example ex_clamp_lo_gt_hi : vspace 2 1 0 0 = 3.
Proof. vm_compute. reflexivity. Qed.
(* lower 1, upper 0: 2 requested, 1 pushed; a second run pushes 1 more *)
Example ex_clamp_idem_lo_gt_hi : vspace 1 0 0 2 = 1 /\ vspace 1 0 1 0 = 1.
Proof. vm_compute. auto. Qed.

(* offset 2 through the fast path drops one space *)
Example ex_fast_offset2 :
  indent_string false 4 4 0 2 = Some [SP; SP; SP] /\ indent_slow 2 0 4 = [SP; SP; SP; SP].
Proof. vm_compute. auto. Qed.

(* ---- hypotheses are satisfiable by non-trivial values *)

(* unix_ok_partial, to_unix_idem_partial, only_terminators_unix_partial: mixed terminators, lone CR *)
Definition t_mixed : text := [97; CR; LF; 98; CR; 99; LF; CR; LF].
Example ex_mixed_no_ccl : no_cr_cr_lf t_mixed.
Proof. apply has_ccl_spec. vm_compute. reflexivity. Qed.
Example ex_mixed_unix : to_unix t_mixed = [97; LF; 98; CR; 99; LF; LF] /\ to_unix t_mixed <> t_mixed.
Proof. split; [vm_compute; reflexivity|vm_compute; discriminate]. Qed.
Example ex_mixed_windows : to_windows t_mixed = [97; CR; LF; 98; CR; 99; CR; LF; CR; LF].
Proof. vm_compute. reflexivity. Qed.
Example ex_mixed_windows_ok : all_lf_after_cr (to_windows t_mixed).
Proof. apply windows_ok_lemma. Qed.

(* auto_first, both sides inhabited *)
Example ex_auto_windows : first_term_is_crlf [97; CR; LF; 98; LF] /\ auto_detect [97; CR; LF; 98; LF] = Windows.
Proof.
  split; [|reflexivity]. exists [97], [98; LF]. split; [reflexivity|]. intros [H|[]]; discriminate H.
Qed.
Example ex_auto_unix : auto_detect [97; LF; 98; CR; LF] = Unix /\ ~ first_term_is_crlf [97; LF; 98; CR; LF].
Proof.
  split; [reflexivity|]. intros H. apply auto_first_lemma in H. discriminate H.
Qed.
(* auto_no_lf *)
Example ex_auto_no_lf : ~ In LF [97; CR; 98] /\ auto_detect [97; CR; 98] = Unix.
Proof. split; [|reflexivity]. intros [H|[H|[H|[]]]]; discriminate H. Qed.
(* auto_seen_plain_crlf / auto_crlf_file_gets_unix *)
Example ex_plain_crlf_hyps : ~ In LF [97; 98] /\ (forall p', [97; 98] <> p' ++ [CR]).
Proof.
  split; [intros [H|[H|[]]]; discriminate H|].
  intros p' E. change [97; 98] with ([97] ++ [98]) in E. apply app_snoc_inj in E. destruct E as [_ E]. discriminate E.
Qed.
(* apply_auto *)
Example ex_apply_auto :
  apply_newline_style NSAuto [120; LF] [97; CR; LF] = [120; CR; LF] /\
  apply_newline_style NSAuto [120; CR; LF] [97; LF] = [120; LF].
Proof. vm_compute. auto. Qed.

(* one_final_newline, emit_tail, truncate_idem_partial, finish_stable: count 0 at the end of core *)
Definition core1 : text := [97; LF; 98; CR].
Example ex_core_count : newline_count core1 = 0.
Proof. reflexivity. Qed.
Example ex_core_finish : finish (core1 ++ repeat LF 3) = [97; LF; 98; CR; LF].
Proof. vm_compute. reflexivity. Qed.
Example ex_core_emit :
  to_windows (finish (core1 ++ repeat LF 3)) = [97; CR; LF; 98; CR; LF] /\
  to_unix (finish (core1 ++ repeat LF 3)) = [97; LF; 98; LF].
Proof. vm_compute. auto. Qed.
(* one_final_newline_no_cr *)
Example ex_no_cr : ~ In CR [97; LF; LF; LF] /\ finish [97; LF; LF; LF] = [97; LF].
Proof. split; [|vm_compute; reflexivity]. intros [H|[H|[H|[H|[]]]]]; discriminate H. Qed.

(* clamp_bounds, clamp_idem, push_vspace_*: lo <= hi with a real clamp on both sides *)
Example ex_clamp : 1 <= 2 /\ vspace 1 2 0 7 = 3 /\ vspace 1 2 0 0 = 2 /\ vspace 1 2 5 4 = 0 /\ vspace 1 2 1 1 = 1.
Proof. vm_compute. repeat split; discriminate. Qed.
Example ex_clamp_within : 1 + 1 <= 2 + 1 /\ 2 + 1 <= 2 + 1 /\ vspace 1 2 1 2 = 2.
Proof. vm_compute. repeat split; discriminate. Qed.
Example ex_push : push_vertical_spaces 0 1 [97; LF] 5 = [97; LF; LF] /\ trailing_lfs [97; LF] = 1.
Proof. vm_compute. auto. Qed.

(* indent_shape, fast_path_eq, from_width_roundtrip, indent_visual_width *)
Example ex_indent_tabs : indent_string true 4 8 3 0 = Some [LF; TAB; TAB; SP; SP; SP].
Proof. vm_compute. reflexivity. Qed.
Example ex_indent_spaces : indent_string false 4 8 3 1 = Some (repeat SP 11).
Proof. vm_compute. reflexivity. Qed.
Example ex_indent_long : indent_string false 4 80 4 1 = Some (repeat SP 84).   (* slow path *)
Proof. vm_compute. reflexivity. Qed.
Example ex_from_width : from_width true 4 11 = Some (MkIndent 8 3) /\ from_width false 4 11 = Some (MkIndent 11 0).
Proof. vm_compute. auto. Qed.
Example ex_unindent :
  indent_block_unindent 4 (MkIndent 2 3) = Some (MkIndent 2 0) /\
  indent_block_unindent 4 (MkIndent 8 3) = Some (MkIndent 4 3).
Proof. vm_compute. auto. Qed.
(* block_indent not a multiple of tab_spaces with hard tabs: columns are lost (why indent_visual_width needs it) *)
Example ex_indent_not_multiple : indent_string true 4 6 0 1 = Some [TAB].
Proof. vm_compute. reflexivity. Qed.

(* remove_trailing_ws_ok and the InString exception *)
Definition s_code : list (kind * char) :=
  [(Normal, 97); (Normal, SP); (Normal, TAB); (Normal, LF); (Normal, SP); (Normal, LF); (Normal, 98); (Normal, SP)].
Example ex_rtws_hyp : forall k, In (k, LF) s_code -> kind_is_instring k = false.
Proof.
  intros k H. cbn [In s_code] in H.
  repeat (destruct H as [H|H]; [try discriminate H; injection H as <-; reflexivity|]). destruct H.
Qed.
Example ex_rtws_code : remove_trailing_white_spaces s_code = [97; LF; LF; 98].
Proof. vm_compute. reflexivity. Qed.
Example ex_rtws_string :
  remove_trailing_white_spaces [(InString, 97); (InString, SP); (InString, LF); (InString, 98); (InString, SP)]
  = [97; SP; LF; 98].
Proof. vm_compute. reflexivity. Qed.
Example ex_rtws_line_hyp : no_lf_stream [(Normal, 97); (Normal, SP)].
Proof. repeat constructor; discriminate. Qed.
(* strip_trailing_ws_idem_nostring_partial: the constant classification is a reclass meeting the hypotheses *)
Definition reclass_normal (t : text) : list (kind * char) := map (fun c => (Normal, c)) t.
Example ex_reclass_hyps :
  (forall t, map snd (reclass_normal t) = t) /\
  (forall t k, In (k, LF) (reclass_normal t) -> kind_is_instring k = false).
Proof.
  split.
  - intros t. unfold reclass_normal. rewrite map_map. cbn [snd]. apply map_id.
  - intros t k H. unfold reclass_normal in H. apply in_map_iff in H. destruct H as (c & E & _).
    injection E as <- _. reflexivity.
Qed.

(* skip_empty_lines *)
Example ex_skip :
  skip_empty_lines [SP; LF; TAB; CR; LF; SP; 97; LF; LF] = [SP; 97; LF; LF] /\
  skip_empty_lines_pos [SP; LF; TAB; CR; LF; SP; 97; LF; LF] = 5.
Proof. vm_compute. auto. Qed.
Example ex_skip_all_blank : skip_empty_lines [SP; LF; SP] = [SP].
Proof. vm_compute. reflexivity. Qed.
