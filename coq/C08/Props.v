(* C08/Props.v — the property theorems of C08 (statements only; proofs in Lemmas.v).
   C08: "For every source that contains at least one token or comment, the emitted text ends with exactly one
   line terminator and does not start with a blank line; all of its line terminators follow newline_style (Unix:
   no CRLF; Windows: every LF preceded by CR; Auto: the style of the first terminator of the input file), and
   converting the style changes nothing but the terminators. Between consecutive items and between consecutive
   statements there are never more than blank_lines_upper_bound blank lines (and never more than one inside a
   field, variant, arm or argument list), and outside string literals, comments, skipped code and macro bodies
   that are copied verbatim every line is indented with spaces only (hard_tabs off) or with tabs followed only
   by alignment spaces (hard_tabs on)."
   Every statement is for all texts / all numbers (no bound).  The statements are about the text-level passes
   (newline_style.rs, the tail handling of formatting.rs, push_vertical_spaces, Indent, remove_trailing_white_spaces,
   skip_empty_lines); that the visitor routes every blank-line run and every indentation through them is not
   modelled here.  The clauses that are FALSE of the code as it stands are the ..._refuted theorems. *)
From V Require Import Base.Text C08.Model C08.Lemmas.
Local Open Scope N_scope.

(* ---- newline_style = Windows *)

(* Windows clause: in the converted text every LF is immediately preceded by CR *)
Theorem windows_ok : forall t : text, all_lf_after_cr (to_windows t).
Proof. exact windows_ok_lemma. Qed.
Print Assumptions windows_ok.

(* pass idempotence (used by C02): converting to Windows twice = once *)
Theorem to_windows_idem : forall t : text, to_windows (to_windows t) = to_windows t.
Proof. exact to_windows_idem_lemma. Qed.
Print Assumptions to_windows_idem.

(* "changes nothing but the terminators", Windows: equal after deleting every CR that precedes an LF *)
Theorem only_terminators_windows : forall t : text, strip_term (to_windows t) = strip_term t.
Proof. exact only_terminators_windows_lemma. Qed.
Print Assumptions only_terminators_windows.

(* ---- newline_style = Unix *)

(* str::replace(CR LF, LF) is rustc's normalize_newlines: it deletes exactly the CRs that precede an LF *)
Theorem to_unix_is_normalize : forall t : text, to_unix t = rustc_normalize t.
Proof. exact to_unix_eq_normalize. Qed.
Print Assumptions to_unix_is_normalize.

(* Unix clause (no CRLF in the output) is FALSE: CR CR LF becomes CR LF *)
Theorem unix_ok_refuted : exists t : text, ~ no_crlf (to_unix t).
Proof. exact unix_ok_refuted_lemma. Qed.
Print Assumptions unix_ok_refuted.

(* Unix clause for texts without CR CR LF; missing: texts containing CR CR LF *)
Theorem unix_ok_partial : forall t : text, no_cr_cr_lf t -> no_crlf (to_unix t).
Proof. exact unix_ok_partial_lemma. Qed.
Print Assumptions unix_ok_partial.

(* that class is exact *)
Theorem unix_ok_exact : forall t : text, no_crlf (to_unix t) <-> no_cr_cr_lf t.
Proof. exact unix_ok_iff_lemma. Qed.
Print Assumptions unix_ok_exact.

(* pass idempotence of to_unix is FALSE *)
Theorem to_unix_idem_refuted : exists t : text, to_unix (to_unix t) <> to_unix t.
Proof. exact to_unix_idem_refuted_lemma. Qed.
Print Assumptions to_unix_idem_refuted.

(* pass idempotence of to_unix without CR CR LF; missing: texts containing CR CR LF *)
Theorem to_unix_idem_partial : forall t : text, no_cr_cr_lf t -> to_unix (to_unix t) = to_unix t.
Proof. exact to_unix_idem_partial_lemma. Qed.
Print Assumptions to_unix_idem_partial.

(* exactly that class *)
Theorem to_unix_idem_exact : forall t : text, to_unix (to_unix t) = to_unix t <-> no_cr_cr_lf t.
Proof. exact to_unix_idem_iff_lemma. Qed.
Print Assumptions to_unix_idem_exact.

(* "changes nothing but the terminators", Unix, is FALSE (the CR that survives from CR CR LF becomes part of a terminator) *)
Theorem only_terminators_unix_refuted : exists t : text, strip_term (to_unix t) <> strip_term t.
Proof. exact only_terminators_unix_refuted_lemma. Qed.
Print Assumptions only_terminators_unix_refuted.

(* "changes nothing but the terminators", Unix, without CR CR LF; missing: texts containing CR CR LF *)
Theorem only_terminators_unix_partial : forall t : text, no_cr_cr_lf t -> strip_term (to_unix t) = strip_term t.
Proof. exact only_terminators_unix_partial_lemma. Qed.
Print Assumptions only_terminators_unix_partial.

(* converting Windows then Unix = converting to Unix (all texts) *)
Theorem unix_after_windows : forall t : text, to_unix (to_windows t) = to_unix t.
Proof. exact unix_after_windows_lemma. Qed.
Print Assumptions unix_after_windows.

(* ---- newline_style = Auto *)

(* auto_detect says Windows exactly when the first LF exists and is immediately preceded by CR *)
Theorem auto_first : forall t : text, auto_detect t = Windows <-> first_term_is_crlf t.
Proof. exact auto_first_lemma. Qed.
Print Assumptions auto_first.

(* the position-0 corner (saturating_sub makes the code inspect the LF itself) is harmless *)
Theorem auto_lf_first : forall t : text, auto_detect (LF :: t) = Unix.
Proof. exact auto_lf_first_lemma. Qed.
Print Assumptions auto_lf_first.

(* no LF at all: native style, Unix on this platform *)
Theorem auto_no_lf : forall t : text, ~ In LF t -> auto_detect t = Unix.
Proof. exact auto_no_lf_lemma. Qed.
Print Assumptions auto_no_lf.

(* Auto clause (style of the first terminator of the input FILE) is FALSE: detection runs on the text
   rustc has already normalised *)
Theorem auto_follows_input_refuted : exists raw : text, first_term_is_crlf raw /\ auto_style_seen raw = Unix.
Proof. exact auto_follows_input_refuted_lemma. Qed.
Print Assumptions auto_follows_input_refuted.

(* exactly when Auto resolves to Windows for a file: its first LF is preceded by CR CR *)
Theorem auto_seen_never_windows_on_crlf : forall raw : text,
  auto_style_seen raw = Windows <-> first_term_is_crcrlf raw.
Proof. exact auto_seen_lemma. Qed.
Print Assumptions auto_seen_never_windows_on_crlf.

(* every file whose first terminator is an ordinary CR LF (one CR) is seen as Unix ... *)
Theorem auto_seen_plain_crlf : forall pre post : text,
  ~ In LF pre -> (forall p', pre <> p' ++ [CR]) -> auto_style_seen (pre ++ CR :: LF :: post) = Unix.
Proof. exact auto_seen_plain_crlf_lemma. Qed.
Print Assumptions auto_seen_plain_crlf.

(* ... so with Auto its formatted text gets Unix terminators *)
Theorem auto_crlf_file_gets_unix : forall pre post formatted : text,
  ~ In LF pre -> (forall p', pre <> p' ++ [CR]) ->
  apply_to_file NSAuto formatted (pre ++ CR :: LF :: post) = to_unix formatted.
Proof. exact auto_crlf_file_gets_unix_lemma. Qed.
Print Assumptions auto_crlf_file_gets_unix.

(* apply_newline_style with Auto, on the text it is handed: follows that text's first terminator *)
Theorem apply_auto : forall formatted raw_seen : text,
  (first_term_is_crlf raw_seen -> apply_newline_style NSAuto formatted raw_seen = to_windows formatted) /\
  (~ first_term_is_crlf raw_seen -> apply_newline_style NSAuto formatted raw_seen = to_unix formatted).
Proof. exact apply_auto_lemma. Qed.
Print Assumptions apply_auto.

(* ---- the tail: exactly one final line terminator *)

(* text.len() - newline_count never underflows *)
Theorem truncate_no_underflow : forall t : text, newline_count t <= N.of_nat (length t).
Proof. exact truncate_no_underflow_lemma. Qed.
Print Assumptions truncate_no_underflow.

(* final-newline clause, guarded: if the scanner's count is 0 at the end of core (core is empty or its last
   non-CR char is not LF), then whatever number of LFs follows, the result is core plus one LF *)
Theorem one_final_newline : forall (core : text) (k : nat), newline_count core = 0 ->
  finish (core ++ repeat LF k) = core ++ [LF] /\ ends_with_one_lf (finish (core ++ repeat LF k)).
Proof. exact one_final_newline_lemma. Qed.
Print Assumptions one_final_newline.

(* in particular for every buffer without CR *)
Theorem one_final_newline_no_cr : forall buf : text, ~ In CR buf -> ends_with_one_lf (finish buf).
Proof. exact one_final_newline_no_cr_lemma. Qed.
Print Assumptions one_final_newline_no_cr.

(* final-newline clause for every buffer is FALSE: the scanner skips CR without resetting its count *)
Theorem one_final_newline_refuted : exists buf : text, ~ ends_with_one_lf (finish buf).
Proof. exact one_final_newline_refuted_lemma. Qed.
Print Assumptions one_final_newline_refuted.

(* the same after the style conversion: exactly one CR LF (Windows) / one LF (Unix) at the end *)
Theorem emit_tail : forall (core : text) (k : nat), newline_count core = 0 ->
  ends_with_one_crlf (to_windows (finish (core ++ repeat LF k))) /\
  ends_with_one_lf (to_unix (finish (core ++ repeat LF k))).
Proof. exact emit_tail_lemma. Qed.
Print Assumptions emit_tail.

(* pass idempotence of the truncation is FALSE in general *)
Theorem truncate_idem_refuted : exists t : text, truncate (truncate t) <> truncate t.
Proof. exact truncate_idem_refuted_lemma. Qed.
Print Assumptions truncate_idem_refuted.

(* pass idempotence of the truncation under the guard of one_final_newline; missing: texts whose final
   CR/LF run has a CR after an LF *)
Theorem truncate_idem_partial : forall (core : text) (k : nat), newline_count core = 0 ->
  truncate (truncate (core ++ repeat LF k)) = truncate (core ++ repeat LF k).
Proof. exact truncate_idem_partial_lemma. Qed.
Print Assumptions truncate_idem_partial.

(* the finished text is a fixed point of the truncation *)
Theorem finish_stable : forall (core : text) (k : nat), newline_count core = 0 ->
  truncate (finish (core ++ repeat LF k)) = finish (core ++ repeat LF k).
Proof. exact finish_stable_lemma. Qed.
Print Assumptions finish_stable.

(* ---- blank lines *)

(* blank-line clause: after push_vertical_spaces the run of newlines is within [lo+1, hi+1], unless the
   buffer already had more than hi+1 (then nothing is added) *)
Theorem clamp_bounds : forall lo hi offset n : N, lo <= hi ->
  let k := vspace lo hi offset n in
  (lo + 1 <= offset + k /\ offset + k <= hi + 1) \/ (hi + 1 < offset /\ k = 0).
Proof. exact clamp_bounds_lemma. Qed.
Print Assumptions clamp_bounds.

(* with blank_lines_lower_bound > blank_lines_upper_bound (not rejected by the config) it is FALSE *)
Theorem clamp_bounds_refuted : exists lo hi offset n : N,
  let k := vspace lo hi offset n in
  ~ ((lo + 1 <= offset + k /\ offset + k <= hi + 1) \/ (hi + 1 < offset /\ k = 0)).
Proof. exact clamp_bounds_refuted_lemma. Qed.
Print Assumptions clamp_bounds_refuted.

(* a request that is within the bounds is kept as it is *)
Theorem clamp_within : forall lo hi offset n : N,
  lo + 1 <= n + offset -> n + offset <= hi + 1 -> vspace lo hi offset n = n.
Proof. exact clamp_within_lemma. Qed.
Print Assumptions clamp_within.

(* pass idempotence: re-running on the result adds nothing *)
Theorem clamp_idem : forall lo hi offset n : N, lo <= hi ->
  vspace lo hi (offset + vspace lo hi offset n) 0 = 0.
Proof. exact clamp_idem_lemma. Qed.
Print Assumptions clamp_idem.

(* FALSE when lo > hi *)
Theorem clamp_idem_refuted : exists lo hi offset n : N,
  vspace lo hi (offset + vspace lo hi offset n) 0 <> 0.
Proof. exact clamp_idem_refuted_lemma. Qed.
Print Assumptions clamp_idem_refuted.

(* the same two facts on the buffer *)
Theorem push_vspace_bounds : forall (lo hi : N) (buf : text) (n : N), lo <= hi ->
  let out := push_vertical_spaces lo hi buf n in
  (lo + 1 <= trailing_lfs out /\ trailing_lfs out <= hi + 1) \/ (hi + 1 < trailing_lfs buf /\ out = buf).
Proof. exact push_vspace_bounds_lemma. Qed.
Print Assumptions push_vspace_bounds.

Theorem push_vspace_idem : forall (lo hi : N) (buf : text) (n : N), lo <= hi ->
  push_vertical_spaces lo hi (push_vertical_spaces lo hi buf n) 0 = push_vertical_spaces lo hi buf n.
Proof. exact push_vspace_idem_lemma. Qed.
Print Assumptions push_vspace_idem.

(* ---- indentation *)

(* indentation clause: spaces only (hard_tabs off), tabs then alignment spaces (hard_tabs on); offset 0
   (to_string_with_newline) puts one LF in front, offset 1 (to_string) nothing *)
Theorem indent_shape : forall (hard_tabs : bool) (tab_spaces block align offset : N),
  offset <= 1 -> (hard_tabs = true -> 0 < tab_spaces) ->
  indent_string hard_tabs tab_spaces block align offset =
  Some ((if offset =? 0 then [LF] else [])
        ++ (if hard_tabs
            then repeat TAB (N.to_nat (block / tab_spaces)) ++ repeat SP (N.to_nat align)
            else repeat SP (N.to_nat (block + align)))).
Proof. exact indent_shape_lemma. Qed.
Print Assumptions indent_shape.

(* the INDENT_BUFFER fast path gives what the allocating path gives (offsets 0 and 1, the only ones passed) *)
Theorem fast_path_eq : forall (hard_tabs : bool) (tab_spaces block align offset : N),
  offset <= 1 -> (hard_tabs = true -> 0 < tab_spaces) ->
  indent_string hard_tabs tab_spaces block align offset =
  Some (indent_slow offset (if hard_tabs then block / tab_spaces else 0)
                           (if hard_tabs then align else block + align)).
Proof. exact fast_path_eq_lemma. Qed.
Print Assumptions fast_path_eq.

(* for an offset of 2 or more (never passed by to_string / to_string_with_newline) the two paths differ *)
Theorem fast_path_offset2_refuted : exists (hard_tabs : bool) (tab_spaces block align offset : N),
  0 < tab_spaces /\
  indent_string hard_tabs tab_spaces block align offset <>
  Some (indent_slow offset (if hard_tabs then block / tab_spaces else 0)
                           (if hard_tabs then align else block + align)).
Proof. exact fast_path_offset2_refuted_lemma. Qed.
Print Assumptions fast_path_offset2_refuted.

(* from_width keeps the width; with hard tabs block_indent is a multiple of tab_spaces and alignment < tab_spaces *)
Theorem from_width_roundtrip : forall (hard_tabs : bool) (tab_spaces w : N), 0 < tab_spaces ->
  exists i, from_width hard_tabs tab_spaces w = Some i /\ indent_width i = w
            /\ (hard_tabs = true -> (block_indent i) mod tab_spaces = 0 /\ alignment i < tab_spaces).
Proof. exact from_width_roundtrip_lemma. Qed.
Print Assumptions from_width_roundtrip.

(* block_unindent never underflows and never widens *)
Theorem block_unindent_total : forall (tab_spaces : N) (i : indent),
  exists i', indent_block_unindent tab_spaces i = Some i' /\ indent_width i' <= indent_width i.
Proof. exact block_unindent_total_lemma. Qed.
Print Assumptions block_unindent_total.

(* block_unindent undoes block_indent *)
Theorem block_unindent_indent : forall (tab_spaces : N) (i : indent),
  indent_block_unindent tab_spaces (indent_block_indent tab_spaces i) = Some i.
Proof. exact block_unindent_indent_lemma. Qed.
Print Assumptions block_unindent_indent.

(* the string occupies block + alignment columns (a tab = tab_spaces columns) when block is a multiple of tab_spaces *)
Theorem indent_visual_width : forall (hard_tabs : bool) (tab_spaces block align : N),
  0 < tab_spaces -> (hard_tabs = true -> block mod tab_spaces = 0) ->
  exists s, indent_string hard_tabs tab_spaces block align 1 = Some s /\
            visual_width tab_spaces s = block + align.
Proof. exact indent_visual_width_lemma. Qed.
Print Assumptions indent_visual_width.

(* ---- trailing whitespace *)

(* no LF of the output follows a blank, provided no LF of the stream is of kind InString *)
Theorem remove_trailing_ws_ok : forall s : list (kind * char),
  (forall k, In (k, LF) s -> kind_is_instring k = false) ->
  no_trailing_ws (remove_trailing_white_spaces s).
Proof. exact remove_trailing_ws_ok_lemma. Qed.
Print Assumptions remove_trailing_ws_ok.

(* line by line, every stream: a line whose LF is InString is copied, any other line loses its trailing blanks *)
Theorem remove_trailing_ws_line : forall (l : list (kind * char)) (k : kind) (rest : list (kind * char)),
  no_lf_stream l ->
  remove_trailing_white_spaces (l ++ (k, LF) :: rest) =
  (if kind_is_instring k then map snd l else trim_end (map snd l))
  ++ LF :: remove_trailing_white_spaces rest.
Proof. exact rtws_line_lemma. Qed.
Print Assumptions remove_trailing_ws_line.

(* the unterminated last line loses its trailing blanks whatever their kind *)
Theorem remove_trailing_ws_last : forall l : list (kind * char),
  no_lf_stream l -> remove_trailing_white_spaces l = trim_end (map snd l).
Proof. exact rtws_last_lemma. Qed.
Print Assumptions remove_trailing_ws_last.

(* pass idempotence when every surviving char keeps its kind (rtws_kinded = the same loop on (kind, char),
   its chars are those of remove_trailing_white_spaces); missing: CharClasses re-classifying the output *)
Theorem strip_trailing_ws_idem_partial : forall s : list (kind * char),
  map snd (rtws_kinded s) = remove_trailing_white_spaces s /\
  rtws_kinded (rtws_kinded s) = rtws_kinded s.
Proof. exact strip_trailing_ws_idem_kinded_lemma. Qed.
Print Assumptions strip_trailing_ws_idem_partial.

(* pass idempotence at char level for ANY re-classification that keeps the chars, when neither
   classification has an InString LF; missing: texts with multi-line string literals *)
Theorem strip_trailing_ws_idem_nostring_partial :
  forall (s : list (kind * char)) (reclass : text -> list (kind * char)),
  (forall t, map snd (reclass t) = t) ->
  (forall t k, In (k, LF) (reclass t) -> kind_is_instring k = false) ->
  (forall k, In (k, LF) s -> kind_is_instring k = false) ->
  remove_trailing_white_spaces (reclass (remove_trailing_white_spaces s)) = remove_trailing_white_spaces s.
Proof. exact rtws_idem_nostring_lemma. Qed.
Print Assumptions strip_trailing_ws_idem_nostring_partial.

(* ---- leading blank lines *)

(* "does not start with a blank line": skip_empty_lines removes a prefix made of whole whitespace-only
   lines, and what is left has no LF at all or a first line that is not blank *)
Theorem skip_empty_lines_spec : forall t : text,
  exists pre, t = pre ++ skip_empty_lines t /\ all_ws pre
              /\ (pre = [] \/ exists p', pre = p' ++ [LF])
              /\ skip_stop (skip_empty_lines t).
Proof. exact skip_empty_lines_spec_lemma. Qed.
Print Assumptions skip_empty_lines_spec.

(* pass idempotence *)
Theorem skip_empty_lines_idem : forall t : text,
  skip_empty_lines (skip_empty_lines t) = skip_empty_lines t.
Proof. exact skip_empty_lines_idem_lemma. Qed.
Print Assumptions skip_empty_lines_idem.
