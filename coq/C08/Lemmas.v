(* C08/Lemmas.v — proofs about the model of C08/Model.v *)
From V Require Import Base.Text C08.Model.
Open Scope N_scope.
Arguments N.add : simpl never.
Arguments N.sub : simpl never.
Arguments N.mul : simpl never.
Arguments N.ltb : simpl never.
Arguments N.leb : simpl never.
Arguments N.eqb : simpl never.

(* ------------------------------------------------------------------ *)
(* chars *)

Lemma is_lf_spec c : reflect (c = LF) (is_lf c).
Proof. unfold is_lf. apply N.eqb_spec. Qed.
Lemma is_cr_spec c : reflect (c = CR) (is_cr c).
Proof. unfold is_cr. apply N.eqb_spec. Qed.
Lemma is_lf_LF : is_lf LF = true. Proof. reflexivity. Qed.
Lemma is_cr_CR : is_cr CR = true. Proof. reflexivity. Qed.
Lemma is_lf_CR : is_lf CR = false. Proof. reflexivity. Qed.
Lemma is_cr_LF : is_cr LF = false. Proof. reflexivity. Qed.
Lemma CR_neq_LF : CR <> LF. Proof. discriminate. Qed.
Lemma ws_LF : is_whitespace LF = true. Proof. reflexivity. Qed.
Lemma nonws_not_lf c : is_whitespace c = false -> is_lf c = false.
Proof. intros H. destruct (is_lf_spec c) as [->|]; [discriminate H|reflexivity]. Qed.

Ltac case_lf c := destruct (is_lf_spec c) as [->|].
Ltac case_cr c := destruct (is_cr_spec c) as [->|].

(* ------------------------------------------------------------------ *)
(* generic list facts *)

Lemma repeat_snoc {A} (x : A) n : repeat x n ++ [x] = x :: repeat x n.
Proof. induction n as [|n IH]; cbn [repeat app]; [reflexivity|]. rewrite IH. reflexivity. Qed.

Lemma rev_repeat {A} (x : A) n : rev (repeat x n) = repeat x n.
Proof.
  induction n as [|n IH]; cbn [repeat rev]; [reflexivity|].
  rewrite IH. apply repeat_snoc.
Qed.

Lemma firstn_repeat {A} (x : A) n m : (n <= m)%nat -> firstn n (repeat x m) = repeat x n.
Proof.
  revert m; induction n as [|n IH]; intros m Hm; [reflexivity|].
  destruct m as [|m]; [lia|]. cbn [repeat firstn]. rewrite IH by lia. reflexivity.
Qed.

Lemma app_snoc_inj {A} (a b : list A) x y : a ++ [x] = b ++ [y] -> a = b /\ x = y.
Proof. intros H. apply app_inj_tail in H. exact H. Qed.

(* the first LF of a text is unique *)
Lemma first_lf_unique (p1 p2 s1 s2 : text) :
  p1 ++ LF :: s1 = p2 ++ LF :: s2 -> ~ In LF p1 -> ~ In LF p2 -> p1 = p2 /\ s1 = s2.
Proof.
  revert p2; induction p1 as [|x p1 IH]; intros [|y p2] H H1 H2; cbn [app] in H.
  - inversion H; auto.
  - inversion H as [[Hy Hs]]. exfalso. apply H2. left. symmetry. exact Hy.
  - inversion H as [[Hx Hs]]. exfalso. apply H1. left. exact Hx.
  - inversion H as [[Hx Hs]]. destruct (IH p2 Hs) as [-> ->].
    + intros Hi; apply H1; right; exact Hi.
    + intros Hi; apply H2; right; exact Hi.
    + auto.
Qed.

Lemma first_lf_split (t : text) : In LF t -> exists pre post, t = pre ++ LF :: post /\ ~ In LF pre.
Proof.
  induction t as [|c t IH]; intros Hin; [destruct Hin|].
  case_lf c.
  - exists [], t. split; [reflexivity|intros []].
  - destruct Hin as [Hc|Hin]; [congruence|].
    destruct (IH Hin) as (pre & post & -> & Hn).
    exists (c :: pre), post. split; [reflexivity|].
    intros [Hc|Hi]; [congruence|exact (Hn Hi)].
Qed.

(* ------------------------------------------------------------------ *)
(* 1. newline styles *)

(* --- rustc_normalize, unfolding equations *)
Lemma rn_nil : rustc_normalize [] = [].
Proof. reflexivity. Qed.
Lemma rn_single c : rustc_normalize [c] = [c].
Proof. reflexivity. Qed.
Lemma rn_cons2 c d t :
  rustc_normalize (c :: d :: t) =
  if is_cr c && is_lf d then rustc_normalize (d :: t) else c :: rustc_normalize (d :: t).
Proof. reflexivity. Qed.
Lemma rn_cons_noncr c t : is_cr c = false -> rustc_normalize (c :: t) = c :: rustc_normalize t.
Proof. intros H. destruct t as [|d t]; [reflexivity|]. rewrite rn_cons2, H. reflexivity. Qed.
Lemma rn_lf t : rustc_normalize (LF :: t) = LF :: rustc_normalize t.
Proof. apply rn_cons_noncr. reflexivity. Qed.
Lemma rn_cr_lf t : rustc_normalize (CR :: LF :: t) = LF :: rustc_normalize t.
Proof. rewrite rn_cons2. change (is_cr CR && is_lf LF) with true. cbv iota. apply rn_lf. Qed.
Lemma rn_cons_nolf c d t : is_lf d = false ->
  rustc_normalize (c :: d :: t) = c :: rustc_normalize (d :: t).
Proof. intros H. rewrite rn_cons2, H, andb_false_r. reflexivity. Qed.

Lemma to_unix_cons2 c d t :
  to_unix (c :: d :: t) =
  if is_cr c then (if is_lf d then LF :: to_unix t else c :: to_unix (d :: t)) else c :: to_unix (d :: t).
Proof. reflexivity. Qed.

(* induction two at a time *)
Lemma list_ind2 (P : text -> Prop) :
  P [] -> (forall c, P [c]) -> (forall c d t, P t -> P (d :: t) -> P (c :: d :: t)) -> forall t, P t.
Proof.
  intros H0 H1 H2 t. assert (H : P t /\ forall c, P (c :: t)); [|exact (proj1 H)].
  induction t as [|d t [IHa IHb]]; split; auto.
Qed.

(* str::replace(CRLF, LF) deletes exactly the CRs that precede an LF *)
Lemma to_unix_eq_normalize t : to_unix t = rustc_normalize t.
Proof.
  induction t as [| c | c d t IH1 IH2] using list_ind2; [reflexivity|cbn; destruct (is_cr c); reflexivity|].
  rewrite to_unix_cons2, rn_cons2.
  destruct (is_cr c) eqn:Hc; cbn [andb].
  - destruct (is_lf_spec d) as [->|Hd].
    + rewrite rn_lf, IH1. reflexivity.
    + rewrite IH2. reflexivity.
  - rewrite IH2. reflexivity.
Qed.

Lemma rn_incl t x : In x (rustc_normalize t) -> In x t.
Proof.
  induction t as [|c t IH]; [intros []|].
  destruct t as [|d t]; [exact (fun H => H)|].
  rewrite rn_cons2. destruct (is_cr c && is_lf d).
  - intros H. right. exact (IH H).
  - intros [H|H]; [left; exact H|right; exact (IH H)].
Qed.

Lemma rn_length t : (length (rustc_normalize t) <= length t)%nat.
Proof.
  induction t as [|c t IH]; [apply le_n|].
  destruct t as [|d t]; [apply le_n|].
  rewrite rn_cons2. destruct (is_cr c && is_lf d); cbn [length] in *; lia.
Qed.

(* --- boolean forms of the predicates *)
Fixpoint has_crlf (t : text) : bool :=
  match t with
  | c :: t' => match t' with d :: _ => (is_cr c && is_lf d) || has_crlf t' | [] => false end
  | [] => false
  end.
Fixpoint has_ccl (t : text) : bool :=
  match t with
  | c :: t' => match t' with
               | d :: e :: _ => (is_cr c && is_cr d && is_lf e) || has_ccl t'
               | _ => false
               end
  | [] => false
  end.

Lemma has_crlf_cons2 c d t : has_crlf (c :: d :: t) = (is_cr c && is_lf d) || has_crlf (d :: t).
Proof. reflexivity. Qed.
Lemma has_ccl_cons3 c d e t :
  has_ccl (c :: d :: e :: t) = (is_cr c && is_cr d && is_lf e) || has_ccl (d :: e :: t).
Proof. reflexivity. Qed.
Lemma has_crlf_cons_noncr c t : is_cr c = false -> has_crlf (c :: t) = has_crlf t.
Proof. intros H. destruct t as [|d t]; [reflexivity|]. rewrite has_crlf_cons2, H. reflexivity. Qed.
Lemma has_ccl_cons_noncr c t : is_cr c = false -> has_ccl (c :: t) = has_ccl t.
Proof.
  intros H. destruct t as [|d [|e t]]; [reflexivity|reflexivity|]. rewrite has_ccl_cons3, H. reflexivity.
Qed.

Lemma no_crlf_tail c t : no_crlf (c :: t) -> no_crlf t.
Proof. intros H i Hi. exact (H (S i) Hi). Qed.
Lemma no_ccl_tail c t : no_cr_cr_lf (c :: t) -> no_cr_cr_lf t.
Proof. intros H i Hi Hj. exact (H (S i) Hi Hj). Qed.

Lemma has_crlf_spec t : has_crlf t = false <-> no_crlf t.
Proof.
  induction t as [|c t IH].
  - split; [intros _ [|i] Hi; discriminate Hi|reflexivity].
  - destruct t as [|d t].
    + split; [|reflexivity]. intros _ [|[|i]] Hi; cbn in *; congruence.
    + rewrite has_crlf_cons2, orb_false_iff, IH. split.
      * intros [Hh Ht] [|i] Hi.
        -- cbn in Hi |- *. injection Hi as ->. intros Hd. injection Hd as ->. discriminate Hh.
        -- exact (Ht i Hi).
      * intros H. split; [|exact (no_crlf_tail _ _ H)].
        case_cr c; [|reflexivity]. case_lf d; [|reflexivity].
        exfalso. exact (H 0%nat eq_refl eq_refl).
Qed.

Lemma has_ccl_spec t : has_ccl t = false <-> no_cr_cr_lf t.
Proof.
  induction t as [|c t IH].
  - split; [intros _ [|i] Hi; discriminate Hi|reflexivity].
  - destruct t as [|d [|e t]].
    + split; [|reflexivity]. intros _ [|[|i]] Hi Hj; cbn in *; congruence.
    + split; [|reflexivity]. intros _ [|[|[|i]]] Hi Hj; cbn in *; congruence.
    + rewrite has_ccl_cons3, orb_false_iff, IH. split.
      * intros [Hh Ht] [|i] Hi Hj.
        -- cbn in Hi, Hj |- *. injection Hi as ->. injection Hj as ->.
           intros He. injection He as ->. discriminate Hh.
        -- exact (Ht i Hi Hj).
      * intros H. split; [|exact (no_ccl_tail _ _ H)].
        case_cr c; [|reflexivity]. case_cr d; [|reflexivity]. case_lf e; [|reflexivity].
        exfalso. exact (H 0%nat eq_refl eq_refl eq_refl).
Qed.

(* --- fixed points of the normalisation *)
Lemma rn_fix t : has_crlf t = false -> rustc_normalize t = t.
Proof.
  induction t as [|c t IH]; [reflexivity|].
  destruct t as [|d t]; [reflexivity|].
  rewrite has_crlf_cons2, orb_false_iff. intros [Hh Ht].
  rewrite rn_cons2, Hh, (IH Ht). reflexivity.
Qed.

Lemma rn_shrinks t : has_crlf t = true -> (length (rustc_normalize t) < length t)%nat.
Proof.
  induction t as [|c t IH]; [discriminate|].
  destruct t as [|d t]; [discriminate|].
  rewrite has_crlf_cons2, rn_cons2. destruct (is_cr c && is_lf d); cbn [orb].
  - intros _. pose proof (rn_length (d :: t)). cbn [length] in *. lia.
  - intros H. specialize (IH H). cbn [length] in *. lia.
Qed.

Lemma rn_fix_iff t : rustc_normalize t = t <-> has_crlf t = false.
Proof.
  split; [|apply rn_fix]. intros H. destruct (has_crlf t) eqn:E; [|reflexivity].
  apply rn_shrinks in E. rewrite H in E. lia.
Qed.

(* head of a normalised text *)
Lemma rn_head_lf d t :
  is_lf d = false ->
  match rustc_normalize (d :: t) with
  | x :: _ => is_lf x = is_cr d && match t with e :: _ => is_lf e | [] => false end
  | [] => False
  end.
Proof.
  intros Hd. destruct t as [|e t].
  - cbn. rewrite Hd, andb_false_r. reflexivity.
  - rewrite rn_cons2. destruct (is_cr d) eqn:Hc; cbn [andb].
    + case_lf e.
      * rewrite rn_lf. reflexivity.
      * exact Hd.
    + exact Hd.
Qed.

(* the output of to_unix contains CR LF exactly when the input contains CR CR LF *)
Lemma has_crlf_rn t : has_crlf (rustc_normalize t) = has_ccl t.
Proof.
  induction t as [| c | c d t IH1 IH2] using list_ind2; [reflexivity|reflexivity|].
  destruct (is_cr_spec c) as [->|Hc].
  - destruct (is_lf_spec d) as [->|Hd].
    + rewrite rn_cr_lf, has_crlf_cons_noncr by reflexivity.
      rewrite IH1. destruct t as [|e t]; [reflexivity|].
      rewrite has_ccl_cons3. change (is_cr CR) with true. change (is_cr LF) with false.
      cbn [andb orb]. rewrite (has_ccl_cons_noncr LF) by reflexivity. reflexivity.
    + assert (Hd' : is_lf d = false) by (destruct (is_lf_spec d); [contradiction|reflexivity]).
      rewrite rn_cons_nolf by exact Hd'.
      pose proof (rn_head_lf d t Hd') as Hh.
      destruct (rustc_normalize (d :: t)) as [|x r] eqn:E; [destruct Hh|].
      rewrite has_crlf_cons2, IH2, Hh. change (is_cr CR) with true. cbn [andb].
      destruct t as [|e t].
      * rewrite andb_false_r. reflexivity.
      * rewrite has_ccl_cons3. change (is_cr CR) with true. cbn [andb]. reflexivity.
  - assert (Hc' : is_cr c = false) by (destruct (is_cr_spec c); [contradiction|reflexivity]).
    rewrite rn_cons_noncr, has_crlf_cons_noncr, has_ccl_cons_noncr by exact Hc'. exact IH2.
Qed.

(* --- Unix *)
Lemma unix_ok_iff_lemma t : no_crlf (to_unix t) <-> no_cr_cr_lf t.
Proof. rewrite to_unix_eq_normalize, <- has_crlf_spec, <- has_ccl_spec, has_crlf_rn. reflexivity. Qed.

Lemma unix_ok_partial_lemma t : no_cr_cr_lf t -> no_crlf (to_unix t).
Proof. apply unix_ok_iff_lemma. Qed.

Lemma to_unix_idem_iff_lemma t : to_unix (to_unix t) = to_unix t <-> no_cr_cr_lf t.
Proof.
  rewrite !to_unix_eq_normalize, rn_fix_iff, has_crlf_rn. apply has_ccl_spec.
Qed.

Lemma to_unix_idem_partial_lemma t : no_cr_cr_lf t -> to_unix (to_unix t) = to_unix t.
Proof. apply to_unix_idem_iff_lemma. Qed.

Lemma to_unix_fix_lemma t : to_unix t = t <-> no_crlf t.
Proof. rewrite to_unix_eq_normalize, rn_fix_iff. apply has_crlf_spec. Qed.

Lemma only_terminators_unix_iff_lemma t : strip_term (to_unix t) = strip_term t <-> no_cr_cr_lf t.
Proof.
  unfold strip_term. rewrite to_unix_eq_normalize, rn_fix_iff, has_crlf_rn. apply has_ccl_spec.
Qed.

Lemma only_terminators_unix_partial_lemma t : no_cr_cr_lf t -> strip_term (to_unix t) = strip_term t.
Proof. apply only_terminators_unix_iff_lemma. Qed.

Definition w_crcrlf : text := [CR; CR; LF].

Lemma unix_ok_refuted_lemma : exists t, ~ no_crlf (to_unix t).
Proof.
  exists w_crcrlf. rewrite <- has_crlf_spec. vm_compute. discriminate.
Qed.

Lemma to_unix_idem_refuted_lemma : exists t, to_unix (to_unix t) <> to_unix t.
Proof. exists w_crcrlf. vm_compute. discriminate. Qed.

Lemma only_terminators_unix_refuted_lemma : exists t, strip_term (to_unix t) <> strip_term t.
Proof. exists w_crcrlf. vm_compute. discriminate. Qed.

(* --- Windows *)
(* replace every LF by CR LF *)
Fixpoint expand (u : text) : text :=
  match u with
  | [] => []
  | c :: u' => if is_lf c then CR :: LF :: expand u' else c :: expand u'
  end.

Lemma to_windows_cons2 c d t :
  to_windows (c :: d :: t) =
  if is_lf c then CR :: LF :: to_windows (d :: t)
  else if is_cr c then (if is_lf d then to_windows (d :: t) else c :: to_windows (d :: t))
  else c :: to_windows (d :: t).
Proof. reflexivity. Qed.

Lemma to_windows_expand t : to_windows t = expand (rustc_normalize t).
Proof.
  induction t as [|c t IH]; [reflexivity|].
  destruct t as [|d t].
  - cbn. destruct (is_lf c); [reflexivity|]. destruct (is_cr c); reflexivity.
  - rewrite to_windows_cons2, rn_cons2, IH.
    destruct (is_lf_spec c) as [->|Hc].
    + change (is_cr LF) with false. cbn [andb]. reflexivity.
    + assert (Hc' : is_lf c = false) by (destruct (is_lf_spec c); [contradiction|reflexivity]).
      destruct (is_cr c); cbn [andb].
      * destruct (is_lf d); [reflexivity|]. cbn [expand]. rewrite Hc'. reflexivity.
      * cbn [expand]. rewrite Hc'. reflexivity.
Qed.

Lemma expand_head_not_lf u : match expand u with x :: _ => is_lf x = false | [] => True end.
Proof.
  destruct u as [|c u]; [exact I|]. cbn [expand]. destruct (is_lf c) eqn:E; [reflexivity|exact E].
Qed.

Lemma rn_expand u : rustc_normalize (expand u) = u.
Proof.
  induction u as [|c u IH]; [reflexivity|]. cbn [expand].
  destruct (is_lf_spec c) as [->|Hc].
  - rewrite rn_cr_lf, IH. reflexivity.
  - pose proof (expand_head_not_lf u) as Hh.
    destruct (expand u) as [|x r] eqn:E.
    + rewrite rn_single. rewrite rn_nil in IH. rewrite <- IH. reflexivity.
    + rewrite rn_cons_nolf by exact Hh. rewrite IH. reflexivity.
Qed.

Fixpoint lf_ok (prev_cr : bool) (t : text) : bool :=
  match t with
  | [] => true
  | c :: t' => (if is_lf c then prev_cr else true) && lf_ok (is_cr c) t'
  end.

Lemma lf_ok_expand p u : lf_ok p (expand u) = true.
Proof.
  revert p; induction u as [|c u IH]; intros p; [reflexivity|]. cbn [expand].
  destruct (is_lf c) eqn:E.
  - cbn [lf_ok]. change (is_lf CR) with false. change (is_cr CR) with true.
    change (is_lf LF) with true. cbn [andb]. apply IH.
  - cbn [lf_ok]. rewrite E. cbn [andb]. apply IH.
Qed.

Lemma lf_ok_sound p t : lf_ok p t = true ->
  forall i, nth_error t i = Some LF ->
  match i with O => p = true | S j => nth_error t j = Some CR end.
Proof.
  revert p; induction t as [|c t IH]; intros p H i Hi.
  - destruct i; discriminate Hi.
  - cbn [lf_ok] in H. apply andb_true_iff in H. destruct H as [Hh Ht].
    destruct i as [|i].
    + cbn in Hi. injection Hi as ->. exact Hh.
    + cbn [nth_error] in Hi. specialize (IH _ Ht i Hi). destruct i as [|j].
      * cbn. case_cr c; [reflexivity|discriminate IH].
      * exact IH.
Qed.

Lemma lf_ok_all t : lf_ok false t = true -> all_lf_after_cr t.
Proof.
  intros H i Hi. pose proof (lf_ok_sound _ _ H i Hi) as Hs.
  destruct i as [|j]; [discriminate Hs|]. exists j. auto.
Qed.

Lemma windows_ok_lemma t : all_lf_after_cr (to_windows t).
Proof. apply lf_ok_all. rewrite to_windows_expand. apply lf_ok_expand. Qed.

Lemma to_windows_idem_lemma t : to_windows (to_windows t) = to_windows t.
Proof. rewrite (to_windows_expand (to_windows t)), to_windows_expand, rn_expand. reflexivity. Qed.

Lemma only_terminators_windows_lemma t : strip_term (to_windows t) = strip_term t.
Proof. unfold strip_term. rewrite to_windows_expand. apply rn_expand. Qed.

(* converting in either order: the last conversion wins, up to the CR CR LF class *)
Lemma windows_after_unix_lemma t : no_cr_cr_lf t -> to_windows (to_unix t) = to_windows t.
Proof.
  intros H. rewrite !to_windows_expand. f_equal.
  apply (only_terminators_unix_partial_lemma t H).
Qed.
Lemma unix_after_windows_lemma t : to_unix (to_windows t) = to_unix t.
Proof. rewrite !to_unix_eq_normalize. apply (only_terminators_windows_lemma t). Qed.

(* ------------------------------------------------------------------ *)
(* Auto detection *)

Lemma position_lf_app pre post : ~ In LF pre -> position_lf (pre ++ LF :: post) = Some (length pre).
Proof.
  induction pre as [|c pre IH]; intros Hn; [reflexivity|].
  cbn [app position_lf length]. case_lf c.
  - exfalso. apply Hn. left. reflexivity.
  - rewrite IH; [reflexivity|]. intros Hi. apply Hn. right. exact Hi.
Qed.

Lemma position_lf_none t : position_lf t = None -> ~ In LF t.
Proof.
  induction t as [|c t IH]; intros H; [intros []|].
  cbn [position_lf] in H. case_lf c; [discriminate H|].
  destruct (position_lf t); [discriminate H|].
  intros [Hc|Hi]; [congruence|exact (IH eq_refl Hi)].
Qed.

Lemma position_lf_some t p : position_lf t = Some p ->
  exists pre post, t = pre ++ LF :: post /\ ~ In LF pre /\ length pre = p.
Proof.
  intros H. assert (Hin : In LF t).
  { destruct (in_dec N.eq_dec LF t) as [Hi|Hn]; [exact Hi|].
    exfalso. clear -H Hn. revert p H; induction t as [|c t IH]; intros p H; [discriminate H|].
    cbn [position_lf] in H. case_lf c; [apply Hn; left; reflexivity|].
    destruct (position_lf t) as [q|]; [|discriminate H].
    apply (IH (fun Hi => Hn (or_intror Hi)) q eq_refl). }
  destruct (first_lf_split t Hin) as (pre & post & -> & Hn).
  exists pre, post. rewrite position_lf_app in H by exact Hn. injection H as <-. auto.
Qed.

Lemma auto_detect_app pre post : ~ In LF pre ->
  auto_detect (pre ++ LF :: post) =
  match rev pre with c :: _ => if is_cr c then Windows else Unix | [] => Unix end.
Proof.
  intros Hn. unfold auto_detect. rewrite position_lf_app by exact Hn.
  destruct pre as [|x pre'] using rev_ind.
  - reflexivity.
  - clear IHpre'. rewrite rev_app_distr. cbn [rev app]. rewrite app_length. cbn [length].
    replace (length pre' + 1 - 1)%nat with (length pre') by lia.
    rewrite <- app_assoc. rewrite nth_error_app2 by lia. rewrite Nat.sub_diag. reflexivity.
Qed.

Lemma auto_first_lemma t : auto_detect t = Windows <-> first_term_is_crlf t.
Proof.
  split.
  - intros H. destruct (position_lf t) as [p|] eqn:Hp.
    + destruct (position_lf_some t p Hp) as (pre & post & -> & Hn & _).
      rewrite auto_detect_app in H by exact Hn.
      destruct pre as [|x pre'] using rev_ind; [discriminate H|]. clear IHpre'.
      rewrite rev_app_distr in H. cbn [rev app] in H.
      case_cr x; [|discriminate H].
      exists pre', post. rewrite <- app_assoc. split; [reflexivity|].
      intros Hi. apply Hn. apply in_or_app. left. exact Hi.
    + unfold auto_detect in H. rewrite Hp in H. discriminate H.
  - intros (pre & post & -> & Hn).
    change (pre ++ CR :: LF :: post) with (pre ++ [CR] ++ LF :: post). rewrite app_assoc.
    rewrite auto_detect_app.
    + rewrite rev_app_distr. reflexivity.
    + intros Hi. apply in_app_or in Hi. destruct Hi as [Hi|[Hi|[]]]; [exact (Hn Hi)|discriminate Hi].
Qed.

(* position 0: an LF at index 0 makes the code inspect index 0 itself, which is the LF *)
Lemma auto_lf_first_lemma t : auto_detect (LF :: t) = Unix.
Proof. reflexivity. Qed.

Lemma auto_no_lf_lemma t : ~ In LF t -> auto_detect t = Unix.
Proof.
  intros Hn. destruct (auto_detect t) eqn:E; [|reflexivity].
  apply auto_first_lemma in E. destruct E as (pre & post & -> & _).
  exfalso. apply Hn. apply in_or_app. right. right. left. reflexivity.
Qed.

(* drop one final CR *)
Fixpoint dlc (p : text) : text :=
  match p with
  | [] => []
  | c :: p' => match p' with [] => if is_cr c then [] else [c] | _ :: _ => c :: dlc p' end
  end.

Lemma dlc_cons2 c d p : dlc (c :: d :: p) = c :: dlc (d :: p).
Proof. reflexivity. Qed.

Lemma rn_first_lf p q : ~ In LF p ->
  rustc_normalize (p ++ LF :: q) = dlc p ++ LF :: rustc_normalize q.
Proof.
  induction p as [|c p IH]; intros Hn.
  - apply rn_lf.
  - destruct p as [|d p].
    + cbn [app dlc]. rewrite rn_cons2. change (is_lf LF) with true. rewrite andb_true_r.
      rewrite rn_lf. destruct (is_cr c); reflexivity.
    + rewrite dlc_cons2. cbn [app]. rewrite rn_cons_nolf.
      * change (d :: p ++ LF :: q) with ((d :: p) ++ LF :: q). rewrite IH; [reflexivity|].
        intros Hi. apply Hn. right. exact Hi.
      * case_lf d; [|reflexivity]. exfalso. apply Hn. right. left. reflexivity.
Qed.

Lemma dlc_incl p x : In x (dlc p) -> In x p.
Proof.
  induction p as [|c p IH]; [intros []|].
  destruct p as [|d p].
  - cbn [dlc]. destruct (is_cr c); [intros []|exact (fun H => H)].
  - rewrite dlc_cons2. intros [H|H]; [left; exact H|right; exact (IH H)].
Qed.

Lemma dlc_snoc2 pre x : dlc (pre ++ [x; CR]) = pre ++ [x].
Proof.
  induction pre as [|c pre IH]; [reflexivity|].
  cbn [app]. destruct (pre ++ [x; CR]) as [|d r] eqn:E.
  - destruct pre; discriminate E.
  - rewrite dlc_cons2, IH. reflexivity.
Qed.

Lemma dlc_ends_cr p pre : dlc p = pre ++ [CR] -> p = pre ++ [CR; CR].
Proof.
  revert pre; induction p as [|c p IH]; intros pre H.
  - destruct pre; discriminate H.
  - destruct p as [|d p].
    + cbn [dlc] in H. destruct (is_cr_spec c) as [->|Hc].
      * destruct pre; discriminate H.
      * destruct pre as [|y pre]; [|destruct pre; discriminate H].
        injection H as ->. contradiction.
    + rewrite dlc_cons2 in H. destruct pre as [|y pre].
      * cbn [app] in H. injection H as -> H.
        destruct p as [|e p].
        -- cbn [dlc] in H. destruct (is_cr_spec d) as [->|Hd]; [reflexivity|discriminate H].
        -- discriminate H.
      * cbn [app] in H. injection H as -> H. rewrite (IH pre H). reflexivity.
Qed.

Lemma auto_seen_lemma raw : auto_style_seen raw = Windows <-> first_term_is_crcrlf raw.
Proof.
  unfold auto_style_seen. rewrite auto_first_lemma. split.
  - intros (pre & post & E & Hn).
    assert (Hin : In LF raw).
    { apply rn_incl. rewrite E. apply in_or_app. right. right. left. reflexivity. }
    destruct (first_lf_split raw Hin) as (p0 & q & -> & Hn0).
    rewrite rn_first_lf in E by exact Hn0.
    change (pre ++ CR :: LF :: post) with (pre ++ [CR] ++ LF :: post) in E. rewrite app_assoc in E.
    apply first_lf_unique in E.
    + destruct E as [E _]. apply dlc_ends_cr in E. subst p0.
      exists pre, q. rewrite <- app_assoc. split; [reflexivity|exact Hn].
    + intros Hi. apply Hn0. exact (dlc_incl _ _ Hi).
    + intros Hi. apply in_app_or in Hi. destruct Hi as [Hi|[Hi|[]]]; [exact (Hn Hi)|discriminate Hi].
  - intros (pre & post & -> & Hn).
    exists pre, (rustc_normalize post). split; [|exact Hn].
    change (pre ++ CR :: CR :: LF :: post) with (pre ++ [CR; CR] ++ LF :: post). rewrite app_assoc.
    rewrite rn_first_lf.
    + rewrite dlc_snoc2, <- app_assoc. reflexivity.
    + intros Hi. apply in_app_or in Hi.
      destruct Hi as [Hi|[Hi|[Hi|[]]]]; [exact (Hn Hi)|discriminate Hi|discriminate Hi].
Qed.

Lemma eff_style_cases e : e = Windows \/ e = Unix.
Proof. destruct e; auto. Qed.

(* an ordinary CRLF file (first LF preceded by exactly one CR) is seen as Unix *)
Lemma auto_seen_plain_crlf_lemma pre post :
  ~ In LF pre -> (forall p', pre <> p' ++ [CR]) -> auto_style_seen (pre ++ CR :: LF :: post) = Unix.
Proof.
  intros Hn Hlast. destruct (eff_style_cases (auto_style_seen (pre ++ CR :: LF :: post))) as [E|E]; [|exact E].
  exfalso. apply auto_seen_lemma in E. destruct E as (p2 & q2 & E & Hn2).
  change (pre ++ CR :: LF :: post) with (pre ++ [CR] ++ LF :: post) in E.
  change (p2 ++ CR :: CR :: LF :: q2) with (p2 ++ [CR; CR] ++ LF :: q2) in E.
  rewrite !app_assoc in E. apply first_lf_unique in E.
  - destruct E as [E _]. change [CR; CR] with ([CR] ++ [CR]) in E. rewrite app_assoc in E.
    apply app_snoc_inj in E. destruct E as [E _]. exact (Hlast p2 E).
  - intros Hi. apply in_app_or in Hi. destruct Hi as [Hi|[Hi|[]]]; [exact (Hn Hi)|discriminate Hi].
  - intros Hi. apply in_app_or in Hi.
    destruct Hi as [Hi|[Hi|[Hi|[]]]]; [exact (Hn2 Hi)|discriminate Hi|discriminate Hi].
Qed.

Definition w_crlf_file : text := [97; CR; LF; 98; CR; LF].

Lemma auto_follows_input_refuted_lemma :
  exists raw, first_term_is_crlf raw /\ auto_style_seen raw = Unix.
Proof.
  exists w_crlf_file. split.
  - exists [97], [98; CR; LF]. split; [reflexivity|].
    intros [H|[]]; discriminate H.
  - reflexivity.
Qed.

(* consequence for the file: with Auto, a formatted text gets Unix terminators
   although the file on disk used CR LF *)
Lemma auto_crlf_file_gets_unix_lemma pre post formatted :
  ~ In LF pre -> (forall p', pre <> p' ++ [CR]) ->
  apply_to_file NSAuto formatted (pre ++ CR :: LF :: post) = to_unix formatted.
Proof.
  intros Hn Hl. unfold apply_to_file, apply_newline_style, effective_newline_style.
  pose proof (auto_seen_plain_crlf_lemma pre post Hn Hl) as E. unfold auto_style_seen in E.
  rewrite E. reflexivity.
Qed.

(* apply_newline_style itself (on the text it is given) *)
Lemma apply_windows_lemma formatted raw_seen :
  apply_newline_style NSWindows formatted raw_seen = to_windows formatted.
Proof. reflexivity. Qed.
Lemma apply_unix_lemma formatted raw_seen :
  apply_newline_style NSUnix formatted raw_seen = to_unix formatted.
Proof. reflexivity. Qed.
Lemma apply_native_lemma formatted raw_seen :
  apply_newline_style NSNative formatted raw_seen = to_unix formatted.
Proof. reflexivity. Qed.
Lemma apply_auto_lemma formatted raw_seen :
  (first_term_is_crlf raw_seen -> apply_newline_style NSAuto formatted raw_seen = to_windows formatted) /\
  (~ first_term_is_crlf raw_seen -> apply_newline_style NSAuto formatted raw_seen = to_unix formatted).
Proof.
  unfold apply_newline_style, effective_newline_style. split; intros H.
  - apply auto_first_lemma in H. rewrite H. reflexivity.
  - destruct (eff_style_cases (auto_detect raw_seen)) as [E|E]; rewrite E; [|reflexivity].
    exfalso. apply H. apply auto_first_lemma. exact E.
Qed.

(* ------------------------------------------------------------------ *)
(* 2. the tail *)

Lemma scan_nl_app n a b : scan_nl n (a ++ b) = scan_nl (scan_nl n a) b.
Proof.
  revert n; induction a as [|c a IH]; intros n; [reflexivity|].
  cbn [app scan_nl]. destruct (is_cr c); [apply IH|]. destruct (is_lf c); apply IH.
Qed.

Lemma scan_nl_repeat n k : scan_nl n (repeat LF k) = n + N.of_nat k.
Proof.
  revert n; induction k as [|k IH]; intros n.
  - cbn [repeat scan_nl]. lia.
  - cbn [repeat scan_nl]. change (is_cr LF) with false. change (is_lf LF) with true. cbv iota.
    rewrite IH. lia.
Qed.

Lemma scan_nl_bound n t : scan_nl n t <= n + N.of_nat (length t).
Proof.
  revert n; induction t as [|c t IH]; intros n; cbn [scan_nl length]; [lia|].
  destruct (is_cr c); [specialize (IH n); lia|].
  destruct (is_lf c); [specialize (IH (n + 1)); lia|specialize (IH 0); lia].
Qed.

(* the subtraction text.len() - newline_count cannot underflow *)
Lemma truncate_no_underflow_lemma t : newline_count t <= N.of_nat (length t).
Proof. unfold newline_count. pose proof (scan_nl_bound 0 t). lia. Qed.

Lemma truncate_core core k : newline_count core = 0 ->
  truncate (core ++ repeat LF k) = core ++ repeat LF (Nat.min k 1).
Proof.
  intros H0. unfold truncate, truncate_len, newline_count.
  rewrite scan_nl_app. unfold newline_count in H0. rewrite H0, scan_nl_repeat, app_length, repeat_length.
  destruct (N.ltb_spec 1 (0 + N.of_nat k)) as [Hk|Hk].
  - replace (N.to_nat (N.of_nat (length core + k) - (0 + N.of_nat k) + 1)) with (length core + 1)%nat by lia.
    rewrite firstn_app. replace (length core + 1 - length core)%nat with 1%nat by lia.
    rewrite firstn_all2 by lia. rewrite firstn_repeat by lia.
    replace (Nat.min k 1) with 1%nat by lia. reflexivity.
  - rewrite Nat2N.id. rewrite firstn_all2 by (rewrite app_length, repeat_length; lia).
    replace (Nat.min k 1) with k by lia. reflexivity.
Qed.

Lemma finish_core_lemma core k : newline_count core = 0 -> finish (core ++ repeat LF k) = core ++ [LF].
Proof.
  intros H0. unfold finish, append_newline. rewrite <- app_assoc, repeat_snoc.
  change (LF :: repeat LF k) with (repeat LF (S k)). rewrite truncate_core by exact H0.
  replace (Nat.min (S k) 1) with 1%nat by lia. reflexivity.
Qed.

Lemma scan_zero_not_lf_end core : newline_count core = 0 -> forall b', core <> b' ++ [LF].
Proof.
  intros H0 b' ->. unfold newline_count in H0. rewrite scan_nl_app in H0.
  cbn [scan_nl] in H0. change (is_cr LF) with false in H0. change (is_lf LF) with true in H0.
  cbv iota in H0. lia.
Qed.

Lemma one_final_newline_lemma core k : newline_count core = 0 ->
  finish (core ++ repeat LF k) = core ++ [LF] /\ ends_with_one_lf (finish (core ++ repeat LF k)).
Proof.
  intros H0. rewrite finish_core_lemma by exact H0. split; [reflexivity|].
  exists core. split; [reflexivity|exact (scan_zero_not_lf_end core H0)].
Qed.

(* every buffer is core ++ LF^k with core not ending in LF *)
Lemma strip_lfs buf : exists core k, buf = core ++ repeat LF k /\ forall b', core <> b' ++ [LF].
Proof.
  induction buf as [|x buf IH] using rev_ind.
  - exists [], O. split; [reflexivity|]. intros b' H. destruct b'; discriminate H.
  - case_lf x.
    + destruct IH as (core & k & -> & Hc). exists core, (S k). split; [|exact Hc].
      rewrite <- app_assoc, repeat_snoc. reflexivity.
    + exists (buf ++ [x]), O. split; [rewrite app_nil_r; reflexivity|].
      intros b' H. apply app_snoc_inj in H. destruct H as [_ H]. contradiction.
Qed.

Lemma scan_nl_last t x n : is_cr x = false -> is_lf x = false -> scan_nl n (t ++ [x]) = 0.
Proof. intros Hc Hl. rewrite scan_nl_app. cbn [scan_nl]. rewrite Hc, Hl. reflexivity. Qed.

Lemma one_final_newline_no_cr_lemma buf : ~ In CR buf -> ends_with_one_lf (finish buf).
Proof.
  intros Hn. destruct (strip_lfs buf) as (core & k & -> & Hc).
  apply one_final_newline_lemma.
  destruct core as [|x core] using rev_ind; [reflexivity|]. clear IHcore.
  apply scan_nl_last.
  - case_cr x; [|reflexivity]. exfalso. apply Hn. apply in_or_app. left. apply in_or_app. right. left. reflexivity.
  - case_lf x; [|reflexivity]. exfalso. exact (Hc core eq_refl).
Qed.

(* boolean form of ends_with_one_lf *)
Definition ends_one_lf_b (t : text) : bool :=
  match rev t with
  | c :: r => is_lf c && match r with d :: _ => negb (is_lf d) | [] => true end
  | [] => false
  end.

Lemma ends_one_lf_b_spec t : ends_with_one_lf t -> ends_one_lf_b t = true.
Proof.
  intros (body & -> & Hb). unfold ends_one_lf_b. rewrite rev_app_distr. cbn [rev app].
  change (is_lf LF) with true. cbn [andb].
  destruct (rev body) as [|d r] eqn:E; [reflexivity|].
  case_lf d; [|reflexivity]. exfalso. apply (Hb (rev r)).
  rewrite <- (rev_involutive body), E. reflexivity.
Qed.

Definition w_lf_cr : text := [97; LF; CR].

Lemma one_final_newline_refuted_lemma : exists buf, ~ ends_with_one_lf (finish buf).
Proof.
  exists w_lf_cr. intros H. apply ends_one_lf_b_spec in H. vm_compute in H. discriminate H.
Qed.

Lemma truncate_idem_partial_lemma core k : newline_count core = 0 ->
  truncate (truncate (core ++ repeat LF k)) = truncate (core ++ repeat LF k).
Proof.
  intros H0. rewrite (truncate_core core k H0). rewrite (truncate_core core _ H0).
  replace (Nat.min (Nat.min k 1) 1) with (Nat.min k 1) by lia. reflexivity.
Qed.

Definition w_lf_lf_cr_cr : text := [LF; LF; CR; CR].

Lemma truncate_idem_refuted_lemma : exists t, truncate (truncate t) <> truncate t.
Proof. exists w_lf_lf_cr_cr. vm_compute. discriminate. Qed.

(* the emitted tail is stable under a second truncate *)
Lemma finish_stable_lemma core k : newline_count core = 0 ->
  truncate (finish (core ++ repeat LF k)) = finish (core ++ repeat LF k).
Proof.
  intros H0. rewrite finish_core_lemma by exact H0.
  change [LF] with (repeat LF 1). rewrite truncate_core by exact H0. reflexivity.
Qed.

(* ------------------------------------------------------------------ *)
(* 3. blank lines *)

Lemma clamp_bounds_lemma lo hi offset n : lo <= hi ->
  let k := vspace lo hi offset n in
  (lo + 1 <= offset + k /\ offset + k <= hi + 1) \/ (hi + 1 < offset /\ k = 0).
Proof.
  intros Hle. unfold vspace. cbv zeta.
  destruct (N.ltb_spec (hi + 1) (n + offset)) as [H1|H1].
  - destruct (N.leb_spec (hi + 1) offset) as [H2|H2]; lia.
  - destruct (N.ltb_spec (n + offset) (lo + 1)) as [H3|H3].
    + destruct (N.leb_spec (lo + 1) offset) as [H4|H4]; lia.
    + lia.
Qed.

Lemma clamp_idem_lemma lo hi offset n : lo <= hi ->
  vspace lo hi (offset + vspace lo hi offset n) 0 = 0.
Proof.
  intros Hle. pose proof (clamp_bounds_lemma lo hi offset n Hle) as Hb. cbv zeta in Hb.
  set (k := vspace lo hi offset n) in *. unfold vspace at 1.
  destruct (N.ltb_spec (hi + 1) (0 + (offset + k))) as [H1|H1].
  - destruct (N.leb_spec (hi + 1) (offset + k)) as [H2|H2]; lia.
  - destruct (N.ltb_spec (0 + (offset + k)) (lo + 1)) as [H3|H3]; [|reflexivity].
    destruct (N.leb_spec (lo + 1) (offset + k)) as [H4|H4]; lia.
Qed.

(* what is requested is kept when it is within the bounds *)
Lemma clamp_within_lemma lo hi offset n :
  lo + 1 <= n + offset -> n + offset <= hi + 1 -> vspace lo hi offset n = n.
Proof.
  intros Ha Hb. unfold vspace.
  destruct (N.ltb_spec (hi + 1) (n + offset)) as [H1|H1]; [lia|].
  destruct (N.ltb_spec (n + offset) (lo + 1)) as [H3|H3]; [lia|reflexivity].
Qed.

Lemma clamp_bounds_refuted_lemma : exists lo hi offset n,
  let k := vspace lo hi offset n in
  ~ ((lo + 1 <= offset + k /\ offset + k <= hi + 1) \/ (hi + 1 < offset /\ k = 0)).
Proof. exists 2, 1, 0, 0. vm_compute. intros [[_ H]|[H _]]; [apply H; reflexivity|discriminate H]. Qed.

Lemma clamp_idem_refuted_lemma : exists lo hi offset n,
  vspace lo hi (offset + vspace lo hi offset n) 0 <> 0.
Proof. exists 1, 0, 0, 2. vm_compute. discriminate. Qed.

Lemma take_lf_repeat k r : take_lf (repeat LF k ++ r) = (k + take_lf r)%nat.
Proof.
  induction k as [|k IH]; [reflexivity|]. cbn [repeat app take_lf]. change (is_lf LF) with true.
  cbv iota. rewrite IH. reflexivity.
Qed.

Lemma trailing_lfs_app buf k : trailing_lfs (buf ++ repeat LF k) = trailing_lfs buf + N.of_nat k.
Proof. unfold trailing_lfs. rewrite rev_app_distr, rev_repeat, take_lf_repeat. lia. Qed.

Lemma push_vspace_bounds_lemma lo hi buf n : lo <= hi ->
  let out := push_vertical_spaces lo hi buf n in
  (lo + 1 <= trailing_lfs out /\ trailing_lfs out <= hi + 1) \/ (hi + 1 < trailing_lfs buf /\ out = buf).
Proof.
  intros Hle. cbv zeta. unfold push_vertical_spaces. rewrite trailing_lfs_app, N2Nat.id.
  destruct (clamp_bounds_lemma lo hi (trailing_lfs buf) n Hle) as [H|[H1 H2]]; [left; exact H|].
  right. split; [exact H1|]. rewrite H2. cbn [N.to_nat repeat]. apply app_nil_r.
Qed.

Lemma push_vspace_idem_lemma lo hi buf n : lo <= hi ->
  push_vertical_spaces lo hi (push_vertical_spaces lo hi buf n) 0 = push_vertical_spaces lo hi buf n.
Proof.
  intros Hle. unfold push_vertical_spaces at 1. unfold push_vertical_spaces at 2.
  rewrite trailing_lfs_app, N2Nat.id, clamp_idem_lemma by exact Hle.
  cbn [N.to_nat repeat]. apply app_nil_r.
Qed.

(* ------------------------------------------------------------------ *)
(* 4. indentation *)

Lemma indent_fast_eq offset num_chars :
  offset <= 1 -> num_chars + offset <= INDENT_BUFFER_LEN ->
  indent_fast offset num_chars = Some (indent_slow offset 0 num_chars).
Proof.
  unfold INDENT_BUFFER_LEN. intros Ho Hn. unfold indent_fast, indent_slow, INDENT_BUFFER.
  destruct (N.leb_spec offset (num_chars + 1)) as [_|H]; [|lia].
  replace (N.to_nat (num_chars + 1)) with (S (N.to_nat num_chars)) by lia.
  cbn [firstn]. rewrite firstn_repeat by lia. f_equal.
  assert (Hc : offset = 0 \/ offset = 1) by lia. destruct Hc as [-> | ->]; reflexivity.
Qed.

(* fast path = slow path: with the buffer fast path removed the function is
   indent_slow on the same numbers *)
Lemma fast_path_eq_lemma hard_tabs tab_spaces block align offset :
  offset <= 1 -> (hard_tabs = true -> 0 < tab_spaces) ->
  indent_string hard_tabs tab_spaces block align offset =
  Some (indent_slow offset (if hard_tabs then block / tab_spaces else 0)
                           (if hard_tabs then align else block + align)).
Proof.
  intros Ho Hts. unfold indent_string, to_string_inner, checked_div, indent_width.
  cbn [block_indent alignment].
  destruct hard_tabs.
  - destruct (N.eqb_spec tab_spaces 0) as [E|E]; [specialize (Hts eq_refl); lia|].
    destruct (N.eqb_spec (block / tab_spaces) 0) as [Ez|Ez]; cbn [andb]; [|reflexivity].
    destruct (N.leb_spec (block / tab_spaces + align + offset) INDENT_BUFFER_LEN) as [Hl|Hl]; [|reflexivity].
    rewrite indent_fast_eq by assumption. rewrite Ez. reflexivity.
  - change (0 =? 0) with true. cbn [andb].
    destruct (N.leb_spec (0 + (block + align) + offset) INDENT_BUFFER_LEN) as [Hl|Hl]; [|reflexivity].
    rewrite indent_fast_eq by assumption. reflexivity.
Qed.

Lemma indent_shape_lemma hard_tabs tab_spaces block align offset :
  offset <= 1 -> (hard_tabs = true -> 0 < tab_spaces) ->
  indent_string hard_tabs tab_spaces block align offset =
  Some ((if offset =? 0 then [LF] else [])
        ++ (if hard_tabs
            then repeat TAB (N.to_nat (block / tab_spaces)) ++ repeat SP (N.to_nat align)
            else repeat SP (N.to_nat (block + align)))).
Proof.
  intros Ho Hts. rewrite fast_path_eq_lemma by assumption. unfold indent_slow.
  destruct hard_tabs; reflexivity.
Qed.

Lemma fast_path_offset2_refuted_lemma : exists hard_tabs tab_spaces block align offset,
  0 < tab_spaces /\
  indent_string hard_tabs tab_spaces block align offset <>
  Some (indent_slow offset (if hard_tabs then block / tab_spaces else 0)
                           (if hard_tabs then align else block + align)).
Proof. exists false, 4, 4, 0, 2. split; [reflexivity|]. vm_compute. discriminate. Qed.

Lemma indent_string_div0_lemma block align offset : indent_string true 0 block align offset = None.
Proof. reflexivity. Qed.

Lemma from_width_roundtrip_lemma hard_tabs tab_spaces w : 0 < tab_spaces ->
  exists i, from_width hard_tabs tab_spaces w = Some i /\ indent_width i = w
            /\ (hard_tabs = true -> (block_indent i) mod tab_spaces = 0 /\ alignment i < tab_spaces).
Proof.
  intros Hts. unfold from_width, checked_div. destruct hard_tabs.
  - destruct (N.eqb_spec tab_spaces 0) as [E|E]; [lia|].
    eexists. split; [reflexivity|]. unfold indent_width. cbn [block_indent alignment].
    split; [symmetry; apply N.div_mod; exact E|].
    intros _. split; [rewrite N.mul_comm; apply N.mod_mul; exact E|].
    apply N.mod_lt. exact E.
  - eexists. split; [reflexivity|]. unfold indent_width. cbn [block_indent alignment].
    split; [lia|discriminate].
Qed.

Lemma from_width_div0_lemma w : from_width true 0 w = None.
Proof. reflexivity. Qed.

(* block_unindent never underflows, never widens, and undoes block_indent *)
Lemma block_unindent_total_lemma tab_spaces i :
  exists i', indent_block_unindent tab_spaces i = Some i' /\ indent_width i' <= indent_width i.
Proof.
  unfold indent_block_unindent, checked_sub, indent_width.
  destruct (N.ltb_spec (block_indent i) tab_spaces) as [H|H].
  - eexists. split; [reflexivity|]. cbn [block_indent alignment]. lia.
  - destruct (N.leb_spec tab_spaces (block_indent i)) as [H'|H']; [|lia].
    eexists. split; [reflexivity|]. cbn [block_indent alignment]. lia.
Qed.

Lemma block_unindent_indent_lemma tab_spaces i :
  indent_block_unindent tab_spaces (indent_block_indent tab_spaces i) = Some i.
Proof.
  unfold indent_block_unindent, indent_block_indent, checked_sub. cbn [block_indent alignment].
  destruct (N.ltb_spec (block_indent i + tab_spaces) tab_spaces) as [H|H]; [lia|].
  destruct (N.leb_spec tab_spaces (block_indent i + tab_spaces)) as [H'|H']; [|lia].
  replace (block_indent i + tab_spaces - tab_spaces) with (block_indent i) by lia.
  destruct i; reflexivity.
Qed.


Lemma visual_width_app ts a b : visual_width ts (a ++ b) = visual_width ts a + visual_width ts b.
Proof.
  induction a as [|c a IH]; [reflexivity|]. cbn [app]. unfold visual_width in *. cbn [fold_right].
  rewrite IH. lia.
Qed.
Lemma visual_width_tabs ts n : visual_width ts (repeat TAB n) = ts * N.of_nat n.
Proof.
  induction n as [|n IH]; [cbn; lia|]. unfold visual_width in *. cbn [repeat fold_right].
  rewrite IH. change (TAB =? TAB) with true. cbv iota. lia.
Qed.
Lemma visual_width_spaces ts n : visual_width ts (repeat SP n) = N.of_nat n.
Proof.
  induction n as [|n IH]; [reflexivity|]. unfold visual_width in *. cbn [repeat fold_right].
  rewrite IH. change (SP =? TAB) with false. cbv iota. lia.
Qed.

(* the string has the width of the indent, provided block_indent is a multiple of tab_spaces *)
Lemma indent_visual_width_lemma hard_tabs tab_spaces block align :
  0 < tab_spaces -> (hard_tabs = true -> block mod tab_spaces = 0) ->
  exists s, indent_string hard_tabs tab_spaces block align 1 = Some s /\
            visual_width tab_spaces s = block + align.
Proof.
  intros Hts Hm. rewrite indent_shape_lemma by (try lia; intros _; exact Hts).
  eexists. split; [reflexivity|]. change (1 =? 0) with false. cbn [app].
  destruct hard_tabs.
  - rewrite visual_width_app, visual_width_tabs, visual_width_spaces, !N2Nat.id.
    pose proof (N.div_mod block tab_spaces) as Hd. rewrite (Hm eq_refl) in Hd. lia.
  - rewrite visual_width_spaces, N2Nat.id. reflexivity.
Qed.

(* ------------------------------------------------------------------ *)
(* 5. remove_trailing_white_spaces *)

(* the loop, as a function of the pending space_buffer and the rest of the stream *)
Fixpoint rt (sp : text) (s : list (kind * char)) : text :=
  match s with
  | [] => []
  | (k, c) :: s' =>
      if is_lf c then (if kind_is_instring k then sp else []) ++ LF :: rt [] s'
      else if is_whitespace c then rt (sp ++ [c]) s'
      else sp ++ c :: rt [] s'
  end.

Lemma rtws_fold s b sp : fst (fold_left rtws_step s (b, sp)) = b ++ rt sp s.
Proof.
  revert b sp; induction s as [|[k c] s IH]; intros b sp.
  - cbn. rewrite app_nil_r. reflexivity.
  - cbn [fold_left rtws_step rt]. destruct (is_lf c).
    + rewrite IH. destruct (kind_is_instring k); rewrite <- ?app_assoc; reflexivity.
    + destruct (is_whitespace c).
      * apply IH.
      * rewrite IH. rewrite <- !app_assoc. reflexivity.
Qed.

Lemma rtws_rt s : remove_trailing_white_spaces s = rt [] s.
Proof. unfold remove_trailing_white_spaces. rewrite rtws_fold. reflexivity. Qed.

(* the pending space_buffer after a stretch without LF *)
Fixpoint pend (sp : text) (l : list (kind * char)) : text :=
  match l with
  | [] => sp
  | (_, c) :: l' => if is_whitespace c then pend (sp ++ [c]) l' else pend [] l'
  end.

Lemma drop_ws_all r : Forall (fun c => is_whitespace c = true) r -> drop_ws r = [].
Proof. induction 1 as [|c r Hc _ IH]; [reflexivity|]. cbn [drop_ws]. rewrite Hc. exact IH. Qed.

Lemma drop_ws_app_nonws a c b : is_whitespace c = false -> drop_ws (a ++ c :: b) = drop_ws a ++ c :: b.
Proof.
  intros Hc. induction a as [|x a IH].
  - cbn [app drop_ws]. rewrite Hc. reflexivity.
  - cbn [app drop_ws]. destruct (is_whitespace x); [exact IH|reflexivity].
Qed.

Lemma all_ws_rev t : all_ws t -> all_ws (rev t).
Proof. unfold all_ws. intros H. apply Forall_rev. exact H. Qed.

Lemma trim_end_all_ws t : all_ws t -> trim_end t = [].
Proof. intros H. unfold trim_end. rewrite drop_ws_all by (apply all_ws_rev; exact H). reflexivity. Qed.

Lemma trim_end_nonws pre c m : is_whitespace c = false ->
  trim_end (pre ++ c :: m) = pre ++ c :: trim_end m.
Proof.
  intros Hc. unfold trim_end. rewrite rev_app_distr. cbn [rev]. rewrite <- app_assoc. cbn [app].
  rewrite drop_ws_app_nonws by exact Hc. rewrite rev_app_distr. cbn [rev].
  rewrite rev_involutive, <- app_assoc. reflexivity.
Qed.


Lemma rt_stretch l : no_lf_stream l -> forall sp tail, all_ws sp ->
  rt sp (l ++ tail) = trim_end (sp ++ map snd l) ++ rt (pend sp l) tail
  /\ trim_end (sp ++ map snd l) ++ pend sp l = sp ++ map snd l
  /\ all_ws (pend sp l).
Proof.
  induction 1 as [|[k c] l Hc _ IH]; intros sp tail Hsp.
  - cbn [app map pend]. rewrite app_nil_r, trim_end_all_ws by exact Hsp. auto.
  - cbn [snd] in Hc. cbn [app map rt pend snd].
    case_lf c; [contradiction|].
    destruct (is_whitespace c) eqn:Hw.
    + assert (Hsp' : all_ws (sp ++ [c])).
      { apply Forall_app. split; [exact Hsp|]. constructor; [exact Hw|constructor]. }
      destruct (IH (sp ++ [c]) tail Hsp') as (E1 & E2 & E3).
      rewrite <- app_assoc in E1, E2. cbn [app] in E1, E2. auto.
    + destruct (IH [] tail (Forall_nil _)) as (E1 & E2 & E3). cbn [app] in E1, E2.
      rewrite trim_end_nonws by exact Hw. rewrite E1. rewrite <- !app_assoc. cbn [app].
      rewrite E2. auto.
Qed.

Lemma rtws_line_lemma l k rest : no_lf_stream l ->
  remove_trailing_white_spaces (l ++ (k, LF) :: rest) =
  (if kind_is_instring k then map snd l else trim_end (map snd l))
  ++ LF :: remove_trailing_white_spaces rest.
Proof.
  intros Hl. rewrite !rtws_rt.
  destruct (rt_stretch l Hl [] ((k, LF) :: rest) (Forall_nil _)) as (E1 & E2 & _).
  cbn [app] in E1, E2. rewrite E1. cbn [rt]. change (is_lf LF) with true. cbv iota.
  destruct (kind_is_instring k).
  - rewrite app_assoc, E2. reflexivity.
  - reflexivity.
Qed.

Lemma rtws_last_lemma l : no_lf_stream l ->
  remove_trailing_white_spaces l = trim_end (map snd l).
Proof.
  intros Hl. rewrite rtws_rt.
  destruct (rt_stretch l Hl [] [] (Forall_nil _)) as (E1 & _ & _).
  rewrite app_nil_r in E1. cbn [app rt] in E1. rewrite app_nil_r in E1. exact E1.
Qed.

(* boolean form of no_trailing_ws; p = the previous char is whitespace other than LF *)
Fixpoint tw_ok (p : bool) (t : text) : bool :=
  match t with
  | [] => true
  | c :: t' => (if is_lf c then negb p else true) && tw_ok (is_whitespace c && negb (is_lf c)) t'
  end.

Definition ws_nolf (sp : text) : Prop := Forall (fun c => is_lf c = false) sp.

Lemma tw_ok_skip p sp c r : ws_nolf sp -> is_whitespace c = false ->
  tw_ok p (sp ++ c :: r) = tw_ok false r.
Proof.
  intros Hsp Hc. revert p; induction Hsp as [|x sp Hx _ IH]; intros p.
  - cbn [app tw_ok]. rewrite (nonws_not_lf c Hc), Hc. reflexivity.
  - cbn [app tw_ok]. rewrite Hx. cbn [andb]. apply IH.
Qed.

Lemma tw_ok_rt s : (forall k, In (k, LF) s -> kind_is_instring k = false) ->
  forall sp, ws_nolf sp -> tw_ok false (rt sp s) = true.
Proof.
  induction s as [|[k c] s IH]; intros Hg sp Hsp; [reflexivity|].
  assert (Hg' : forall k0, In (k0, LF) s -> kind_is_instring k0 = false).
  { intros k0 Hi. apply Hg. right. exact Hi. }
  cbn [rt]. destruct (is_lf_spec c) as [->|Hc].
  - rewrite (Hg k (or_introl eq_refl)). cbn [app tw_ok]. change (is_lf LF) with true.
    cbn [negb andb]. rewrite andb_false_r. apply IH; [exact Hg'|constructor].
  - destruct (is_whitespace c) eqn:Hw.
    + apply IH; [exact Hg'|]. apply Forall_app. split; [exact Hsp|].
      constructor; [|constructor]. destruct (is_lf_spec c); [contradiction|reflexivity].
    + rewrite tw_ok_skip by assumption. apply IH; [exact Hg'|constructor].
Qed.

Lemma tw_ok_sound p t : tw_ok p t = true ->
  forall i c, nth_error t i = Some c -> nth_error t (S i) = Some LF -> is_whitespace c = true -> c = LF.
Proof.
  revert p; induction t as [|x t IH]; intros p H i c Hi Hj Hw.
  - destruct i; discriminate Hi.
  - cbn [tw_ok] in H. apply andb_true_iff in H. destruct H as [_ Ht].
    destruct i as [|i].
    + cbn in Hi. injection Hi as Hxc. subst c. cbn [nth_error] in Hj.
      destruct t as [|y t]; [discriminate Hj|]. cbn in Hj. injection Hj as Hy. subst y.
      cbn [tw_ok] in Ht. change (is_lf LF) with true in Ht. cbv iota in Ht.
      apply andb_true_iff in Ht. destruct Ht as [Ht _]. rewrite Hw in Ht. cbn [andb] in Ht.
      rewrite negb_involutive in Ht. case_lf x; [reflexivity|discriminate Ht].
    + exact (IH _ Ht i c Hi Hj Hw).
Qed.

Lemma remove_trailing_ws_ok_lemma s :
  (forall k, In (k, LF) s -> kind_is_instring k = false) ->
  no_trailing_ws (remove_trailing_white_spaces s).
Proof.
  intros Hg. rewrite rtws_rt. intros i c. apply (tw_ok_sound false).
  apply tw_ok_rt; [exact Hg|constructor].
Qed.

(* kinded variant *)
Fixpoint rtk (sp : list (kind * char)) (s : list (kind * char)) : list (kind * char) :=
  match s with
  | [] => []
  | (k, c) :: s' =>
      if is_lf c then (if kind_is_instring k then sp else []) ++ (k, c) :: rtk [] s'
      else if is_whitespace c then rtk (sp ++ [(k, c)]) s'
      else sp ++ (k, c) :: rtk [] s'
  end.

Lemma rtk_fold s b sp : fst (fold_left rtws_step_k s (b, sp)) = b ++ rtk sp s.
Proof.
  revert b sp; induction s as [|[k c] s IH]; intros b sp.
  - cbn. rewrite app_nil_r. reflexivity.
  - cbn [fold_left rtws_step_k rtk]. destruct (is_lf c).
    + rewrite IH. destruct (kind_is_instring k); rewrite <- ?app_assoc; reflexivity.
    + destruct (is_whitespace c).
      * apply IH.
      * rewrite IH. rewrite <- !app_assoc. reflexivity.
Qed.

Lemma rtws_kinded_rtk s : rtws_kinded s = rtk [] s.
Proof. unfold rtws_kinded. rewrite rtk_fold. reflexivity. Qed.

Lemma rtk_erase sp s : map snd (rtk sp s) = rt (map snd sp) s.
Proof.
  revert sp; induction s as [|[k c] s IH]; intros sp; [reflexivity|].
  cbn [rtk rt]. destruct (is_lf_spec c) as [->|Hc].
  - rewrite map_app. cbn [map snd]. rewrite IH. destruct (kind_is_instring k); reflexivity.
  - destruct (is_whitespace c).
    + rewrite IH, map_app. reflexivity.
    + rewrite map_app. cbn [map snd]. rewrite IH. reflexivity.
Qed.

Lemma rtws_kinded_erase_lemma s : map snd (rtws_kinded s) = remove_trailing_white_spaces s.
Proof. rewrite rtws_kinded_rtk, rtws_rt. apply (rtk_erase [] s). Qed.

Definition wsk_nolf (sp : list (kind * char)) : Prop :=
  Forall (fun p => is_lf (snd p) = false /\ is_whitespace (snd p) = true) sp.

Lemma rtk_absorb sp : wsk_nolf sp -> forall sp0 x, rtk sp0 (sp ++ x) = rtk (sp0 ++ sp) x.
Proof.
  induction 1 as [|[k c] sp [Hl Hw] _ IH]; intros sp0 x.
  - rewrite app_nil_r. reflexivity.
  - cbn [snd] in Hl, Hw. cbn [app rtk]. rewrite Hl, Hw. rewrite IH, <- app_assoc. reflexivity.
Qed.

Lemma rtk_idem s : forall sp, wsk_nolf sp -> rtk [] (rtk sp s) = rtk sp s.
Proof.
  induction s as [|[k c] s IH]; intros sp Hsp; [reflexivity|].
  cbn [rtk]. destruct (is_lf c) eqn:Hl.
  - destruct (kind_is_instring k) eqn:Hk.
    + rewrite rtk_absorb by exact Hsp. cbn [app rtk]. rewrite Hl, Hk.
      rewrite IH by constructor. reflexivity.
    + cbn [app rtk]. rewrite Hl, Hk. cbn [app]. rewrite IH by constructor. reflexivity.
  - destruct (is_whitespace c) eqn:Hw.
    + apply IH. apply Forall_app. split; [exact Hsp|]. constructor; [|constructor]. cbn [snd]. auto.
    + rewrite rtk_absorb by exact Hsp. cbn [app rtk]. rewrite Hl, Hw.
      rewrite IH by constructor. reflexivity.
Qed.

Lemma rtws_kinded_idem_lemma s : rtws_kinded (rtws_kinded s) = rtws_kinded s.
Proof. rewrite !rtws_kinded_rtk. apply rtk_idem. constructor. Qed.

Lemma strip_trailing_ws_idem_kinded_lemma s :
  map snd (rtws_kinded s) = remove_trailing_white_spaces s /\
  rtws_kinded (rtws_kinded s) = rtws_kinded s.
Proof. split; [exact (rtws_kinded_erase_lemma s)|exact (rtws_kinded_idem_lemma s)]. Qed.

(* char-level loop when no LF is InString *)
Fixpoint rtc (sp : text) (t : text) : text :=
  match t with
  | [] => []
  | c :: t' =>
      if is_lf c then LF :: rtc [] t'
      else if is_whitespace c then rtc (sp ++ [c]) t'
      else sp ++ c :: rtc [] t'
  end.

Lemma rt_nostring s : (forall k, In (k, LF) s -> kind_is_instring k = false) ->
  forall sp, rt sp s = rtc sp (map snd s).
Proof.
  induction s as [|[k c] s IH]; intros Hg sp; [reflexivity|].
  assert (Hg' : forall k0, In (k0, LF) s -> kind_is_instring k0 = false).
  { intros k0 Hi. apply Hg. right. exact Hi. }
  cbn [rt map snd rtc]. destruct (is_lf_spec c) as [->|Hc].
  - rewrite (Hg k (or_introl eq_refl)). cbn [app]. rewrite (IH Hg'). reflexivity.
  - destruct (is_whitespace c); rewrite (IH Hg'); reflexivity.
Qed.

Definition wsc (sp : text) : Prop := Forall (fun c => is_lf c = false /\ is_whitespace c = true) sp.

Lemma rtc_absorb sp : wsc sp -> forall sp0 x, rtc sp0 (sp ++ x) = rtc (sp0 ++ sp) x.
Proof.
  induction 1 as [|c sp [Hl Hw] _ IH]; intros sp0 x.
  - rewrite app_nil_r. reflexivity.
  - cbn [app rtc]. rewrite Hl, Hw. rewrite IH, <- app_assoc. reflexivity.
Qed.

Lemma rtc_idem t : forall sp, wsc sp -> rtc [] (rtc sp t) = rtc sp t.
Proof.
  induction t as [|c t IH]; intros sp Hsp; [reflexivity|].
  cbn [rtc]. destruct (is_lf c) eqn:Hl.
  - cbn [rtc]. change (is_lf LF) with true. cbv iota. rewrite IH by constructor. reflexivity.
  - destruct (is_whitespace c) eqn:Hw.
    + apply IH. apply Forall_app. split; [exact Hsp|]. constructor; [auto|constructor].
    + rewrite rtc_absorb by exact Hsp. cbn [app rtc]. rewrite Hl, Hw.
      rewrite IH by constructor. reflexivity.
Qed.

(* on a stream without string LFs the char-level function is idempotent under any
   re-classification that keeps the chars and has no string LFs either *)
Lemma rtws_idem_nostring_lemma s (reclass : text -> list (kind * char)) :
  (forall t, map snd (reclass t) = t) ->
  (forall t k, In (k, LF) (reclass t) -> kind_is_instring k = false) ->
  (forall k, In (k, LF) s -> kind_is_instring k = false) ->
  remove_trailing_white_spaces (reclass (remove_trailing_white_spaces s)) = remove_trailing_white_spaces s.
Proof.
  intros Hm Hr Hs. rewrite !rtws_rt.
  rewrite (rt_nostring _ (Hr _)), Hm, (rt_nostring s Hs). apply rtc_idem. constructor.
Qed.

(* ------------------------------------------------------------------ *)
(* 6. skip_empty_lines *)

Fixpoint flnb (t : text) : bool :=
  match t with
  | [] => false
  | c :: t' => if is_lf c then false else if is_whitespace c then flnb t' else true
  end.

Lemma flnb_spec t : flnb t = true <-> first_line_nonblank t.
Proof.
  split.
  - induction t as [|c t IH]; [discriminate|]. cbn [flnb].
    case_lf c; [discriminate|]. destruct (is_whitespace c) eqn:Hw.
    + intros H. destruct (IH H) as (l & x & r & -> & Hn & Hx).
      exists (c :: l), x, r. split; [reflexivity|]. split; [|exact Hx].
      intros [Hc|Hi]; [congruence|exact (Hn Hi)].
    + intros _. exists [], c, t. split; [reflexivity|]. split; [intros []|exact Hw].
  - intros (l & x & r & -> & Hn & Hx). induction l as [|c l IH].
    + cbn [app flnb]. rewrite (nonws_not_lf x Hx), Hx. reflexivity.
    + cbn [app flnb]. case_lf c; [exfalso; apply Hn; left; reflexivity|].
      destruct (is_whitespace c); [|reflexivity]. apply IH. intros Hi. apply Hn. right. exact Hi.
Qed.


Lemma flnb_ws_prefix w t : ws_nolf w -> all_ws w -> flnb (w ++ t) = flnb t.
Proof.
  intros Hn Hw. induction Hn as [|x w Hx _ IH]; [reflexivity|].
  inversion Hw as [|? ? Hxw Hw']; subst. cbn [app flnb]. rewrite Hx, Hxw. exact (IH Hw').
Qed.

Lemma skip_el_spec t : forall w, ws_nolf w -> all_ws w ->
  exists pre, w ++ t = pre ++ skip_el (w ++ t) t /\ all_ws pre
              /\ (pre = [] \/ exists p', pre = p' ++ [LF])
              /\ skip_stop (skip_el (w ++ t) t).
Proof.
  induction t as [|c t IH]; intros w Hn Hw.
  - cbn [skip_el]. exists []. split; [reflexivity|]. split; [constructor|]. split; [left; reflexivity|].
    left. rewrite app_nil_r. intros Hi. unfold ws_nolf in Hn. rewrite Forall_forall in Hn.
    specialize (Hn _ Hi). discriminate Hn.
  - cbn [skip_el]. destruct (is_lf_spec c) as [->|Hc].
    + destruct (IH [] (Forall_nil _) (Forall_nil _)) as (pre & E & Hp & Hl & Hs). cbn [app] in E, Hs.
      exists (w ++ LF :: pre). split; [rewrite <- app_assoc; cbn [app]; rewrite <- E; reflexivity|].
      split; [apply Forall_app; split; [exact Hw|constructor; [reflexivity|exact Hp]]|].
      split; [|exact Hs]. right. destruct Hl as [->|(p' & ->)].
      * exists w. reflexivity.
      * exists (w ++ LF :: p'). rewrite <- app_assoc. reflexivity.
    + assert (Hc' : is_lf c = false) by (destruct (is_lf_spec c); [contradiction|reflexivity]).
      destruct (is_whitespace c) eqn:Hws.
      * replace (w ++ c :: t) with ((w ++ [c]) ++ t) by (rewrite <- app_assoc; reflexivity).
        apply IH.
        -- apply Forall_app. split; [exact Hn|constructor; [exact Hc'|constructor]].
        -- apply Forall_app. split; [exact Hw|constructor; [exact Hws|constructor]].
      * exists []. split; [reflexivity|]. split; [constructor|]. split; [left; reflexivity|].
        right. exists w, c, t. split; [reflexivity|]. split; [|exact Hws].
        intros Hi. unfold ws_nolf in Hn. rewrite Forall_forall in Hn. specialize (Hn _ Hi). discriminate Hn.
Qed.

Lemma skip_empty_lines_spec_lemma t :
  exists pre, t = pre ++ skip_empty_lines t /\ all_ws pre
              /\ (pre = [] \/ exists p', pre = p' ++ [LF])
              /\ skip_stop (skip_empty_lines t).
Proof. exact (skip_el_spec t [] (Forall_nil _) (Forall_nil _)). Qed.

Lemma skip_el_fix_flnb s t : flnb t = true -> skip_el s t = s.
Proof.
  induction t as [|c t IH]; [discriminate|]. cbn [flnb skip_el].
  destruct (is_lf c); [discriminate|]. destruct (is_whitespace c); [exact IH|reflexivity].
Qed.

Lemma skip_el_fix_nolf s t : ~ In LF t -> skip_el s t = s.
Proof.
  induction t as [|c t IH]; intros Hn; [reflexivity|]. cbn [skip_el].
  case_lf c; [exfalso; apply Hn; left; reflexivity|].
  destruct (is_whitespace c); [|reflexivity]. apply IH. intros Hi. apply Hn. right. exact Hi.
Qed.

Lemma skip_stop_fix r : skip_stop r -> skip_empty_lines r = r.
Proof.
  intros [H|H]; unfold skip_empty_lines.
  - apply skip_el_fix_nolf. exact H.
  - apply skip_el_fix_flnb. apply flnb_spec. exact H.
Qed.

Lemma skip_empty_lines_idem_lemma t : skip_empty_lines (skip_empty_lines t) = skip_empty_lines t.
Proof.
  destruct (skip_empty_lines_spec_lemma t) as (_ & _ & _ & _ & Hs). apply skip_stop_fix. exact Hs.
Qed.

Lemma skipn_suffix (pre r t : text) : t = pre ++ r -> r = skipn (length t - length r) t.
Proof.
  intros ->. rewrite app_length. replace (length pre + length r - length r)%nat with (length pre) by lia.
  rewrite skipn_app, skipn_all, Nat.sub_diag. reflexivity.
Qed.

Lemma skip_empty_lines_pos_lemma t :
  skip_empty_lines t = skipn (N.to_nat (skip_empty_lines_pos t)) t.
Proof.
  destruct (skip_empty_lines_spec_lemma t) as (pre & E & _). unfold skip_empty_lines_pos.
  rewrite Nat2N.id. exact (skipn_suffix pre _ t E).
Qed.

(* ------------------------------------------------------------------ *)
(* the tail after the style conversion *)

Lemma rn_app_nolf_head a b :
  (b = [] \/ exists x b', b = x :: b' /\ x <> LF) -> rustc_normalize (a ++ b) = rustc_normalize a ++ rustc_normalize b.
Proof.
  intros Hb. induction a as [|c a IH]; [reflexivity|].
  destruct a as [|d a].
  - cbn [app]. destruct Hb as [->|(x & b' & -> & Hx)]; [reflexivity|].
    rewrite rn_cons_nolf; [reflexivity|]. destruct (is_lf_spec x); [contradiction|reflexivity].
  - cbn [app] in *. rewrite !rn_cons2. destruct (is_cr c && is_lf d); rewrite IH; reflexivity.
Qed.

Lemma rn_snoc_lf a : (forall b', a <> b' ++ [CR]) -> rustc_normalize (a ++ [LF]) = rustc_normalize a ++ [LF].
Proof.
  induction a as [|c a IH]; intros Hn; [reflexivity|].
  destruct a as [|d a].
  - cbn [app]. rewrite rn_cons2. destruct (is_cr_spec c) as [->|Hc]; [exfalso; exact (Hn [] eq_refl)|].
    reflexivity.
  - cbn [app] in *. rewrite !rn_cons2.
    assert (Hn' : forall b', d :: a <> b' ++ [CR]).
    { intros b' E. apply (Hn (c :: b')). rewrite E. reflexivity. }
    destruct (is_cr c && is_lf d); rewrite (IH Hn'); reflexivity.
Qed.

Lemma not_ends_lf_spec t : (forall b', t <> b' ++ [LF]) <-> ends_with_lf t = false.
Proof.
  unfold ends_with_lf. destruct t as [|x t] using rev_ind.
  - split; [reflexivity|]. intros _ b' E. destruct b'; discriminate E.
  - clear IHt. rewrite rev_app_distr. cbn [rev app]. split.
    + intros H. case_lf x; [exfalso; exact (H t eq_refl)|reflexivity].
    + intros H b' E. apply app_snoc_inj in E. destruct E as [_ ->]. discriminate H.
Qed.

Lemma ends_with_lf_snoc t x : ends_with_lf (t ++ [x]) = is_lf x.
Proof. unfold ends_with_lf. rewrite rev_app_distr. reflexivity. Qed.

Lemma ends_cr_dec (a : text) : (exists a', a = a' ++ [CR]) \/ (forall b', a <> b' ++ [CR]).
Proof.
  destruct a as [|x a] using rev_ind.
  - right. intros b' E. destruct b'; discriminate E.
  - clear IHa. case_cr x; [left; exists a; reflexivity|].
    right. intros b' E. apply app_snoc_inj in E. destruct E as [_ E]. contradiction.
Qed.

(* normalising a text that ends with LF: the result is body ++ [LF] where body
   is the normalisation of the text without its final (CR) LF *)
Lemma rn_final_lf a : exists a0, rustc_normalize (a ++ [LF]) = rustc_normalize a0 ++ [LF]
                                 /\ (a = a0 \/ a = a0 ++ [CR]).
Proof.
  destruct (ends_cr_dec a) as [(a' & ->)|Hn].
  - exists a'. split; [|right; reflexivity].
    rewrite <- app_assoc. cbn [app]. rewrite rn_app_nolf_head.
    + rewrite rn_cr_lf. reflexivity.
    + right. exists CR, [LF]. split; [reflexivity|discriminate].
  - exists a. split; [apply rn_snoc_lf; exact Hn|left; reflexivity].
Qed.

Lemma ends_with_lf_rn a : ends_with_lf (rustc_normalize a) = ends_with_lf a.
Proof.
  destruct a as [|x a] using rev_ind; [reflexivity|]. clear IHa.
  rewrite ends_with_lf_snoc. destruct (is_lf_spec x) as [->|Hx].
  - destruct (rn_final_lf a) as (a0 & -> & _). apply ends_with_lf_snoc.
  - rewrite rn_app_nolf_head by (right; exists x, []; auto). rewrite rn_single, ends_with_lf_snoc.
    destruct (is_lf_spec x); [contradiction|reflexivity].
Qed.

Lemma expand_app u v : expand (u ++ v) = expand u ++ expand v.
Proof.
  induction u as [|c u IH]; [reflexivity|]. cbn [app expand]. rewrite IH.
  destruct (is_lf c); reflexivity.
Qed.

Lemma ends_with_lf_expand u : ends_with_lf (expand u) = ends_with_lf u.
Proof.
  destruct u as [|x u] using rev_ind; [reflexivity|]. clear IHu.
  rewrite expand_app, ends_with_lf_snoc. cbn [expand]. destruct (is_lf x) eqn:E.
  - change [CR; LF] with ([CR] ++ [LF]). rewrite app_assoc, ends_with_lf_snoc. reflexivity.
  - rewrite ends_with_lf_snoc. exact E.
Qed.

Lemma newline_count_snoc_cr a : newline_count (a ++ [CR]) = newline_count a.
Proof. unfold newline_count. rewrite scan_nl_app. reflexivity. Qed.

Lemma emit_tail_lemma core k : newline_count core = 0 ->
  ends_with_one_crlf (to_windows (finish (core ++ repeat LF k))) /\
  ends_with_one_lf (to_unix (finish (core ++ repeat LF k))).
Proof.
  intros H0. rewrite finish_core_lemma by exact H0.
  destruct (rn_final_lf core) as (a0 & E & Ha).
  assert (Hz : ends_with_lf a0 = false).
  { apply not_ends_lf_spec. apply scan_zero_not_lf_end.
    destruct Ha as [ <- | -> ]; [exact H0|]. rewrite newline_count_snoc_cr in H0. exact H0. }
  split.
  - exists (expand (rustc_normalize a0)). split.
    + rewrite to_windows_expand, E, expand_app. reflexivity.
    + apply not_ends_lf_spec. rewrite ends_with_lf_expand, ends_with_lf_rn. exact Hz.
  - exists (rustc_normalize a0). split.
    + rewrite to_unix_eq_normalize. exact E.
    + apply not_ends_lf_spec. rewrite ends_with_lf_rn. exact Hz.
Qed.

Lemma emit_tail_any_style_lemma s core k raw : newline_count core = 0 ->
  ends_with_one_crlf (emit s (core ++ repeat LF k) raw) \/ ends_with_one_lf (emit s (core ++ repeat LF k) raw).
Proof.
  intros H0. destruct (emit_tail_lemma core k H0) as [Hw Hu].
  unfold emit, apply_to_file, apply_newline_style.
  destruct (effective_newline_style s (rustc_normalize raw)); [left; exact Hw|right; exact Hu].
Qed.
