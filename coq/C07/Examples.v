(* C07/Examples.v — non-vacuity: concrete values meeting the hypotheses of each
   implication of Props.v, and the model's behaviour on small inputs. *)
From V Require Import Base.Text C07.Model C07.Lemmas C07.Run.
From Coq Require Import Sorted.
Open Scope N_scope.

(* three lines at tab_spaces 4, max_width 6:
     1  <TAB>aaaa      8 columns: too wide
     2  bb<SP>         trailing blank
     3  cc                                           *)
Definition s3 : stream :=
  nrm [9; 97; 97; 97; 97; 10;  98; 98; 32; 10;  99; 99; 10].
Definition c3 : config := MkCfg 6 4 true true.

Example s3_lines :
  tlines s3 = [(nrm [9; 97; 97; 97; 97], Normal); (nrm [98; 98; 32], Normal); (nrm [99; 99], Normal)]
  /\ trest s3 = [].
Proof. vm_compute. auto. Qed.

Example s3_scan :
  scan c3 [] all_lines s3 = Some [(1, LineOverflow 8 6); (2, TrailingWhitespace)].
Proof. vm_compute. reflexivity. Qed.

(* scan_exact, both directions, on s3 *)
Example s3_offending_overflow : Offending c3 [] all_lines s3 1 (LineOverflow 8 6).
Proof. apply (scan_exact_l _ _ _ _ _ s3_scan). vm_compute. auto. Qed.
Example s3_offending_trailing : Offending c3 [] all_lines s3 2 TrailingWhitespace.
Proof. apply (scan_exact_l _ _ _ _ _ s3_scan). vm_compute. auto. Qed.
Example s3_not_offending : ~ Offending c3 [] all_lines s3 3 TrailingWhitespace.
Proof.
  intros H. apply (scan_exact_l _ _ _ _ _ s3_scan) in H.
  cbn [In] in H. destruct H as [H|[H|H]]; [discriminate | discriminate | contradiction].
Qed.
(* Offending proved directly from its definition (not through the scanner) *)
Example s3_offending_direct : Offending c3 [] all_lines s3 2 TrailingWhitespace.
Proof.
  exists (nrm [98; 98; 32]), Normal. vm_compute.
  repeat split; auto; discriminate.
Qed.

(* scan_sorted *)
Example s3_sorted :
  StronglySorted N.le (map fst [(1, LineOverflow 8 6); (2, TrailingWhitespace)])
  /\ N.of_nat (length (tlines s3)) = 3.
Proof.
  split; [|reflexivity]. apply (scan_sorted_l _ _ _ _ _ s3_scan).
Qed.

(* selected_only / skipped_never: lines 2..3 selected, line 2 skipped; then
   line 1 selected only *)
Definition sel23 (n : N) : bool := (2 <=? n) && (n <=? 3).
Example s3_selected : scan c3 [] sel23 s3 = Some [(2, TrailingWhitespace)].
Proof. vm_compute. reflexivity. Qed.
Example s3_skipped : scan c3 [(2, 2)] all_lines s3 = Some [(1, LineOverflow 8 6)].
Proof. vm_compute. reflexivity. Qed.
Example s3_selected_skipped : scan c3 [(2, 2)] sel23 s3 = Some [].
Proof. vm_compute. reflexivity. Qed.
Example s3_skipped_range_hyp : In (2, 2) [(2, 2)] /\ 2 <= 2 <= 2.
Proof. vm_compute. split; [auto|]. split; discriminate. Qed.

(* overflow_reported_iff: its hypotheses hold for line 1 of s3; the three
   regimes on the line  aaaaaaa<SP>  (8 columns) *)
Example s3_overflow_hyps :
  scan c3 [] all_lines s3 = Some [(1, LineOverflow 8 6); (2, TrailingWhitespace)]
  /\ 1 <= 1
  /\ nth_error (tlines s3) (N.to_nat (1 - 1)) = Some (nrm [9; 97; 97; 97; 97], Normal)
  /\ max_width c3 < width c3 (nrm [9; 97; 97; 97; 97]).
Proof. vm_compute. repeat split; auto; discriminate. Qed.

Definition wide_blank : stream := nrm [97; 97; 97; 97; 97; 97; 97; 32; 10].
Example regime_both :      (* max 6: effective width 7 > 6 *)
  scan (MkCfg 6 4 true true) [] all_lines wide_blank
  = Some [(1, TrailingWhitespace); (1, LineOverflow 7 6)].
Proof. vm_compute. reflexivity. Qed.
Example regime_trailing_only_width :   (* max 7: 8 > 7 but effective width 7 *)
  scan (MkCfg 7 4 true true) [] all_lines wide_blank = Some [(1, TrailingWhitespace)].
Proof. vm_compute. reflexivity. Qed.
Example regime_trailing_only_eol_off :
  scan (MkCfg 6 4 false true) [] all_lines wide_blank = Some [(1, TrailingWhitespace)].
Proof. vm_compute. reflexivity. Qed.
Example regime_none_eol_off :          (* no trailing blank, overflow reports off *)
  scan (MkCfg 6 4 false true) [] all_lines (nrm [97; 97; 97; 97; 97; 97; 97; 97; 10]) = Some [].
Proof. vm_compute. reflexivity. Qed.
Example regime_none_unselected :
  scan (MkCfg 6 4 true true) [] (fun _ => false) wide_blank = Some [].
Proof. vm_compute. reflexivity. Qed.

(* both_on_exact: c3 has both options on (s3_scan above) *)
Example c3_both_on : error_on_line_overflow c3 = true /\ error_on_unformatted c3 = true.
Proof. auto. Qed.

(* eou_off_exact / trailing_every_setting: four lines, max_width 5:
     1  //aaaaaa<SP>     line comment (LF of kind EndComment), trailing blank
     2  x="aaaaaa"       contains a string literal, too wide
     3  bbbbbbbbb        plain, too wide
     4  cc<SP>           plain, trailing blank                      *)
Definition s4 : stream :=
  [(StartComment, 47); (InComment, 47); (InComment, 97); (InComment, 97); (InComment, 97);
   (InComment, 97); (InComment, 97); (InComment, 97); (InComment, 32); (EndComment, 10)]
  ++ [(Normal, 120); (Normal, 61); (InString, 34); (InString, 97); (InString, 97); (InString, 97);
      (InString, 97); (InString, 97); (InString, 97); (InString, 34); (Normal, 10)]
  ++ nrm [98; 98; 98; 98; 98; 98; 98; 98; 98; 10; 99; 99; 32; 10].
Definition c4 : config := MkCfg 5 4 true false.

Example s4_off :
  scan c4 [] all_lines s4 = Some [(3, LineOverflow 9 5); (4, TrailingWhitespace)].
Proof. vm_compute. reflexivity. Qed.
Example s4_on :
  scan (cfg_eou_on c4) [] all_lines s4
  = Some [(1, TrailingWhitespace); (1, LineOverflow 8 5); (2, LineOverflow 10 5);
          (3, LineOverflow 9 5); (4, TrailingWhitespace)].
Proof. vm_compute. reflexivity. Qed.
Example s4_exempt :
  map (fun bl => exempt (fst bl) (snd bl)) (tlines s4) = [true; true; false; false].
Proof. vm_compute. reflexivity. Qed.
(* the trailing blank of line 4 under all four settings of the two options *)
Example s4_trailing_every_setting :
  forall eol eou, exists errs,
    scan (MkCfg 5 4 eol eou) [] all_lines s4 = Some errs /\ In (4, TrailingWhitespace) errs.
Proof.
  intros [|] [|]; eexists; (split; [vm_compute; reflexivity|]); cbn [In]; auto 10.
Qed.
Example s4_trailing_hyps :
  nth_error (tlines s4) (N.to_nat (4 - 1)) = Some (nrm [99; 99; 32], Normal)
  /\ exempt (nrm [99; 99; 32]) Normal = false /\ ends_blank (nrm [99; 99; 32]) = true.
Proof. vm_compute. auto. Qed.

(* report_flags *)
Example s4_flags :
  format_lines (cfg_eou_on c4) [] all_lines s4
  = Some ([MkErr 1 TrailingWhitespace true false; MkErr 1 (LineOverflow 8 5) true false;
           MkErr 2 (LineOverflow 10 5) false true; MkErr 3 (LineOverflow 9 5) false false;
           MkErr 4 TrailingWhitespace false false], 35).
Proof. vm_compute. reflexivity. Qed.

(* trailing_exits_one / overflow_exits_one: from default flags, no --check *)
Example s3_exit :
  exists es kept,
    format_lines c3 [] all_lines s3 = Some (es, kept)
    /\ In (2, TrailingWhitespace) (map (fun e => (fe_line e, fe_kind e)) es)
    /\ In (1, LineOverflow 8 6) (map (fun e => (fe_line e, fe_kind e)) es)
    /\ track_errors flags_default es = MkFlags true false true false false false true
    /\ exit_code (flags_add flags_default (track_errors flags_default es)) false = 1
    /\ exit_code_stdin (flags_add flags_default (track_errors flags_default es)) = 1.
Proof. eexists. eexists. vm_compute. repeat split; auto. Qed.
(* no error: exit 0 *)
Example clean_exit :
  format_lines c3 [] all_lines (nrm [97; 10]) = Some ([], 2)
  /\ exit_code (flags_add flags_default (track_errors flags_default [])) true = 0.
Proof. vm_compute. auto. Qed.
(* the early return of track_errors (lib.rs:224) *)
Example track_early_return :
  track_errors (MkFlags true false false false true false true)
               [MkErr 1 TrailingWhitespace false false]
  = MkFlags true false true false true false true.
Proof. vm_compute. reflexivity. Qed.

(* scan_none_iff / scan_total *)
Example underflow_hyps :
  nth_error (tlines (nrm [9; 10])) (N.to_nat (1 - 1)) = Some (nrm [9], Normal)
  /\ ends_blank (nrm [9]) = true /\ width (MkCfg 100 0 false false) (nrm [9]) = 0.
Proof. vm_compute. auto. Qed.
Example total_hyp : tab_spaces c3 <> 0.
Proof. discriminate. Qed.

(* CR handling (formatting.rs:531): a CR is skipped wherever it stands *)
Example cr_trailing :   (* a<SP><CR><LF> b<CR><LF> *)
  scan c3 [] all_lines (nrm [97; 32; 13; 10; 98; 13; 10]) = Some [(1, TrailingWhitespace)].
Proof. vm_compute. reflexivity. Qed.
Example cr_no_width :   (* aaa<CR>aaa<LF> at max_width 6 *)
  scan c3 [] all_lines (nrm [97; 97; 97; 13; 97; 97; 97; 10]) = Some [].
Proof. vm_compute. reflexivity. Qed.
(* blank = char::is_whitespace: U+00A0 and U+3000 count; width is one per
   char (U+4E00 is one column here) *)
Example nbsp_trailing :
  scan c3 [] all_lines (nrm [97; 160; 10; 98; 12288; 10])
  = Some [(1, TrailingWhitespace); (2, TrailingWhitespace)].
Proof. vm_compute. reflexivity. Qed.
Example wide_char_one_column :
  scan (MkCfg 4 4 true true) [] all_lines (nrm [19968; 19968; 19968; 19968; 10]) = Some [].
Proof. vm_compute. reflexivity. Qed.

(* truncate_spec *)
Example truncate_example :   (* a<LF><LF><LF> keeps a<LF> *)
  format_lines c3 [] all_lines (nrm [97; 10; 10; 10]) = Some ([], 2)
  /\ trailing_lfs (nrm [97; 10; 10; 10]) = 3.
Proof. vm_compute. auto. Qed.

(* a skip-marked item of three lines (attribute on source line 6) that moved up to output line 2: range 3..4 *)
Example skip_range_moved : run_skip_range 6 6 7 2 1 = (true, 3, 4).
Proof. vm_compute. reflexivity. Qed.
