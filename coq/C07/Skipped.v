(* C07/Skipped.v — proofs about the recorded range of a skip-marked item (Model.v: range_recorded) *)
From V Require Import Base.Text C07.Model C07.Lemmas.
Open Scope N_scope.

Lemma site_okb_spec s : site_okb s = true <-> site_ok s.
Proof.
  unfold site_okb, site_ok. rewrite !andb_true_iff, !N.leb_le. tauto.
Qed.

(* the recorded range is exactly the output lines of the item from its first non-attribute line (or the line after the
   attributes) to its last line *)
Lemma range_recorded_exact s : site_ok s ->
  forall n, (fst (range_recorded s) <= n <= snd (range_recorded s)) <->
            (exists k, site_lo_src s <= k <= src_start s + body_nl s /\ n = out_line_of s k).
Proof.
  intros [H1 [H2 [H3 H4]]] n. unfold range_recorded, out_line_of, site_lo_src. cbn [fst snd]. split.
  - intros [Ha Hb]. exists (n + src_start s - (out_before s + 1)). lia.
  - intros [k [[Ha Hb] ->]]. lia.
Qed.

(* before the repair the first line of the range was a SOURCE line: the ranges agree exactly when the item stands on the
   same line in source and output ... *)
Lemma range_pre_repair_same_iff s : site_ok s ->
  (range_pre_repair s = range_recorded s <-> out_before s + 1 = src_start s).
Proof.
  intros [H1 [H2 [H3 H4]]]. unfold range_pre_repair, range_recorded, site_lo_src. split.
  - intros H. injection H as H. lia.
  - intros H. f_equal. lia.
Qed.

(* ... and when the code before the item SHRANK while being formatted, a line of the skipped item fell outside the range
   (it was then reported); when it GREW, a formatted line before the item was inside it (never checked) *)
Lemma range_pre_repair_shrunk_misses :
  exists s k, site_ok s /\ site_lo_src s <= k <= src_start s + body_nl s /\
              ~ (fst (range_pre_repair s) <= out_line_of s k <= snd (range_pre_repair s)).
Proof.
  exists (MkSite 6 6 7 2 1), 8. unfold site_ok, site_lo_src, range_pre_repair, out_line_of; cbn [src_start attrs_end first_line body_nl out_before fst snd].
  split; [lia|]. split; [split; vm_compute; discriminate|]. intros [Ha _]. vm_compute in Ha. apply Ha. reflexivity.
Qed.
Lemma range_pre_repair_grown_covers_other :
  exists s n, site_ok s /\ n < out_line_of s (src_start s) /\ fst (range_pre_repair s) <= n <= snd (range_pre_repair s).
Proof.
  exists (MkSite 2 2 3 2 4), 4. unfold site_ok, site_lo_src, range_pre_repair, out_line_of; cbn [src_start attrs_end first_line body_nl out_before fst snd].
  split; [lia|]. split; [vm_compute; reflexivity|]. split; vm_compute; discriminate.
Qed.

(* with the scanner: no line of the item's body is ever reported, wherever the item moved to *)
Lemma skipped_item_never_reported cfg skipped sel (st : stream) errs s n k :
  site_ok s -> In (range_recorded s) skipped ->
  scan cfg skipped sel st = Some errs -> In (n, k) errs ->
  forall j, site_lo_src s <= j <= src_start s + body_nl s -> n <> out_line_of s j.
Proof.
  intros Hok Hin Hs He j Hj Heq.
  destruct (range_recorded s) as [lo hi] eqn:E.
  pose proof (proj2 (range_recorded_exact s Hok n)) as R. rewrite E in R. cbn [fst snd] in R.
  assert (lo <= n <= hi) by (apply R; exists j; split; [exact Hj|exact Heq]).
  exact (C07.Lemmas.skipped_never_l cfg skipped sel st errs n k Hs He lo hi Hin H).
Qed.
