(* C07/Model.v — executable model of rustfmt's line-width / trailing-whitespace
   diagnostics.
   Sources modelled:
     src/comment.rs:1253-1302   FullCodeCharKind, is_comment, is_string   (kind, is_comment, is_string)
     src/lib.rs:110-151         ErrorKind, ErrorKind::is_comment          (error_kind, ek_is_comment)
     src/formatting.rs:308-314  FormattingError (without line_buffer)     (ferr)
     src/formatting.rs:373-407  ReportedErrors, ReportedErrors::add       (flags, flags_add)
     src/formatting.rs:474-491  format_lines                              (format_lines)
     src/formatting.rs:493-631  FormatLines::{new, iterate, new_line, char, push_err,
                                should_report_error, is_skipped_line}
     src/lib.rs:219-246         FormatReport::track_errors                (track_errors)
     src/bin/main.rs:323-327    exit code of format_string (stdin)        (exit_code_stdin)
     src/bin/main.rs:387-394    exit code of format (files)               (exit_code)
   NOT modelled: CharClasses (the input is the stream of (kind, char) pairs it
   yields), FormattingError::line_buffer (text of the line, display only),
   usize overflow of the additions (line_len, cur_line, newline_count).
   The unchecked `self.line_len -= 1` IS modelled: underflow gives None.
   Definitions only; proofs are in Lemmas.v. *)
From V Require Import Base.Text.
Open Scope N_scope.

(* ------------------------------------------------------------------ *)
(* comment.rs:1253 enum FullCodeCharKind, in declaration order *)
Inductive kind : Type :=
| Normal
| StartComment
| InComment
| EndComment
| StartStringCommented
| EndStringCommented
| InStringCommented
| StartString
| EndString
| InString.

(* comment.rs:1277 FullCodeCharKind::is_comment *)
Definition is_comment (k : kind) : bool :=
  match k with
  | StartComment | InComment | EndComment
  | StartStringCommented | InStringCommented | EndStringCommented => true
  | _ => false
  end.

(* comment.rs:1300 FullCodeCharKind::is_string *)
Definition is_string (k : kind) : bool :=
  match k with
  | InString | StartString => true
  | _ => false
  end.

(* lib.rs:110 enum ErrorKind (payloads other than LineOverflow's dropped) *)
Inductive error_kind : Type :=
| LineOverflow (found max : N)
| TrailingWhitespace
| DeprecatedAttr
| BadAttr
| IoError
| ModuleResolutionError
| ParseError
| VersionMismatch
| LostComment
| InvalidGlobPattern.

(* lib.rs:148 ErrorKind::is_comment *)
Definition ek_is_comment (e : error_kind) : bool :=
  match e with LostComment => true | _ => false end.

(* formatting.rs:308 struct FormattingError *)
Record ferr : Type := MkErr {
  fe_line : N;
  fe_kind : error_kind;
  fe_is_comment : bool;
  fe_is_string : bool
}.

(* the Config getters used by FormatLines *)
Record config : Type := MkCfg {
  max_width : N;
  tab_spaces : N;
  error_on_line_overflow : bool;
  error_on_unformatted : bool
}.

Definition stream : Type := list (kind * char).

(* formatting.rs:493 struct FormatLines (name, skipped_range, config are the
   section variables; line_buffer omitted) *)
Record fl : Type := MkFL {
  last_was_space : bool;
  line_len : N;
  cur_line : N;
  newline_count : N;
  errors : list ferr;
  has_strlit : bool;          (* current_line_contains_string_literal *)
  format_line : bool
}.

Section FormatLines.
Variable cfg : config.
Variable skipped : list (N * N).   (* skipped_range: inclusive (lo, hi) *)
Variable sel : N -> bool.          (* config.file_lines().contains_line(name, _) *)

(* formatting.rs:508 FormatLines::new *)
Definition fl_new : fl :=
  MkFL false 0 1 0 [] false (sel 1).

(* formatting.rs:626 is_skipped_line *)
Definition is_skipped_line (st : fl) : bool :=
  existsb (fun r => (fst r <=? cur_line st) && (cur_line st <=? snd r)) skipped.

(* formatting.rs:606 should_report_error *)
Definition should_report_error (st : fl) (char_kind : kind) (ek : error_kind) : bool :=
  let allow_error_report :=
    if is_comment char_kind || has_strlit st || ek_is_comment ek
    then error_on_unformatted cfg
    else true in
  match ek with
  | LineOverflow _ _ => error_on_line_overflow cfg && allow_error_report
  | TrailingWhitespace | LostComment => allow_error_report
  | _ => true
  end.

(* formatting.rs:596 push_err *)
Definition push_err (st : fl) (ek : error_kind) (is_c is_s : bool) : fl :=
  MkFL (last_was_space st) (line_len st) (cur_line st) (newline_count st)
       (errors st ++ [MkErr (cur_line st) ek is_c is_s])
       (has_strlit st) (format_line st).

Definition set_line_len (st : fl) (n : N) : fl :=
  MkFL (last_was_space st) n (cur_line st) (newline_count st) (errors st)
       (has_strlit st) (format_line st).

(* formatting.rs:546-557: the trailing-whitespace check, with the unchecked
   `self.line_len -= 1` (None = underflow: panic in a build with overflow
   checks, wrap to usize::MAX otherwise) *)
Definition trailing_check (st : fl) (k : kind) : option fl :=
  if last_was_space st then
    let st1 :=
      if should_report_error st k TrailingWhitespace && negb (is_skipped_line st)
      then push_err st TrailingWhitespace (is_comment k) (is_string k)
      else st in
    if line_len st1 =? 0 then None
    else Some (set_line_len st1 (line_len st1 - 1))
  else Some st.

(* formatting.rs:560-567: the line-width check *)
Definition overflow_check (st : fl) (k : kind) : fl :=
  let ek := LineOverflow (line_len st) (max_width cfg) in
  if (max_width cfg <? line_len st)
     && negb (is_skipped_line st)
     && should_report_error st k ek
  then push_err st ek (is_comment k) (has_strlit st)
  else st.

(* formatting.rs:543 new_line *)
Definition new_line (st : fl) (k : kind) : option fl :=
  match (if format_line st
         then match trailing_check st k with
              | Some st1 => Some (overflow_check st1 k)
              | None => None
              end
         else Some st) with
  | None => None
  | Some st2 =>
      Some (MkFL false 0 (cur_line st2 + 1) (newline_count st2 + 1) (errors st2)
                 false (sel (cur_line st2 + 1)))
  end.

(* formatting.rs:582 char *)
Definition char_step (st : fl) (c : char) (k : kind) : fl :=
  MkFL (is_whitespace c)
       (line_len st + (if c =? TAB then tab_spaces cfg else 1))
       (cur_line st) 0 (errors st)
       (if is_string k then true else has_strlit st)
       (format_line st).

(* formatting.rs:529 iterate *)
Fixpoint iterate (st : fl) (s : stream) : option fl :=
  match s with
  | [] => Some st
  | (k, c) :: s' =>
      if is_cr c then iterate st s'
      else if is_lf c then
        match new_line st k with
        | Some st' => iterate st' s'
        | None => None
        end
      else iterate (char_step st c k) s'
  end.

(* formatting.rs:474 format_lines: the errors handed to report.append, and
   the length of the text after `text.truncate(..)`.  The model counts chars;
   the code counts bytes, but the newline_count - 1 bytes it removes are the
   last bytes of a suffix made of LF and CR only (1 byte each), so the same
   number of chars goes. *)
Definition format_lines (s : stream) : option (list ferr * N) :=
  match iterate fl_new s with
  | None => None
  | Some st =>
      let len := N.of_nat (length s) in
      Some (errors st,
            if 1 <? newline_count st then len - newline_count st + 1 else len)
  end.

(* what the report says: (line, kind) per error, in push order *)
Definition scan (s : stream) : option (list (N * error_kind)) :=
  match format_lines s with
  | None => None
  | Some (es, _) => Some (map (fun e => (fe_line e, fe_kind e)) es)
  end.

(* ------------------------------------------------------------------ *)
(* Vocabulary of the declarative specification (executable, no scanner
   state): the LF-terminated lines of the stream and per-line measures. *)

(* a CR is dropped wherever it stands (formatting.rs:531) *)
Definition strip_cr (s : stream) : stream :=
  filter (fun p => negb (is_cr (snd p))) s.

(* split at LF; each terminated line with the kind of its LF; the
   unterminated remainder is dropped.  cur = current line, reversed *)
Fixpoint lines_aux (cur : stream) (s : stream) : list (stream * kind) :=
  match s with
  | [] => []
  | (k, c) :: s' =>
      if is_lf c then (rev cur, k) :: lines_aux [] s'
      else lines_aux ((k, c) :: cur) s'
  end.
Definition tlines (s : stream) : list (stream * kind) := lines_aux [] (strip_cr s).

(* the remainder after the last LF *)
Fixpoint rest_aux (cur : stream) (s : stream) : stream :=
  match s with
  | [] => rev cur
  | (k, c) :: s' => if is_lf c then rest_aux [] s' else rest_aux ((k, c) :: cur) s'
  end.
Definition trest (s : stream) : stream := rest_aux [] (strip_cr s).

(* number of LFs after the last char that is neither LF nor CR *)
Fixpoint lead_lf (t : stream) : N :=
  match t with
  | (_, c) :: t' => if is_lf c then 1 + lead_lf t' else 0
  | [] => 0
  end.
Definition trailing_lfs (s : stream) : N := lead_lf (rev (strip_cr s)).

Definition cwidth (c : char) : N := if c =? TAB then tab_spaces cfg else 1.
Fixpoint width (b : stream) : N :=
  match b with
  | [] => 0
  | (_, c) :: b' => cwidth c + width b'
  end.
Definition ends_blank (b : stream) : bool :=
  match rev b with
  | (_, c) :: _ => is_whitespace c
  | [] => false
  end.
Definition has_string (b : stream) : bool := existsb (fun p => is_string (fst p)) b.
(* the width the code compares with max_width: one less if the line ends blank *)
Definition eff_width (b : stream) : N := width b - (if ends_blank b then 1 else 0).
(* the exemption that error_on_unformatted = false grants *)
Definition exempt (b : stream) (lfk : kind) : bool := is_comment lfk || has_string b.
Definition in_skipped (n : N) : bool :=
  existsb (fun r => (fst r <=? n) && (n <=? snd r)) skipped.
(* selected, not skipped, not exempted *)
Definition reportable (n : N) (b : stream) (lfk : kind) : bool :=
  sel n && negb (in_skipped n) && (if exempt b lfk then error_on_unformatted cfg else true).

End FormatLines.

(* ------------------------------------------------------------------ *)
(* formatting.rs:373 struct ReportedErrors *)
Record flags : Type := MkFlags {
  has_operational_errors : bool;
  has_parsing_errors : bool;
  has_formatting_errors : bool;
  has_macro_format_failure : bool;
  has_check_errors : bool;
  has_diff : bool;
  has_unformatted_code_errors : bool
}.
Definition flags_default : flags := MkFlags false false false false false false false.

(* formatting.rs:398 ReportedErrors::add *)
Definition flags_add (a b : flags) : flags :=
  MkFlags (has_operational_errors a || has_operational_errors b)
          (has_parsing_errors a || has_parsing_errors b)
          (has_formatting_errors a || has_formatting_errors b)
          (has_macro_format_failure a || has_macro_format_failure b)
          (has_check_errors a || has_check_errors b)
          (has_diff a || has_diff b)
          (has_unformatted_code_errors a || has_unformatted_code_errors b).

(* lib.rs:228-245: one iteration of the loop of track_errors *)
Definition track_one (f : flags) (e : ferr) : flags :=
  match fe_kind e with
  | LineOverflow _ _ =>
      MkFlags true (has_parsing_errors f) (has_formatting_errors f)
              (has_macro_format_failure f) (has_check_errors f) (has_diff f)
              (has_unformatted_code_errors f)
  | TrailingWhitespace =>
      MkFlags true (has_parsing_errors f) (has_formatting_errors f)
              (has_macro_format_failure f) (has_check_errors f) (has_diff f) true
  | LostComment =>
      MkFlags (has_operational_errors f) (has_parsing_errors f) (has_formatting_errors f)
              (has_macro_format_failure f) (has_check_errors f) (has_diff f) true
  | DeprecatedAttr | BadAttr | VersionMismatch =>
      MkFlags (has_operational_errors f) (has_parsing_errors f) (has_formatting_errors f)
              (has_macro_format_failure f) true (has_diff f)
              (has_unformatted_code_errors f)
  | _ => f
  end.

(* lib.rs:219 FormatReport::track_errors *)
Definition track_errors (f : flags) (new_errors : list ferr) : flags :=
  let f1 :=
    match new_errors with
    | [] => f
    | _ :: _ =>
        MkFlags (has_operational_errors f) (has_parsing_errors f) true
                (has_macro_format_failure f) (has_check_errors f) (has_diff f)
                (has_unformatted_code_errors f)
    end in
  if has_operational_errors f1 && has_check_errors f1 && has_unformatted_code_errors f1
  then f1
  else fold_left track_one new_errors f1.

(* bin/main.rs:387 (format: files given on the command line) *)
Definition exit_code (f : flags) (check : bool) : N :=
  if has_operational_errors f
     || has_parsing_errors f
     || ((has_diff f || has_check_errors f) && check)
  then 1 else 0.

(* bin/main.rs:323 (format_string: input from stdin) *)
Definition exit_code_stdin (f : flags) : N :=
  if has_operational_errors f || has_parsing_errors f then 1 else 0.

(* ---------------------------------------------------------------------------------------------
   visitor.rs push_skipped_with_span: the range of OUTPUT lines recorded for a skip-marked item (it is what
   is_skipped_line consults).  Lines are 1-based.
     src_start : source line on which the item starts (its first attribute)
     attrs_end : source line on which its last attribute ends
     first_line: source line on which the item proper starts
     body_nl   : number of newlines inside the item's text, first attribute to last token (the text is pushed
                 verbatim, so the output has as many)
     out_before: the visitor's line_number (newlines in the buffer) when the item is about to be pushed, i.e. the
                 item starts on output line out_before + 1
       let lo = min(attrs_end + 1, first_line);                       // a SOURCE line
       let lo = (lo + out_start).saturating_sub(src_start);           // since the repair: the OUTPUT line
       self.push_rewrite_inner(item_span, None);
       let hi = self.line_number + 1;                                 // an OUTPUT line *)
Record skip_site : Type := MkSite { src_start : N; attrs_end : N; first_line : N; body_nl : N; out_before : N }.
Definition site_lo_src (s : skip_site) : N := N.min (attrs_end s + 1) (first_line s).
Definition range_pre_repair (s : skip_site) : N * N := (site_lo_src s, out_before s + body_nl s + 1).
Definition range_recorded (s : skip_site) : N * N :=
  (site_lo_src s + (out_before s + 1) - src_start s, out_before s + body_nl s + 1).
(* where the source line k of the item stands in the output *)
Definition out_line_of (s : skip_site) (k : N) : N := out_before s + 1 + (k - src_start s).
(* the attributes come first, the item proper after them, everything inside the item's text *)
Definition site_ok (s : skip_site) : Prop :=
  src_start s <= attrs_end s /\ attrs_end s <= first_line s /\ first_line s <= src_start s + body_nl s /\ 1 <= src_start s.
Definition site_okb (s : skip_site) : bool :=
  (src_start s <=? attrs_end s) && (attrs_end s <=? first_line s) && (first_line s <=? src_start s + body_nl s) && (1 <=? src_start s).
