(* C07/Run.v — encodings of model results for the correspondence run.

   run_scan max_width tab_spaces eol eou skipped sel_all sel stream
     eol, eou   error_on_line_overflow, error_on_unformatted
     skipped    inclusive (lo, hi) line ranges (skipped_range)
     sel_all    true: every line is selected (file_lines = all), sel ignored;
                false: line n is selected iff lo <= n <= hi for some (lo, hi) in sel
     stream     (kind, char) pairs; kind 0..9 in the order of the Rust enum
                declaration: 0 Normal, 1 StartComment, 2 InComment, 3 EndComment,
                4 StartStringCommented, 5 EndStringCommented, 6 InStringCommented,
                7 StartString, 8 EndString, 9 InString (anything above 9: InString)
   result: None if `line_len -= 1` underflows, else
     Some (errors, kept) with errors = (line, 0 = LineOverflow | 1 = TrailingWhitespace,
     found width or 0) in push order, and kept = number of chars of the text
     after format_lines' truncate.
   run_scan_flags: the same with is_comment and is_string of each error. *)
From V Require Import Base.Text C07.Model.
Open Scope N_scope.

Definition kind_of_N (n : N) : kind :=
  match n with
  | 0 => Normal | 1 => StartComment | 2 => InComment | 3 => EndComment
  | 4 => StartStringCommented | 5 => EndStringCommented | 6 => InStringCommented
  | 7 => StartString | 8 => EndString | _ => InString
  end.

Definition in_ranges (rs : list (N * N)) (n : N) : bool :=
  existsb (fun r => (fst r <=? n) && (n <=? snd r)) rs.
Definition sel_of (sel_all : bool) (rs : list (N * N)) (n : N) : bool :=
  sel_all || in_ranges rs n.

Definition dec_stream (s : list (N * N)) : stream :=
  map (fun p => (kind_of_N (fst p), snd p)) s.

Definition enc_ek (e : error_kind) : N * N :=
  match e with
  | LineOverflow found _ => (0, found)
  | TrailingWhitespace => (1, 0)
  | DeprecatedAttr => (2, 0) | BadAttr => (3, 0) | IoError => (4, 0)
  | ModuleResolutionError => (5, 0) | ParseError => (6, 0) | VersionMismatch => (7, 0)
  | LostComment => (8, 0) | InvalidGlobPattern => (9, 0)
  end.
Definition enc_err (e : ferr) : N * N * N :=
  (fe_line e, fst (enc_ek (fe_kind e)), snd (enc_ek (fe_kind e))).
Definition enc_err_flags (e : ferr) : N * N * N * bool * bool :=
  (fe_line e, fst (enc_ek (fe_kind e)), snd (enc_ek (fe_kind e)), fe_is_comment e, fe_is_string e).

Definition run_scan (max_width tab_spaces : N) (eol eou : bool) (skipped : list (N * N))
           (sel_all : bool) (sel : list (N * N)) (s : list (N * N))
  : option (list (N * N * N) * N) :=
  match format_lines (MkCfg max_width tab_spaces eol eou) skipped (sel_of sel_all sel) (dec_stream s) with
  | None => None
  | Some (es, kept) => Some (map enc_err es, kept)
  end.

Definition run_scan_flags (max_width tab_spaces : N) (eol eou : bool) (skipped : list (N * N))
           (sel_all : bool) (sel : list (N * N)) (s : list (N * N))
  : option (list (N * N * N * bool * bool) * N) :=
  match format_lines (MkCfg max_width tab_spaces eol eou) skipped (sel_of sel_all sel) (dec_stream s) with
  | None => None
  | Some (es, kept) => Some (map enc_err_flags es, kept)
  end.

(* track_errors + exit codes.  Flags in the order of struct ReportedErrors:
   operational, parsing, formatting, macro_format_failure, check, diff,
   unformatted_code.  errs: error kinds encoded as by enc_ek (first component;
   0 = LineOverflow .. 9 = InvalidGlobPattern, ErrorKind declaration order).
   Result: the seven flags after track_errors, exit_code with the given
   --check, exit_code_stdin. *)
Definition ek_of_N (n : N) : error_kind :=
  match n with
  | 0 => LineOverflow 0 0 | 1 => TrailingWhitespace | 2 => DeprecatedAttr | 3 => BadAttr
  | 4 => IoError | 5 => ModuleResolutionError | 6 => ParseError | 7 => VersionMismatch
  | 8 => LostComment | _ => InvalidGlobPattern
  end.
Definition enc_flags (f : flags) : list bool :=
  [has_operational_errors f; has_parsing_errors f; has_formatting_errors f;
   has_macro_format_failure f; has_check_errors f; has_diff f;
   has_unformatted_code_errors f].
Definition run_track (op pa fo ma ch di un : bool) (errs : list N) (check : bool)
  : list bool * N * N :=
  let f := track_errors (MkFlags op pa fo ma ch di un)
                        (map (fun n => MkErr 1 (ek_of_N n) false false) errs) in
  (enc_flags f, exit_code f check, exit_code_stdin f).

(* the range recorded for a skip-marked item: (src_start, attrs_end, first_line, body_nl, out_before) -> (well-formed, lo, hi) *)
Definition run_skip_range (a b c d e : N) : bool * N * N :=
  let s := MkSite a b c d e in (site_okb s, fst (range_recorded s), snd (range_recorded s)).
