(* C07/Props.v — the theorems of property C07 (line-width / trailing-whitespace
   diagnostics).  Vocabulary (Model.v): tlines s = the LF-terminated lines of
   the stream with CRs dropped, each as (body, kind of its LF); width,
   ends_blank, has_string, eff_width, exempt, in_skipped, reportable.
   Offending (Lemmas.v) is the declarative specification.  scan returns None
   exactly when the unchecked `line_len -= 1` underflows (scan_none_iff). *)
From V Require Import C07.Skipped.
From V Require Import Base.Text C07.Model C07.Lemmas.
From Coq Require Import Sorted.
Open Scope N_scope.

(* spec sanity: tlines/trest split the CR-stripped stream at its LFs *)
Theorem tlines_split : forall s : stream,
  strip_cr s = concat (map (fun bl => fst bl ++ [(snd bl, LF)]) (tlines s)) ++ trest s
  /\ (forall b k p, In (b, k) (tlines s) -> In p b -> snd p <> LF /\ snd p <> CR)
  /\ (forall p, In p (trest s) -> snd p <> LF /\ snd p <> CR).
Proof. exact tlines_split_l. Qed.
Print Assumptions tlines_split.

(* every offending line is reported and nothing else is (both directions) *)
Theorem scan_exact : forall cfg skipped sel (s : stream) errs,
  scan cfg skipped sel s = Some errs ->
  forall n k, In (n, k) errs <-> Offending cfg skipped sel s n k.
Proof. exact scan_exact_l. Qed.
Print Assumptions scan_exact.

(* the scan fails (underflow of line_len -= 1) exactly on a selected line of zero width ending blank *)
Theorem scan_none_iff : forall cfg skipped sel (s : stream),
  scan cfg skipped sel s = None <->
  exists n body lfk,
    1 <= n /\ nth_error (tlines s) (N.to_nat (n - 1)) = Some (body, lfk) /\
    sel n = true /\ ends_blank body = true /\ width cfg body = 0.
Proof. exact scan_none_iff_l. Qed.
Print Assumptions scan_none_iff.

(* with tab_spaces > 0 the scan always completes *)
Theorem scan_total : forall cfg skipped sel (s : stream),
  tab_spaces cfg <> 0 -> exists errs, scan cfg skipped sel s = Some errs.
Proof. exact scan_total_l. Qed.
Print Assumptions scan_total.

(* reported 1-based line numbers are non-decreasing and within 1 .. number of lines *)
Theorem scan_sorted : forall cfg skipped sel (s : stream) errs,
  scan cfg skipped sel s = Some errs ->
  StronglySorted N.le (map fst errs) /\
  forall n k, In (n, k) errs -> 1 <= n <= N.of_nat (length (tlines s)).
Proof. exact scan_sorted_l. Qed.
Print Assumptions scan_sorted.

(* no line outside the selected line ranges is reported *)
Theorem selected_only : forall cfg skipped sel (s : stream) errs n k,
  scan cfg skipped sel s = Some errs -> In (n, k) errs -> sel n = true.
Proof. exact selected_only_l. Qed.
Print Assumptions selected_only.

(* no line of skipped code is reported *)
Theorem skipped_never : forall cfg skipped sel (s : stream) errs n k,
  scan cfg skipped sel s = Some errs -> In (n, k) errs ->
  forall lo hi, In (lo, hi) skipped -> ~ (lo <= n <= hi).
Proof. exact skipped_never_l. Qed.
Print Assumptions skipped_never.

(* only TrailingWhitespace and LineOverflow(_, max_width) are ever reported *)
Theorem scan_kinds : forall cfg skipped sel (s : stream) errs n k,
  scan cfg skipped sel s = Some errs -> In (n, k) errs ->
  k = TrailingWhitespace \/ exists w, k = LineOverflow w (max_width cfg).
Proof. exact scan_kinds_l. Qed.
Print Assumptions scan_kinds.

(* an over-wide line: when it is reported as too wide, when only as ending blank, when not at all *)
Theorem overflow_reported_iff : forall cfg skipped sel (s : stream) errs n body lfk,
  scan cfg skipped sel s = Some errs ->
  1 <= n -> nth_error (tlines s) (N.to_nat (n - 1)) = Some (body, lfk) ->
  max_width cfg < width cfg body ->
  (forall w m, In (n, LineOverflow w m) errs <->
     reportable cfg skipped sel n body lfk = true /\ error_on_line_overflow cfg = true /\
     w = eff_width cfg body /\ m = max_width cfg /\
     (ends_blank body = true -> max_width cfg + 1 < width cfg body))
  /\ (In (n, TrailingWhitespace) errs <->
      reportable cfg skipped sel n body lfk = true /\ ends_blank body = true)
  /\ ((forall k, ~ In (n, k) errs) <->
      reportable cfg skipped sel n body lfk = false
      \/ (ends_blank body = false /\ error_on_line_overflow cfg = false)).
Proof. exact overflow_reported_iff_l. Qed.
Print Assumptions overflow_reported_iff.

(* first sentence: both options on: a terminated line is reported iff selected, not skipped, and over-wide or ending blank *)
Theorem both_on_exact : forall cfg skipped sel (s : stream) errs,
  error_on_line_overflow cfg = true -> error_on_unformatted cfg = true ->
  scan cfg skipped sel s = Some errs ->
  forall n, (exists k, In (n, k) errs) <->
    exists body lfk,
      1 <= n /\ nth_error (tlines s) (N.to_nat (n - 1)) = Some (body, lfk) /\
      sel n = true /\ in_skipped skipped n = false /\
      (max_width cfg < width cfg body \/ ends_blank body = true).
Proof. exact both_on_exact_l. Qed.
Print Assumptions both_on_exact.

(* second sentence: error_on_unformatted off removes exactly the reports on lines whose LF is of comment kind or that contain a string-kind char *)
Theorem eou_off_exact : forall cfg skipped sel (s : stream) errs_off errs_on,
  error_on_unformatted cfg = false ->
  scan cfg skipped sel s = Some errs_off ->
  scan (cfg_eou_on cfg) skipped sel s = Some errs_on ->
  forall n k, In (n, k) errs_off <->
    In (n, k) errs_on /\
    exists body lfk, nth_error (tlines s) (N.to_nat (n - 1)) = Some (body, lfk) /\
                     exempt body lfk = false.
Proof. exact eou_off_exact_l. Qed.
Print Assumptions eou_off_exact.

(* second sentence: a trailing blank on a non-exempt selected unskipped line is reported whatever the two options are *)
Theorem trailing_every_setting : forall cfg skipped sel (s : stream) errs n body lfk,
  scan cfg skipped sel s = Some errs ->
  1 <= n -> nth_error (tlines s) (N.to_nat (n - 1)) = Some (body, lfk) ->
  sel n = true -> in_skipped skipped n = false ->
  exempt body lfk = false -> ends_blank body = true ->
  In (n, TrailingWhitespace) errs.
Proof. exact trailing_every_setting_l. Qed.
Print Assumptions trailing_every_setting.

(* a reported trailing blank sets has_operational_errors: exit status 1 with or without --check, files or stdin *)
Theorem trailing_exits_one : forall cfg skipped sel (s : stream) es kept n f sess check,
  format_lines cfg skipped sel s = Some (es, kept) ->
  In (n, TrailingWhitespace) (map (fun e => (fe_line e, fe_kind e)) es) ->
  exit_code (flags_add sess (track_errors f es)) check = 1
  /\ exit_code_stdin (flags_add sess (track_errors f es)) = 1.
Proof. exact trailing_exits_one_l. Qed.
Print Assumptions trailing_exits_one.

(* the same for a reported over-wide line *)
Theorem overflow_exits_one : forall cfg skipped sel (s : stream) es kept n w m f sess check,
  format_lines cfg skipped sel s = Some (es, kept) ->
  In (n, LineOverflow w m) (map (fun e => (fe_line e, fe_kind e)) es) ->
  exit_code (flags_add sess (track_errors f es)) check = 1
  /\ exit_code_stdin (flags_add sess (track_errors f es)) = 1.
Proof. exact overflow_exits_one_l. Qed.
Print Assumptions overflow_exits_one.

(* is_comment / is_string recorded with each error (they only select the message suffix) *)
Theorem report_flags : forall cfg skipped sel (s : stream) es kept e,
  format_lines cfg skipped sel s = Some (es, kept) -> In e es ->
  exists body lfk,
    1 <= fe_line e /\
    nth_error (tlines s) (N.to_nat (fe_line e - 1)) = Some (body, lfk) /\
    fe_is_comment e = is_comment lfk /\
    fe_is_string e = match fe_kind e with
                     | TrailingWhitespace => is_string lfk
                     | _ => has_string body
                     end.
Proof. exact report_flags_l. Qed.
Print Assumptions report_flags.

(* the truncation after the scan keeps all but trailing_lfs - 1 chars *)
Theorem truncate_spec : forall cfg skipped sel (s : stream) es kept,
  format_lines cfg skipped sel s = Some (es, kept) ->
  kept = if 1 <? trailing_lfs s
         then N.of_nat (length s) - trailing_lfs s + 1
         else N.of_nat (length s).
Proof. exact truncate_spec_l. Qed.
Print Assumptions truncate_spec.

(* GAP: a last line without LF is never checked *)
Theorem unterminated_line_gap :
  exists s,
    tlines s = [] /\
    max_width (MkCfg 2 4 true true) < width (MkCfg 2 4 true true) (trest s) /\
    ends_blank (trest s) = true /\
    scan (MkCfg 2 4 true true) [] all_lines s = Some [].
Proof. exact unterminated_line_gap_l. Qed.
Print Assumptions unterminated_line_gap.

(* GAP: a trailing blank is discounted as one column whatever its width (trailing TAB) *)
Theorem trailing_blank_discount_gap :
  exists s body lfk,
    tlines s = [(body, lfk)] /\
    width (MkCfg 7 4 true true) body = 8 /\
    scan (MkCfg 7 4 true true) [] all_lines s = Some [(1, TrailingWhitespace)] /\
    scan (MkCfg 5 4 true true) [] all_lines s
      = Some [(1, TrailingWhitespace); (1, LineOverflow 7 5)].
Proof. exact trailing_blank_discount_gap_l. Qed.
Print Assumptions trailing_blank_discount_gap.

(* GAP: error_on_unformatted off, a line made only of a block comment closed on that line is still reported *)
Theorem block_comment_line_gap :
  exists s body lfk,
    tlines s = [(body, lfk)] /\
    forallb (fun p => is_comment (fst p)) body = true /\
    scan (MkCfg 4 4 true false) [] all_lines s = Some [(1, LineOverflow 8 4)].
Proof. exact block_comment_line_gap_l. Qed.
Print Assumptions block_comment_line_gap.

(* GAP: error_on_unformatted off, over-wide code followed by a line comment is exempt *)
Theorem code_before_line_comment_gap :
  exists s body lfk,
    tlines s = [(body, lfk)] /\
    firstn 8 body = nrm [97; 97; 97; 97; 97; 97; 97; 97] /\
    scan (MkCfg 4 4 true false) [] all_lines s = Some [] /\
    scan (MkCfg 4 4 true true) [] all_lines s = Some [(1, LineOverflow 11 4)].
Proof. exact code_before_line_comment_gap_l. Qed.
Print Assumptions code_before_line_comment_gap.

(* GAP: tab_spaces = 0 and a selected line of TABs only: line_len -= 1 underflows *)
Theorem line_len_underflow_gap :
  scan (MkCfg 100 0 false false) [] all_lines (nrm [9; 10]) = None.
Proof. exact line_len_underflow_gap_l. Qed.
Print Assumptions line_len_underflow_gap.

(* GAP (outside the wording of C07): CRs do not reset newline_count, the truncation can leave a lone CR *)
Theorem truncate_crlf_gap :
  format_lines (MkCfg 100 4 true true) [] all_lines (nrm [97; 13; 10; 13; 10]) = Some ([], 4)
  /\ firstn 4 [97; 13; 10; 13; 10] = [97; 13; 10; 13].
Proof. exact truncate_crlf_gap_l. Qed.
Print Assumptions truncate_crlf_gap.

(* the range recorded for a skip-marked item (push_skipped_with_span, after the repair) is exactly the OUTPUT lines of the
   item from its first non-attribute line to its last line, wherever the code before it moved the item to *)
Theorem skipped_range_exact : forall s : skip_site, site_ok s ->
  forall n, (fst (range_recorded s) <= n <= snd (range_recorded s)) <->
            (exists k, site_lo_src s <= k <= src_start s + body_nl s /\ n = out_line_of s k).
Proof. exact range_recorded_exact. Qed.
Print Assumptions skipped_range_exact.

(* hence no line of a skip-marked item is ever reported, for every stream, configuration and position of the item *)
Theorem skipped_item_lines_never_reported : forall cfg skipped sel (st : stream) errs (s : skip_site) n k,
  site_ok s -> In (range_recorded s) skipped ->
  scan cfg skipped sel st = Some errs -> In (n, k) errs ->
  forall j, site_lo_src s <= j <= src_start s + body_nl s -> n <> out_line_of s j.
Proof. exact skipped_item_never_reported. Qed.
Print Assumptions skipped_item_lines_never_reported.

(* the pre-repair range (first line in SOURCE coordinates) agreed with it exactly when the item did not move; when the code
   before it shrank a line of the item fell outside the range, when it grew a formatted line before the item fell inside:
   the genuine defect repaired in /repo *)
Theorem skipped_range_pre_repair_refuted :
  (forall s, site_ok s -> (range_pre_repair s = range_recorded s <-> out_before s + 1 = src_start s)) /\
  (exists s k, site_ok s /\ site_lo_src s <= k <= src_start s + body_nl s /\
               ~ (fst (range_pre_repair s) <= out_line_of s k <= snd (range_pre_repair s))) /\
  (exists s n, site_ok s /\ n < out_line_of s (src_start s) /\ fst (range_pre_repair s) <= n <= snd (range_pre_repair s)).
Proof. exact (conj range_pre_repair_same_iff (conj range_pre_repair_shrunk_misses range_pre_repair_grown_covers_other)). Qed.
Print Assumptions skipped_range_pre_repair_refuted.
