(* C07/Lemmas.v — specification (Offending) and all proofs for C07. *)
From V Require Import Base.Text C07.Model.
From Coq Require Import Sorted.
Open Scope N_scope.
Arguments N.add : simpl never.
Arguments N.sub : simpl never.
Arguments N.mul : simpl never.
Arguments N.ltb : simpl never.
Arguments N.leb : simpl never.
Arguments N.eqb : simpl never.

(* ------------------------------------------------------------------ *)
(* The declarative specification.  Line n (1-based) of the text is the n-th
   LF-terminated line of the stream with its CRs removed; `body` is its
   content, `lfk` the kind of its LF. *)
Definition Offending (cfg : config) (skipped : list (N * N)) (sel : N -> bool)
           (s : stream) (n : N) (k : error_kind) : Prop :=
  exists body lfk,
    1 <= n /\ nth_error (tlines s) (N.to_nat (n - 1)) = Some (body, lfk) /\
    sel n = true /\ in_skipped skipped n = false /\
    (exempt body lfk = true -> error_on_unformatted cfg = true) /\
    match k with
    | TrailingWhitespace => ends_blank body = true
    | LineOverflow w m =>
        w = eff_width cfg body /\ m = max_width cfg /\ max_width cfg < w /\
        error_on_line_overflow cfg = true
    | _ => False
    end.

Definition proj (e : ferr) : N * error_kind := (fe_line e, fe_kind e).

(* cfg with error_on_unformatted switched on *)
Definition cfg_eou_on (cfg : config) : config :=
  MkCfg (max_width cfg) (tab_spaces cfg) (error_on_line_overflow cfg) true.

Definition is_reported_kind (e : ferr) : Prop :=
  fe_kind e = TrailingWhitespace \/ exists a b, fe_kind e = LineOverflow a b.

(* ------------------------------------------------------------------ *)
(* generic helpers *)
Lemma in_if_single {A} (c : bool) (x e : A) :
  In e (if c then [x] else []) <-> c = true /\ e = x.
Proof.
  destruct c; cbn [In].
  - split.
    + intros [H|H]; [auto | contradiction].
    + intros [_ H]; auto.
  - split.
    + intros H; contradiction.
    + intros [H _]; discriminate.
Qed.

Lemma ss_app (l1 l2 : list N) :
  StronglySorted N.le l1 -> StronglySorted N.le l2 ->
  (forall a b, In a l1 -> In b l2 -> a <= b) ->
  StronglySorted N.le (l1 ++ l2).
Proof.
  induction l1 as [|x l1 IH]; intros H1 H2 H12; cbn [app].
  - exact H2.
  - inversion H1 as [|x' l' Hs Hf]; subst.
    constructor.
    + apply IH; auto. intros a b Ha Hb. apply H12; [right; exact Ha | exact Hb].
    + apply Forall_app. split; [exact Hf|].
      apply Forall_forall. intros b Hb. apply H12; [left; reflexivity | exact Hb].
Qed.

Lemma ss_const (n : N) (l : list N) :
  (forall x, In x l -> x = n) -> StronglySorted N.le l.
Proof.
  induction l as [|x l IH]; intros H.
  - constructor.
  - constructor.
    + apply IH. intros y Hy. apply H. right; exact Hy.
    + apply Forall_forall. intros y Hy.
      rewrite (H x (or_introl eq_refl)), (H y (or_intror Hy)). apply N.le_refl.
Qed.

Section Proofs.
Variable cfg : config.
Variable skipped : list (N * N).
Variable sel : N -> bool.

Notation width := (width cfg).
Notation eff_width := (eff_width cfg).
Notation in_skipped := (in_skipped skipped).
Notation eou := (error_on_unformatted cfg).
Notation eol := (error_on_line_overflow cfg).
Notation maxw := (max_width cfg).

(* ------------------------------------------------------------------ *)
(* per-line measures *)
Lemma width_app (a b : stream) : width (a ++ b) = width a + width b.
Proof.
  induction a as [|[k c] a IH]; cbn [app Model.width].
  - rewrite N.add_0_l. reflexivity.
  - rewrite IH, N.add_assoc. reflexivity.
Qed.

Lemma width_snoc (b : stream) (k : kind) (c : char) :
  width (b ++ [(k, c)]) = width b + (if c =? TAB then tab_spaces cfg else 1).
Proof.
  rewrite width_app. cbn [Model.width]. unfold cwidth. rewrite N.add_0_r. reflexivity.
Qed.

Lemma ends_blank_snoc (b : stream) (k : kind) (c : char) :
  ends_blank (b ++ [(k, c)]) = is_whitespace c.
Proof. unfold ends_blank. rewrite rev_unit. reflexivity. Qed.

Lemma has_string_snoc (b : stream) (k : kind) (c : char) :
  has_string (b ++ [(k, c)]) = (if is_string k then true else has_string b).
Proof.
  unfold has_string. rewrite existsb_app. cbn [existsb fst].
  rewrite orb_false_r. destruct (is_string k); [apply orb_true_r | apply orb_false_r].
Qed.

Lemma ends_blank_nonempty (b : stream) : ends_blank b = true -> b <> [].
Proof. intros H ->. cbn in H. discriminate. Qed.

Lemma width_pos (b : stream) : tab_spaces cfg <> 0 -> b <> [] -> width b <> 0.
Proof.
  intros Ht Hb. destruct b as [|[k c] b]; [congruence|].
  cbn [Model.width]. unfold cwidth. destruct (c =? TAB); lia.
Qed.

(* ------------------------------------------------------------------ *)
(* what new_line pushes, as a function of the fields it reads *)
Definition line_errs (fline lws : bool) (len : N) (hs : bool) (n : N) (k : kind)
  : option (list ferr) :=
  if fline then
    let rep := negb (in_skipped n) && (if is_comment k || hs then eou else true) in
    if lws then
      if len =? 0 then None
      else Some ((if rep then [MkErr n TrailingWhitespace (is_comment k) (is_string k)] else [])
                 ++ (if (maxw <? len - 1) && rep && eol
                     then [MkErr n (LineOverflow (len - 1) maxw) (is_comment k) hs] else []))
    else Some (if (maxw <? len) && rep && eol
               then [MkErr n (LineOverflow len maxw) (is_comment k) hs] else [])
  else Some [].

Lemma srep_tr (st : fl) (k : kind) :
  should_report_error cfg st k TrailingWhitespace =
  (if is_comment k || has_strlit st then eou else true).
Proof. unfold should_report_error. cbn [ek_is_comment]. rewrite orb_false_r. reflexivity. Qed.

Lemma srep_ov (st : fl) (k : kind) (a b : N) :
  should_report_error cfg st k (LineOverflow a b) =
  eol && (if is_comment k || has_strlit st then eou else true).
Proof. unfold should_report_error. cbn [ek_is_comment]. rewrite orb_false_r. reflexivity. Qed.

Lemma skip_eq (st : fl) : is_skipped_line skipped st = in_skipped (cur_line st).
Proof. reflexivity. Qed.

Ltac pj := cbn [last_was_space line_len has_strlit cur_line newline_count errors format_line].

Lemma new_line_spec (st : fl) (k : kind) :
  new_line cfg skipped sel st k =
  match line_errs (format_line st) (last_was_space st) (line_len st) (has_strlit st)
                  (cur_line st) k with
  | None => None
  | Some es =>
      Some (MkFL false 0 (cur_line st + 1) (newline_count st + 1) (errors st ++ es)
                 false (sel (cur_line st + 1)))
  end.
Proof.
  destruct st as [lws len n nlc errs hs fline].
  unfold line_errs, new_line. pj.
  destruct fline; [|rewrite app_nil_r; reflexivity].
  unfold trailing_check. pj.
  destruct lws.
  - rewrite !srep_tr, !skip_eq. pj.
    destruct (if is_comment k || hs then eou else true) eqn:Hal;
      destruct (in_skipped n) eqn:Hsk; cbn [negb andb];
      unfold push_err, set_line_len; pj;
      (destruct (len =? 0); [reflexivity|]);
      unfold overflow_check, push_err; pj;
      rewrite ?srep_ov, ?skip_eq; pj; rewrite ?Hal, ?Hsk; cbn [negb andb];
      rewrite ?andb_false_r, ?andb_true_r; cbn [andb app]; pj;
      rewrite ?app_nil_r; try reflexivity.
    destruct (maxw <? len - 1); destruct eol; cbn [andb app]; pj;
      rewrite <- ?app_assoc; reflexivity.
  - unfold overflow_check, push_err. pj. rewrite srep_ov, skip_eq. pj.
    destruct (if is_comment k || hs then eou else true) eqn:Hal;
      destruct (in_skipped n) eqn:Hsk; cbn [negb andb];
      rewrite ?andb_false_r, ?andb_true_r; cbn [andb]; pj;
      rewrite ?app_nil_r; try reflexivity.
    destruct (maxw <? len); destruct eol; cbn [andb]; pj;
      rewrite ?app_nil_r; reflexivity.
Qed.

(* membership in what one line pushes *)
Lemma line_errs_in (fline lws : bool) (len : N) (hs : bool) (n : N) (k : kind)
      (es : list ferr) (e : ferr) :
  line_errs fline lws len hs n k = Some es ->
  (In e es <->
   fline = true /\ in_skipped n = false /\
   ((is_comment k || hs) = true -> eou = true) /\
   ((lws = true /\ e = MkErr n TrailingWhitespace (is_comment k) (is_string k))
    \/ (eol = true /\ maxw < len - (if lws then 1 else 0)
        /\ e = MkErr n (LineOverflow (len - (if lws then 1 else 0)) maxw) (is_comment k) hs))).
Proof.
  unfold line_errs. intros H.
  assert (Hal : (if is_comment k || hs then eou else true) = true <->
                ((is_comment k || hs) = true -> eou = true)).
  { destruct (is_comment k || hs); destruct eou; split; auto; try discriminate. }
  destruct fline.
  2:{ inversion H; subst es. cbn [In]. split; [contradiction|]. intros [Hf _]; discriminate. }
  destruct lws.
  - destruct (len =? 0); [discriminate|]. inversion H; subst es; clear H.
    rewrite in_app_iff, !in_if_single, !andb_true_iff, !negb_true_iff, !Hal, N.ltb_lt.
    tauto.
  - inversion H; subst es; clear H.
    rewrite in_if_single, !andb_true_iff, !negb_true_iff, !Hal, N.ltb_lt, N.sub_0_r.
    split.
    + tauto.
    + intros [_ [Hs [Hx [[Hf _] | [Hl [Hlt He]]]]]]; [discriminate|]. tauto.
Qed.

Lemma line_errs_none (fline lws : bool) (len : N) (hs : bool) (n : N) (k : kind) :
  line_errs fline lws len hs n k = None <-> fline = true /\ lws = true /\ len = 0.
Proof.
  unfold line_errs. destruct fline, lws; try (split; [discriminate | intros [? [? ?]]; discriminate]).
  destruct (N.eqb_spec len 0) as [He|He].
  - split; auto.
  - split; [discriminate | intros [_ [_ H]]; contradiction].
Qed.

(* ------------------------------------------------------------------ *)
(* the scanner, line by line *)
Definition body_errs (n : N) (bl : stream * kind) : option (list ferr) :=
  line_errs (sel n) (ends_blank (fst bl)) (width (fst bl)) (has_string (fst bl)) n (snd bl).

Fixpoint lines_errs (n : N) (ls : list (stream * kind)) : option (list ferr) :=
  match ls with
  | [] => Some []
  | bl :: ls' =>
      match body_errs n bl, lines_errs (n + 1) ls' with
      | Some a, Some b => Some (a ++ b)
      | _, _ => None
      end
  end.

Definition ok (st : fl) (cur : stream) : Prop :=
  last_was_space st = ends_blank (rev cur) /\
  line_len st = width (rev cur) /\
  has_strlit st = has_string (rev cur) /\
  format_line st = sel (cur_line st).

Lemma iterate_lines (s : stream) : forall (cur : stream) (st : fl),
  ok st cur ->
  option_map errors (iterate cfg skipped sel st s) =
  option_map (app (errors st)) (lines_errs (cur_line st) (lines_aux cur (strip_cr s))).
Proof.
  induction s as [|[k c] s IH]; intros cur st Hok.
  - cbn. rewrite app_nil_r. reflexivity.
  - cbn [iterate strip_cr filter snd]. fold (strip_cr s).
    destruct (is_cr c) eqn:Hcr; cbn [negb].
    + apply IH. exact Hok.
    + cbn [lines_aux]. destruct (is_lf c) eqn:Hlf.
      * rewrite new_line_spec. destruct Hok as [H1 [H2 [H3 H4]]].
        rewrite H1, H2, H3, H4. cbn [lines_errs]. unfold body_errs at 1. cbn [fst snd].
        destruct (line_errs _ _ _ _ _ _) as [es|]; [|reflexivity].
        rewrite IH with (cur := []).
        -- cbn [cur_line errors].
           destruct (lines_errs _ _) as [b|]; cbn [option_map]; [|reflexivity].
           rewrite app_assoc. reflexivity.
        -- unfold ok. cbn. auto.
      * rewrite IH with (cur := (k, c) :: cur).
        -- reflexivity.
        -- destruct Hok as [H1 [H2 [H3 H4]]]. unfold ok, char_step.
           cbn [last_was_space line_len cur_line has_strlit format_line rev].
           rewrite ends_blank_snoc, width_snoc, has_string_snoc, H2, H3. auto.
Qed.

Lemma ok_new : ok (fl_new sel) [].
Proof. unfold ok, fl_new. cbn. auto. Qed.

Lemma format_lines_errors (s : stream) :
  option_map fst (format_lines cfg skipped sel s) = lines_errs 1 (tlines s).
Proof.
  unfold format_lines.
  pose proof (iterate_lines s [] (fl_new sel) ok_new) as H.
  cbn [cur_line errors fl_new] in H. fold (tlines s) in H.
  destruct (iterate cfg skipped sel (fl_new sel) s) as [st|]; cbn [option_map fst] in *.
  - rewrite H. destruct (lines_errs 1 (tlines s)); reflexivity.
  - rewrite H. destruct (lines_errs 1 (tlines s)); reflexivity.
Qed.

Lemma scan_lines (s : stream) :
  scan cfg skipped sel s = option_map (map proj) (lines_errs 1 (tlines s)).
Proof.
  unfold scan. rewrite <- format_lines_errors.
  destruct (format_lines cfg skipped sel s) as [[es kept]|]; reflexivity.
Qed.

(* ------------------------------------------------------------------ *)
(* membership in lines_errs *)
Lemma lines_errs_in (ls : list (stream * kind)) : forall (n0 : N) (es : list ferr),
  lines_errs n0 ls = Some es ->
  forall e, In e es <->
    exists i bl es', nth_error ls i = Some bl /\
                     body_errs (n0 + N.of_nat i) bl = Some es' /\ In e es'.
Proof.
  induction ls as [|bl ls IH]; intros n0 es H e.
  - cbn in H. inversion H; subst es. split; [contradiction|].
    intros [i [bl [es' [Hn _]]]]. destruct i; discriminate.
  - cbn [lines_errs] in H.
    destruct (body_errs n0 bl) as [a|] eqn:Ha; [|discriminate].
    destruct (lines_errs (n0 + 1) ls) as [b|] eqn:Hb; [|discriminate].
    inversion H; subst es; clear H. rewrite in_app_iff. split.
    + intros [Hin|Hin].
      * exists 0%nat, bl, a. cbn [nth_error]. rewrite N.add_0_r. auto.
      * apply (IH _ _ Hb) in Hin. destruct Hin as [i [bl' [es' [Hn [He Hi]]]]].
        exists (S i), bl', es'. cbn [nth_error]. split; [exact Hn|]. split; [|exact Hi].
        rewrite <- He. f_equal. lia.
    + intros [i [bl' [es' [Hn [He Hi]]]]]. destruct i as [|i]; cbn [nth_error] in Hn.
      * inversion Hn; subst bl'. rewrite N.add_0_r in He. rewrite Ha in He.
        inversion He; subst es'. left; exact Hi.
      * right. apply (IH _ _ Hb). exists i, bl', es'. split; [exact Hn|]. split; [|exact Hi].
        rewrite <- He. f_equal. lia.
Qed.

Lemma lines_errs_some_nth (ls : list (stream * kind)) : forall (n0 : N) (es : list ferr),
  lines_errs n0 ls = Some es ->
  forall i bl, nth_error ls i = Some bl -> exists es', body_errs (n0 + N.of_nat i) bl = Some es'.
Proof.
  induction ls as [|bl ls IH]; intros n0 es H i bl' Hn.
  - destruct i; discriminate.
  - cbn [lines_errs] in H.
    destruct (body_errs n0 bl) as [a|] eqn:Ha; [|discriminate].
    destruct (lines_errs (n0 + 1) ls) as [b|] eqn:Hb; [|discriminate].
    destruct i as [|i]; cbn [nth_error] in Hn.
    + inversion Hn; subst bl'. exists a. rewrite N.add_0_r. exact Ha.
    + destruct (IH _ _ Hb i bl' Hn) as [es' He]. exists es'. rewrite <- He. f_equal. lia.
Qed.

Lemma lines_errs_none (ls : list (stream * kind)) : forall (n0 : N),
  lines_errs n0 ls = None <->
  exists i bl, nth_error ls i = Some bl /\ body_errs (n0 + N.of_nat i) bl = None.
Proof.
  induction ls as [|bl ls IH]; intros n0.
  - cbn. split; [discriminate|]. intros [i [bl [Hn _]]]. destruct i; discriminate.
  - cbn [lines_errs]. destruct (body_errs n0 bl) as [a|] eqn:Ha.
    + destruct (lines_errs (n0 + 1) ls) as [b|] eqn:Hb.
      * split; [discriminate|]. intros [i [bl' [Hn He]]].
        destruct i as [|i]; cbn [nth_error] in Hn.
        -- inversion Hn; subst bl'. rewrite N.add_0_r in He. congruence.
        -- assert (Hnone : lines_errs (n0 + 1) ls = None).
           { apply IH. exists i, bl'. split; [exact Hn|]. rewrite <- He. f_equal. lia. }
           congruence.
      * split; [|reflexivity]. intros _. apply IH in Hb.
        destruct Hb as [i [bl' [Hn He]]]. exists (S i), bl'. cbn [nth_error].
        split; [exact Hn|]. rewrite <- He. f_equal. lia.
    + split; [|reflexivity]. intros _. exists 0%nat, bl. cbn [nth_error].
      rewrite N.add_0_r. auto.
Qed.

(* one line: membership of (n', kd) in the projected errors *)
Lemma body_errs_off (n : N) (b : stream) (lfk : kind) (es : list ferr) (n' : N) (kd : error_kind) :
  body_errs n (b, lfk) = Some es ->
  (In (n', kd) (map proj es) <->
   n' = n /\ sel n = true /\ in_skipped n = false /\
   (exempt b lfk = true -> eou = true) /\
   match kd with
   | TrailingWhitespace => ends_blank b = true
   | LineOverflow w m => w = eff_width b /\ m = maxw /\ maxw < w /\ eol = true
   | _ => False
   end).
Proof.
  intros H. unfold body_errs in H. cbn [fst snd] in H.
  rewrite in_map_iff. unfold exempt, Model.eff_width. split.
  - intros [e [Hp Hin]]. apply (line_errs_in _ _ _ _ _ _ _ e H) in Hin.
    destruct Hin as [Hs [Hk [Hx [[Hb He] | [Hl [Hlt He]]]]]]; subst e;
      unfold proj in Hp; cbn [fe_line fe_kind] in Hp; inversion Hp; subst n' kd; auto 10.
  - intros [-> [Hs [Hk [Hx Hm]]]].
    destruct kd as [w m| | | | | | | | |]; try contradiction.
    + destruct Hm as [-> [-> [Hlt Hl]]].
      exists (MkErr n (LineOverflow (width b - (if ends_blank b then 1 else 0)) maxw)
                    (is_comment lfk) (has_string b)).
      split; [reflexivity|]. apply (line_errs_in _ _ _ _ _ _ _ _ H). auto 10.
    + exists (MkErr n TrailingWhitespace (is_comment lfk) (is_string lfk)).
      split; [reflexivity|]. apply (line_errs_in _ _ _ _ _ _ _ _ H). auto 10.
Qed.

(* ------------------------------------------------------------------ *)
(* scan_exact *)
Lemma scan_exact_l (s : stream) (errs : list (N * error_kind)) :
  scan cfg skipped sel s = Some errs ->
  forall n k, In (n, k) errs <-> Offending cfg skipped sel s n k.
Proof.
  rewrite scan_lines. intros H n k.
  destruct (lines_errs 1 (tlines s)) as [es|] eqn:Hes; [|discriminate].
  cbn [option_map] in H. inversion H; subst errs; clear H.
  unfold Offending. split.
  - intros Hin. apply in_map_iff in Hin. destruct Hin as [e [Hp Hin]].
    apply (lines_errs_in _ _ _ Hes) in Hin.
    destruct Hin as [i [[b lfk] [es' [Hn [He Hi]]]]].
    assert (Hin' : In (n, k) (map proj es')).
    { apply in_map_iff. exists e. auto. }
    apply (body_errs_off _ _ _ _ _ _ He) in Hin'.
    destruct Hin' as [-> [Hs [Hk [Hx Hm]]]].
    exists b, lfk. split; [lia|]. split.
    + replace (N.to_nat (1 + N.of_nat i - 1)) with i by lia. exact Hn.
    + auto.
  - intros [b [lfk [Hn1 [Hn [Hs [Hk [Hx Hm]]]]]]].
    destruct (lines_errs_some_nth _ _ _ Hes _ _ Hn) as [es' He].
    replace (1 + N.of_nat (N.to_nat (n - 1))) with n in He by lia.
    assert (Hin' : In (n, k) (map proj es')).
    { apply (body_errs_off _ _ _ _ _ _ He). auto. }
    apply in_map_iff in Hin'. destruct Hin' as [e [Hp Hi]].
    apply in_map_iff. exists e. split; [exact Hp|].
    apply (lines_errs_in _ _ _ Hes). exists (N.to_nat (n - 1)), (b, lfk), es'.
    split; [exact Hn|]. split; [|exact Hi].
    replace (1 + N.of_nat (N.to_nat (n - 1))) with n by lia. exact He.
Qed.

(* when the scan does not complete *)
Lemma scan_none_iff_l (s : stream) :
  scan cfg skipped sel s = None <->
  exists n body lfk,
    1 <= n /\ nth_error (tlines s) (N.to_nat (n - 1)) = Some (body, lfk) /\
    sel n = true /\ ends_blank body = true /\ width body = 0.
Proof.
  rewrite scan_lines. split.
  - intros H. destruct (lines_errs 1 (tlines s)) as [es|] eqn:Hes; [discriminate|].
    apply lines_errs_none in Hes. destruct Hes as [i [[b lfk] [Hn He]]].
    unfold body_errs in He. cbn [fst snd] in He. apply line_errs_none in He.
    destruct He as [Hs [Hb Hw]].
    exists (1 + N.of_nat i), b, lfk. split; [lia|].
    replace (N.to_nat (1 + N.of_nat i - 1)) with i by lia. auto.
  - intros [n [b [lfk [Hn1 [Hn [Hs [Hb Hw]]]]]]].
    assert (Hnone : lines_errs 1 (tlines s) = None).
    { apply lines_errs_none. exists (N.to_nat (n - 1)), (b, lfk). split; [exact Hn|].
      replace (1 + N.of_nat (N.to_nat (n - 1))) with n by lia.
      unfold body_errs. cbn [fst snd]. apply line_errs_none. auto. }
    rewrite Hnone. reflexivity.
Qed.

Lemma scan_total_l (s : stream) :
  tab_spaces cfg <> 0 -> exists errs, scan cfg skipped sel s = Some errs.
Proof.
  intros Ht. destruct (scan cfg skipped sel s) as [errs|] eqn:H; [eauto|].
  apply scan_none_iff_l in H. destruct H as [n [b [lfk [_ [_ [_ [Hb Hw]]]]]]].
  exfalso. apply (width_pos b Ht); [apply ends_blank_nonempty; exact Hb | exact Hw].
Qed.

(* ------------------------------------------------------------------ *)
(* order and range of the reported line numbers *)
Lemma body_errs_line (n : N) (bl : stream * kind) (es : list ferr) :
  body_errs n bl = Some es -> forall e, In e es -> fe_line e = n.
Proof.
  intros H e Hin. unfold body_errs in H. apply (line_errs_in _ _ _ _ _ _ _ e H) in Hin.
  destruct Hin as [_ [_ [_ [[_ He] | [_ [_ He]]]]]]; subst e; reflexivity.
Qed.

Lemma lines_errs_sorted (ls : list (stream * kind)) : forall (n0 : N) (es : list ferr),
  lines_errs n0 ls = Some es ->
  StronglySorted N.le (map fe_line es) /\ (forall e, In e es -> n0 <= fe_line e).
Proof.
  induction ls as [|bl ls IH]; intros n0 es H.
  - cbn in H. inversion H; subst es. split; [constructor | contradiction].
  - cbn [lines_errs] in H.
    destruct (body_errs n0 bl) as [a|] eqn:Ha; [|discriminate].
    destruct (lines_errs (n0 + 1) ls) as [b|] eqn:Hb; [|discriminate].
    inversion H; subst es; clear H.
    destruct (IH _ _ Hb) as [Hs Hge].
    pose proof (body_errs_line _ _ _ Ha) as Hline.
    split.
    + rewrite map_app. apply ss_app.
      * apply (ss_const n0). intros x Hx. apply in_map_iff in Hx.
        destruct Hx as [e [<- He]]. apply Hline. exact He.
      * exact Hs.
      * intros x y Hx Hy. apply in_map_iff in Hx. destruct Hx as [e [<- He]].
        apply in_map_iff in Hy. destruct Hy as [e' [<- He']].
        rewrite (Hline e He). specialize (Hge e' He'). lia.
    + intros e Hin. apply in_app_iff in Hin. destruct Hin as [Hin|Hin].
      * rewrite (Hline e Hin). apply N.le_refl.
      * specialize (Hge e Hin). lia.
Qed.

Lemma scan_sorted_l (s : stream) (errs : list (N * error_kind)) :
  scan cfg skipped sel s = Some errs ->
  StronglySorted N.le (map fst errs) /\
  forall n k, In (n, k) errs -> 1 <= n <= N.of_nat (length (tlines s)).
Proof.
  intros H. split.
  - rewrite scan_lines in H.
    destruct (lines_errs 1 (tlines s)) as [es|] eqn:Hes; [|discriminate].
    cbn [option_map] in H. inversion H; subst errs.
    rewrite map_map. unfold proj. cbn [fst].
    apply (lines_errs_sorted _ _ _ Hes).
  - intros n k Hin. apply (scan_exact_l _ _ H) in Hin.
    destruct Hin as [b [lfk [Hn1 [Hn _]]]].
    assert (Hlt : (N.to_nat (n - 1) < length (tlines s))%nat).
    { apply nth_error_Some. congruence. }
    lia.
Qed.

Lemma selected_only_l (s : stream) (errs : list (N * error_kind)) (n : N) (k : error_kind) :
  scan cfg skipped sel s = Some errs -> In (n, k) errs -> sel n = true.
Proof.
  intros H Hin. apply (scan_exact_l _ _ H) in Hin.
  destruct Hin as [b [lfk [_ [_ [Hs _]]]]]. exact Hs.
Qed.

Lemma in_skipped_iff (n : N) :
  in_skipped n = true <-> exists lo hi, In (lo, hi) skipped /\ lo <= n <= hi.
Proof.
  unfold Model.in_skipped. rewrite existsb_exists. split.
  - intros [[lo hi] [Hin Hc]]. cbn [fst snd] in Hc.
    apply andb_true_iff in Hc. destruct Hc as [H1 H2].
    apply N.leb_le in H1. apply N.leb_le in H2. exists lo, hi. auto.
  - intros [lo [hi [Hin [H1 H2]]]]. exists (lo, hi). split; [exact Hin|].
    cbn [fst snd]. apply andb_true_iff. split; apply N.leb_le; assumption.
Qed.

Lemma skipped_never_l (s : stream) (errs : list (N * error_kind)) (n : N) (k : error_kind) :
  scan cfg skipped sel s = Some errs -> In (n, k) errs ->
  forall lo hi, In (lo, hi) skipped -> ~ (lo <= n <= hi).
Proof.
  intros H Hin lo hi Hr Hc. apply (scan_exact_l _ _ H) in Hin.
  destruct Hin as [b [lfk [_ [_ [_ [Hk _]]]]]].
  assert (Ht : in_skipped n = true) by (apply in_skipped_iff; eauto).
  congruence.
Qed.

(* only the two kinds are ever reported *)
Lemma scan_kinds_l (s : stream) (errs : list (N * error_kind)) (n : N) (k : error_kind) :
  scan cfg skipped sel s = Some errs -> In (n, k) errs ->
  k = TrailingWhitespace \/ exists w, k = LineOverflow w maxw.
Proof.
  intros H Hin. apply (scan_exact_l _ _ H) in Hin.
  destruct Hin as [b [lfk [_ [_ [_ [_ [_ Hm]]]]]]].
  destruct k as [w m| | | | | | | | |]; try contradiction.
  - right. exists w. destruct Hm as [_ [-> _]]. reflexivity.
  - left. reflexivity.
Qed.

Lemma reportable_iff (n : N) (b : stream) (lfk : kind) :
  reportable cfg skipped sel n b lfk = true <->
  sel n = true /\ in_skipped n = false /\ (exempt b lfk = true -> eou = true).
Proof.
  unfold reportable. rewrite !andb_true_iff, negb_true_iff.
  destruct (exempt b lfk); destruct eou; split.
  all: try (intros [[H1 H2] H3]; auto; discriminate).
  all: try (intros [H1 [H2 H3]]; auto).
Qed.

(* ------------------------------------------------------------------ *)
(* overflow_reported_iff *)
Lemma overflow_reported_iff_l (s : stream) (errs : list (N * error_kind))
      (n : N) (body : stream) (lfk : kind) :
  scan cfg skipped sel s = Some errs ->
  1 <= n -> nth_error (tlines s) (N.to_nat (n - 1)) = Some (body, lfk) ->
  maxw < width body ->
  (forall w m, In (n, LineOverflow w m) errs <->
     reportable cfg skipped sel n body lfk = true /\ eol = true /\
     w = eff_width body /\ m = maxw /\
     (ends_blank body = true -> maxw + 1 < width body))
  /\ (In (n, TrailingWhitespace) errs <->
      reportable cfg skipped sel n body lfk = true /\ ends_blank body = true)
  /\ ((forall k, ~ In (n, k) errs) <->
      reportable cfg skipped sel n body lfk = false
      \/ (ends_blank body = false /\ eol = false)).
Proof.
  intros H Hn1 Hn Hw.
  assert (Hof : forall k, In (n, k) errs <->
            reportable cfg skipped sel n body lfk = true /\
            match k with
            | TrailingWhitespace => ends_blank body = true
            | LineOverflow w m => w = eff_width body /\ m = maxw /\ maxw < w /\ eol = true
            | _ => False
            end).
  { intros k. rewrite (scan_exact_l _ _ H). rewrite reportable_iff. unfold Offending. split.
    - intros [b [l [_ [Hn' [Hs [Hk [Hx Hm]]]]]]]. rewrite Hn in Hn'. inversion Hn'; subst b l.
      auto.
    - intros [[Hs [Hk Hx]] Hm]. exists body, lfk. auto 10. }
  split; [|split].
  - intros w m. rewrite Hof. unfold Model.eff_width.
    destruct (ends_blank body); split.
    + intros [Hr [-> [-> [Hlt Hl]]]]. repeat split; auto. intros _. lia.
    + intros [Hr [Hl [-> [-> Hb]]]]. specialize (Hb eq_refl). repeat split; auto. lia.
    + intros [Hr [-> [-> [Hlt Hl]]]]. repeat split; auto. intros Hd; discriminate.
    + intros [Hr [Hl [-> [-> Hb]]]]. repeat split; auto. lia.
  - rewrite Hof. reflexivity.
  - split.
    + intros Hno. destruct (reportable cfg skipped sel n body lfk) eqn:Hr; [|left; reflexivity].
      right. destruct (ends_blank body) eqn:Hb.
      * exfalso. apply (Hno TrailingWhitespace). apply Hof. auto.
      * split; [reflexivity|]. destruct eol eqn:Hl; [|reflexivity].
        exfalso. apply (Hno (LineOverflow (eff_width body) maxw)). apply Hof.
        split; [reflexivity|]. unfold Model.eff_width. rewrite Hb.
        repeat split; auto. lia.
    + intros [Hr | [Hb Hl]] k Hin; apply Hof in Hin; destruct Hin as [Hr' Hm].
      * congruence.
      * destruct k as [w m| | | | | | | | |]; try contradiction.
        -- destruct Hm as [_ [_ [_ Hl']]]. congruence.
        -- congruence.
Qed.

(* clause 1 of the property: both options on *)
Lemma both_on_exact_l (s : stream) (errs : list (N * error_kind)) :
  eol = true -> eou = true ->
  scan cfg skipped sel s = Some errs ->
  forall n, (exists k, In (n, k) errs) <->
    exists body lfk,
      1 <= n /\ nth_error (tlines s) (N.to_nat (n - 1)) = Some (body, lfk) /\
      sel n = true /\ in_skipped n = false /\
      (maxw < width body \/ ends_blank body = true).
Proof.
  intros Hl Hu H n. split.
  - intros [k Hin]. apply (scan_exact_l _ _ H) in Hin.
    destruct Hin as [b [lfk [Hn1 [Hn [Hs [Hk [_ Hm]]]]]]].
    exists b, lfk. repeat split; auto.
    destruct k as [w m| | | | | | | | |]; try contradiction.
    + left. destruct Hm as [-> [_ [Hlt _]]]. unfold Model.eff_width in Hlt. lia.
    + right. exact Hm.
  - intros [b [lfk [Hn1 [Hn [Hs [Hk Hor]]]]]].
    destruct (ends_blank b) eqn:Hb.
    + exists TrailingWhitespace. apply (scan_exact_l _ _ H).
      exists b, lfk. repeat split; auto.
    + destruct Hor as [Hw|Hd]; [|discriminate].
      exists (LineOverflow (eff_width b) maxw). apply (scan_exact_l _ _ H).
      exists b, lfk. unfold Model.eff_width. rewrite Hb. repeat split; auto. lia.
Qed.

(* clause 2: a trailing blank on a non-exempt line is reported under every
   setting of the two options (they are part of cfg, which is arbitrary) *)
Lemma trailing_every_setting_l (s : stream) (errs : list (N * error_kind))
      (n : N) (body : stream) (lfk : kind) :
  scan cfg skipped sel s = Some errs ->
  1 <= n -> nth_error (tlines s) (N.to_nat (n - 1)) = Some (body, lfk) ->
  sel n = true -> in_skipped n = false ->
  exempt body lfk = false -> ends_blank body = true ->
  In (n, TrailingWhitespace) errs.
Proof.
  intros H Hn1 Hn Hs Hk Hx Hb. apply (scan_exact_l _ _ H).
  exists body, lfk. repeat split; auto. intros Hx'. congruence.
Qed.

End Proofs.

(* clause 2: switching error_on_unformatted off removes exactly the reports
   on exempt lines (LF of comment kind, or a char of string kind) *)
Lemma eou_off_exact_l (cfg : config) (skipped : list (N * N)) (sel : N -> bool)
      (s : stream) (errs_off errs_on : list (N * error_kind)) :
  error_on_unformatted cfg = false ->
  scan cfg skipped sel s = Some errs_off ->
  scan (cfg_eou_on cfg) skipped sel s = Some errs_on ->
  forall n k, In (n, k) errs_off <->
    In (n, k) errs_on /\
    exists body lfk, nth_error (tlines s) (N.to_nat (n - 1)) = Some (body, lfk) /\
                     exempt body lfk = false.
Proof.
  intros Hu Hoff Hon n k.
  rewrite (scan_exact_l _ _ _ _ _ Hoff), (scan_exact_l _ _ _ _ _ Hon).
  unfold Offending, cfg_eou_on. cbn [error_on_unformatted max_width error_on_line_overflow].
  split.
  - intros [b [lfk [Hn1 [Hn [Hs [Hk [Hx Hm]]]]]]].
    assert (Hx' : exempt b lfk = false).
    { destruct (exempt b lfk); [|reflexivity]. specialize (Hx eq_refl). congruence. }
    split.
    + exists b, lfk. repeat split; auto.
    + exists b, lfk. auto.
  - intros [[b [lfk [Hn1 [Hn [Hs [Hk [_ Hm]]]]]]] [b' [lfk' [Hn' Hx']]]].
    rewrite Hn in Hn'. inversion Hn'; subst b' lfk'.
    exists b, lfk. repeat split; auto. intros Hx. congruence.
Qed.

(* ------------------------------------------------------------------ *)
(* tlines really is the list of LF-terminated lines of the CR-stripped stream *)
Lemma lines_rest_concat (s : stream) : forall cur,
  rev cur ++ s =
  concat (map (fun bl => fst bl ++ [(snd bl, LF)]) (lines_aux cur s)) ++ rest_aux cur s.
Proof.
  induction s as [|[k c] s IH]; intros cur.
  - cbn. rewrite app_nil_r. reflexivity.
  - cbn [lines_aux rest_aux]. destruct (is_lf c) eqn:Hlf.
    + unfold is_lf in Hlf. apply N.eqb_eq in Hlf. subst c.
      cbn [map concat fst snd]. rewrite <- app_assoc, <- (IH []). cbn [rev app].
      rewrite <- app_assoc. reflexivity.
    + rewrite <- IH. cbn [rev]. rewrite <- app_assoc. reflexivity.
Qed.

Lemma lines_aux_nolf (s : stream) : forall cur,
  (forall p, In p cur -> is_lf (snd p) = false) ->
  (forall bl, In bl (lines_aux cur s) -> forall p, In p (fst bl) -> is_lf (snd p) = false)
  /\ (forall p, In p (rest_aux cur s) -> is_lf (snd p) = false).
Proof.
  induction s as [|[k c] s IH]; intros cur Hcur.
  - cbn. split; [contradiction|]. intros p Hp. apply Hcur. apply in_rev. exact Hp.
  - cbn [lines_aux rest_aux]. destruct (is_lf c) eqn:Hlf.
    + destruct (IH [] (fun p (H : In p []) => match H with end)) as [H1 H2].
      split; [|exact H2].
      intros bl [<-|Hin]; [|apply H1; exact Hin].
      cbn [fst]. intros p Hp. apply Hcur. apply in_rev. exact Hp.
    + apply IH. intros p [<-|Hp]; [exact Hlf | apply Hcur; exact Hp].
Qed.

Lemma tlines_split_l (s : stream) :
  strip_cr s = concat (map (fun bl => fst bl ++ [(snd bl, LF)]) (tlines s)) ++ trest s
  /\ (forall b k p, In (b, k) (tlines s) -> In p b -> snd p <> LF /\ snd p <> CR)
  /\ (forall p, In p (trest s) -> snd p <> LF /\ snd p <> CR).
Proof.
  pose proof (lines_rest_concat (strip_cr s) []) as Hc. cbn [rev app] in Hc.
  fold (tlines s) in Hc. fold (trest s) in Hc.
  destruct (lines_aux_nolf (strip_cr s) [] (fun p (H : In p []) => match H with end))
    as [H1 H2].
  fold (tlines s) in H1. fold (trest s) in H2.
  assert (Hcr : forall p, In p (strip_cr s) -> snd p <> CR).
  { intros p Hp. unfold strip_cr in Hp. apply filter_In in Hp. destruct Hp as [_ Hp].
    apply negb_true_iff in Hp. unfold is_cr in Hp. apply N.eqb_neq in Hp. exact Hp. }
  split; [exact Hc|]. split.
  - intros b k p Hin Hp. split.
    + specialize (H1 _ Hin p Hp). unfold is_lf in H1. apply N.eqb_neq in H1. exact H1.
    + apply Hcr. rewrite Hc. apply in_or_app. left.
      apply in_concat. exists (b ++ [(k, LF)]). split.
      * apply in_map_iff. exists (b, k). auto.
      * apply in_or_app. left. exact Hp.
  - intros p Hp. split.
    + specialize (H2 p Hp). unfold is_lf in H2. apply N.eqb_neq in H2. exact H2.
    + apply Hcr. rewrite Hc. apply in_or_app. right. exact Hp.
Qed.

(* ------------------------------------------------------------------ *)
(* report flags and exit status *)
Lemma track_one_op_mono (f : flags) (e : ferr) :
  has_operational_errors f = true -> has_operational_errors (track_one f e) = true.
Proof. intros H. unfold track_one. destruct (fe_kind e); cbn; auto. Qed.

Lemma fold_track_op_mono (es : list ferr) : forall f,
  has_operational_errors f = true ->
  has_operational_errors (fold_left track_one es f) = true.
Proof.
  induction es as [|e es IH]; intros f H; cbn [fold_left]; [exact H|].
  apply IH. apply track_one_op_mono. exact H.
Qed.

Lemma fold_track_op (es : list ferr) : forall f e,
  In e es -> is_reported_kind e ->
  has_operational_errors (fold_left track_one es f) = true.
Proof.
  induction es as [|x es IH]; intros f e Hin Hk; [contradiction|].
  cbn [fold_left]. destruct Hin as [->|Hin].
  - apply fold_track_op_mono. unfold track_one.
    destruct Hk as [Hk | [a [b Hk]]]; rewrite Hk; reflexivity.
  - apply (IH _ e); assumption.
Qed.

Lemma track_errors_op (f : flags) (es : list ferr) (e : ferr) :
  In e es -> is_reported_kind e ->
  has_operational_errors (track_errors f es) = true.
Proof.
  intros Hin Hk. unfold track_errors.
  set (f1 := match es with [] => f | _ :: _ => _ end).
  destruct (has_operational_errors f1 && has_check_errors f1 && has_unformatted_code_errors f1)
    eqn:Hc.
  - apply andb_true_iff in Hc. destruct Hc as [Hc _].
    apply andb_true_iff in Hc. destruct Hc as [Hc _]. exact Hc.
  - apply (fold_track_op _ _ e); assumption.
Qed.

Lemma reported_exits_one_l (f sess : flags) (es : list ferr) (e : ferr) (check : bool) :
  In e es -> is_reported_kind e ->
  exit_code (flags_add sess (track_errors f es)) check = 1
  /\ exit_code_stdin (flags_add sess (track_errors f es)) = 1.
Proof.
  intros Hin Hk. pose proof (track_errors_op f es e Hin Hk) as Hop.
  unfold exit_code, exit_code_stdin, flags_add.
  cbn [has_operational_errors has_parsing_errors has_diff has_check_errors].
  rewrite Hop, orb_true_r. cbn [orb]. auto.
Qed.

Lemma trailing_exits_one_l (cfg : config) (skipped : list (N * N)) (sel : N -> bool)
      (s : stream) (es : list ferr) (kept n : N) (f sess : flags) (check : bool) :
  format_lines cfg skipped sel s = Some (es, kept) ->
  In (n, TrailingWhitespace) (map (fun e => (fe_line e, fe_kind e)) es) ->
  exit_code (flags_add sess (track_errors f es)) check = 1
  /\ exit_code_stdin (flags_add sess (track_errors f es)) = 1.
Proof.
  intros _ Hin. apply in_map_iff in Hin. destruct Hin as [e [Hp Hin]].
  inversion Hp as [[Hl Hk]].
  apply (reported_exits_one_l f sess es e check Hin). left. exact Hk.
Qed.

Lemma overflow_exits_one_l (cfg : config) (skipped : list (N * N)) (sel : N -> bool)
      (s : stream) (es : list ferr) (kept n w m : N) (f sess : flags) (check : bool) :
  format_lines cfg skipped sel s = Some (es, kept) ->
  In (n, LineOverflow w m) (map (fun e => (fe_line e, fe_kind e)) es) ->
  exit_code (flags_add sess (track_errors f es)) check = 1
  /\ exit_code_stdin (flags_add sess (track_errors f es)) = 1.
Proof.
  intros _ Hin. apply in_map_iff in Hin. destruct Hin as [e [Hp Hin]].
  inversion Hp as [[Hl Hk]].
  apply (reported_exits_one_l f sess es e check Hin). right. eauto.
Qed.

(* is_comment / is_string of a pushed error (display only: msg_suffix) *)
Lemma report_flags_l (cfg : config) (skipped : list (N * N)) (sel : N -> bool)
      (s : stream) (es : list ferr) (kept : N) (e : ferr) :
  format_lines cfg skipped sel s = Some (es, kept) -> In e es ->
  exists body lfk,
    1 <= fe_line e /\
    nth_error (tlines s) (N.to_nat (fe_line e - 1)) = Some (body, lfk) /\
    fe_is_comment e = is_comment lfk /\
    fe_is_string e = match fe_kind e with
                     | TrailingWhitespace => is_string lfk
                     | _ => has_string body
                     end.
Proof.
  intros H Hin.
  pose proof (format_lines_errors cfg skipped sel s) as Hf. rewrite H in Hf.
  cbn [option_map fst] in Hf. symmetry in Hf.
  apply (lines_errs_in _ _ _ _ _ _ Hf) in Hin.
  destruct Hin as [i [[b lfk] [es' [Hn [He Hi]]]]].
  unfold body_errs in He. cbn [fst snd] in He.
  apply (line_errs_in cfg skipped sel _ _ _ _ _ _ _ e He) in Hi.
  exists b, lfk.
  destruct Hi as [_ [_ [_ [[_ Hx] | [_ [_ Hx]]]]]]; subst e; cbn [fe_line fe_kind fe_is_comment fe_is_string];
    (split; [lia|]);
    (replace (N.to_nat (1 + N.of_nat i - 1)) with i by lia); auto.
Qed.

(* ------------------------------------------------------------------ *)
(* Places where the code departs from the plain-English property; each with a
   concrete witness.  Kinds are the ones CharClasses assigns to the text shown. *)
Definition all_lines : N -> bool := fun _ => true.
Definition nrm (t : text) : stream := map (fun c => (Normal, c)) t.

(* text: aaaa<SP> without final LF; max_width 2.  The last line is over-wide
   and ends in a blank, both options are on, nothing is reported: new_line
   never runs for a line that has no LF.  (format_file appends a newline
   before format_lines, so rustfmt's own output always ends in LF.) *)
Lemma unterminated_line_gap_l :
  exists s,
    tlines s = [] /\
    max_width (MkCfg 2 4 true true) < width (MkCfg 2 4 true true) (trest s) /\
    ends_blank (trest s) = true /\
    scan (MkCfg 2 4 true true) [] all_lines s = Some [].
Proof. exists (nrm [97; 97; 97; 97; 32]). vm_compute. auto. Qed.

(* text: aaaa<TAB><LF>, tab_spaces 4: the line is 8 columns wide.  With
   max_width 7 it is reported only as TrailingWhitespace, not as too wide;
   with max_width 5 the width reported is 7: a trailing blank is discounted
   as ONE column whatever its width. *)
Lemma trailing_blank_discount_gap_l :
  exists s body lfk,
    tlines s = [(body, lfk)] /\
    width (MkCfg 7 4 true true) body = 8 /\
    scan (MkCfg 7 4 true true) [] all_lines s = Some [(1, TrailingWhitespace)] /\
    scan (MkCfg 5 4 true true) [] all_lines s
      = Some [(1, TrailingWhitespace); (1, LineOverflow 7 5)].
Proof.
  exists (nrm [97; 97; 97; 97; 9; 10]), (nrm [97; 97; 97; 97; 9]), Normal.
  vm_compute. auto.
Qed.

(* text: /*aaaa*/<LF>, error_on_unformatted off, max_width 4: every char of
   the line is of a comment kind, yet the line is reported as too wide, because
   only the kind of the LF (Normal here) decides the comment exemption. *)
Lemma block_comment_line_gap_l :
  exists s body lfk,
    tlines s = [(body, lfk)] /\
    forallb (fun p => is_comment (fst p)) body = true /\
    scan (MkCfg 4 4 true false) [] all_lines s = Some [(1, LineOverflow 8 4)].
Proof.
  exists [(StartComment, 47); (InComment, 42); (InComment, 97); (InComment, 97);
          (InComment, 97); (InComment, 97); (InComment, 42); (EndComment, 47); (Normal, 10)],
         [(StartComment, 47); (InComment, 42); (InComment, 97); (InComment, 97);
          (InComment, 97); (InComment, 97); (InComment, 42); (EndComment, 47)],
         Normal.
  vm_compute. auto.
Qed.

(* text: aaaaaaaa//b<LF>, error_on_unformatted off, max_width 4: the code
   before the line comment alone is 8 columns, but nothing is reported because
   the LF closing a line comment is of kind EndComment; with
   error_on_unformatted on the line is reported. *)
Lemma code_before_line_comment_gap_l :
  exists s body lfk,
    tlines s = [(body, lfk)] /\
    firstn 8 body = nrm [97; 97; 97; 97; 97; 97; 97; 97] /\
    scan (MkCfg 4 4 true false) [] all_lines s = Some [] /\
    scan (MkCfg 4 4 true true) [] all_lines s = Some [(1, LineOverflow 11 4)].
Proof.
  exists (nrm [97; 97; 97; 97; 97; 97; 97; 97]
          ++ [(StartComment, 47); (InComment, 47); (InComment, 98); (EndComment, 10)]),
         (nrm [97; 97; 97; 97; 97; 97; 97; 97]
          ++ [(StartComment, 47); (InComment, 47); (InComment, 98)]),
         EndComment.
  vm_compute. auto.
Qed.

(* text: <TAB><LF> with tab_spaces = 0 (both options off, as by default):
   line_len is 0 when `self.line_len -= 1` runs. *)
Lemma line_len_underflow_gap_l :
  scan (MkCfg 100 0 false false) [] all_lines (nrm [9; 10]) = None.
Proof. vm_compute. reflexivity. Qed.

(* ------------------------------------------------------------------ *)
(* the truncation done by format_lines after the scan *)
Lemma iterate_app (cfg : config) (skipped : list (N * N)) (sel : N -> bool) (a b : stream) :
  forall st,
  iterate cfg skipped sel st (a ++ b) =
  match iterate cfg skipped sel st a with
  | Some st' => iterate cfg skipped sel st' b
  | None => None
  end.
Proof.
  induction a as [|[k c] a IH]; intros st; cbn [app iterate]; [reflexivity|].
  destruct (is_cr c); [apply IH|].
  destruct (is_lf c); [|apply IH].
  destruct (new_line cfg skipped sel st k); [apply IH | reflexivity].
Qed.

Lemma newline_count_spec (cfg : config) (skipped : list (N * N)) (sel : N -> bool) (s : stream) :
  forall st, iterate cfg skipped sel (fl_new sel) s = Some st ->
  newline_count st = trailing_lfs s.
Proof.
  induction s as [|[k c] s IH] using rev_ind; intros st H.
  - cbn in H. inversion H; subst st. reflexivity.
  - rewrite iterate_app in H.
    destruct (iterate cfg skipped sel (fl_new sel) s) as [st0|] eqn:H0; [|discriminate].
    specialize (IH st0 eq_refl). unfold trailing_lfs, strip_cr in *.
    rewrite filter_app. cbn [filter snd iterate] in *.
    destruct (is_cr c) eqn:Hcr; cbn [negb].
    + inversion H; subst st. rewrite app_nil_r. exact IH.
    + rewrite rev_unit. cbn [lead_lf]. destruct (is_lf c) eqn:Hlf.
      * rewrite new_line_spec in H.
        destruct (line_errs _ _ _ _ _ _ _ _) as [es|]; [|discriminate].
        inversion H; subst st. cbn [newline_count]. rewrite IH. apply N.add_comm.
      * inversion H; subst st. reflexivity.
Qed.

Lemma truncate_spec_l (cfg : config) (skipped : list (N * N)) (sel : N -> bool)
      (s : stream) (es : list ferr) (kept : N) :
  format_lines cfg skipped sel s = Some (es, kept) ->
  kept = if 1 <? trailing_lfs s
         then N.of_nat (length s) - trailing_lfs s + 1
         else N.of_nat (length s).
Proof.
  unfold format_lines. intros H.
  destruct (iterate cfg skipped sel (fl_new sel) s) as [st|] eqn:Hst; [|discriminate].
  rewrite (newline_count_spec _ _ _ _ _ Hst) in H. inversion H. reflexivity.
Qed.

(* text: a<CR><LF><CR><LF>: newline_count is 2 (CRs neither count nor reset
   it), so one byte is cut: the kept text a<CR><LF><CR> ends in a lone CR.
   (Outside the wording of C07; recorded because Run.v returns `kept`.) *)
Lemma truncate_crlf_gap_l :
  format_lines (MkCfg 100 4 true true) [] all_lines (nrm [97; 13; 10; 13; 10]) = Some ([], 4)
  /\ firstn 4 [97; 13; 10; 13; 10] = [97; 13; 10; 13].
Proof. vm_compute. auto. Qed.
