(* C13/Model.v — which files get formatted: the module resolver over an abstract file system.
   Sources modelled (rustfmt, /repo):
     src/modules.rs:102-575   ModResolver (visit_crate, visit_cfg_if, visit_cfg_match, visit_mod_outside_ast,
                              visit_mod_from_ast, visit_sub_mod, peek_sub_mod, insert_sub_mod, visit_sub_mod_inner,
                              visit_sub_mod_after_directory_update, find_external_module,
                              push_inline_mod_directory, find_mods_outside_of_ast)
     src/parse/session.rs:172-201  ParseSess::default_submod_path (the fallback), is_file_parsed
     src/parse/parser.rs:88-134    Parser::submod_path_from_attr, parse_file_as_module
     src/parse/macros/cfg_if.rs, cfg_match.rs   (only the `mod` items of a cfg_if!/cfg_match! body are kept)
     src/lib.rs:560-576       Input::to_directory_ownership
     src/formatting.rs:59-92, 102-160   should_skip_module, format_project
     rustc_expand/src/module.rs  default_submod_path, mod_file_path, mod_dir_path (the language's rules)

   Abstractions.
   * A path is a list of components kept LITERALLY, as PathBuf::push / Path::join keep them for relative
     arguments: a `..` component is stored, never cancelled; two spellings of the same file are different
     paths (PathBuf equality, the BTreeMap key and SourceMap::get_source_file all compare components).
     Components: `..`, `mod.rs`, a name `n` (directory / module name), `n.rs`.
     Out of the model: absolute #[path] values, `.` components, files not named *.rs, a directory called `mod`.
   * The file system is seen through [lookup : path -> option node] (what stat/open give for a literal
     path).  [fs_get fs] builds such a lookup from a map on `..`-free paths, resolving `..` as the OS does.
   * A file's content is abstracted by its id: [ast id] is the list of top-level items that matter
     (None = the parser fails on it), [ffacts id] says whether the text starts with #![rustfmt::skip], contains
     the @generated marker in its first lines, or is matched by the `ignore` list.  (ignore is decided on the
     path by the real code; a file id stands for one path here.)  Out of the model: the interplay of `ignore`
     with parse errors (SilentOnIgnoredFilesEmitter / can_reset_errors).
   * Error payloads (paths, module names) are dropped: only the kind is kept. *)
From V Require Import Base.Text.

(* ------------------------------------------------------------------------------------------------ *)
(* paths *)

Inductive comp : Type := CUp | CModRs | CDir (n : N) | CRs (n : N).
Definition path := list comp.

(* the N-code of a component; also its rank in the order of Path::cmp when the name n is spelled
   "n%03d" ( ".." < "mod.rs" < "n000" < "n000.rs" < "n001" < ... as byte strings) *)
Definition comp_key (c : comp) : N :=
  match c with CUp => 0 | CModRs => 1 | CDir n => 2 * n + 2 | CRs n => 2 * n + 3 end.

Definition comp_eqb (a b : comp) : bool := N.eqb (comp_key a) (comp_key b).

Fixpoint path_eqb (p q : path) : bool :=
  match p, q with
  | [], [] => true
  | a :: p', b :: q' => comp_eqb a b && path_eqb p' q'
  | _, _ => false
  end.

(* std::path: impl Ord for Path = lexicographic on components *)
Fixpoint path_ltb (p q : path) : bool :=
  match p, q with
  | _, [] => false
  | [], _ :: _ => true
  | a :: p', b :: q' =>
      if N.ltb (comp_key a) (comp_key b) then true
      else if N.eqb (comp_key a) (comp_key b) then path_ltb p' q' else false
  end.
Definition path_leb (p q : path) : bool := negb (path_ltb q p).

Definition mem (p : path) (l : list path) : bool := existsb (path_eqb p) l.

(* Path::parent: drop the last component, literally *)
Definition parent (p : path) : path := removelast p.

(* ------------------------------------------------------------------------------------------------ *)
(* file system *)

Inductive node : Type := File (id : N) | Dir.

(* resolution of a literal path by the OS: every traversed prefix must be a directory, `..` pops *)
Fixpoint walk (fs : path -> option node) (cur : path) (rest : path) : option node :=
  match rest with
  | [] => fs cur
  | c :: r =>
      match fs cur with
      | Some Dir => walk fs (match c with CUp => removelast cur | _ => cur ++ [c] end) r
      | _ => None
      end
  end.
Definition fs_get (fs : path -> option node) (p : path) : option node := walk fs [] p.

(* a finite file system given by lists ([] is always a directory), on `..`-free paths *)
Definition fs_of (files : list (path * N)) (dirs : list path) (p : path) : option node :=
  match p with
  | [] => Some Dir
  | _ => if mem p dirs then Some Dir
         else match find (fun e => path_eqb p (fst e)) files with
              | Some e => Some (File (snd e))
              | None => None
              end
  end.

(* ------------------------------------------------------------------------------------------------ *)
(* abstract crates *)

Record attrs : Type := mkAttrs {
  path_attr : option path;        (* first #[path = "..."] (attr::first_attr_value_str_by_name) *)
  cfg_attr_paths : list path;     (* path = "..." found inside other attributes (visitor::PathVisitor) *)
  skip : bool                     (* utils::contains_skip on the item's attributes *)
}.

Inductive decl : Type :=
| ModDecl (name : N) (a : attrs)                         (* mod name; *)
| ModInline (name : N) (a : attrs) (body : list decl)    (* mod name { body }, inner attributes included in a *)
| CfgIf (body : list decl)                               (* cfg_if! { ... }: the items of all branches *)
| CfgMatch (body : list decl)                            (* cfg_match! { ... } *)
| Other.

Record facts : Type := mkFacts { inner_skip : bool; generated : bool; ignored : bool }.
Record config : Type := mkConfig { skip_children : bool; format_generated : bool; input_is_stdin : bool }.

(* finite crates: association lists; an id without entry has no items / no marker *)
Definition ast_of (l : list (N * option (list decl))) (id : N) : option (list decl) :=
  match find (fun e => N.eqb id (fst e)) l with Some e => snd e | None => Some [] end.
Definition facts_of (l : list (N * facts)) (id : N) : facts :=
  match find (fun e => N.eqb id (fst e)) l with Some e => snd e | None => mkFacts false false false end.

Inductive err : Type := NotFound | MultipleCandidates | ParseError | OutOfFuel.
Inductive res (A : Type) : Type := Ok (a : A) | Err (e : err).
Arguments Ok {A} a.
Arguments Err {A} e.

(* rustc_expand::module::DirOwnership *)
Inductive own : Type := Owned (relative : option N) | Unowned.
(* parse::parser::Directory *)
Record dctx : Type := mkD { dpath : path; down : own }.

Definition relative_of (o : own) : option N := match o with Owned r => r | Unowned => None end.

(* the Module stored in the file_map: parsed from the file itself, or the clone of the DECLARATION's module
   (`sub_mod.clone()`, modules.rs:415,446,460,549-553) whose span lies in the declaring file *)
Inductive minfo : Type := MFile (id : N) | MDecl (declaring : N).

Record st : Type := mkSt {
  parsed : list path;             (* files loaded in the SourceMap: ParseSess::is_file_parsed *)
  fmap : list (path * minfo);     (* ModResolver::file_map, insertion order; sorted at the end *)
  sticky : bool                   (* an emitted parse error is still counted: ParseSess::has_errors *)
}.

Inductive modsrc : Type := SFile (id : N) (items : list decl) | SClone.
Definition ext : Type := (path * own * modsrc)%type.
(* modules.rs:92-100 SubModKind *)
Inductive submod : Type := External (e : ext) | MultiExternal (es : list ext) | Internal.

Inductive parsed_mod : Type := PMod (id : N) (items : list decl) | PErrParse | PErrOther.

Section FoldRes.
  Variables (A S : Type) (f : S -> A -> res S).
  (* `for x in l { f(x)?; }` *)
  Fixpoint fold_res (l : list A) (s : S) : res S :=
    match l with
    | [] => Ok s
    | x :: l' => match f s x with Ok s' => fold_res l' s' | Err e => Err e end
    end.
End FoldRes.
Arguments fold_res {A S} f l s.

Definition is_nil {A : Type} (l : list A) : bool := match l with [] => true | _ => false end.

Section Model.
Variable lookup : path -> option node.
Variable ast : N -> option (list decl).
Variable ffacts : N -> facts.

Definition is_file (p : path) : bool := match lookup p with Some (File _) => true | _ => false end.
Definition is_dir (p : path) : bool := match lookup p with Some Dir => true | _ => false end.
Definition exists_ (p : path) : bool := match lookup p with Some _ => true | None => false end.

(* parse/session.rs:194 is_file_parsed *)
Definition is_parsed (s : st) (p : path) : bool := mem p (parsed s).
Definition add_parsed (s : st) (p : path) : st :=
  if mem p (parsed s) then s else mkSt (p :: parsed s) (fmap s) (sticky s).
Definition set_sticky (s : st) : st := mkSt (parsed s) (fmap s) true.

(* parse/parser.rs:103 parse_file_as_module.  A readable file enters the SourceMap even when parsing fails.
   A missing file gives ParsePanicError (the caller says NotFound), a directory ParseError.  With an earlier
   error still counted (`!psess.has_errors()` false) a good file is reported as ParseError. *)
Definition parse_file (s : st) (p : path) : st * parsed_mod :=
  match lookup p with
  | None => (set_sticky s, PErrOther)
  | Some Dir => (set_sticky s, PErrParse)
  | Some (File id) =>
      let s1 := add_parsed s p in
      match ast id with
      | None => (set_sticky s1, PErrParse)
      | Some items => if sticky s then (s1, PErrParse) else (s1, PMod id items)
      end
  end.

(* rustc_expand/src/module.rs default_submod_path *)
Definition rustc_default_submod_path (n : N) (relative : option N) (dir : path) : res (path * own) :=
  let pre := dir ++ match relative with Some r => [CDir r] | None => [] end in
  let default_path := pre ++ [CRs n] in
  let secondary_path := pre ++ [CDir n; CModRs] in
  match is_file default_path, is_file secondary_path with
  | true, false => Ok (default_path, Owned (Some n))
  | false, true => Ok (secondary_path, Owned None)
  | false, false => Err NotFound
  | true, true => Err MultipleCandidates
  end.

(* parse/session.rs:172 ParseSess::default_submod_path: retry without `relative` on FileNotFound, keep the
   original error if the retry fails *)
Definition default_submod_path (n : N) (relative : option N) (dir : path) : res (path * own) :=
  match rustc_default_submod_path n relative dir with
  | Err NotFound =>
      match relative with
      | Some _ => match rustc_default_submod_path n None dir with Ok x => Ok x | Err _ => Err NotFound end
      | None => Err NotFound
      end
  | r => r
  end.

(* modules.rs:528 find_mods_outside_of_ast, one path of the loop *)
Definition outside_one (s : st) (dir : path) (q : path) : st * list ext :=
  let actual_path := dir ++ q in
  if negb (exists_ actual_path) then (s, [])
  else if is_parsed s actual_path then (s, [(actual_path, Owned None, SClone)])
  else match parse_file s actual_path with
       | (s1, PMod id items) =>
           if inner_skip (ffacts id) then (s1, []) else (s1, [(actual_path, Owned None, SFile id items)])
       | (s1, _) => (s1, [])
       end.
Fixpoint find_mods_outside_of_ast (s : st) (dir : path) (qs : list path) : st * list ext :=
  match qs with
  | [] => (s, [])
  | q :: qs' =>
      let '(s1, here) := outside_one s dir q in
      let '(s2, rest) := find_mods_outside_of_ast s1 dir qs' in
      (s2, here ++ rest)
  end.

(* modules.rs:357 find_external_module *)
Definition find_external_module (s : st) (d : dctx) (n : N) (a : attrs) : st * res (option submod) :=
  let relative := relative_of (down d) in
  match path_attr a with
  | Some q =>
      let p := dpath d ++ q in                                   (* Parser::submod_path_from_attr *)
      if is_parsed s p then (s, Ok None)
      else match parse_file s p with
           | (s1, PMod id items) =>
               if inner_skip (ffacts id) then (s1, Ok None)
               else (s1, Ok (Some (External (p, Owned None, SFile id items))))
           | (s1, PErrParse) => (s1, Err ParseError)
           | (s1, PErrOther) => (s1, Err NotFound)
           end
  | None =>
      let '(s0, outside) := find_mods_outside_of_ast s (dpath d) (cfg_attr_paths a) in
      match default_submod_path n relative (dpath d) with
      | Ok (file_path, o) =>
          let outside_mods_empty := is_nil outside in
          let should_insert := negb (existsb (fun e : ext => path_eqb (fst (fst e)) file_path) outside) in
          let clone := if should_insert then [(file_path, o, SClone)] else [] in
          if is_parsed s0 file_path then
            if outside_mods_empty then (s0, Ok None)
            else (s0, Ok (Some (MultiExternal (outside ++ clone))))
          else match parse_file s0 file_path with
               | (s1, PMod id items) =>
                   if inner_skip (ffacts id) then (s1, Ok None)
                   else if outside_mods_empty then (s1, Ok (Some (External (file_path, o, SFile id items))))
                   else (s1, Ok (Some (MultiExternal (outside ++ (file_path, o, SFile id items) :: clone))))
               | (s1, PErrParse) => (s1, Err ParseError)
               | (s1, PErrOther) =>
                   if outside_mods_empty then (s1, Err NotFound)
                   else (s1, Ok (Some (MultiExternal (outside ++ clone))))
               end
      | Err e =>
          if is_nil outside then (s0, Err e) else (s0, Ok (Some (MultiExternal outside)))
      end
  end.

(* modules.rs:500 push_inline_mod_directory, including the `exists()` heuristic of lines 517-521 *)
Definition push_inline_mod_directory (d : dctx) (n : N) (a : attrs) : dctx :=
  match path_attr a with
  | Some q => mkD (dpath d ++ q) (Owned None)
  | None =>
      match down d with
      | Owned (Some r) =>
          let p1 := dpath d ++ [CDir r] in
          if exists_ p1 && negb (exists_ (p1 ++ [CDir n])) then mkD p1 (Owned None)
          else mkD (p1 ++ [CDir n]) (Owned None)
      | Owned None => mkD (dpath d ++ [CDir n]) (Owned None)
      | Unowned => mkD (dpath d ++ [CDir n]) Unowned
      end
  end.

(* BTreeMap::entry(k).or_insert(v): the first value wins *)
Definition fm_mem (p : path) (fm : list (path * minfo)) : bool := existsb (fun e => path_eqb (fst e) p) fm.
Definition fm_or_insert (fm : list (path * minfo)) (p : path) (m : minfo) : list (path * minfo) :=
  if fm_mem p fm then fm else fm ++ [(p, m)].
(* BTreeMap::insert(k, v): replaces *)
Definition fm_set (fm : list (path * minfo)) (p : path) (m : minfo) : list (path * minfo) :=
  filter (fun e => negb (path_eqb (fst e) p)) fm ++ [(p, m)].

(* the file whose items are being visited: its id and the literal path it was loaded under
   (= span_to_filename of every item of it) *)
Definition curfile : Type := (N * path)%type.
Definition minfo_of (cur : curfile) (src : modsrc) : minfo :=
  match src with SFile id _ => MFile id | SClone => MDecl (fst cur) end.
(* modules.rs:308 insert_file_mod (repaired code, [fixed] = true): the module is stored only when its span
   lies in the file it is stored under; a module parsed from mod_path always does, the clone of the
   declaration's module does when the declaring file is mod_path itself.
   [fixed] = false: the code before commit 0b20f11, an unconditional entry().or_insert(). *)
Definition span_in_file (cur : curfile) (e : ext) : bool :=
  match snd e with SFile _ _ => true | SClone => path_eqb (snd cur) (fst (fst e)) end.
Definition insert_ext (fixed : bool) (cur : curfile) (s : st) (e : ext) : st :=
  if negb fixed || span_in_file cur e
  then mkSt (parsed s) (fm_or_insert (fmap s) (fst (fst e)) (minfo_of cur (snd e))) (sticky s)
  else s.
(* modules.rs:286 insert_sub_mod *)
Definition insert_sub_mod (fixed : bool) (cur : curfile) (s : st) (k : submod) : st :=
  match k with
  | External e => insert_ext fixed cur s e
  | MultiExternal es => fold_left (insert_ext fixed cur) es s
  | Internal => s
  end.

(* One item of the loops of visit_mod_from_ast / visit_mod_outside_ast (modules.rs:190-249), with
   visit_cfg_if / visit_cfg_match (150-187: only the direct `mod` items of the macro body are visited),
   visit_sub_mod (251: the directory is saved and restored, hence passed by value here), peek_sub_mod (267),
   insert_sub_mod, visit_sub_mod_inner (308) and visit_sub_mod_after_directory_update (338).
   [cur] is the file whose items are being visited.  Fuel is consumed only when the items of
   another file are entered. *)
Fixpoint visit_item (fixed : bool) (fuel : nat) (it : decl) (cur : curfile) (d : dctx) (s : st) {struct fuel} : res st :=
  let visit_src (p : path) (src : modsrc) (d' : dctx) (s' : st) : res st :=
    match src with
    | SClone => Ok s'                       (* the clone has no items: visit_mod_outside_ast(empty) *)
    | SFile id items =>
        match fuel with
        | O => Err OutOfFuel
        | S f => fold_res (fun s1 it1 => visit_item fixed f it1 (id, p) d' s1) items s'
        end
    end in
  let visit_ext (s' : st) (e : ext) : res st :=
    visit_src (fst (fst e)) (snd e) (mkD (parent (fst (fst e))) (snd (fst e))) s' in
  (fix vi (it : decl) (d : dctx) (s : st) {struct it} : res st :=
     match it with
     | Other => Ok s
     | CfgIf body | CfgMatch body =>
         fold_res (fun s1 m => match m with
                               | ModDecl _ _ | ModInline _ _ _ => vi m d s1
                               | _ => Ok s1
                               end) body s
     | ModInline n a body =>
         if skip a then Ok s                                              (* peek_sub_mod: contains_skip *)
         else fold_res (fun s1 m => vi m (push_inline_mod_directory d n a) s1) body s
     | ModDecl n a =>
         if skip a then Ok s
         else match find_external_module s d n a with
              | (_, Err e) => Err e
              | (s1, Ok None) => Ok s1
              | (s1, Ok (Some k)) =>
                  let s2 := insert_sub_mod fixed cur s1 k in
                  match k with
                  | External e => visit_ext s2 e
                  | MultiExternal es => fold_res visit_ext es s2
                  | Internal => Ok s2
                  end
              end
     end) it d s.

Definition visit_items (fixed : bool) (fuel : nat) (cur : curfile) (d : dctx) (s : st) (items : list decl) : res st :=
  fold_res (fun s1 it => visit_item fixed fuel it cur d s1) items s.

(* lib.rs:560 Input::to_directory_ownership; None becomes UnownedViaBlock in format_project *)
Definition to_directory_ownership (root : path) : own :=
  match last root CUp with
  | CRs n => if is_dir (parent root ++ [CDir n]) then Owned (Some n) else Unowned
  | _ => Unowned
  end.

(* formatting.rs:59 should_skip_module (negated), under the `input_is_stdin ||` of line 144 *)
Definition minfo_skip (m : minfo) : bool := match m with MFile id => inner_skip (ffacts id) | MDecl _ => false end.
Definition minfo_generated (m : minfo) : bool :=
  match m with MFile id => generated (ffacts id) | MDecl c => generated (ffacts c) end.
Definition path_ignored (p : path) : bool :=
  match lookup p with Some (File id) => ignored (ffacts id) | _ => false end.
Definition keep (cfg : config) (root : path) (e : path * minfo) : bool :=
  input_is_stdin cfg
  || negb (minfo_skip (snd e)
           || (skip_children cfg && negb (path_eqb (fst e) root))
           || path_ignored (fst e)
           || (negb (format_generated cfg) && minfo_generated (snd e))).

(* iteration order of the BTreeMap *)
Fixpoint insert_sorted (e : path * minfo) (l : list (path * minfo)) : list (path * minfo) :=
  match l with
  | [] => [e]
  | x :: l' => if path_leb (fst e) (fst x) then e :: l else x :: insert_sorted e l'
  end.
Definition sort_fm (l : list (path * minfo)) : list (path * minfo) := fold_right insert_sorted [] l.

(* formatting.rs:102 format_project + modules.rs:121 visit_crate: the paths handed to format_file, in order.
   A root that cannot be read/parsed is reported through another channel by the real code
   (report.add_parsing_error); here it is Err NotFound / Err ParseError. *)
Definition resolve_fuel_gen (fixed : bool) (fuel : nat) (cfg : config) (root : path) : res (list path) :=
  if skip_children cfg && negb (input_is_stdin cfg) && path_ignored root then Ok []
  else
  match lookup root with
  | None => Err NotFound
  | Some Dir => Err ParseError
  | Some (File rid) =>
      match ast rid with
      | None => Err ParseError
      | Some items =>
          let s0 := mkSt [root] [] false in
          let d0 := mkD (parent root)
                        (if input_is_stdin cfg then Unowned else to_directory_ownership root) in
          let recursive := negb (input_is_stdin cfg) && negb (skip_children cfg) in
          match (if recursive then visit_items fixed fuel (rid, root) d0 s0 items else Ok s0) with
          | Err e => Err e
          | Ok s => Ok (map fst (filter (keep cfg root) (sort_fm (fm_set (fmap s) root (MFile rid)))))
          end
      end
  end.

(* the current code *)
Definition resolve_fuel : nat -> config -> path -> res (list path) := resolve_fuel_gen true.
(* the code before the repair of insert_sub_mod (commit 0b20f11) *)
Definition resolve_fuel_pre : nat -> config -> path -> res (list path) := resolve_fuel_gen false.

(* ------------------------------------------------------------------------------------------------ *)
(* Specification: the language's rules (rustc_expand/src/module.rs; Reference, items/modules) as a
   one-step successor function and its inductive closure.  No state, no order, no already-seen set. *)

(* the context of a list of items: [cdir] is the directory of the file (plus inline-module components),
   [crel] is Some stem for the top level of a non-mod-rs file *)
Record ctx : Type := mkC { cdir : path; crel : option N }.
Definition moddir (c : ctx) : path := cdir c ++ match crel c with Some r => [CDir r] | None => [] end.

(* name.rs xor name/mod.rs in directory dir *)
Definition pick2 (dir : path) (n : N) : res (path * ctx) :=
  match is_file (dir ++ [CRs n]), is_file (dir ++ [CDir n; CModRs]) with
  | true, false => Ok (dir ++ [CRs n], mkC dir (Some n))
  | false, true => Ok (dir ++ [CDir n; CModRs], mkC (dir ++ [CDir n]) None)
  | false, false => Err NotFound
  | true, true => Err MultipleCandidates
  end.
(* the language's rule ([fallback] = false), plus the documented fallback to the declaring file's own
   directory when neither nested candidate exists ([fallback] = true) *)
Definition lang_default (fallback : bool) (c : ctx) (n : N) : res (path * ctx) :=
  match pick2 (moddir c) n with
  | Err NotFound =>
      match crel c with
      | Some _ => if fallback then match pick2 (cdir c) n with Ok x => Ok x | Err _ => Err NotFound end
                  else Err NotFound
      | None => Err NotFound
      end
  | r => r
  end.

Definition attr_target (c : ctx) (q : path) : path * ctx := (cdir c ++ q, mkC (parent (cdir c ++ q)) None).

(* candidate files of `mod n;` with attributes a in context c *)
Definition decl_targets (fallback : bool) (c : ctx) (n : N) (a : attrs) : list (path * ctx) :=
  match path_attr a with
  | Some q => [attr_target c q]
  | None => map (attr_target c) (cfg_attr_paths a)
            ++ match lang_default fallback c n with Ok x => [x] | Err _ => [] end
  end.

(* files named by one item; with [prune] a skipped declaration names nothing *)
Definition decl_files (fallback prune : bool) (c : ctx) (d : decl) : list path :=
  match d with
  | ModDecl n a =>
      if prune && skip a then []
      else filter is_file (map fst (decl_targets fallback c n a))
  | _ => []
  end.

Definition inline_ctxs (c : ctx) (n : N) (a : attrs) : list ctx :=
  match path_attr a with
  | Some q => [mkC (cdir c ++ q) None]
  | None => mkC (moddir c ++ [CDir n]) None :: map (fun q => mkC (cdir c ++ q) None) (cfg_attr_paths a)
  end.

(* steps that stay in the same file: inline modules, macro bodies *)
Definition local_step (prune : bool) (c : ctx) (d : decl) : list (ctx * list decl) :=
  match d with
  | CfgIf b | CfgMatch b => [(c, b)]
  | ModInline n a b => if prune && skip a then [] else map (fun c' => (c', b)) (inline_ctxs c n a)
  | _ => []
  end.

Definition enter (prune : bool) (t : path * ctx) : list (ctx * list decl) :=
  match lookup (fst t) with
  | Some (File id) =>
      if prune && inner_skip (ffacts id) then []
      else match ast id with Some items => [(snd t, items)] | None => [] end
  | _ => []
  end.

(* steps into another file *)
Definition file_step (fallback prune : bool) (c : ctx) (d : decl) : list (ctx * list decl) :=
  match d with
  | ModDecl n a => if prune && skip a then [] else flat_map (enter prune) (decl_targets fallback c n a)
  | _ => []
  end.

Definition lang_step (fallback prune : bool) (c : ctx) (d : decl) : list (ctx * list decl) :=
  local_step prune c d ++ file_step fallback prune c d.

Definition root_ctx (root : path) : ctx := mkC (parent root) None.

Section Spec.
Variables (fallback prune : bool) (root : path).

(* the item lists the compiler visits, each with its context *)
Inductive Visit : ctx -> list decl -> Prop :=
| V_root : forall rid items,
    lookup root = Some (File rid) -> ast rid = Some items -> Visit (root_ctx root) items
| V_step : forall c ds d c' ds',
    Visit c ds -> In d ds -> In (c', ds') (lang_step fallback prune c d) -> Visit c' ds'.

Definition ReachG (p : path) : Prop :=
  p = root \/ exists c ds d, Visit c ds /\ In d ds /\ In p (decl_files fallback prune c d).
End Spec.

(* the files of the crate: language rules + documented fallback, skip attributes ignored *)
Definition Reach (root : path) : path -> Prop := ReachG true false root.
(* the same without the fallback: what rustc loads *)
Definition StrictReach (root : path) : path -> Prop := ReachG false false root.
(* reached without going through a skipped declaration or a file that starts with #![rustfmt::skip] *)
Definition ReachUnskipped (root : path) : path -> Prop := ReachG true true root.

Definition Excluded (cfg : config) (root : path) (p : path) : Prop :=
  (p <> root /\ (skip_children cfg = true \/ input_is_stdin cfg = true))
  \/ (input_is_stdin cfg = false /\
      exists id, lookup p = Some (File id) /\
                 (inner_skip (ffacts id) = true \/ ignored (ffacts id) = true
                  \/ (generated (ffacts id) = true /\ format_generated cfg = false)))
  \/ ~ ReachUnskipped root p.

(* a non-skipped declaration that cannot be resolved (rules with fallback), with the error kind *)
Definition file_err (p : path) (e : err) : Prop :=
  match lookup p with
  | None => e = NotFound
  | Some Dir => e = ParseError
  | Some (File id) => ast id = None /\ e = ParseError
  end.
Definition DeclErr (c : ctx) (n : N) (a : attrs) (e : err) : Prop :=
  match path_attr a with
  | Some q => file_err (cdir c ++ q) e
  | None =>
      match lang_default true c n with
      | Ok (p, _) => file_err p e
      | Err e' => e = e' /\ forall q, In q (cfg_attr_paths a) -> exists_ (cdir c ++ q) = false
      end
  end.
Definition ErrWitness (root : path) (e : err) : Prop :=
  file_err root e \/
  exists c ds n a, Visit true true root c ds /\ In (ModDecl n a) ds /\ skip a = false /\ DeclErr c n a e.

(* ------------------------------------------------------------------------------------------------ *)
(* shapes on which the code and the rules disagree (each has a _refuted lemma); the main theorems assume
   their absence *)

(* no mod item at any depth *)
Fixpoint no_mods (d : decl) : bool :=
  match d with
  | ModDecl _ _ => false
  | ModInline _ _ b => forallb no_mods b
  | CfgIf b | CfgMatch b => forallb no_mods b
  | Other => true
  end.

Definition is_cfg (d : decl) : bool := match d with CfgIf _ | CfgMatch _ => true | _ => false end.
(* no cfg_if!/cfg_match! directly inside a cfg_if!/cfg_match! body; no cfg_attr(path) on an inline module *)
Fixpoint decl_ok (d : decl) : bool :=
  match d with
  | ModDecl _ _ => true
  | ModInline _ a b => is_nil (cfg_attr_paths a) && forallb decl_ok b
  | CfgIf b | CfgMatch b => forallb (fun x => negb (is_cfg x) && decl_ok x) b
  | Other => true
  end.

Record Tame (root : path) : Prop := mkTame {
  (* the input is a crate root: no sibling directory named after its stem (lib.rs:566) *)
  tame_root : to_directory_ownership root = Unowned;
  (* modules.rs:519: where the heuristic drops the inline module's name, nothing is declared inside *)
  tame_heur : forall c ds n a b r,
      Visit true true root c ds -> In (ModInline n a b) ds -> skip a = false -> path_attr a = None ->
      crel c = Some r -> exists_ (cdir c ++ [CDir r]) = true -> exists_ (cdir c ++ [CDir r; CDir n]) = false ->
      forallb no_mods b = true;
  (* a file is reached with one context only (same `relative`), and the root is not a module of itself
     under another context *)
  tame_coh : forall c1 ds1 n1 a1 c2 ds2 n2 a2 p k1 k2,
      Visit true true root c1 ds1 -> In (ModDecl n1 a1) ds1 -> skip a1 = false ->
      Visit true true root c2 ds2 -> In (ModDecl n2 a2) ds2 -> skip a2 = false ->
      In (p, k1) (decl_targets true c1 n1 a1) -> In (p, k2) (decl_targets true c2 n2 a2) -> k1 = k2;
  tame_coh_root : forall c ds n a k,
      Visit true true root c ds -> In (ModDecl n a) ds -> skip a = false ->
      In (root, k) (decl_targets true c n a) -> k = root_ctx root;
  tame_syntax : forall c ds, Visit true true root c ds -> forallb decl_ok ds = true;
  (* cfg_attr(.., path = ..) candidates that exist are parsable files without #![rustfmt::skip], and when one
     exists the default candidate has no #![rustfmt::skip] either (modules.rs:428, 551-568).
     Still needed after the repair of insert_sub_mod (which only stopped the skipped file from being
     written): an unparsable candidate is swallowed and leaves the error count set; a skipped candidate is
     dropped the first time (a missing default is then NotFound) and counted the second time (the same
     declaration is then accepted); a skipped default makes the declaration return None, dropping the
     candidates that were parsed. *)
  tame_cfg_attr : forall c ds n a q,
      Visit true true root c ds -> In (ModDecl n a) ds -> skip a = false -> path_attr a = None ->
      In q (cfg_attr_paths a) -> exists_ (cdir c ++ q) = true ->
      (exists id items, lookup (cdir c ++ q) = Some (File id) /\ ast id = Some items
                        /\ inner_skip (ffacts id) = false)
      /\ (forall p k id, lang_default true c n = Ok (p, k) -> lookup p = Some (File id) ->
                         inner_skip (ffacts id) = false)
}.

(* ------------------------------------------------------------------------------------------------ *)
(* executable closure of the successor function (for concrete trees and for the rustc oracle) *)

Definition lnode : Type := (ctx * list decl)%type.

Definition opt_eqb {A : Type} (f : A -> A -> bool) (x y : option A) : bool :=
  match x, y with Some a, Some b => f a b | None, None => true | _, _ => false end.
Fixpoint list_eqb {A : Type} (f : A -> A -> bool) (x y : list A) : bool :=
  match x, y with
  | [], [] => true
  | a :: x', b :: y' => f a b && list_eqb f x' y'
  | _, _ => false
  end.
Definition attrs_eqb (a b : attrs) : bool :=
  opt_eqb path_eqb (path_attr a) (path_attr b)
  && list_eqb path_eqb (cfg_attr_paths a) (cfg_attr_paths b)
  && Bool.eqb (skip a) (skip b).
Fixpoint decl_eqb (x y : decl) : bool :=
  let fix go (l1 l2 : list decl) : bool :=
    match l1, l2 with
    | [], [] => true
    | u :: l1', v :: l2' => decl_eqb u v && go l1' l2'
    | _, _ => false
    end in
  match x, y with
  | ModDecl n a, ModDecl m b => N.eqb n m && attrs_eqb a b
  | ModInline n a bx, ModInline m b by_ => N.eqb n m && attrs_eqb a b && go bx by_
  | CfgIf bx, CfgIf by_ => go bx by_
  | CfgMatch bx, CfgMatch by_ => go bx by_
  | Other, Other => true
  | _, _ => false
  end.
Definition ctx_eqb (a b : ctx) : bool := path_eqb (cdir a) (cdir b) && opt_eqb N.eqb (crel a) (crel b).
Definition lnode_eqb (a b : lnode) : bool := ctx_eqb (fst a) (fst b) && list_eqb decl_eqb (snd a) (snd b).
Definition lnode_mem (x : lnode) (l : list lnode) : bool := existsb (lnode_eqb x) l.

Definition succs (fallback prune : bool) (x : lnode) : list lnode :=
  flat_map (lang_step fallback prune (fst x)) (snd x).
Fixpoint add_new (xs : list lnode) (acc : list lnode) : list lnode :=
  match xs with
  | [] => acc
  | x :: xs' => add_new xs' (if lnode_mem x acc then acc else acc ++ [x])
  end.
Definition root_nodes (root : path) : list lnode :=
  match lookup root with
  | Some (File rid) => match ast rid with Some items => [(root_ctx root, items)] | None => [] end
  | _ => []
  end.
(* n rounds of breadth-first closure *)
Fixpoint lang_nodes (fallback prune : bool) (root : path) (n : nat) : list lnode :=
  match n with
  | O => root_nodes root
  | S k => let l := lang_nodes fallback prune root k in add_new (flat_map (succs fallback prune) l) l
  end.
(* the node list is closed under the successor function *)
Definition closed_nodes (fallback prune : bool) (root : path) (l : list lnode) : bool :=
  forallb (fun x => lnode_mem x l) (root_nodes root)
  && forallb (fun x => forallb (fun y => lnode_mem y l) (succs fallback prune x)) l.
Definition files_of_nodes (fallback prune : bool) (root : path) (l : list lnode) : list path :=
  root :: flat_map (fun x : lnode => flat_map (decl_files fallback prune (fst x)) (snd x)) l.


(* decidable form of Tame, given the closed node list l of the pruned closure with fallback *)
Definition own_is_unowned (o : own) : bool := match o with Unowned => true | _ => false end.
Definition heur_ok (c : ctx) (d : decl) : bool :=
  match d with
  | ModInline n a b =>
      if skip a then true
      else match path_attr a, crel c with
           | None, Some r =>
               if exists_ (cdir c ++ [CDir r]) && negb (exists_ (cdir c ++ [CDir r; CDir n]))
               then forallb no_mods b else true
           | _, _ => true
           end
  | _ => true
  end.
Definition node_targets (x : lnode) : list (path * ctx) :=
  flat_map (fun d => match d with
                     | ModDecl n a => if skip a then [] else decl_targets true (fst x) n a
                     | _ => []
                     end) (snd x).
Definition file_noskip (p : path) : bool :=
  match lookup p with Some (File id) => negb (inner_skip (ffacts id)) | _ => true end.
Definition cfg_attr_ok (c : ctx) (d : decl) : bool :=
  match d with
  | ModDecl n a =>
      if skip a then true
      else match path_attr a with
           | Some _ => true
           | None =>
               forallb (fun q =>
                 if exists_ (cdir c ++ q)
                 then match lookup (cdir c ++ q) with
                      | Some (File id) => match ast id with Some _ => negb (inner_skip (ffacts id)) | None => false end
                      | _ => false
                      end
                      && match lang_default true c n with Ok (p, _) => file_noskip p | Err _ => true end
                 else true) (cfg_attr_paths a)
           end
  | _ => true
  end.
Definition tame_check (root : path) (l : list lnode) : bool :=
  let tg := flat_map node_targets l in
  own_is_unowned (to_directory_ownership root)
  && forallb (fun x : lnode => forallb (heur_ok (fst x)) (snd x)) l
  && forallb (fun t1 : path * ctx =>
       forallb (fun t2 : path * ctx => implb (path_eqb (fst t1) (fst t2)) (ctx_eqb (snd t1) (snd t2))) tg) tg
  && forallb (fun t : path * ctx => implb (path_eqb (fst t) root) (ctx_eqb (snd t) (root_ctx root))) tg
  && forallb (fun x : lnode => forallb decl_ok (snd x)) l
  && forallb (fun x : lnode => forallb (cfg_attr_ok (fst x)) (snd x)) l.

End Model.
