(* C13/Lemmas.v — proofs about the module resolver model *)
From V Require Import Base.Text C13.Model.
From Coq Require Import Sorting.Sorted Sorting.Permutation.
Arguments N.add : simpl never.
Arguments N.sub : simpl never.
Arguments N.mul : simpl never.
Arguments N.ltb : simpl never.
Arguments N.leb : simpl never.
Arguments N.eqb : simpl never.

(* ================================================================================================ *)
(* A. paths: equality and order *)

Lemma comp_key_inj : forall a b, comp_key a = comp_key b -> a = b.
Proof.
  intros a b H. destruct a as [| |n|n], b as [| |m|m]; cbn [comp_key] in H; try reflexivity; try lia;
    f_equal; lia.
Qed.

Lemma comp_eqb_eq : forall a b, comp_eqb a b = true <-> a = b.
Proof.
  intros a b. unfold comp_eqb. rewrite N.eqb_eq. split; [apply comp_key_inj | intros ->; reflexivity].
Qed.

Lemma path_eqb_eq : forall p q, path_eqb p q = true <-> p = q.
Proof.
  induction p as [|a p IH]; intros [|b q]; cbn [path_eqb]; split; intros H; try reflexivity; try discriminate.
  - apply andb_true_iff in H as [H1 H2]. apply comp_eqb_eq in H1. apply IH in H2. congruence.
  - inversion H; subst. apply andb_true_iff. split; [apply comp_eqb_eq | apply IH]; reflexivity.
Qed.

Lemma path_eqb_refl : forall p, path_eqb p p = true.
Proof. intros p. apply path_eqb_eq. reflexivity. Qed.

Lemma path_eqb_neq : forall p q, path_eqb p q = false <-> p <> q.
Proof.
  intros p q. split.
  - intros H E. apply path_eqb_eq in E. congruence.
  - intros H. destruct (path_eqb p q) eqn:E; [apply path_eqb_eq in E; contradiction | reflexivity].
Qed.

Lemma path_eq_dec : forall p q : path, {p = q} + {p <> q}.
Proof.
  intros p q. destruct (path_eqb p q) eqn:E.
  - left. apply path_eqb_eq. exact E.
  - right. apply path_eqb_neq. exact E.
Qed.

Lemma mem_In : forall p l, mem p l = true <-> In p l.
Proof.
  intros p l. unfold mem. rewrite existsb_exists. split.
  - intros (x & Hx & E). apply path_eqb_eq in E. subst. exact Hx.
  - intros H. exists p. split; [exact H | apply path_eqb_refl].
Qed.

Lemma mem_false : forall p l, mem p l = false <-> ~ In p l.
Proof.
  intros p l. split.
  - intros H HI. apply mem_In in HI. congruence.
  - intros H. destruct (mem p l) eqn:E; [apply mem_In in E; contradiction | reflexivity].
Qed.

Definition plt (p q : path) : Prop := path_ltb p q = true.
Definition ple (p q : path) : Prop := path_ltb q p = false.

Lemma path_ltb_irrefl : forall p, path_ltb p p = false.
Proof.
  induction p as [|a p IH]; cbn [path_ltb]; [reflexivity|].
  rewrite N.ltb_irrefl, N.eqb_refl. exact IH.
Qed.

Lemma path_ltb_trans : forall p q r, path_ltb p q = true -> path_ltb q r = true -> path_ltb p r = true.
Proof.
  induction p as [|a p IH]; intros [|b q] [|c r] H1 H2; cbn [path_ltb] in *; try discriminate; try reflexivity.
  destruct (N.ltb_spec (comp_key a) (comp_key b)) as [Hab|Hab];
  destruct (N.ltb_spec (comp_key b) (comp_key c)) as [Hbc|Hbc].
  - destruct (N.ltb_spec (comp_key a) (comp_key c)); [reflexivity | lia].
  - destruct (N.eqb_spec (comp_key b) (comp_key c)) as [E|E]; [|discriminate].
    destruct (N.ltb_spec (comp_key a) (comp_key c)); [reflexivity | lia].
  - destruct (N.eqb_spec (comp_key a) (comp_key b)) as [E|E]; [|discriminate].
    destruct (N.ltb_spec (comp_key a) (comp_key c)); [reflexivity | lia].
  - destruct (N.eqb_spec (comp_key a) (comp_key b)) as [E|E]; [|discriminate].
    destruct (N.eqb_spec (comp_key b) (comp_key c)) as [E2|E2]; [|discriminate].
    destruct (N.ltb_spec (comp_key a) (comp_key c)); [reflexivity|].
    destruct (N.eqb_spec (comp_key a) (comp_key c)); [|lia]. eapply IH; eassumption.
Qed.

Lemma path_ltb_total : forall p q, path_ltb p q = false -> path_ltb q p = false -> p = q.
Proof.
  induction p as [|a p IH]; intros [|b q] H1 H2; cbn [path_ltb] in *; try discriminate; try reflexivity.
  destruct (N.ltb_spec (comp_key a) (comp_key b)) as [Hab|Hab]; [discriminate|].
  destruct (N.ltb_spec (comp_key b) (comp_key a)) as [Hba|Hba]; [discriminate|].
  assert (E : comp_key a = comp_key b) by lia.
  rewrite E, N.eqb_refl in *. apply comp_key_inj in E. subst. f_equal. apply IH; assumption.
Qed.

Lemma ple_cases : forall p q, ple p q <-> p = q \/ plt p q.
Proof.
  intros p q. unfold ple, plt. split.
  - intros H. destruct (path_ltb p q) eqn:E; [right; reflexivity | left; apply path_ltb_total; assumption].
  - intros [->|H]; [apply path_ltb_irrefl|].
    destruct (path_ltb q p) eqn:E; [|reflexivity].
    pose proof (path_ltb_trans _ _ _ H E) as C. rewrite path_ltb_irrefl in C. discriminate.
Qed.

Lemma ple_trans : forall p q r, ple p q -> ple q r -> ple p r.
Proof.
  intros p q r H1 H2. apply ple_cases in H1, H2. apply ple_cases.
  destruct H1 as [->|H1]; [exact H2|]. destruct H2 as [->|H2]; [right; exact H1|].
  right. eapply path_ltb_trans; eassumption.
Qed.

(* ================================================================================================ *)
(* B. the file map: keys, sorting *)

Definition keys (fm : list (path * minfo)) : list path := map fst fm.

Lemma fm_mem_In : forall p fm, fm_mem p fm = true <-> In p (keys fm).
Proof.
  intros p fm. unfold fm_mem, keys. rewrite existsb_exists, in_map_iff. split.
  - intros (x & Hx & E). apply path_eqb_eq in E. exists x. split; assumption.
  - intros (x & E & Hx). exists x. split; [exact Hx | apply path_eqb_eq; exact E].
Qed.

Lemma fm_or_insert_keys : forall fm p m q, In q (keys (fm_or_insert fm p m)) <-> In q (keys fm) \/ q = p.
Proof.
  intros fm p m q. unfold fm_or_insert. destruct (fm_mem p fm) eqn:E.
  - apply fm_mem_In in E. split; [intros H; left; exact H | intros [H| ->]; assumption].
  - unfold keys. rewrite map_app, in_app_iff. cbn [map In fst]. split.
    + intros [H|[H|[]]]; [left; exact H | right; symmetry; exact H].
    + intros [H| ->]; [left; exact H | right; left; reflexivity].
Qed.

Lemma fm_or_insert_nodup : forall fm p m, NoDup (keys fm) -> NoDup (keys (fm_or_insert fm p m)).
Proof.
  intros fm p m H. unfold fm_or_insert. destruct (fm_mem p fm) eqn:E; [exact H|].
  unfold keys. rewrite map_app. cbn [map fst].
  assert (Hn : ~ In p (keys fm)) by (intros HI; apply fm_mem_In in HI; congruence).
  clear E. unfold keys in *. induction (map fst fm) as [|x l IH]; cbn [app].
  - constructor; [intros [] | constructor].
  - inversion H as [|? ? Hx Hl]; subst. constructor.
    + rewrite in_app_iff. intros [HI|[HI|[]]]; [contradiction|]. subst. apply Hn. left. reflexivity.
    + apply IH; [exact Hl|]. intros HI. apply Hn. right. exact HI.
Qed.

Lemma fm_or_insert_In : forall fm p m q m',
  In (q, m') (fm_or_insert fm p m) -> In (q, m') fm \/ (q = p /\ m' = m /\ ~ In p (keys fm)).
Proof.
  intros fm p m q m' H. unfold fm_or_insert in H. destruct (fm_mem p fm) eqn:E; [left; exact H|].
  apply in_app_iff in H as [H|[H|[]]]; [left; exact H|]. inversion H; subst. right.
  split; [reflexivity|]. split; [reflexivity|]. intros HI. apply fm_mem_In in HI. congruence.
Qed.

Lemma fm_or_insert_incl : forall fm p m e, In e fm -> In e (fm_or_insert fm p m).
Proof.
  intros fm p m e H. unfold fm_or_insert. destruct (fm_mem p fm); [exact H|]. apply in_app_iff. left. exact H.
Qed.

Lemma fm_set_In : forall fm p m q m',
  In (q, m') (fm_set fm p m) <-> (q <> p /\ In (q, m') fm) \/ (q = p /\ m' = m).
Proof.
  intros fm p m q m'. unfold fm_set. rewrite in_app_iff, filter_In. cbn [In fst]. split.
  - intros [[H1 H2]|[H|[]]].
    + left. apply negb_true_iff, path_eqb_neq in H2. split; assumption.
    + inversion H; subst. right. split; reflexivity.
  - intros [[H1 H2]|[-> ->]].
    + left. split; [exact H2|]. apply negb_true_iff, path_eqb_neq. exact H1.
    + right. left. reflexivity.
Qed.

Lemma filter_keys_nodup : forall (f : path * minfo -> bool) fm, NoDup (keys fm) -> NoDup (keys (filter f fm)).
Proof.
  intros f fm. unfold keys. induction fm as [|x l IH]; intros H; cbn [filter map]; [constructor|].
  cbn [map] in H. inversion H as [|? ? Hx Hl]; subst. destruct (f x); [|apply IH; exact Hl].
  cbn [map]. constructor; [|apply IH; exact Hl].
  intros HI. apply Hx. apply in_map_iff in HI as (y & E & Hy). apply filter_In in Hy as [Hy _].
  apply in_map_iff. exists y. split; assumption.
Qed.

Lemma fm_set_nodup : forall fm p m, NoDup (keys fm) -> NoDup (keys (fm_set fm p m)).
Proof.
  intros fm p m H. unfold fm_set.
  pose proof (filter_keys_nodup (fun e => negb (path_eqb (fst e) p)) fm H) as Hf.
  assert (Hn : ~ In p (keys (filter (fun e => negb (path_eqb (fst e) p)) fm))).
  { unfold keys. intros HI. apply in_map_iff in HI as (y & E & Hy). apply filter_In in Hy as [_ Hy].
    apply negb_true_iff, path_eqb_neq in Hy. contradiction. }
  unfold keys in *. rewrite map_app. cbn [map fst].
  induction (map fst (filter (fun e => negb (path_eqb (fst e) p)) fm)) as [|x l IH]; cbn [app].
  - constructor; [intros [] | constructor].
  - inversion Hf as [|? ? Hx Hl]; subst. constructor.
    + rewrite in_app_iff. intros [HI|[HI|[]]]; [contradiction|]. subst. apply Hn. left. reflexivity.
    + apply IH; [exact Hl|]. intros HI. apply Hn. right. exact HI.
Qed.

Lemma insert_sorted_perm : forall e l, Permutation (insert_sorted e l) (e :: l).
Proof.
  intros e l. induction l as [|x l IH]; cbn [insert_sorted]; [apply Permutation_refl|].
  destruct (path_leb (fst e) (fst x)); [apply Permutation_refl|].
  eapply Permutation_trans; [apply perm_skip; exact IH | apply perm_swap].
Qed.

Lemma sort_fm_perm : forall l, Permutation (sort_fm l) l.
Proof.
  induction l as [|x l IH]; cbn [sort_fm fold_right]; [apply Permutation_refl|].
  eapply Permutation_trans; [apply insert_sorted_perm | apply perm_skip; exact IH].
Qed.

Definition kle (a b : path * minfo) : Prop := ple (fst a) (fst b).

Lemma insert_sorted_sorted : forall e l, StronglySorted kle l -> StronglySorted kle (insert_sorted e l).
Proof.
  intros e l H. induction H as [|x l Hl IH Hx]; cbn [insert_sorted].
  - constructor; [constructor | constructor].
  - unfold path_leb. destruct (path_ltb (fst x) (fst e)) eqn:E; cbn [negb].
    + constructor; [exact IH|].
      eapply Permutation_Forall; [apply Permutation_sym, insert_sorted_perm|].
      constructor; [|exact Hx]. unfold kle. apply ple_cases. right. exact E.
    + constructor; [constructor; assumption|]. constructor; [exact E|].
      eapply Forall_impl; [|exact Hx]. intros y Hy. unfold kle in *. eapply ple_trans; [exact E | exact Hy].
Qed.

Lemma sort_fm_sorted : forall l, StronglySorted kle (sort_fm l).
Proof.
  induction l as [|x l IH]; cbn [sort_fm fold_right]; [constructor|]. apply insert_sorted_sorted. exact IH.
Qed.

Lemma filter_sorted : forall (R : path * minfo -> path * minfo -> Prop) f l,
  StronglySorted R l -> StronglySorted R (filter f l).
Proof.
  intros R f l H. induction H as [|x l Hl IH Hx]; cbn [filter]; [constructor|].
  destruct (f x); [|exact IH]. constructor; [exact IH|].
  apply Forall_forall. intros y Hy. apply filter_In in Hy as [Hy _]. rewrite Forall_forall in Hx. apply Hx, Hy.
Qed.

Lemma sorted_keys_strict : forall l, StronglySorted kle l -> NoDup (keys l) -> StronglySorted plt (keys l).
Proof.
  intros l H. induction H as [|x l Hl IH Hx]; intros Hn; cbn [keys map]; [constructor|].
  cbn [keys map] in Hn. inversion Hn as [|? ? Hnx Hnl]; subst. constructor; [apply IH; exact Hnl|].
  apply Forall_forall. intros q Hq. apply in_map_iff in Hq as (y & E & Hy). subst q.
  rewrite Forall_forall in Hx. specialize (Hx y Hy). unfold kle in Hx. apply ple_cases in Hx as [E|Hlt]; [|exact Hlt].
  exfalso. apply Hnx. rewrite E. apply in_map. exact Hy.
Qed.

(* the final pipeline: filter (keep) . sort . fm_set *)
Lemma final_nodup : forall (f : path * minfo -> bool) fm, NoDup (keys fm) -> NoDup (keys (filter f (sort_fm fm))).
Proof.
  intros f fm H. apply filter_keys_nodup. unfold keys.
  eapply Permutation_NoDup; [apply Permutation_map, Permutation_sym, sort_fm_perm | exact H].
Qed.

Lemma final_sorted : forall (f : path * minfo -> bool) fm,
  NoDup (keys fm) -> StronglySorted plt (keys (filter f (sort_fm fm))).
Proof.
  intros f fm H. apply sorted_keys_strict; [apply filter_sorted, sort_fm_sorted | apply final_nodup; exact H].
Qed.

Lemma final_In : forall (f : path * minfo -> bool) fm p,
  In p (keys (filter f (sort_fm fm))) <-> exists m, In (p, m) fm /\ f (p, m) = true.
Proof.
  intros f fm p. unfold keys. rewrite in_map_iff. split.
  - intros ([q m] & E & H). cbn [fst] in E. subst q. apply filter_In in H as [H1 H2]. exists m. split; [|exact H2].
    eapply Permutation_in; [apply sort_fm_perm | exact H1].
  - intros (m & H1 & H2). exists (p, m). split; [reflexivity|]. apply filter_In. split; [|exact H2].
    eapply Permutation_in; [apply Permutation_sym, sort_fm_perm | exact H1].
Qed.

(* ================================================================================================ *)
(* C. structure of the visit: induction principle, unfolding *)

Section DeclInd.
  Variable P : decl -> Prop.
  Hypothesis Hdecl : forall n a, P (ModDecl n a).
  Hypothesis Hinline : forall n a b, Forall P b -> P (ModInline n a b).
  Hypothesis Hcfgif : forall b, Forall P b -> P (CfgIf b).
  Hypothesis Hcfgmatch : forall b, Forall P b -> P (CfgMatch b).
  Hypothesis Hother : P Other.
  Fixpoint decl_ind' (d : decl) : P d :=
    let fix go (l : list decl) : Forall P l :=
      match l with
      | [] => Forall_nil P
      | x :: l' => Forall_cons x (decl_ind' x) (go l')
      end in
    match d with
    | ModDecl n a => Hdecl n a
    | ModInline n a b => Hinline n a b (go b)
    | CfgIf b => Hcfgif b (go b)
    | CfgMatch b => Hcfgmatch b (go b)
    | Other => Hother
    end.
End DeclInd.

Definition is_mod (d : decl) : bool := match d with ModDecl _ _ | ModInline _ _ _ => true | _ => false end.

Section Visit.
Variable lookup : path -> option node.
Variable ast : N -> option (list decl).
Variable ffacts : N -> facts.
Variable fixed : bool.      (* true: the current insert_sub_mod; false: the one before the repair *)

Notation visit_item := (visit_item lookup ast ffacts fixed).
Notation visit_items := (visit_items lookup ast ffacts fixed).
Notation find_external_module := (find_external_module lookup ast ffacts).
Notation push_inline := (push_inline_mod_directory lookup).
Notation parse_file := (parse_file lookup ast).

Definition visit_src (fuel : nat) (p : path) (src : modsrc) (d' : dctx) (s' : st) : res st :=
  match src with
  | SClone => Ok s'
  | SFile id items => match fuel with O => Err OutOfFuel | S f => visit_items f (id, p) d' s' items end
  end.
Definition visit_ext (fuel : nat) (s' : st) (e : ext) : res st :=
  visit_src fuel (fst (fst e)) (snd e) (mkD (parent (fst (fst e))) (snd (fst e))) s'.

Lemma visit_item_eq : forall fuel it cur d s,
  visit_item fuel it cur d s =
  match it with
  | Other => Ok s
  | CfgIf body | CfgMatch body =>
      fold_res (fun s1 m => match m with
                            | ModDecl _ _ | ModInline _ _ _ => visit_item fuel m cur d s1
                            | _ => Ok s1
                            end) body s
  | ModInline n a body =>
      if skip a then Ok s
      else fold_res (fun s1 m => visit_item fuel m cur (push_inline d n a) s1) body s
  | ModDecl n a =>
      if skip a then Ok s
      else match find_external_module s d n a with
           | (_, Err e) => Err e
           | (s1, Ok None) => Ok s1
           | (s1, Ok (Some k)) =>
               let s2 := insert_sub_mod fixed cur s1 k in
               match k with
               | External e => visit_ext fuel s2 e
               | MultiExternal es => fold_res (visit_ext fuel) es s2
               | Internal => Ok s2
               end
           end
  end.
Proof.
  intros fuel it cur d s. destruct fuel as [|f]; destruct it as [n a|n a b|b|b|]; reflexivity.
Qed.


Lemma fold_res_inv : forall (A : Type) (f : st -> A -> res st) (I : st -> Prop) (l : list A),
  (forall x s s', In x l -> I s -> f s x = Ok s' -> I s') ->
  forall s s', I s -> fold_res f l s = Ok s' -> I s'.
Proof.
  intros A f I l. induction l as [|x l IH]; intros Hf s s' Hs H; cbn [fold_res] in H.
  - inversion H; subst. exact Hs.
  - destruct (f s x) as [s1|e] eqn:E; [|discriminate].
    apply (IH (fun y t t' Hy => Hf y t t' (or_intror Hy)) s1 s'); [|exact H].
    eapply Hf; [left; reflexivity | exact Hs | exact E].
Qed.

(* find_external_module never touches the file map *)
Lemma parse_file_fmap : forall s p s1 r, parse_file s p = (s1, r) -> fmap s1 = fmap s.
Proof.
  intros s p s1 r H. unfold Model.parse_file in H.
  assert (Ha : fmap (add_parsed s p) = fmap s) by (unfold add_parsed; destruct (mem p (parsed s)); reflexivity).
  destruct (lookup p) as [[id|]|]; [|inversion H; subst; reflexivity|inversion H; subst; reflexivity].
  destruct (ast id) as [items|]; [destruct (sticky s)|]; inversion H; subst; cbn [fmap set_sticky]; exact Ha.
Qed.

Lemma outside_one_fmap : forall s dir q s1 es, outside_one lookup ast ffacts s dir q = (s1, es) -> fmap s1 = fmap s.
Proof.
  intros s dir q s1 es H. unfold outside_one in H.
  destruct (negb (exists_ lookup (dir ++ q))); [inversion H; reflexivity|].
  destruct (is_parsed s (dir ++ q)); [inversion H; reflexivity|].
  destruct (parse_file s (dir ++ q)) as [s2 r] eqn:E. apply parse_file_fmap in E.
  destruct r as [id items| |]; [destruct (inner_skip (ffacts id))| |]; inversion H; subst; exact E.
Qed.

Lemma outside_fmap : forall qs s dir s1 es,
  find_mods_outside_of_ast lookup ast ffacts s dir qs = (s1, es) -> fmap s1 = fmap s.
Proof.
  induction qs as [|q qs IH]; intros s dir s1 es H; cbn [find_mods_outside_of_ast] in H.
  - inversion H; reflexivity.
  - destruct (outside_one lookup ast ffacts s dir q) as [s2 here] eqn:E1.
    destruct (find_mods_outside_of_ast lookup ast ffacts s2 dir qs) as [s3 rest] eqn:E2.
    inversion H; subst. apply IH in E2. apply outside_one_fmap in E1. congruence.
Qed.

Lemma fem_fmap : forall s d n a s1 r, find_external_module s d n a = (s1, r) -> fmap s1 = fmap s.
Proof.
  intros s d n a s1 r H. unfold Model.find_external_module in H.
  destruct (path_attr a) as [q|].
  - destruct (is_parsed s (dpath d ++ q)); [inversion H; reflexivity|].
    destruct (parse_file s (dpath d ++ q)) as [s2 r2] eqn:E. apply parse_file_fmap in E.
    destruct r2 as [id items| |]; [destruct (inner_skip (ffacts id))| |]; inversion H; subst; exact E.
  - destruct (find_mods_outside_of_ast lookup ast ffacts s (dpath d) (cfg_attr_paths a)) as [s0 outside] eqn:E0.
    apply outside_fmap in E0.
    destruct (default_submod_path lookup n (relative_of (down d)) (dpath d)) as [[fp o]|e].
    + destruct (is_parsed s0 fp).
      * destruct (is_nil outside); inversion H; subst; exact E0.
      * destruct (parse_file s0 fp) as [s2 r2] eqn:E. apply parse_file_fmap in E.
        destruct r2 as [id items| |].
        -- destruct (inner_skip (ffacts id)); [|destruct (is_nil outside)]; inversion H; subst; congruence.
        -- inversion H; subst; congruence.
        -- destruct (is_nil outside); inversion H; subst; congruence.
    + destruct (is_nil outside); inversion H; subst; exact E0.
Qed.

(* a state predicate that only depends on the file map and survives or_insert survives the whole visit *)
Section Preserve.
  Variable I : list (path * minfo) -> Prop.
  Hypothesis Hins : forall fm p m, I fm -> I (fm_or_insert fm p m).

  Lemma insert_ext_pres : forall cur s e, I (fmap s) -> I (fmap (insert_ext fixed cur s e)).
  Proof.
    intros cur s e H. unfold insert_ext. destruct (negb fixed || span_in_file cur e); [|exact H].
    cbn [fmap]. apply Hins. exact H.
  Qed.

  Lemma insert_exts_pres : forall cur es s, I (fmap s) -> I (fmap (fold_left (insert_ext fixed cur) es s)).
  Proof.
    intros cur es. induction es as [|e es IH]; intros s H; cbn [fold_left]; [exact H|].
    apply IH. apply insert_ext_pres. exact H.
  Qed.

  Lemma insert_sub_mod_pres : forall cur s k, I (fmap s) -> I (fmap (insert_sub_mod fixed cur s k)).
  Proof.
    intros cur s k H. destruct k as [e|es|]; cbn [insert_sub_mod].
    - apply insert_ext_pres. exact H.
    - apply insert_exts_pres. exact H.
    - exact H.
  Qed.

  Lemma visit_item_pres : forall fuel it cur d s s',
    I (fmap s) -> visit_item fuel it cur d s = Ok s' -> I (fmap s').
  Proof.
    induction fuel as [|f IHf].
    - intros it. induction it as [n a|n a b IHb|b IHb|b IHb|] using decl_ind'; intros cur d s s' Hs H;
        rewrite visit_item_eq in H.
      + destruct (skip a); [inversion H; subst; exact Hs|].
        destruct (find_external_module s d n a) as [s1 r] eqn:E. apply fem_fmap in E.
        destruct r as [[k|]|e]; [|inversion H; subst; rewrite E; exact Hs|discriminate].
        assert (H2 : I (fmap (insert_sub_mod fixed cur s1 k))) by (apply insert_sub_mod_pres; rewrite E; exact Hs).
        cbn zeta in H. destruct k as [e|es|].
        * unfold visit_ext, visit_src in H. destruct (snd e); [discriminate|inversion H; subst; exact H2].
        * revert H. apply fold_res_inv with (I := fun t => I (fmap t)); [|exact H2].
          intros e t t' _ Ht He. unfold visit_ext, visit_src in He.
          destruct (snd e); [discriminate|inversion He; subst; exact Ht].
        * inversion H; subst; exact H2.
      + destruct (skip a); [inversion H; subst; exact Hs|].
        revert H. apply fold_res_inv with (I := fun t => I (fmap t)); [|exact Hs].
        intros m t t' Hm Ht He. rewrite Forall_forall in IHb. eapply IHb; eassumption.
      + revert H. apply fold_res_inv with (I := fun t => I (fmap t)); [|exact Hs].
        intros m t t' Hm Ht He. rewrite Forall_forall in IHb.
        destruct m; try (inversion He; subst; exact Ht); eapply IHb; eassumption.
      + revert H. apply fold_res_inv with (I := fun t => I (fmap t)); [|exact Hs].
        intros m t t' Hm Ht He. rewrite Forall_forall in IHb.
        destruct m; try (inversion He; subst; exact Ht); eapply IHb; eassumption.
      + inversion H; subst; exact Hs.
    - intros it. induction it as [n a|n a b IHb|b IHb|b IHb|] using decl_ind'; intros cur d s s' Hs H;
        rewrite visit_item_eq in H.
      + destruct (skip a); [inversion H; subst; exact Hs|].
        destruct (find_external_module s d n a) as [s1 r] eqn:E. apply fem_fmap in E.
        destruct r as [[k|]|e]; [|inversion H; subst; rewrite E; exact Hs|discriminate].
        assert (H2 : I (fmap (insert_sub_mod fixed cur s1 k))) by (apply insert_sub_mod_pres; rewrite E; exact Hs).
        assert (Hext : forall e t t', I (fmap t) -> visit_ext (S f) t e = Ok t' -> I (fmap t')).
        { intros e t t' Ht He. unfold visit_ext, visit_src in He.
          destruct (snd e) as [id items|]; [|inversion He; subst; exact Ht].
          unfold Model.visit_items in He. revert He.
          apply fold_res_inv with (I := fun t => I (fmap t)); [|exact Ht].
          intros m u u' _ Hu Hm. eapply IHf; eassumption. }
        cbn zeta in H. destruct k as [e|es|].
        * eapply Hext; eassumption.
        * revert H. apply fold_res_inv with (I := fun t => I (fmap t)); [|exact H2].
          intros e t t' _ Ht He. eapply Hext; eassumption.
        * inversion H; subst; exact H2.
      + destruct (skip a); [inversion H; subst; exact Hs|].
        revert H. apply fold_res_inv with (I := fun t => I (fmap t)); [|exact Hs].
        intros m t t' Hm Ht He. rewrite Forall_forall in IHb. eapply IHb; eassumption.
      + revert H. apply fold_res_inv with (I := fun t => I (fmap t)); [|exact Hs].
        intros m t t' Hm Ht He. rewrite Forall_forall in IHb.
        destruct m; try (inversion He; subst; exact Ht); eapply IHb; eassumption.
      + revert H. apply fold_res_inv with (I := fun t => I (fmap t)); [|exact Hs].
        intros m t t' Hm Ht He. rewrite Forall_forall in IHb.
        destruct m; try (inversion He; subst; exact Ht); eapply IHb; eassumption.
      + inversion H; subst; exact Hs.
  Qed.

  Lemma visit_items_pres : forall fuel cur d s items s',
    I (fmap s) -> visit_items fuel cur d s items = Ok s' -> I (fmap s').
  Proof.
    intros fuel cur d s items s' Hs H. unfold Model.visit_items in H. revert H.
    apply fold_res_inv with (I := fun t => I (fmap t)); [|exact Hs].
    intros m t t' _ Ht Hm. eapply visit_item_pres; eassumption.
  Qed.
End Preserve.


(* ================================================================================================ *)
(* D. basic facts on parse_file, default_submod_path *)

Notation is_file := (is_file lookup).
Notation exists_ := (exists_ lookup).

Lemma add_parsed_new : forall s p, ~ In p (parsed s) -> add_parsed s p = mkSt (p :: parsed s) (fmap s) (sticky s).
Proof. intros s p H. unfold add_parsed. apply mem_false in H. rewrite H. reflexivity. Qed.

Lemma add_parsed_old : forall s p, In p (parsed s) -> add_parsed s p = s.
Proof. intros s p H. unfold add_parsed. apply mem_In in H. rewrite H. reflexivity. Qed.

Lemma parse_file_spec : forall s p s1 r, parse_file s p = (s1, r) ->
  match r with
  | PMod id items => lookup p = Some (File id) /\ ast id = Some items /\ sticky s = false /\ s1 = add_parsed s p
  | PErrParse => lookup p = Some Dir \/ exists id, lookup p = Some (File id) /\ (ast id = None \/ sticky s = true)
  | PErrOther => lookup p = None
  end.
Proof.
  intros s p s1 r H. unfold Model.parse_file in H. destruct (lookup p) as [[id|]|].
  - destruct (ast id) as [items|] eqn:Ea.
    + destruct (sticky s) eqn:Es; inversion H; subst.
      * right. exists id. split; [reflexivity | right; reflexivity].
      * repeat split; try reflexivity; assumption.
    + inversion H; subst. right. exists id. split; [reflexivity | left; exact Ea].
  - inversion H; subst. left. reflexivity.
  - inversion H; subst. reflexivity.
Qed.

Lemma removelast_snoc : forall (A : Type) (l : list A) (x : A), removelast (l ++ [x]) = l.
Proof. intros A l x. apply removelast_last. Qed.

Lemma parent_snoc : forall (p : path) (x : comp), parent (p ++ [x]) = p.
Proof. intros p x. apply removelast_last. Qed.

Lemma parent_snoc2 : forall (p : path) (x y : comp), parent (p ++ [x; y]) = p ++ [x].
Proof. intros p x y. change [x; y] with ([x] ++ [y]). rewrite app_assoc. apply removelast_last. Qed.

Definition corr (d : dctx) (c : ctx) : Prop := dpath d = cdir c /\ relative_of (down d) = crel c.

Lemma pick2_file : forall dir n p k, pick2 lookup dir n = Ok (p, k) -> is_file p = true.
Proof.
  intros dir n p k H. unfold pick2 in H.
  destruct (is_file (dir ++ [CRs n])) eqn:E1; destruct (is_file (dir ++ [CDir n; CModRs])) eqn:E2;
    inversion H; subst; assumption.
Qed.

Lemma lang_default_file : forall fb c n p k, lang_default lookup fb c n = Ok (p, k) -> is_file p = true.
Proof.
  intros fb c n p k H. unfold lang_default in H.
  destruct (pick2 lookup (moddir c) n) as [[p1 k1]|e] eqn:E1.
  - inversion H; subst. eapply pick2_file; exact E1.
  - destruct e; try discriminate. destruct (crel c); [|discriminate]. destruct fb; [|discriminate].
    destruct (pick2 lookup (cdir c) n) as [[p2 k2]|e2] eqn:E2; [|discriminate].
    inversion H; subst. eapply pick2_file; exact E2.
Qed.

Lemma rustc_default_pick2 : forall n rel dir,
  match pick2 lookup (dir ++ match rel with Some r => [CDir r] | None => [] end) n with
  | Ok (p, k) => exists o, rustc_default_submod_path lookup n rel dir = Ok (p, o) /\ corr (mkD (parent p) o) k
  | Err e => rustc_default_submod_path lookup n rel dir = Err e
  end.
Proof.
  intros n rel dir. unfold pick2, rustc_default_submod_path.
  set (pre := dir ++ match rel with Some r => [CDir r] | None => [] end).
  destruct (is_file (pre ++ [CRs n])); destruct (is_file (pre ++ [CDir n; CModRs])); try reflexivity.
  - exists (Owned (Some n)). split; [reflexivity|]. split; cbn; [apply parent_snoc | reflexivity].
  - exists (Owned None). split; [reflexivity|]. split; cbn; [apply parent_snoc2 | reflexivity].
Qed.

Lemma default_corr : forall d c n, corr d c ->
  match lang_default lookup true c n with
  | Ok (p, k) => exists o, default_submod_path lookup n (relative_of (down d)) (dpath d) = Ok (p, o)
                           /\ corr (mkD (parent p) o) k
  | Err e => default_submod_path lookup n (relative_of (down d)) (dpath d) = Err e
  end.
Proof.
  intros d c n [Hd Hr]. unfold lang_default, default_submod_path, moddir. rewrite Hd, Hr.
  pose proof (rustc_default_pick2 n (crel c) (cdir c)) as H1.
  destruct (pick2 lookup (cdir c ++ match crel c with Some r => [CDir r] | None => [] end) n) as [[p k]|e].
  - destruct H1 as (o & E & Hc). rewrite E. exists o. split; [reflexivity | exact Hc].
  - rewrite H1. destruct e; try reflexivity. destruct (crel c) as [r|]; [|reflexivity].
    pose proof (rustc_default_pick2 n None (cdir c)) as H2. cbn [app] in H2. rewrite app_nil_r in H2.
    destruct (pick2 lookup (cdir c) n) as [[p k]|e].
    + destruct H2 as (o & E & Hc). rewrite E. exists o. split; [reflexivity | exact Hc].
    + rewrite H2. reflexivity.
Qed.

Definition exts_of (ok : option submod) : list ext :=
  match ok with Some (External e) => [e] | Some (MultiExternal es) => es | _ => [] end.

Lemma visit_decl_uniform : forall fuel n a cur d s,
  visit_item fuel (ModDecl n a) cur d s =
  if skip a then Ok s
  else match find_external_module s d n a with
       | (_, Err e) => Err e
       | (s1, Ok ok) => fold_res (visit_ext fuel) (exts_of ok) (fold_left (insert_ext fixed cur) (exts_of ok) s1)
       end.
Proof.
  intros fuel n a cur d s. rewrite visit_item_eq. destruct (skip a); [reflexivity|].
  destruct (find_external_module s d n a) as [s1 [[[e|es|]|]|e]]; cbn [exts_of fold_left fold_res insert_sub_mod];
    try reflexivity.
  destruct (visit_ext fuel (insert_ext fixed cur s1 e) e); reflexivity.
Qed.


(* ================================================================================================ *)
(* E. the visit computes the closure: invariants *)

Section Main.
Variable root : path.
Hypothesis HT : Tame lookup ast ffacts root.

Notation V := (Visit lookup ast ffacts true true root).
Notation targets := (decl_targets lookup true).
Notation dfiles := (decl_files lookup true true).
Notation lstep := (local_step true).
Notation RU := (ReachG lookup ast ffacts true true root).

Inductive Within : ctx -> list decl -> ctx -> list decl -> Prop :=
| W_refl : forall c ds, Within c ds c ds
| W_step : forall c ds d c1 ds1 c2 ds2,
    In d ds -> In (c1, ds1) (lstep c d) -> Within c1 ds1 c2 ds2 -> Within c ds c2 ds2.

Lemma Within_snoc : forall c ds c1 ds1 d c2 ds2,
  Within c ds c1 ds1 -> In d ds1 -> In (c2, ds2) (lstep c1 d) -> Within c ds c2 ds2.
Proof.
  intros c ds c1 ds1 d c2 ds2 H. induction H as [c ds|c ds d0 ca dsa cb dsb Hd0 Hs Hw IH]; intros Hd Hst.
  - eapply W_step; [exact Hd | exact Hst | apply W_refl].
  - eapply W_step; [exact Hd0 | exact Hs | apply IH; assumption].
Qed.

Definition NoErr (c : ctx) (d : decl) : Prop :=
  match d with
  | ModDecl n a => skip a = false -> forall e, ~ DeclErr lookup ast c n a e
  | _ => True
  end.

Definition CoveredItems (P : list path) (c : ctx) (ds : list decl) : Prop :=
  forall c' ds' d, Within c ds c' ds' -> In d ds' -> incl (dfiles c' d) P /\ NoErr c' d.
Definition CoveredDecl (P : list path) (c : ctx) (d : decl) : Prop :=
  incl (dfiles c d) P /\ NoErr c d /\ forall c1 ds1, In (c1, ds1) (lstep c d) -> CoveredItems P c1 ds1.

Lemma covered_items_intro : forall P c ds, (forall d, In d ds -> CoveredDecl P c d) -> CoveredItems P c ds.
Proof.
  intros P c ds H c' ds' d Hw Hd. inversion Hw as [|? ? d0 c1 ds1 ? ? Hd0 Hs Hw']; subst.
  - destruct (H d Hd) as (H1 & H2 & _). split; assumption.
  - destruct (H d0 Hd0) as (_ & _ & H3). eapply H3; eassumption.
Qed.

Lemma covered_items_mono : forall P P' c ds, incl P P' -> CoveredItems P c ds -> CoveredItems P' c ds.
Proof.
  intros P P' c ds Hi H c' ds' d Hw Hd. destruct (H c' ds' d Hw Hd) as [H1 H2]. split; [|exact H2].
  eapply incl_tran; eassumption.
Qed.

Lemma covered_decl_mono : forall P P' c d, incl P P' -> CoveredDecl P c d -> CoveredDecl P' c d.
Proof.
  intros P P' c d Hi (H1 & H2 & H3). split; [eapply incl_tran; eassumption|]. split; [exact H2|].
  intros c1 ds1 Hs. eapply covered_items_mono; [exact Hi | apply H3; exact Hs].
Qed.

Definition Entry (p : path) (k : ctx) : Prop :=
  (p = root /\ k = root_ctx root) \/
  exists c ds n a, V c ds /\ In (ModDecl n a) ds /\ skip a = false /\ In (p, k) (targets c n a).

Definition closedP (P : list path) (p : path) : Prop :=
  forall k id items, Entry p k -> lookup p = Some (File id) -> (p = root \/ inner_skip (ffacts id) = false) ->
                     ast id = Some items -> CoveredItems P k items.

Lemma closedP_mono : forall P P' p, incl P P' -> closedP P p -> closedP P' p.
Proof.
  intros P P' p Hi H k id items He Hl Hs Ha. eapply covered_items_mono; [exact Hi|]. eapply H; eassumption.
Qed.

Definition Good (P : list path) : Prop :=
  forall p, In p P -> exists id items, lookup p = Some (File id) /\ ast id = Some items.

Definition FmI (P : list path) (fm : list (path * minfo)) : Prop :=
  (forall p m, In (p, m) fm ->
     In p P /\ (p = root \/ exists id, m = MFile id /\ lookup p = Some (File id) /\ inner_skip (ffacts id) = false))
  /\ (forall p id, In p P -> p <> root -> lookup p = Some (File id) -> inner_skip (ffacts id) = false ->
                    In p (keys fm)).

Record Inv (s : st) (A : list path) : Prop := mkInv {
  inv_sticky : sticky s = false;
  inv_root : In root (parsed s);
  inv_good : Good (parsed s);
  inv_reach : forall p, In p (parsed s) -> RU p;
  inv_fm : FmI (parsed s) (fmap s);
  inv_closed : forall p, In p (parsed s) -> ~ In p A -> closedP (parsed s) p
}.

Definition Bad (e : err) : Prop := e = OutOfFuel \/ ErrWitness lookup ast ffacts root e.

(* what find_external_module hands over, threaded through the set of loaded files *)
Inductive ExtsOK (T : list (path * ctx)) : list path -> list ext -> list path -> Prop :=
| EO_nil : forall P, ExtsOK T P [] P
| EO_file : forall P q o id items es P' k,
    ~ In q P -> In (q, k) T -> corr (mkD (parent q) o) k -> lookup q = Some (File id) -> ast id = Some items ->
    inner_skip (ffacts id) = false -> ExtsOK T (q :: P) es P' -> ExtsOK T P ((q, o, SFile id items) :: es) P'
| EO_clone : forall P q o es P',
    In q P -> (q = root \/ exists id, lookup q = Some (File id) /\ inner_skip (ffacts id) = false) ->
    ExtsOK T P es P' -> ExtsOK T P ((q, o, SClone) :: es) P'.

Lemma ExtsOK_app : forall T P0 es1 P1 es2 P2,
  ExtsOK T P0 es1 P1 -> ExtsOK T P1 es2 P2 -> ExtsOK T P0 (es1 ++ es2) P2.
Proof.
  intros T P0 es1 P1 es2 P2 H. induction H as [P|P q o id items es P' k H1 H2 H3 H4 H5 H6 H7 IH|P q o es P' H1 H2 H3 IH];
    intros H'; cbn [app].
  - exact H'.
  - eapply EO_file; try eassumption. apply IH. exact H'.
  - eapply EO_clone; try eassumption. apply IH. exact H'.
Qed.

Lemma ExtsOK_incl : forall T P0 es P1, ExtsOK T P0 es P1 -> incl P0 P1.
Proof.
  intros T P0 es P1 H. induction H as [P|P q o id items es P' k H1 H2 H3 H4 H5 H6 H7 IH|P q o es P' H1 H2 H3 IH].
  - apply incl_refl.
  - intros x Hx. apply IH. right. exact Hx.
  - exact IH.
Qed.

Lemma ExtsOK_nil_inv : forall T P0 P1, ExtsOK T P0 [] P1 -> P1 = P0.
Proof. intros T P0 P1 H. inversion H; reflexivity. Qed.

Definition pend (es : list ext) : list path :=
  flat_map (fun e : ext => match snd e with SFile _ _ => [fst (fst e)] | SClone => [] end) es.

Lemma ExtsOK_new : forall T P0 es P1, ExtsOK T P0 es P1 -> forall q, In q P1 -> In q P0 \/ In q (pend es).
Proof.
  intros T P0 es P1 H. induction H as [P|P q o id items es P' k H1 H2 H3 H4 H5 H6 H7 IH|P q o es P' H1 H2 H3 IH];
    intros x Hx.
  - left. exact Hx.
  - destruct (IH x Hx) as [[E|Hp]|Hp].
    + right. cbn. left. exact E.
    + left. exact Hp.
    + right. cbn. right. exact Hp.
  - destruct (IH x Hx) as [Hp|Hp]; [left; exact Hp | right; exact Hp].
Qed.

Lemma ExtsOK_good : forall T P0 es P1, ExtsOK T P0 es P1 -> Good P0 -> Good P1.
Proof.
  intros T P0 es P1 H. induction H as [P|P q o id items es P' k H1 H2 H3 H4 H5 H6 H7 IH|P q o es P' H1 H2 H3 IH];
    intros HG.
  - exact HG.
  - apply IH. intros x [E|Hx]; [subst; exists id, items; split; assumption | apply HG; exact Hx].
  - apply IH. exact HG.
Qed.

(* facts about the entries that are visited *)
Definition ExtFacts (T : list (path * ctx)) (P0 : list path) (e : ext) : Prop :=
  match snd e with
  | SFile id items =>
      exists k, In (fst (fst e), k) T /\ corr (mkD (parent (fst (fst e))) (snd (fst e))) k /\
                lookup (fst (fst e)) = Some (File id) /\ ast id = Some items /\
                inner_skip (ffacts id) = false /\ ~ In (fst (fst e)) P0
  | SClone => True
  end.

Lemma ExtsOK_facts : forall T P0 es P1, ExtsOK T P0 es P1 ->
  forall Q, incl Q P0 -> Forall (ExtFacts T Q) es.
Proof.
  intros T P0 es P1 H. induction H as [P|P q o id items es P' k H1 H2 H3 H4 H5 H6 H7 IH|P q o es P' H1 H2 H3 IH];
    intros Q HQ.
  - constructor.
  - constructor.
    + unfold ExtFacts. cbn [fst snd]. exists k. split; [exact H2|]. split; [exact H3|]. split; [exact H4|].
      split; [exact H5|]. split; [exact H6|]. intros HI. apply H1, HQ, HI.
    + apply IH. intros x Hx. right. apply HQ, Hx.
  - constructor; [exact I | apply IH; exact HQ].
Qed.

Lemma ExtsOK_targets : forall T P0 es P1, ExtsOK T P0 es P1 ->
  forall q, In q P1 -> In q P0 \/ exists k id, In (q, k) T /\ lookup q = Some (File id).
Proof.
  intros T P0 es P1 H. induction H as [P|P q o id items es P' k H1 H2 H3 H4 H5 H6 H7 IH|P q o es P' H1 H2 H3 IH];
    intros x Hx.
  - left. exact Hx.
  - destruct (IH x Hx) as [[E|Hp]|Hp].
    + subst. right. exists k, id. split; assumption.
    + left. exact Hp.
    + right. exact Hp.
  - apply IH. exact Hx.
Qed.

(* insertion of the entries in the file map *)
Definition ins_fm (cur : curfile) (fm : list (path * minfo)) (es : list ext) : list (path * minfo) :=
  fold_left (fun fm e => if negb fixed || span_in_file cur e
                         then fm_or_insert fm (fst (fst e)) (minfo_of cur (snd e)) else fm) es fm.

Lemma insert_exts_state : forall cur es s,
  fold_left (insert_ext fixed cur) es s = mkSt (parsed s) (ins_fm cur (fmap s) es) (sticky s).
Proof.
  intros cur es. induction es as [|e es IH]; intros s; cbn [fold_left ins_fm].
  - destruct s; reflexivity.
  - rewrite IH. unfold insert_ext. destruct (negb fixed || span_in_file cur e); cbn [parsed fmap sticky]; reflexivity.
Qed.

Lemma FmI_insert : forall T P0 es P1, ExtsOK T P0 es P1 ->
  forall cur fm, FmI P0 fm -> FmI P1 (ins_fm cur fm es).
Proof.
  intros T P0 es P1 H. induction H as [P|P q o id items es P' k H1 H2 H3 H4 H5 H6 H7 IH|P q o es P' H1 H2 H3 IH];
    intros cur fm [F1 F2]; cbn [ins_fm fold_left fst snd minfo_of span_in_file].
  - split; assumption.
  - rewrite orb_true_r. apply IH. split.
    + intros p m Hin. apply fm_or_insert_In in Hin as [Hin|(-> & -> & _)].
      * destruct (F1 p m Hin) as [Ha Hb]. split; [right; exact Ha | exact Hb].
      * split; [left; reflexivity|]. right. exists id. split; [reflexivity|]. split; assumption.
    + intros p id' [E|Hp] Hr Hl Hs; apply fm_or_insert_keys.
      * right. symmetry. exact E.
      * left. eapply F2; eassumption.
  - apply IH. destruct (negb fixed || path_eqb (snd cur) q); [|split; assumption]. split.
    + intros p m Hin. apply fm_or_insert_In in Hin as [Hin|(-> & -> & Hn)]; [apply F1; exact Hin|].
      split; [exact H1|]. destruct H2 as [E|(id & Hl & Hs)]; [left; exact E|].
      destruct (path_eq_dec q root) as [E|Hr]; [left; exact E|]. exfalso. apply Hn. eapply F2; eassumption.
    + intros p id' Hp Hr Hl Hs. apply fm_or_insert_keys. left. eapply F2; eassumption.
Qed.


(* ---- find_external_module under the Tame hypotheses ---- *)
Section OneDecl.
Variables (c : ctx) (ds : list decl) (n : N) (a : attrs).
Hypothesis HV : V c ds.
Hypothesis Hin : In (ModDecl n a) ds.
Hypothesis Hsk : skip a = false.

Lemma outside_one_spec : forall s q s1 es,
  path_attr a = None -> In q (cfg_attr_paths a) -> sticky s = false ->
  outside_one lookup ast ffacts s (cdir c) q = (s1, es) ->
  sticky s1 = false /\ ExtsOK (targets c n a) (parsed s) es (parsed s1) /\
  (exists_ (cdir c ++ q) = true -> In (cdir c ++ q) (parsed s1) /\ es <> []) /\
  (exists_ (cdir c ++ q) = false -> es = []).
Proof.
  intros s q s1 es Hpa Hq Hst H. unfold outside_one in H.
  destruct (exists_ (cdir c ++ q)) eqn:Ex; cbn [negb] in H.
  2:{ inversion H; subst. split; [exact Hst|]. split; [apply EO_nil|]. split; [discriminate | reflexivity]. }
  destruct (tame_cfg_attr _ _ _ _ HT c ds n a q HV Hin Hsk Hpa Hq Ex) as [(id & items & Hl & Ha & Hs) _].
  assert (HT' : In (cdir c ++ q, mkC (parent (cdir c ++ q)) None) (targets c n a)).
  { unfold decl_targets. rewrite Hpa. apply in_app_iff. left.
    apply in_map_iff. exists q. split; [reflexivity | exact Hq]. }
  destruct (is_parsed s (cdir c ++ q)) eqn:Ep.
  - inversion H; subst. apply mem_In in Ep. split; [exact Hst|]. split.
    + apply EO_clone; [exact Ep | right; exists id; split; assumption | apply EO_nil].
    + split; [intros _; split; [exact Ep | discriminate] | discriminate].
  - apply mem_false in Ep. destruct (parse_file s (cdir c ++ q)) as [s2 r] eqn:E.
    apply parse_file_spec in E. destruct r as [id' items'| |].
    + destruct E as (Hl' & Ha' & _ & ->). rewrite Hl in Hl'. inversion Hl'; subst id'.
      rewrite Ha in Ha'. inversion Ha'; subst items'. rewrite Hs in H. inversion H; subst.
      rewrite add_parsed_new by exact Ep. cbn [sticky parsed]. split; [exact Hst|]. split.
      * eapply EO_file; try eassumption; [split; reflexivity | apply EO_nil].
      * split; [intros _; split; [left; reflexivity | discriminate] | discriminate].
    + exfalso. destruct E as [E|(id' & E & [E'|E'])]; congruence.
    + congruence.
Qed.

Lemma outside_spec : forall qs s s1 es,
  path_attr a = None -> incl qs (cfg_attr_paths a) -> sticky s = false ->
  find_mods_outside_of_ast lookup ast ffacts s (cdir c) qs = (s1, es) ->
  sticky s1 = false /\ ExtsOK (targets c n a) (parsed s) es (parsed s1) /\
  (forall q, In q qs -> exists_ (cdir c ++ q) = true -> In (cdir c ++ q) (parsed s1)) /\
  ((forall q, In q qs -> exists_ (cdir c ++ q) = false) <-> es = []).
Proof.
  induction qs as [|q qs IH]; intros s s1 es Hpa Hqs Hst H; cbn [find_mods_outside_of_ast] in H.
  - inversion H; subst. split; [exact Hst|]. split; [apply EO_nil|]. split; [intros q []|].
    split; [reflexivity | intros _ q []].
  - destruct (outside_one lookup ast ffacts s (cdir c) q) as [s2 here] eqn:E1.
    destruct (find_mods_outside_of_ast lookup ast ffacts s2 (cdir c) qs) as [s3 rest] eqn:E2.
    inversion H; subst. clear H.
    apply outside_one_spec in E1 as (Hst2 & HO1 & Hex1 & Hnex1); [|exact Hpa|apply Hqs; left; reflexivity|exact Hst].
    apply IH in E2 as (Hst3 & HO2 & Hex2 & Hemp2); [|exact Hpa|intros x Hx; apply Hqs; right; exact Hx|exact Hst2].
    split; [exact Hst3|]. split; [eapply ExtsOK_app; eassumption|]. split.
    + intros x [->|Hx] Hex.
      * eapply ExtsOK_incl; [exact HO2|]. apply Hex1. exact Hex.
      * apply Hex2; assumption.
    + split.
      * intros Hall. rewrite Hnex1 by (apply Hall; left; reflexivity). cbn [app].
        apply Hemp2. intros x Hx. apply Hall. right. exact Hx.
      * intros Happ. apply app_eq_nil in Happ as [Eh Er]. intros x [->|Hx].
        -- destruct (exists_ (cdir c ++ x)) eqn:Ex; [|reflexivity]. destruct (Hex1 eq_refl) as [_ Hne]. contradiction.
        -- apply Hemp2; assumption.
Qed.

Definition SkipTarget (q : path) : Prop :=
  exists k id items, In (q, k) (targets c n a) /\ lookup q = Some (File id) /\ ast id = Some items
                     /\ inner_skip (ffacts id) = true.

Lemma file_err_good : forall p id items e, lookup p = Some (File id) -> ast id = Some items ->
  ~ file_err lookup ast p e.
Proof. intros p id items e Hl Ha H. unfold file_err in H. rewrite Hl in H. destruct H as [H _]. congruence. Qed.

Lemma fem_spec : forall s d A s1 r,
  corr d c -> Inv s A -> find_external_module s d n a = (s1, r) ->
  match r with
  | Err e => DeclErr lookup ast c n a e
  | Ok ok =>
      sticky s1 = false /\ fmap s1 = fmap s /\ (forall e, ~ DeclErr lookup ast c n a e)
      /\ incl (dfiles c (ModDecl n a)) (parsed s1)
      /\ exists sk, (forall q, In q sk -> ~ In q (parsed s) /\ SkipTarget q)
                    /\ ExtsOK (targets c n a) (sk ++ parsed s) (exts_of ok) (parsed s1)
  end.
Proof.
  intros s d A s1 r [Hd Hr] HI H. pose proof (fem_fmap _ _ _ _ _ _ H) as Hfm.
  unfold Model.find_external_module in H. rewrite Hd, Hr in H.
  unfold decl_files. cbn [andb]. rewrite Hsk. cbn [andb].
  destruct (path_attr a) as [q|] eqn:Hpa.
  - (* #[path] *)
    set (p := cdir c ++ q) in *.
    assert (HTg : targets c n a = [(p, mkC (parent p) None)]) by (unfold decl_targets; rewrite Hpa; reflexivity).
    assert (HDE : forall e, DeclErr lookup ast c n a e = file_err lookup ast p e)
      by (intros e; unfold DeclErr; rewrite Hpa; reflexivity).
    destruct (is_parsed s p) eqn:Ep.
    + inversion H; subst. apply mem_In in Ep. destruct (inv_good _ _ HI p Ep) as (id & items & Hl & Ha).
      split; [apply (inv_sticky _ _ HI)|]. split; [reflexivity|]. split.
      * intros e. rewrite HDE. eapply file_err_good; eassumption.
      * split.
        -- rewrite HTg. cbn [map fst filter]. destruct (is_file p); intros x Hx; [|destruct Hx].
           destruct Hx as [<-|[]]. exact Ep.
        -- exists []. split; [intros x []|]. cbn [app exts_of]. apply EO_nil.
    + apply mem_false in Ep. destruct (parse_file s p) as [s2 r2] eqn:E. apply parse_file_spec in E.
      destruct r2 as [id items| |].
      * destruct E as (Hl & Ha & _ & ->). rewrite add_parsed_new in H by exact Ep.
        assert (Hfiles : incl (filter is_file (map fst (targets c n a))) (p :: parsed s)).
        { rewrite HTg. cbn [map fst filter]. destruct (is_file p); intros x Hx; [|destruct Hx].
          destruct Hx as [<-|[]]. left. reflexivity. }
        assert (HNE : forall e, ~ DeclErr lookup ast c n a e)
          by (intros e; rewrite HDE; eapply file_err_good; eassumption).
        destruct (inner_skip (ffacts id)) eqn:Es; inversion H; subst; cbn [sticky fmap parsed exts_of].
        -- split; [apply (inv_sticky _ _ HI)|]. split; [reflexivity|]. split; [exact HNE|]. split; [exact Hfiles|].
           exists [p]. split.
           ++ intros x [<-|[]]. split; [exact Ep|]. exists (mkC (parent p) None), id, items.
              rewrite HTg. split; [left; reflexivity|]. repeat split; assumption.
           ++ apply EO_nil.
        -- split; [apply (inv_sticky _ _ HI)|]. split; [reflexivity|]. split; [exact HNE|]. split; [exact Hfiles|].
           exists []. split; [intros x []|]. cbn [app]. eapply EO_file; try eassumption.
           ++ rewrite HTg. left. reflexivity.
           ++ split; reflexivity.
           ++ apply EO_nil.
      * inversion H; subst. rewrite HDE. unfold file_err.
        destruct E as [E|(id & E & [E'|E'])].
        -- rewrite E. reflexivity.
        -- rewrite E. split; [exact E' | reflexivity].
        -- rewrite (inv_sticky _ _ HI) in E'. discriminate.
      * inversion H; subst. rewrite HDE. unfold file_err. rewrite E. reflexivity.
  - (* default path and cfg_attr paths *)
    destruct (find_mods_outside_of_ast lookup ast ffacts s (cdir c) (cfg_attr_paths a)) as [s0 outside] eqn:E0.
    pose proof (outside_fmap _ _ _ _ _ E0) as Hfm0.
    apply outside_spec in E0 as (Hst0 & HO & Hex & Hemp); [|exact Hpa|apply incl_refl|apply (inv_sticky _ _ HI)].
    assert (HG0 : Good (parsed s0)) by (eapply ExtsOK_good; [exact HO | apply (inv_good _ _ HI)]).
    assert (HTg : targets c n a = map (attr_target c) (cfg_attr_paths a)
                   ++ match lang_default lookup true c n with Ok x => [x] | Err _ => [] end)
      by (unfold decl_targets; rewrite Hpa; reflexivity).
    assert (Hcfg : forall P, incl (parsed s0) P ->
                   incl (filter is_file (map fst (map (attr_target c) (cfg_attr_paths a)))) P).
    { intros P HP x Hx. apply filter_In in Hx as [Hx Hf]. apply in_map_iff in Hx as ([x' k'] & <- & Hx).
      apply in_map_iff in Hx as (q & Eq & Hq). unfold attr_target in Eq. inversion Eq; subst x' k'. cbn [fst] in *.
      apply HP, Hex; [exact Hq|]. unfold Model.exists_. unfold Model.is_file in Hf.
      destruct (lookup (cdir c ++ q)) as [[?|]|]; [reflexivity|discriminate|discriminate]. }
    assert (Hnoex : outside = [] -> forall x, In x (filter is_file (map fst (map (attr_target c) (cfg_attr_paths a)))) -> False).
    { intros Eo x Hx. pose proof (proj2 Hemp Eo) as Hall. clear Eo.
      apply filter_In in Hx as [Hx Hf]. apply in_map_iff in Hx as ([x' k'] & <- & Hx).
      apply in_map_iff in Hx as (q & Eq & Hq). unfold attr_target in Eq. inversion Eq; subst x' k'. cbn [fst] in *.
      pose proof (Hall q Hq) as Eo. unfold Model.exists_ in Eo. unfold Model.is_file in Hf.
      destruct (lookup (cdir c ++ q)) as [[?|]|]; discriminate. }
    assert (Hsome : outside <> [] -> exists q, In q (cfg_attr_paths a) /\ exists_ (cdir c ++ q) = true).
    { intros Hne. clear - Hne Hemp. destruct Hemp as [Hemp _].
      induction (cfg_attr_paths a) as [|q qs IHq].
      - exfalso. apply Hne, Hemp. intros q [].
      - destruct (exists_ (cdir c ++ q)) eqn:Ex; [exists q; split; [left; reflexivity | exact Ex]|].
        destruct IHq as (q' & Hq' & Ex').
        + intros Hall. apply Hemp. intros x [<-|Hx]; [exact Ex | apply Hall; exact Hx].
        + exists q'. split; [right; exact Hq' | exact Ex']. }
    pose proof (default_corr (mkD (cdir c) (down d)) c n) as Hdc. cbn [dpath down] in Hdc.
    assert (Hcc : corr (mkD (cdir c) (down d)) c) by (split; [reflexivity | exact Hr]).
    specialize (Hdc Hcc). rewrite Hr in Hdc.
    unfold DeclErr. rewrite Hpa.
    destruct (lang_default lookup true c n) as [[fp k]|e0] eqn:Eld.
    + destruct Hdc as (o & Edef & Hck). rewrite Edef in H.
      pose proof (lang_default_file _ _ _ _ _ Eld) as Hff.
      assert (Hlf : exists id, lookup fp = Some (File id)).
      { unfold Model.is_file in Hff. destruct (lookup fp) as [[id|]|]; try discriminate. exists id. reflexivity. }
      destruct Hlf as (id & Hl).
      assert (HTfp : In (fp, k) (targets c n a)) by (rewrite HTg; apply in_app_iff; right; left; reflexivity).
      assert (Hfiles : forall P, incl (parsed s0) P -> In fp P ->
                       incl (filter is_file (map fst (targets c n a))) P).
      { intros P HP Hfp. rewrite HTg, map_app, filter_app. apply incl_app; [apply Hcfg; exact HP|].
        cbn [map fst filter]. rewrite Hff. intros x [<-|[]]. exact Hfp. }
      assert (Hnsk : outside <> [] -> inner_skip (ffacts id) = false).
      { intros Hne. destruct (Hsome Hne) as (q & Hq & Ex).
        destruct (tame_cfg_attr _ _ _ _ HT c ds n a q HV Hin Hsk Hpa Hq Ex) as [_ H2]. eapply H2; eassumption. }
      cbv zeta in H.
      set (clone := if negb (existsb (fun e : ext => path_eqb (fst (fst e)) fp) outside)
                    then [(fp, o, SClone)] else []) in *.
      destruct (is_parsed s0 fp) eqn:Ep.
      * apply mem_In in Ep. destruct (HG0 fp Ep) as (id' & items & Hl' & Ha).
        assert (HNE : forall e, ~ file_err lookup ast fp e) by (intros e; eapply file_err_good; eassumption).
        destruct outside as [|o1 orest] eqn:Eo; cbn [is_nil] in H; inversion H; subst s1 r; cbn [exts_of].
        -- apply ExtsOK_nil_inv in HO. split; [exact Hst0|]. split; [exact Hfm0|]. split; [exact HNE|].
           split; [apply Hfiles; [apply incl_refl | exact Ep]|].
           exists []. split; [intros x []|]. cbn [app]. rewrite HO. apply EO_nil.
        -- split; [exact Hst0|]. split; [exact Hfm0|]. split; [exact HNE|].
           split; [apply Hfiles; [apply incl_refl | exact Ep]|].
           exists []. split; [intros x []|]. change ([] ++ parsed s) with (parsed s).
           change (o1 :: orest ++ clone) with ((o1 :: orest) ++ clone). eapply ExtsOK_app; [exact HO|].
           unfold clone. destruct (negb (existsb (fun e : ext => path_eqb (fst (fst e)) fp) (o1 :: orest))); [|apply EO_nil].
           apply EO_clone; [exact Ep| |apply EO_nil]. right. exists id. split; [exact Hl|]. apply Hnsk. discriminate.
      * apply mem_false in Ep. destruct (parse_file s0 fp) as [s2 r2] eqn:E. apply parse_file_spec in E.
        destruct r2 as [id' items| |].
        -- destruct E as (Hl' & Ha & _ & ->). rewrite Hl in Hl'. inversion Hl'; subst id'.
           rewrite add_parsed_new in H by exact Ep.
           assert (HNE : forall e, ~ file_err lookup ast fp e) by (intros e; eapply file_err_good; eassumption).
           assert (Hf2 : incl (filter is_file (map fst (targets c n a))) (fp :: parsed s0)).
           { apply Hfiles; [intros x Hx; right; exact Hx | left; reflexivity]. }
           destruct (inner_skip (ffacts id)) eqn:Es.
           ++ inversion H; subst s1 r. cbn [sticky fmap parsed exts_of].
              destruct outside as [|o1 orest] eqn:Eo; [|exfalso; assert (Hx : true = false) by (apply Hnsk; discriminate); discriminate Hx].
              apply ExtsOK_nil_inv in HO. split; [exact Hst0|]. split; [exact Hfm0|]. split; [exact HNE|].
              split; [exact Hf2|]. exists [fp]. split.
              ** intros x [<-|[]]. split; [rewrite <- HO; exact Ep|]. exists k, id, items. repeat split; assumption.
              ** cbn [app]. rewrite HO. apply EO_nil.
           ++ destruct outside as [|o1 orest] eqn:Eo; cbn [is_nil] in H; inversion H; subst s1 r;
                cbn [sticky fmap parsed exts_of].
              ** apply ExtsOK_nil_inv in HO. split; [exact Hst0|]. split; [exact Hfm0|]. split; [exact HNE|].
                 split; [exact Hf2|]. exists []. split; [intros x []|]. cbn [app].
                 eapply EO_file; try eassumption; [rewrite <- HO; exact Ep | rewrite HO; apply EO_nil].
              ** split; [exact Hst0|]. split; [exact Hfm0|]. split; [exact HNE|]. split; [exact Hf2|].
                 exists []. split; [intros x []|]. change ([] ++ parsed s) with (parsed s).
                 change (o1 :: orest ++ (fp, o, SFile id items) :: clone) with ((o1 :: orest) ++ (fp, o, SFile id items) :: clone).
                 eapply ExtsOK_app; [exact HO|].
                 eapply EO_file; try eassumption.
                 unfold clone. destruct (negb (existsb (fun e : ext => path_eqb (fst (fst e)) fp) (o1 :: orest))); [|apply EO_nil].
                 apply EO_clone; [left; reflexivity| |apply EO_nil]. right. exists id. split; assumption.
        -- inversion H; subst s1 r. unfold file_err. rewrite Hl.
           destruct E as [E|(id' & E & [E'|E'])]; [congruence| |congruence].
           rewrite Hl in E. inversion E; subst id'. split; [exact E' | reflexivity].
        -- congruence.
    + rewrite Hdc in H. destruct outside as [|o1 orest] eqn:Eo; cbn [is_nil] in H; inversion H; subst s1 r.
      * split; [reflexivity|]. apply Hemp. reflexivity.
      * cbn [exts_of]. split; [exact Hst0|]. split; [exact Hfm0|]. split.
        -- intros e [_ Hall]. destruct Hsome as (q & Hq & Ex); [discriminate|]. rewrite (Hall q Hq) in Ex. discriminate.
        -- split.
           ++ rewrite HTg, app_nil_r. apply Hcfg. apply incl_refl.
           ++ exists []. split; [intros x []|]. cbn [app]. exact HO.
Qed.

End OneDecl.


(* ---- pieces of the main induction ---- *)

Lemma fold_res_id : forall (A : Type) (f : st -> A -> res st) (l : list A) (s : st),
  (forall x t, In x l -> f t x = Ok t) -> fold_res f l s = Ok s.
Proof.
  intros B f l. induction l as [|x l IH]; intros s H; cbn [fold_res]; [reflexivity|].
  rewrite H by (left; reflexivity). apply IH. intros y t Hy. apply H. right. exact Hy.
Qed.

Lemma no_mods_visit : forall fuel it cur d s, no_mods it = true -> visit_item fuel it cur d s = Ok s.
Proof.
  intros fuel it. induction it as [n a|n a b IHb|b IHb|b IHb|] using decl_ind'; intros cur d s H;
    rewrite visit_item_eq; cbn [no_mods] in H.
  - discriminate.
  - destruct (skip a); [reflexivity|]. apply fold_res_id. intros m t Hm. rewrite Forall_forall in IHb.
    apply IHb; [exact Hm|]. rewrite forallb_forall in H. apply H, Hm.
  - apply fold_res_id. intros m t Hm. rewrite Forall_forall in IHb. rewrite forallb_forall in H.
    destruct m; try reflexivity; apply IHb; try exact Hm; apply H, Hm.
  - apply fold_res_id. intros m t Hm. rewrite Forall_forall in IHb. rewrite forallb_forall in H.
    destruct m; try reflexivity; apply IHb; try exact Hm; apply H, Hm.
  - reflexivity.
Qed.

Lemma no_mods_within : forall c ds c' ds', Within c ds c' ds' -> forallb no_mods ds = true -> forallb no_mods ds' = true.
Proof.
  intros c ds c' ds' H. induction H as [c ds|c ds d c1 ds1 c2 ds2 Hd Hs Hw IH]; intros Hn; [exact Hn|].
  apply IH. rewrite forallb_forall in Hn. specialize (Hn d Hd).
  destruct d as [n a|n a b|b|b|]; cbn [local_step no_mods] in *.
  - destruct Hs.
  - destruct (true && skip a); [destruct Hs|]. apply in_map_iff in Hs as (c0 & E & _). inversion E; subst. exact Hn.
  - destruct Hs as [E|[]]. inversion E; subst. exact Hn.
  - destruct Hs as [E|[]]. inversion E; subst. exact Hn.
  - destruct Hs.
Qed.

Lemma no_mods_covered : forall P c ds, forallb no_mods ds = true -> CoveredItems P c ds.
Proof.
  intros P c ds Hn c' ds' d Hw Hd. pose proof (no_mods_within _ _ _ _ Hw Hn) as Hn'.
  rewrite forallb_forall in Hn'. specialize (Hn' d Hd).
  destruct d as [n a|n a b|b|b|]; cbn [no_mods] in Hn'; try discriminate;
    (split; [intros x [] | exact I]).
Qed.

Lemma enter_spec : forall prune t c' ds',
  In (c', ds') (enter lookup ast ffacts prune t) ->
  exists id, lookup (fst t) = Some (File id) /\ ast id = Some ds' /\ c' = snd t /\
             (prune = true -> inner_skip (ffacts id) = false).
Proof.
  intros prune t c' ds' H. unfold enter in H. destruct (lookup (fst t)) as [[id|]|]; try destruct H.
  destruct (prune && inner_skip (ffacts id)) eqn:E; [destruct H|].
  destruct (ast id) as [items|] eqn:Ea; [|destruct H]. destruct H as [H|[]]. inversion H; subst.
  exists id. split; [reflexivity|]. split; [exact Ea|]. split; [reflexivity|]. intros ->. exact E.
Qed.

Lemma enter_intro : forall t id items,
  lookup (fst t) = Some (File id) -> ast id = Some items -> inner_skip (ffacts id) = false ->
  In (snd t, items) (enter lookup ast ffacts true t).
Proof.
  intros t id items Hl Ha Hs. unfold enter. rewrite Hl, Hs, Ha. cbn. left. reflexivity.
Qed.

Lemma forallb_weaken : forall (A : Type) (f g : A -> bool) (l : list A),
  (forall x, f x = true -> g x = true) -> forallb f l = true -> forallb g l = true.
Proof.
  intros B f g l H Hf. rewrite forallb_forall in *. intros x Hx. apply H, Hf, Hx.
Qed.

Lemma V_ok : forall c ds, V c ds -> forallb decl_ok ds = true.
Proof. intros c ds H. exact (tame_syntax _ _ _ _ HT c ds H). Qed.

Definition Post (A : list path) (s s' : st) : Prop := Inv s' A /\ incl (parsed s) (parsed s').

Definition items_spec (fuel : nat) : Prop :=
  forall items cur d s A c, V c items -> corr d c -> Inv s A ->
  match visit_items fuel cur d s items with
  | Ok s' => Post A s s' /\ CoveredItems (parsed s') c items
  | Err e => Bad e
  end.

Definition item_spec (fuel : nat) (it : decl) : Prop :=
  forall cur d s A c ds, V c ds -> In it ds -> corr d c -> Inv s A ->
  match visit_item fuel it cur d s with
  | Ok s' => Post A s s' /\ CoveredDecl (parsed s') c it
  | Err e => Bad e
  end.

Lemma fold_spec : forall (f : st -> decl -> res st) (c1 : ctx) (A : list path) (body : list decl),
  (forall m s, In m body -> Inv s A ->
     match f s m with Ok s' => Post A s s' /\ CoveredDecl (parsed s') c1 m | Err e => Bad e end) ->
  forall s, Inv s A ->
  match fold_res f body s with
  | Ok s' => Post A s s' /\ (forall m, In m body -> CoveredDecl (parsed s') c1 m)
  | Err e => Bad e
  end.
Proof.
  intros f c1 A body. induction body as [|x body IH]; intros Hf s HI; cbn [fold_res].
  - split; [split; [exact HI | apply incl_refl] | intros m []].
  - pose proof (Hf x s (or_introl eq_refl) HI) as Hx. destruct (f s x) as [s1|e]; [|exact Hx].
    destruct Hx as [[HI1 Hi1] Hc1].
    specialize (IH (fun m t Hm => Hf m t (or_intror Hm)) s1 HI1).
    destruct (fold_res f body s1) as [s2|e]; [|exact IH]. destruct IH as [[HI2 Hi2] Hc2].
    split; [split; [exact HI2 | eapply incl_tran; eassumption]|].
    intros m [<-|Hm]; [eapply covered_decl_mono; eassumption | apply Hc2; exact Hm].
Qed.

Lemma items_of_item : forall fuel, (forall it, item_spec fuel it) -> items_spec fuel.
Proof.
  intros fuel H items cur d s A c HV Hc HI. unfold Model.visit_items.
  pose proof (fold_spec (fun s1 it => visit_item fuel it cur d s1) c A items) as Hf.
  assert (Hstep : forall m t, In m items -> Inv t A ->
            match visit_item fuel m cur d t with
            | Ok s' => Post A t s' /\ CoveredDecl (parsed s') c m | Err e => Bad e end).
  { intros m t Hm Ht. eapply H; eassumption. }
  specialize (Hf Hstep s HI).
  destruct (fold_res (fun s1 it => visit_item fuel it cur d s1) items s) as [s'|e]; [|exact Hf].
  destruct Hf as [HP Hcov]. split; [exact HP | apply covered_items_intro; exact Hcov].
Qed.

Lemma visit_exts_spec : forall fuel c ds n a,
  V c ds -> In (ModDecl n a) ds -> skip a = false ->
  (forall f, fuel = S f -> items_spec f) ->
  forall es Q, Forall (ExtFacts (targets c n a) Q) es -> In root Q ->
  forall s A, Inv s (pend es ++ A) ->
  match fold_res (visit_ext fuel) es s with
  | Ok s' => Post A s s'
  | Err e => Bad e
  end.
Proof.
  intros fuel c ds n a HV Hin Hsk HIH es Q HF HrQ. induction HF as [|e es He HF IH]; intros s A HI; cbn [fold_res].
  - split; [exact HI | apply incl_refl].
  - destruct e as [[q o] src]. unfold ExtFacts in He. cbn [fst snd] in He.
    unfold visit_ext at 1. cbn [fst snd]. destruct src as [id items|].
    + destruct He as (k & HTk & Hck & Hl & Ha & Hs & HnQ). cbn [visit_src].
      destruct fuel as [|f]; [left; reflexivity|].
      assert (HVk : V k items).
      { eapply V_step; [exact HV | exact Hin|]. unfold lang_step. apply in_app_iff. right.
        cbn [file_step]. rewrite Hsk. cbn [andb]. apply in_flat_map. exists (q, k). split; [exact HTk|].
        change k with (snd (q, k)) at 1. eapply enter_intro; cbn [fst]; eassumption. }
      change (pend ((q, o, SFile id items) :: es) ++ A) with (q :: pend es ++ A) in HI.
      pose proof (HIH f eq_refl items (id, q) (mkD (parent q) o) s (q :: pend es ++ A) k HVk Hck HI) as Hit.
      destruct (visit_items f (id, q) (mkD (parent q) o) s items) as [s3|e]; [|exact Hit].
      destruct Hit as [[HI3 Hi3] Hcov].
      assert (HI3' : Inv s3 (pend es ++ A)).
      { destruct HI3 as [I1 I2 I3 I4 I5 I6]. constructor; try assumption.
        intros p Hp HnA. destruct (path_eq_dec p q) as [->|Hne].
        - intros k' id' items' He' Hl' Hs' Ha'.
          assert (Ek : k' = k).
          { destruct He' as [[Er _]|(c2 & ds2 & n2 & a2 & HV2 & Hin2 & Hsk2 & HT2)].
            - exfalso. apply HnQ. rewrite Er. exact HrQ.
            - symmetry. eapply (tame_coh _ _ _ _ HT c ds n a c2 ds2 n2 a2 q); eassumption. }
          subst k'. rewrite Hl in Hl'. inversion Hl'; subst id'. rewrite Ha in Ha'. inversion Ha'; subst items'.
          exact Hcov.
        - apply I6; [exact Hp|]. intros [E|HIn]; [apply Hne; symmetry; exact E | apply HnA; exact HIn]. }
      specialize (IH s3 A HI3'). destruct (fold_res (visit_ext (S f)) es s3) as [s4|e]; [|exact IH].
      destruct IH as [HI4 Hi4]. split; [exact HI4 | eapply incl_tran; eassumption].
    + cbn [visit_src]. apply IH. exact HI.
Qed.

Lemma decl_case : forall fuel n a, (forall f, fuel = S f -> items_spec f) -> item_spec fuel (ModDecl n a).
Proof.
  intros fuel n a HIH cur d s A c ds HV Hin Hc HI. rewrite visit_decl_uniform.
  destruct (skip a) eqn:Hsk.
  { split; [split; [exact HI | apply incl_refl]|]. split; [|split].
    - unfold decl_files. rewrite Hsk. cbn. intros x [].
    - cbn [NoErr]. intros Hf. congruence.
    - intros c1 ds1 []. }
  destruct (find_external_module s d n a) as [s1 r] eqn:E.
  pose proof (fem_spec c ds n a HV Hin Hsk s d A s1 r Hc HI E) as Hsp.
  destruct r as [ok|e].
  2:{ right. right. exists c, ds, n, a. repeat split; assumption. }
  destruct Hsp as (Hst1 & Hfm1 & HNE & Hfiles & sk & Hskp & HO).
  set (es := exts_of ok) in *. rewrite insert_exts_state.
  set (s2 := mkSt (parsed s1) (ins_fm cur (fmap s1) es) (sticky s1)).
  assert (Hsub : incl (parsed s) (parsed s1)).
  { intros x Hx. eapply ExtsOK_incl; [exact HO|]. apply in_app_iff. right. exact Hx. }
  assert (HI2 : Inv s2 (pend es ++ A)).
  { destruct HI as [I1 I2 I3 I4 I5 I6]. constructor; cbn [sticky parsed fmap s2].
    - exact Hst1.
    - apply Hsub, I2.
    - eapply ExtsOK_good; [exact HO|]. intros p Hp. apply in_app_iff in Hp as [Hp|Hp]; [|apply I3; exact Hp].
      destruct (Hskp p Hp) as [_ (k & id & items & _ & Hl & Ha & _)]. exists id, items. split; assumption.
    - intros p Hp.
      assert (Htg : In p (parsed s) \/ exists k id, In (p, k) (targets c n a) /\ lookup p = Some (File id)).
      { destruct (ExtsOK_targets _ _ _ _ HO p Hp) as [Hp0|Hp0]; [|right; exact Hp0].
        apply in_app_iff in Hp0 as [Hp0|Hp0]; [|left; exact Hp0].
        destruct (Hskp p Hp0) as [_ (k & id & items & Hk & Hl & _)]. right. exists k, id. split; assumption. }
      destruct Htg as [Hp0|(k & id & Hk & Hl)]; [apply I4; exact Hp0|].
      right. exists c, ds, (ModDecl n a). split; [exact HV|]. split; [exact Hin|].
      unfold decl_files. rewrite Hsk. cbn [andb]. apply filter_In. split.
      + apply in_map_iff. exists (p, k). split; [reflexivity | exact Hk].
      + unfold Model.is_file. rewrite Hl. reflexivity.
    - rewrite Hfm1. eapply FmI_insert; [exact HO|]. destruct I5 as [F1 F2]. split.
      + intros p m Hpm. destruct (F1 p m Hpm) as [Ha Hb]. split; [apply in_app_iff; right; exact Ha | exact Hb].
      + intros p id Hp Hr Hl Hs. apply in_app_iff in Hp as [Hp|Hp]; [|eapply F2; eassumption].
        destruct (Hskp p Hp) as [_ (k & id' & items & _ & Hl' & _ & Hs')]. rewrite Hl in Hl'. inversion Hl'; subst id'.
        congruence.
    - intros p Hp HnA.
      destruct (ExtsOK_new _ _ _ _ HO p Hp) as [Hp0|Hp0].
      2:{ exfalso. apply HnA. apply in_app_iff. left. exact Hp0. }
      apply in_app_iff in Hp0 as [Hp0|Hp0].
      + destruct (Hskp p Hp0) as [Hnp (k & id' & items & _ & Hl' & _ & Hs')].
        intros k' id items' _ Hl [Er|Hs]; [exfalso; apply Hnp; rewrite Er; exact I2|].
        rewrite Hl in Hl'. inversion Hl'; subst id'. congruence.
      + eapply closedP_mono; [exact Hsub|]. apply I6; [exact Hp0|].
        intros HA. apply HnA. apply in_app_iff. right. exact HA. }
  assert (HF : Forall (ExtFacts (targets c n a) (parsed s)) es).
  { eapply ExtsOK_facts; [exact HO|]. intros x Hx. apply in_app_iff. right. exact Hx. }
  pose proof (visit_exts_spec fuel c ds n a HV Hin Hsk HIH es (parsed s) HF (inv_root _ _ HI) s2 A HI2) as Hv.
  destruct (fold_res (visit_ext fuel) es s2) as [s3|e]; [|exact Hv].
  destruct Hv as [HI3 Hi3]. cbn [parsed s2] in Hi3.
  split; [split; [exact HI3 | eapply incl_tran; eassumption]|].
  split; [eapply incl_tran; eassumption|]. split.
  - cbn [NoErr]. intros _. exact HNE.
  - intros c1 ds1 [].
Qed.

Lemma other_covered : forall P c, CoveredDecl P c Other.
Proof. intros P c. split; [intros x []|]. split; [exact I | intros c1 ds1 []]. Qed.

Lemma cfg_body_case : forall fuel b (d0 : decl),
  Forall (item_spec fuel) b -> d0 = CfgIf b \/ d0 = CfgMatch b ->
  forall cur d s A c ds, V c ds -> In d0 ds -> corr d c -> Inv s A ->
  match fold_res (fun s1 m => match m with
                              | ModDecl _ _ | ModInline _ _ _ => visit_item fuel m cur d s1
                              | _ => Ok s1
                              end) b s with
  | Ok s' => Post A s s' /\ CoveredDecl (parsed s') c d0
  | Err e => Bad e
  end.
Proof.
  intros fuel b d0 IHb Hd0 cur d s A c ds HV Hin Hc HI.
  assert (Hok : forallb (fun x => negb (is_cfg x) && decl_ok x) b = true).
  { pose proof (V_ok _ _ HV) as Hok. rewrite forallb_forall in Hok. specialize (Hok d0 Hin).
    destruct Hd0 as [-> | ->]; exact Hok. }
  assert (Hls : local_step true c d0 = [(c, b)]) by (destruct Hd0 as [-> | ->]; reflexivity).
  assert (HVb : V c b).
  { eapply V_step; [exact HV | exact Hin|]. unfold lang_step. apply in_app_iff. left. rewrite Hls. left. reflexivity. }
  pose proof (fold_spec (fun s1 m => match m with
                              | ModDecl _ _ | ModInline _ _ _ => visit_item fuel m cur d s1
                              | _ => Ok s1
                              end) c A b) as Hf.
  assert (Hstep : forall m t, In m b -> Inv t A ->
     match (match m with
            | ModDecl _ _ | ModInline _ _ _ => visit_item fuel m cur d t
            | _ => Ok t
            end) with
     | Ok s' => Post A t s' /\ CoveredDecl (parsed s') c m
     | Err e => Bad e
     end).
  { intros m t Hm Ht. rewrite Forall_forall in IHb. rewrite forallb_forall in Hok. specialize (Hok m Hm).
    destruct m as [n1 a1|n1 a1 b1|b1|b1|].
    - eapply IHb; eassumption.
    - eapply IHb; eassumption.
    - discriminate.
    - discriminate.
    - split; [split; [exact Ht | apply incl_refl] | apply other_covered]. }
  specialize (Hf Hstep s HI). cbv beta in Hf.
  match goal with |- match ?X with _ => _ end => destruct X as [s'|e] end; [|exact Hf].
  destruct Hf as [HP Hcov]. split; [exact HP|]. split; [|split].
  - destruct Hd0 as [-> | ->]; intros x [].
  - destruct Hd0 as [-> | ->]; exact I.
  - intros c1 ds1 H1. rewrite Hls in H1. destruct H1 as [E|[]]. inversion E; subst.
    apply covered_items_intro. exact Hcov.
Qed.

Lemma inline_case : forall fuel n a b, Forall (item_spec fuel) b -> item_spec fuel (ModInline n a b).
Proof.
  intros fuel n a b IHb cur d s A c ds HV Hin Hc HI. rewrite visit_item_eq.
  destruct (skip a) eqn:Hsk.
  { split; [split; [exact HI | apply incl_refl]|]. split; [intros x []|]. split; [exact I|].
    intros c1 ds1 H1. cbn [local_step] in H1. rewrite Hsk in H1. destruct H1. }
  assert (Hnil : cfg_attr_paths a = []).
  { pose proof (V_ok _ _ HV) as Hok. rewrite forallb_forall in Hok. specialize (Hok _ Hin). cbn [decl_ok] in Hok.
    apply andb_true_iff in Hok as [Hok _]. destruct (cfg_attr_paths a); [reflexivity | discriminate]. }
  set (c1 := match path_attr a with
             | Some q => mkC (cdir c ++ q) None
             | None => mkC (moddir c ++ [CDir n]) None
             end).
  assert (Hls : local_step true c (ModInline n a b) = [(c1, b)]).
  { cbn [local_step]. rewrite Hsk. cbn [andb]. unfold inline_ctxs, c1. rewrite Hnil.
    destruct (path_attr a); reflexivity. }
  assert (HVb : V c1 b).
  { eapply V_step; [exact HV | exact Hin|]. unfold lang_step. apply in_app_iff. left. rewrite Hls. left. reflexivity. }
  set (d' := push_inline d n a).
  assert (Hcases : corr d' c1 \/ forallb no_mods b = true).
  { destruct Hc as [Hd Hr]. unfold d', c1, push_inline_mod_directory.
    destruct (path_attr a) as [q|] eqn:Hpa.
    - left. split; cbn; [rewrite Hd; reflexivity | reflexivity].
    - unfold moddir. destruct (down d) as [[r|]|] eqn:Ed; cbn [relative_of] in Hr; rewrite <- Hr.
      + destruct (Model.exists_ lookup (dpath d ++ [CDir r])) eqn:E1;
        destruct (Model.exists_ lookup ((dpath d ++ [CDir r]) ++ [CDir n])) eqn:E2; cbn [andb negb].
        * left. split; cbn; [rewrite Hd; reflexivity | reflexivity].
        * right. rewrite Hd in E1, E2. rewrite <- app_assoc in E2. cbn [app] in E2.
          eapply (tame_heur _ _ _ _ HT c ds n a b r); try eassumption. symmetry. exact Hr.
        * left. split; cbn; [rewrite Hd; reflexivity | reflexivity].
        * left. split; cbn; [rewrite Hd; reflexivity | reflexivity].
      + left. split; cbn; [rewrite Hd, app_nil_r; reflexivity | reflexivity].
      + left. split; cbn; [rewrite Hd, app_nil_r; reflexivity | reflexivity]. }
  destruct Hcases as [Hc'|Hnm].
  - pose proof (fold_spec (fun s1 m => visit_item fuel m cur d' s1) c1 A b) as Hf.
    assert (Hstep : forall m t, In m b -> Inv t A ->
              match visit_item fuel m cur d' t with
              | Ok s' => Post A t s' /\ CoveredDecl (parsed s') c1 m | Err e => Bad e end).
    { intros m t Hm Ht. rewrite Forall_forall in IHb. eapply IHb; eassumption. }
    specialize (Hf Hstep s HI). fold d'.
    destruct (fold_res (fun s1 m => visit_item fuel m cur d' s1) b s) as [s'|e]; [|exact Hf].
    destruct Hf as [HP Hcov]. split; [exact HP|]. split; [intros x []|]. split; [exact I|].
    intros cx dsx H1. rewrite Hls in H1. destruct H1 as [E|[]]. inversion E; subst.
    apply covered_items_intro. exact Hcov.
  - rewrite fold_res_id.
    + split; [split; [exact HI | apply incl_refl]|]. split; [intros x []|]. split; [exact I|].
      intros cx dsx H1. rewrite Hls in H1. destruct H1 as [E|[]]. inversion E; subst.
      apply no_mods_covered. exact Hnm.
    + intros m t Hm. apply no_mods_visit. rewrite forallb_forall in Hnm. apply Hnm, Hm.
Qed.

Lemma item_spec_all : forall fuel it, item_spec fuel it.
Proof.
  induction fuel as [|f IHf].
  - assert (H0 : forall f, 0%nat = S f -> items_spec f) by (intros f Hf; discriminate).
    intros it. induction it as [n a|n a b IHb|b IHb|b IHb|] using decl_ind'.
    + apply decl_case. exact H0.
    + apply inline_case. exact IHb.
    + intros cur d s A c ds HV Hin Hc HI. rewrite visit_item_eq.
      eapply cfg_body_case; try eassumption. left. reflexivity.
    + intros cur d s A c ds HV Hin Hc HI. rewrite visit_item_eq.
      eapply cfg_body_case; try eassumption. right. reflexivity.
    + intros cur d s A c ds HV Hin Hc HI. rewrite visit_item_eq.
      split; [split; [exact HI | apply incl_refl] | apply other_covered].
  - assert (H0 : forall f', S f = S f' -> items_spec f').
    { intros f' Hf. inversion Hf; subst. apply items_of_item. exact IHf. }
    intros it. induction it as [n a|n a b IHb|b IHb|b IHb|] using decl_ind'.
    + apply decl_case. exact H0.
    + apply inline_case. exact IHb.
    + intros cur d s A c ds HV Hin Hc HI. rewrite visit_item_eq.
      eapply cfg_body_case; try eassumption. left. reflexivity.
    + intros cur d s A c ds HV Hin Hc HI. rewrite visit_item_eq.
      eapply cfg_body_case; try eassumption. right. reflexivity.
    + intros cur d s A c ds HV Hin Hc HI. rewrite visit_item_eq.
      split; [split; [exact HI | apply incl_refl] | apply other_covered].
Qed.

Lemma items_spec_all : forall fuel, items_spec fuel.
Proof. intros fuel. apply items_of_item. apply item_spec_all. Qed.


(* ---- from the invariant to the closure ---- *)

Lemma lstep_file_split : forall c d x, In x (lang_step lookup ast ffacts true true c d) ->
  In x (lstep c d) \/
  exists n a t id, d = ModDecl n a /\ skip a = false /\ In t (targets c n a) /\ lookup (fst t) = Some (File id)
                   /\ ast id = Some (snd x) /\ fst x = snd t /\ inner_skip (ffacts id) = false.
Proof.
  intros c d [c' ds'] H. unfold lang_step in H. apply in_app_iff in H as [H|H]; [left; exact H|]. right.
  destruct d as [n a|n a b|b|b|]; cbn [file_step] in H; try destruct H.
  destruct (skip a) eqn:Hsk; cbn [andb] in H; [destruct H|].
  apply in_flat_map in H as (t & Ht & He). apply enter_spec in He as (id & Hl & Ha & Hc & Hs).
  exists n, a, t, id. cbn [fst snd]. repeat split; try assumption; try reflexivity. apply Hs. reflexivity.
Qed.

Lemma closed_all : forall s, Inv s [] -> forall c ds, V c ds ->
  exists p k id items, In p (parsed s) /\ Entry p k /\ lookup p = Some (File id)
                       /\ (p = root \/ inner_skip (ffacts id) = false) /\ ast id = Some items
                       /\ Within k items c ds.
Proof.
  intros s HI c ds HV. induction HV as [rid items Hl Ha|c ds d c' ds' HV IH Hd Hs].
  - exists root, (root_ctx root), rid, items. split; [apply (inv_root _ _ HI)|].
    split; [left; split; reflexivity|]. split; [exact Hl|]. split; [left; reflexivity|]. split; [exact Ha | apply W_refl].
  - destruct IH as (p & k & id & items & Hp & He & Hl & Hsk & Ha & Hw).
    apply lstep_file_split in Hs as [Hs|(n & a & t & id' & -> & Hska & Ht & Hl' & Ha' & Hc' & Hs')].
    + exists p, k, id, items. repeat split; try assumption. eapply Within_snoc; eassumption.
    + cbn [fst snd] in *. subst c'. destruct t as [q kq]. cbn [fst snd] in *.
      exists q, kq, id', ds'. split.
      * pose proof (inv_closed _ _ HI p Hp (fun x => x) k id items He Hl Hsk Ha c ds (ModDecl n a) Hw Hd) as [Hf _].
        apply Hf. unfold decl_files. rewrite Hska. cbn [andb]. apply filter_In. split.
        -- apply in_map_iff. exists (q, kq). split; [reflexivity | exact Ht].
        -- unfold Model.is_file. rewrite Hl'. reflexivity.
      * split; [right; exists c, ds, n, a; repeat split; assumption|].
        split; [exact Hl'|]. split; [right; exact Hs'|]. split; [exact Ha' | apply W_refl].
Qed.

Lemma covered_all : forall s, Inv s [] -> forall c ds d, V c ds -> In d ds ->
  incl (dfiles c d) (parsed s) /\ NoErr c d.
Proof.
  intros s HI c ds d HV Hd. destruct (closed_all s HI c ds HV) as (p & k & id & items & Hp & He & Hl & Hsk & Ha & Hw).
  exact (inv_closed _ _ HI p Hp (fun x => x) k id items He Hl Hsk Ha c ds d Hw Hd).
Qed.

Lemma complete : forall s, Inv s [] -> forall p, RU p -> In p (parsed s).
Proof.
  intros s HI p [->|(c & ds & d & HV & Hd & Hp)]; [apply (inv_root _ _ HI)|].
  destruct (covered_all s HI c ds d HV Hd) as [Hf _]. apply Hf, Hp.
Qed.

Lemma close_root : forall s rid items,
  lookup root = Some (File rid) -> ast rid = Some items ->
  Inv s [root] -> CoveredItems (parsed s) (root_ctx root) items -> Inv s [].
Proof.
  intros s rid items Hl Ha HI Hcov. destruct HI as [I1 I2 I3 I4 I5 I6]. constructor; try assumption.
  intros p Hp _. destruct (path_eq_dec p root) as [->|Hne].
  - intros k id items' He Hl' _ Ha'.
    assert (Ek : k = root_ctx root).
    { destruct He as [[_ E]|(c & ds & n & a & HV & Hin & Hsk & HTk)]; [exact E|].
      eapply (tame_coh_root _ _ _ _ HT); eassumption. }
    subst k. rewrite Hl in Hl'. inversion Hl'; subst id. rewrite Ha in Ha'. inversion Ha'; subst items'. exact Hcov.
  - apply I6; [exact Hp|]. intros [E|[]]. apply Hne. symmetry. exact E.
Qed.

Lemma init_inv : forall rid items, lookup root = Some (File rid) -> ast rid = Some items ->
  Inv (mkSt [root] [] false) [root].
Proof.
  intros rid items Hl Ha. constructor; cbn [sticky parsed fmap].
  - reflexivity.
  - left. reflexivity.
  - intros p [<-|[]]. exists rid, items. split; assumption.
  - intros p [<-|[]]. left. reflexivity.
  - split; [intros p m []|]. intros p id [<-|[]] Hne; contradiction.
  - intros p [<-|[]] Hn. exfalso. apply Hn. left. reflexivity.
Qed.

(* the recursive run *)
Lemma run_spec : forall fuel rid items d0,
  lookup root = Some (File rid) -> ast rid = Some items -> corr d0 (root_ctx root) ->
  match visit_items fuel (rid, root) d0 (mkSt [root] [] false) items with
  | Ok s => Inv s []
  | Err e => Bad e
  end.
Proof.
  intros fuel rid items d0 Hl Ha Hc.
  pose proof (items_spec_all fuel items (rid, root) d0 (mkSt [root] [] false) [root] (root_ctx root)
                (V_root _ _ _ _ _ _ rid items Hl Ha) Hc (init_inv rid items Hl Ha)) as H.
  destruct (visit_items fuel (rid, root) d0 (mkSt [root] [] false) items) as [s|e]; [|exact H].
  destruct H as [[HI _] Hcov]. eapply close_root; eassumption.
Qed.

Definition FileOK (cfg : config) (p : path) : Prop :=
  exists id, lookup p = Some (File id) /\ inner_skip (ffacts id) = false /\ ignored (ffacts id) = false
             /\ (generated (ffacts id) = false \/ format_generated cfg = true).

Lemma keep_file : forall cfg p id, input_is_stdin cfg = false -> skip_children cfg = false ->
  lookup p = Some (File id) ->
  (keep lookup ffacts cfg root (p, MFile id) = true <->
   inner_skip (ffacts id) = false /\ ignored (ffacts id) = false
   /\ (generated (ffacts id) = false \/ format_generated cfg = true)).
Proof.
  intros cfg p id Hst Hsc Hl. unfold keep, path_ignored, minfo_skip, minfo_generated. cbn [fst snd].
  rewrite Hst, Hsc, Hl. cbn [orb andb].
  destruct (inner_skip (ffacts id)), (ignored (ffacts id)), (generated (ffacts id)), (format_generated cfg);
    cbn; split; intros H; try discriminate; try reflexivity; try (repeat split; auto; fail);
    try (destruct H as (H1 & H2 & [H3|H3]); discriminate).
Qed.

Lemma final_core : forall cfg s rid, input_is_stdin cfg = false -> skip_children cfg = false ->
  lookup root = Some (File rid) -> Inv s [] ->
  forall p, (exists m, In (p, m) (fm_set (fmap s) root (MFile rid)) /\ keep lookup ffacts cfg root (p, m) = true)
            <-> RU p /\ FileOK cfg p.
Proof.
  intros cfg s rid Hst Hsc Hl HI p. split.
  - intros (m & Hin & Hk). apply fm_set_In in Hin as [[Hne Hin]|[-> ->]].
    + destruct (proj1 (inv_fm _ _ HI) p m Hin) as [Hp [E|(id & -> & Hlp & Hs)]]; [contradiction|].
      split; [apply (inv_reach _ _ HI); exact Hp|]. apply (keep_file cfg p id Hst Hsc Hlp) in Hk.
      exists id. split; [exact Hlp | exact Hk].
    + split; [left; reflexivity|]. apply (keep_file cfg root rid Hst Hsc Hl) in Hk. exists rid. split; [exact Hl | exact Hk].
  - intros [Hru (id & Hlp & Hok)]. pose proof (complete s HI p Hru) as Hp.
    destruct (path_eq_dec p root) as [->|Hne].
    + exists (MFile rid). split; [apply fm_set_In; right; split; reflexivity|].
      rewrite Hl in Hlp. inversion Hlp; subst id. apply (keep_file cfg root rid Hst Hsc Hl). exact Hok.
    + pose proof (proj2 (inv_fm _ _ HI) p id Hp Hne Hlp (proj1 Hok)) as Hk.
      unfold keys in Hk. apply in_map_iff in Hk as ([p' m] & E & Hin). cbn [fst] in E. subst p'.
      destruct (proj1 (inv_fm _ _ HI) p m Hin) as [_ [E|(id' & -> & Hlp' & _)]]; [contradiction|].
      rewrite Hlp in Hlp'. inversion Hlp'; subst id'.
      exists (MFile id). split; [apply fm_set_In; left; split; assumption|].
      apply (keep_file cfg p id Hst Hsc Hlp). exact Hok.
Qed.

End Main.
End Visit.

(* ================================================================================================ *)
(* F. the property theorems *)

Section Top.
Variable fixed : bool.
Variable lookup : path -> option node.
Variable ast : N -> option (list decl).
Variable ffacts : N -> facts.

Notation resolve_fuel := (resolve_fuel_gen lookup ast ffacts fixed).
Notation Reach := (Reach lookup ast ffacts).
Notation Excluded := (Excluded lookup ast ffacts).
Notation RU := (ReachG lookup ast ffacts true true).

Lemma enter_prune_mono : forall t x, In x (enter lookup ast ffacts true t) -> In x (enter lookup ast ffacts false t).
Proof.
  intros t x H. unfold enter in *. destruct (lookup (fst t)) as [[id|]|]; try exact H.
  cbn [andb] in *. destruct (inner_skip (ffacts id)); [destruct H | exact H].
Qed.

Lemma lang_step_prune_mono : forall fb c d x,
  In x (lang_step lookup ast ffacts fb true c d) -> In x (lang_step lookup ast ffacts fb false c d).
Proof.
  intros fb c d x H. unfold lang_step in *. apply in_app_iff in H. apply in_app_iff. destruct H as [H|H].
  - left. destruct d as [n a|n a b|b|b|]; cbn [local_step andb] in *; try exact H.
    destruct (skip a); [destruct H | exact H].
  - right. destruct d as [n a|n a b|b|b|]; cbn [file_step andb] in *; try exact H.
    destruct (skip a); [destruct H|]. apply in_flat_map in H as (t & Ht & He). apply in_flat_map.
    exists t. split; [exact Ht | apply enter_prune_mono; exact He].
Qed.

Lemma Visit_prune_mono : forall fb root c ds,
  Visit lookup ast ffacts fb true root c ds -> Visit lookup ast ffacts fb false root c ds.
Proof.
  intros fb root c ds H. induction H as [rid items Hl Ha|c ds d c' ds' HV IH Hd Hs].
  - eapply V_root; eassumption.
  - eapply V_step; [exact IH | exact Hd | apply lang_step_prune_mono; exact Hs].
Qed.

Lemma ReachG_prune_mono : forall fb root p,
  ReachG lookup ast ffacts fb true root p -> ReachG lookup ast ffacts fb false root p.
Proof.
  intros fb root p [->|(c & ds & d & HV & Hd & Hp)]; [left; reflexivity|].
  right. exists c, ds, d. split; [apply Visit_prune_mono; exact HV|]. split; [exact Hd|].
  destruct d as [n a|n a b|b|b|]; cbn [decl_files andb] in *; try exact Hp.
  destruct (skip a); [destruct Hp | exact Hp].
Qed.

Lemma path_ignored_spec : forall p, path_ignored lookup ffacts p = true ->
  exists id, lookup p = Some (File id) /\ ignored (ffacts id) = true.
Proof.
  intros p H. unfold path_ignored in H. destruct (lookup p) as [[id|]|]; try discriminate.
  exists id. split; [reflexivity | exact H].
Qed.

(* the final list when nothing below the root is visited *)
Lemma final_root_only : forall cfg root rid p,
  In p (map fst (filter (keep lookup ffacts cfg root) (sort_fm (fm_set [] root (MFile rid))))) <->
  p = root /\ keep lookup ffacts cfg root (root, MFile rid) = true.
Proof.
  intros cfg root rid p. change (map fst ?l) with (keys l). rewrite final_In. split.
  - intros (m & Hin & Hk). apply fm_set_In in Hin as [[_ []]|[-> ->]]. split; [reflexivity | exact Hk].
  - intros [-> Hk]. exists (MFile rid). split; [apply fm_set_In; right; split; reflexivity | exact Hk].
Qed.

Lemma resolve_sound_complete_lemma : forall fuel cfg root S,
  Tame lookup ast ffacts root -> resolve_fuel fuel cfg root = Ok S ->
  forall p, In p S <-> (Reach root p /\ ~ Excluded cfg root p).
Proof.
  intros fuel cfg root S HT H p. unfold Model.resolve_fuel_gen in H.
  destruct (skip_children cfg && negb (input_is_stdin cfg) && path_ignored lookup ffacts root) eqn:Eearly.
  { inversion H; subst. split; [intros []|]. intros [_ Hne]. apply Hne.
    apply andb_true_iff in Eearly as [E1 E3]. apply andb_true_iff in E1 as [E1 E2]. apply negb_true_iff in E2.
    destruct (path_eq_dec p root) as [->|Hp].
    - right. left. split; [exact E2|]. apply path_ignored_spec in E3 as (id & Hl & Hi).
      exists id. split; [exact Hl|]. right. left. exact Hi.
    - left. split; [exact Hp | left; exact E1]. }
  destruct (lookup root) as [[rid|]|] eqn:Hl; try discriminate.
  destruct (ast rid) as [items|] eqn:Ha; try discriminate.
  destruct (negb (input_is_stdin cfg) && negb (skip_children cfg)) eqn:Erec.
  - (* recursive *)
    apply andb_true_iff in Erec as [E1 E2]. apply negb_true_iff in E1, E2. rewrite E1 in H.
    assert (Hc : corr (mkD (parent root) (to_directory_ownership lookup root)) (root_ctx root)).
    { split; [reflexivity|]. cbn [down]. rewrite (tame_root _ _ _ _ HT). reflexivity. }
    pose proof (run_spec lookup ast ffacts fixed root HT fuel rid items _ Hl Ha Hc) as Hrun.
    destruct (visit_items lookup ast ffacts fixed fuel (rid, root)
                (mkD (parent root) (to_directory_ownership lookup root)) (mkSt [root] [] false) items) as [s|e];
      [|discriminate].
    inversion H; subst S. clear H. change (map fst ?l) with (keys l). rewrite final_In.
    rewrite (final_core lookup ast ffacts root cfg s rid E1 E2 Hl Hrun p). split.
    + intros [Hru (id & Hlp & Hs & Hi & Hg)]. split; [apply ReachG_prune_mono; exact Hru|].
      intros [[_ [Hx|Hx]]|[(_ & id' & Hlp' & Hx)|Hx]]; try congruence.
      * rewrite Hlp in Hlp'. inversion Hlp'; subst id'. destruct Hx as [Hx|[Hx|[Hx1 Hx2]]]; try congruence.
        destruct Hg as [Hg|Hg]; congruence.
      * apply Hx. exact Hru.
    + intros [_ Hne].
      destruct (in_dec path_eq_dec p (parsed s)) as [Hp|Hp].
      2:{ exfalso. apply Hne. right. right. intros Hru. apply Hp. eapply complete; eassumption. }
      pose proof (inv_reach _ _ _ _ _ _ Hrun p Hp) as Hru. split; [exact Hru|].
      destruct (inv_good _ _ _ _ _ _ Hrun p Hp) as (id & its & Hlp & _). exists id. split; [exact Hlp|].
      destruct (inner_skip (ffacts id)) eqn:Es.
      { exfalso. apply Hne. right. left. split; [exact E1|]. exists id. split; [exact Hlp | left; exact Es]. }
      destruct (ignored (ffacts id)) eqn:Ei.
      { exfalso. apply Hne. right. left. split; [exact E1|]. exists id. split; [exact Hlp | right; left; exact Ei]. }
      split; [reflexivity|]. split; [reflexivity|].
      destruct (generated (ffacts id)) eqn:Eg; [|left; reflexivity].
      destruct (format_generated cfg) eqn:Ef; [right; reflexivity|].
      exfalso. apply Hne. right. left. split; [exact E1|]. exists id. split; [exact Hlp|]. right. right. split; assumption.
  - (* only the root *)
    cbv beta iota in H. injection H as <-. eapply iff_trans; [exact (final_root_only cfg root rid p)|].
    assert (Hnr : input_is_stdin cfg = true \/ skip_children cfg = true).
    { destruct (input_is_stdin cfg); [left; reflexivity|]. destruct (skip_children cfg); [right; reflexivity | discriminate]. }
    split.
    + intros [-> Hk]. split; [left; reflexivity|].
      intros [[Hx _]|[(Hst & id & Hlp & Hx)|Hx]]; [apply Hx; reflexivity| |apply Hx; left; reflexivity].
      rewrite Hl in Hlp. inversion Hlp; subst id. unfold keep, path_ignored, minfo_skip, minfo_generated in Hk.
      cbn [fst snd] in Hk. rewrite Hst, Hl, path_eqb_refl in Hk. cbn [orb negb andb] in Hk. rewrite andb_false_r in Hk.
      destruct Hx as [Hx|[Hx|[Hx1 Hx2]]].
      * rewrite Hx in Hk. discriminate.
      * rewrite Hx in Hk. destruct (inner_skip (ffacts rid)); discriminate.
      * rewrite Hx1, Hx2 in Hk. destruct (inner_skip (ffacts rid)), (ignored (ffacts rid)); discriminate.
    + intros [_ Hne].
      destruct (path_eq_dec p root) as [->|Hp].
      2:{ exfalso. apply Hne. left. split; [exact Hp|]. destruct Hnr as [Hx|Hx]; [right | left]; exact Hx. }
      split; [reflexivity|]. unfold keep, path_ignored, minfo_skip, minfo_generated. cbn [fst snd].
      rewrite Hl, path_eqb_refl. cbn [negb]. rewrite andb_false_r.
      destruct (input_is_stdin cfg) eqn:Est; [reflexivity|]. cbn [orb].
      destruct (inner_skip (ffacts rid)) eqn:Es.
      { exfalso. apply Hne. right. left. split; [exact Est|]. exists rid. split; [exact Hl | left; exact Es]. }
      destruct (ignored (ffacts rid)) eqn:Ei.
      { exfalso. apply Hne. right. left. split; [exact Est|]. exists rid. split; [exact Hl | right; left; exact Ei]. }
      destruct (generated (ffacts rid)) eqn:Eg; [|destruct (format_generated cfg); reflexivity].
      destruct (format_generated cfg) eqn:Ef; [reflexivity|].
      exfalso. apply Hne. right. left. split; [exact Est|]. exists rid. split; [exact Hl|]. right. right. split; assumption.
Qed.

Lemma decoys_untouched_lemma : forall fuel cfg root S,
  Tame lookup ast ffacts root -> resolve_fuel fuel cfg root = Ok S ->
  forall p, ~ Reach root p -> ~ In p S.
Proof.
  intros fuel cfg root S HT H p Hn Hin. apply Hn.
  apply (resolve_sound_complete_lemma fuel cfg root S HT H p) in Hin. apply Hin.
Qed.

Lemma resolve_err_sound : forall fuel cfg root e,
  Tame lookup ast ffacts root -> resolve_fuel fuel cfg root = Err e ->
  e = OutOfFuel \/ ErrWitness lookup ast ffacts root e.
Proof.
  intros fuel cfg root e HT H. unfold Model.resolve_fuel_gen in H.
  destruct (skip_children cfg && negb (input_is_stdin cfg) && path_ignored lookup ffacts root); [discriminate|].
  destruct (lookup root) as [[rid|]|] eqn:Hl.
  - destruct (ast rid) as [items|] eqn:Ha.
    + destruct (negb (input_is_stdin cfg) && negb (skip_children cfg)) eqn:Erec; [|discriminate].
      apply andb_true_iff in Erec as [E1 E2]. apply negb_true_iff in E1, E2. rewrite E1 in H.
      assert (Hc : corr (mkD (parent root) (to_directory_ownership lookup root)) (root_ctx root)).
      { split; [reflexivity|]. cbn [down]. rewrite (tame_root _ _ _ _ HT). reflexivity. }
      pose proof (run_spec lookup ast ffacts fixed root HT fuel rid items _ Hl Ha Hc) as Hrun.
      destruct (visit_items lookup ast ffacts fixed fuel (rid, root)
                  (mkD (parent root) (to_directory_ownership lookup root)) (mkSt [root] [] false) items) as [s|e'];
        [discriminate|]. inversion H; subst e'. exact Hrun.
    + inversion H; subst. right. left. unfold file_err. rewrite Hl. split; [exact Ha | reflexivity].
  - inversion H; subst. right. left. unfold file_err. rewrite Hl. reflexivity.
  - inversion H; subst. right. left. unfold file_err. rewrite Hl. reflexivity.
Qed.

Lemma resolve_err_complete : forall fuel cfg root,
  Tame lookup ast ffacts root -> skip_children cfg = false -> input_is_stdin cfg = false ->
  (exists e, ErrWitness lookup ast ffacts root e) -> exists e, resolve_fuel fuel cfg root = Err e.
Proof.
  intros fuel cfg root HT Hsc Hst (e & HW).
  destruct (resolve_fuel fuel cfg root) as [S|e'] eqn:H; [|exists e'; reflexivity]. exfalso.
  unfold Model.resolve_fuel_gen in H. rewrite Hsc, Hst in H. cbn [andb negb] in H.
  destruct (lookup root) as [[rid|]|] eqn:Hl; try discriminate.
  destruct (ast rid) as [items|] eqn:Ha; try discriminate.
  assert (Hc : corr (mkD (parent root) (to_directory_ownership lookup root)) (root_ctx root)).
  { split; [reflexivity|]. cbn [down]. rewrite (tame_root _ _ _ _ HT). reflexivity. }
  pose proof (run_spec lookup ast ffacts fixed root HT fuel rid items _ Hl Ha Hc) as Hrun.
  destruct (visit_items lookup ast ffacts fixed fuel (rid, root)
              (mkD (parent root) (to_directory_ownership lookup root)) (mkSt [root] [] false) items) as [s|e'];
    [|discriminate].
  destruct HW as [HW|(c & ds & n & a & HV & Hin & Hsk & HD)].
  - unfold file_err in HW. rewrite Hl in HW. destruct HW as [HW _]. congruence.
  - destruct (covered_all lookup ast ffacts root s Hrun c ds (ModDecl n a) HV Hin) as [_ HN].
    exact (HN Hsk e HD).
Qed.

(* ---- unconditional facts ---- *)

Lemma resolve_keys_nodup : forall fuel cfg root S, resolve_fuel fuel cfg root = Ok S ->
  NoDup S /\ StronglySorted plt S.
Proof.
  intros fuel cfg root S H. unfold Model.resolve_fuel_gen in H.
  destruct (skip_children cfg && negb (input_is_stdin cfg) && path_ignored lookup ffacts root).
  { inversion H; subst. split; constructor. }
  destruct (lookup root) as [[rid|]|]; try discriminate.
  destruct (ast rid) as [items|]; try discriminate.
  match type of H with match ?X with _ => _ end = _ => destruct X as [s|e] eqn:E end; [|discriminate].
  inversion H; subst S. clear H.
  assert (Hn : NoDup (keys (fmap s))).
  { destruct (negb (input_is_stdin cfg) && negb (skip_children cfg)).
    - eapply (visit_items_pres lookup ast ffacts fixed (fun fm => NoDup (keys fm))); [| |exact E].
      + intros fm p m Hfm. apply fm_or_insert_nodup. exact Hfm.
      + constructor.
    - inversion E; subst. constructor. }
  change (map fst ?l) with (keys l). split; [apply final_nodup | apply final_sorted]; apply fm_set_nodup; exact Hn.
Qed.

Lemma skip_children_only_root_lemma : forall fuel cfg root S,
  skip_children cfg = true -> resolve_fuel fuel cfg root = Ok S -> forall p, In p S -> p = root.
Proof.
  intros fuel cfg root S Hsc H p Hp. unfold Model.resolve_fuel_gen in H. rewrite Hsc in H.
  destruct (true && negb (input_is_stdin cfg) && path_ignored lookup ffacts root).
  { inversion H; subst. destruct Hp. }
  destruct (lookup root) as [[rid|]|]; try discriminate.
  destruct (ast rid) as [items|]; try discriminate.
  cbn [negb] in H. rewrite andb_false_r in H. cbv beta iota in H. injection H as <-.
  apply (final_root_only cfg root rid p) in Hp. apply Hp.
Qed.

Lemma stdin_only_root_lemma : forall fuel cfg root S,
  input_is_stdin cfg = true -> resolve_fuel fuel cfg root = Ok S -> S = [root].
Proof.
  intros fuel cfg root S Hst H. unfold Model.resolve_fuel_gen in H. rewrite Hst in H.
  cbn [negb andb] in H. rewrite andb_false_r in H. cbn [andb] in H.
  destruct (lookup root) as [[rid|]|]; try discriminate.
  destruct (ast rid) as [items|]; try discriminate.
  inversion H; subst S. cbn [fmap fm_set filter app sort_fm fold_right insert_sorted].
  unfold keep. rewrite Hst. cbn. reflexivity.
Qed.

End Top.

(* ================================================================================================ *)
(* G. fuel: on a finite lookup the already-parsed check bounds the nesting of files *)

Section Fuel.
Variable lookup : path -> option node.
Variable ast : N -> option (list decl).
Variable ffacts : N -> facts.
Variable fixed : bool.
Variable files : list path.
Hypothesis Hfin : forall p id, lookup p = Some (File id) -> In p files.

Notation visit_item := (visit_item lookup ast ffacts fixed).
Notation visit_items := (visit_items lookup ast ffacts fixed).
Notation find_external_module := (find_external_module lookup ast ffacts).
Notation parse_file := (parse_file lookup ast).

Definition FI (s : st) : Prop := NoDup (parsed s) /\ incl (parsed s) files.
Definition Grow (s s1 : st) : Prop := (FI s -> FI s1) /\ incl (parsed s) (parsed s1).

Lemma Grow_refl : forall s, Grow s s.
Proof. intros s. split; [exact (fun H => H) | apply incl_refl]. Qed.

Lemma Grow_trans : forall a b c, Grow a b -> Grow b c -> Grow a c.
Proof. intros a b c [H1 H2] [H3 H4]. split; [intros H; apply H3, H1, H | eapply incl_tran; eassumption]. Qed.

Lemma Grow_add : forall s p id, lookup p = Some (File id) -> Grow s (add_parsed s p) /\ In p (parsed (add_parsed s p)).
Proof.
  intros s p id Hl. unfold add_parsed. destruct (mem p (parsed s)) eqn:E.
  - split; [apply Grow_refl | apply mem_In; exact E].
  - apply mem_false in E. cbn [parsed]. split; [|left; reflexivity]. split.
    + intros [H1 H2]. split; cbn [parsed]; [constructor; assumption|].
      intros x [<-|Hx]; [eapply Hfin; exact Hl | apply H2, Hx].
    + intros x Hx. right. exact Hx.
Qed.

Lemma Grow_sticky : forall s, Grow s (set_sticky s).
Proof. intros s. split; [exact (fun H => H) | apply incl_refl]. Qed.

Lemma parse_file_grow : forall s p s1 r, parse_file s p = (s1, r) ->
  Grow s s1 /\ (forall id items, r = PMod id items -> In p (parsed s1)).
Proof.
  intros s p s1 r H. unfold Model.parse_file in H. destruct (lookup p) as [[id|]|] eqn:Hl.
  - destruct (Grow_add s p id Hl) as [HG HIn].
    destruct (ast id) as [items|]; [destruct (sticky s)|]; inversion H; subst.
    + split; [exact HG | intros ? ? E; discriminate].
    + split; [exact HG | intros ? ? _; exact HIn].
    + split; [eapply Grow_trans; [exact HG | apply Grow_sticky] | intros ? ? E; discriminate].
  - inversion H; subst. split; [apply Grow_sticky | intros ? ? E; discriminate].
  - inversion H; subst. split; [apply Grow_sticky | intros ? ? E; discriminate].
Qed.

Definition NewFile (P0 P1 : list path) (e : ext) : Prop :=
  match snd e with SFile _ _ => ~ In (fst (fst e)) P0 /\ In (fst (fst e)) P1 | SClone => True end.

Lemma NewFile_mono : forall P0 P0' P1 P1' e, incl P0' P0 -> incl P1 P1' -> NewFile P0 P1 e -> NewFile P0' P1' e.
Proof.
  intros P0 P0' P1 P1' e H0 H1 H. unfold NewFile in *. destruct (snd e); [|exact I].
  destruct H as [Ha Hb]. split; [intros Hx; apply Ha, H0, Hx | apply H1, Hb].
Qed.

Lemma outside_one_grow : forall s dir q s1 es, outside_one lookup ast ffacts s dir q = (s1, es) ->
  Grow s s1 /\ Forall (NewFile (parsed s) (parsed s1)) es.
Proof.
  intros s dir q s1 es H. unfold outside_one in H.
  destruct (negb (exists_ lookup (dir ++ q))); [inversion H; subst; split; [apply Grow_refl | constructor]|].
  destruct (is_parsed s (dir ++ q)) eqn:Ep.
  { inversion H; subst. split; [apply Grow_refl|]. constructor; [exact I | constructor]. }
  apply mem_false in Ep. destruct (parse_file s (dir ++ q)) as [s2 r] eqn:E.
  apply parse_file_grow in E as [HG HIn].
  destruct r as [id items| |]; [destruct (inner_skip (ffacts id))| |]; inversion H; subst;
    (split; [exact HG|]); try constructor.
  - split; [exact Ep | eapply HIn; reflexivity].
  - constructor.
Qed.

Lemma outside_grow : forall qs s dir s1 es, find_mods_outside_of_ast lookup ast ffacts s dir qs = (s1, es) ->
  Grow s s1 /\ Forall (NewFile (parsed s) (parsed s1)) es.
Proof.
  induction qs as [|q qs IH]; intros s dir s1 es H; cbn [find_mods_outside_of_ast] in H.
  - inversion H; subst. split; [apply Grow_refl | constructor].
  - destruct (outside_one lookup ast ffacts s dir q) as [s2 here] eqn:E1.
    destruct (find_mods_outside_of_ast lookup ast ffacts s2 dir qs) as [s3 rest] eqn:E2.
    inversion H; subst. apply outside_one_grow in E1 as [G1 F1]. apply IH in E2 as [G2 F2].
    split; [eapply Grow_trans; eassumption|]. apply Forall_app. split.
    + eapply Forall_impl; [|exact F1]. intros e He. eapply NewFile_mono; [apply incl_refl | apply G2 | exact He].
    + eapply Forall_impl; [|exact F2]. intros e He. eapply NewFile_mono; [apply G1 | apply incl_refl | exact He].
Qed.

Lemma fem_grow : forall s d n a s1 r, find_external_module s d n a = (s1, r) ->
  Grow s s1 /\ r <> Err OutOfFuel /\ forall ok, r = Ok ok -> Forall (NewFile (parsed s) (parsed s1)) (exts_of ok).
Proof.
  intros s d n a s1 r H. unfold Model.find_external_module in H.
  destruct (path_attr a) as [q|].
  - destruct (is_parsed s (dpath d ++ q)) eqn:Ep.
    { inversion H; subst. split; [apply Grow_refl|]. split; [discriminate|]. intros ok E. inversion E; subst. constructor. }
    apply mem_false in Ep. destruct (parse_file s (dpath d ++ q)) as [s2 r2] eqn:E. apply parse_file_grow in E as [HG HIn].
    destruct r2 as [id items| |]; [destruct (inner_skip (ffacts id))| |]; inversion H; subst;
      (split; [exact HG|]); (split; [discriminate|]); intros ok E; inversion E; subst; cbn [exts_of]; constructor.
    + split; [exact Ep | eapply HIn; reflexivity].
    + constructor.
  - destruct (find_mods_outside_of_ast lookup ast ffacts s (dpath d) (cfg_attr_paths a)) as [s0 outside] eqn:E0.
    apply outside_grow in E0 as [G0 F0].
    destruct (default_submod_path lookup n (relative_of (down d)) (dpath d)) as [[fp o]|e] eqn:Ed.
    + cbv zeta in H.
      set (clone := if negb (existsb (fun e : ext => path_eqb (fst (fst e)) fp) outside) then [(fp, o, SClone)] else []) in *.
      assert (Fc : forall P0 P1, Forall (NewFile P0 P1) clone).
      { intros P0 P1. unfold clone. destruct (negb _); constructor; [exact I | constructor]. }
      destruct (is_parsed s0 fp) eqn:Ep.
      * destruct (is_nil outside); inversion H; subst; (split; [exact G0|]); (split; [discriminate|]);
          intros ok E; inversion E; subst; cbn [exts_of]; [constructor|]. apply Forall_app. split; [exact F0 | apply Fc].
      * apply mem_false in Ep. destruct (parse_file s0 fp) as [s2 r2] eqn:E. apply parse_file_grow in E as [HG HIn].
        assert (G2 : Grow s s2) by (eapply Grow_trans; eassumption).
        assert (F0' : Forall (NewFile (parsed s) (parsed s2)) outside).
        { eapply Forall_impl; [|exact F0]. intros e He. eapply NewFile_mono; [apply incl_refl | apply HG | exact He]. }
        destruct r2 as [id items| |].
        -- destruct (inner_skip (ffacts id)); [|destruct (is_nil outside)]; inversion H; subst;
             (split; [exact G2|]); (split; [discriminate|]); intros ok E; inversion E; subst; cbn [exts_of].
           ++ constructor.
           ++ constructor; [|constructor]. split; [intros Hx; apply Ep, G0, Hx | eapply HIn; reflexivity].
           ++ apply Forall_app. split; [exact F0'|]. constructor; [|apply Fc].
              split; [intros Hx; apply Ep, G0, Hx | eapply HIn; reflexivity].
        -- inversion H; subst. split; [exact G2|]. split; [discriminate|]. intros ok E; discriminate.
        -- destruct (is_nil outside); inversion H; subst; (split; [exact G2|]); (split; [discriminate|]);
             intros ok E; inversion E; subst; cbn [exts_of]. apply Forall_app. split; [exact F0' | apply Fc].
    + unfold default_submod_path, rustc_default_submod_path in Ed.
      assert (Hne : e <> OutOfFuel).
      { destruct (Model.is_file lookup _), (Model.is_file lookup _) in Ed; try (inversion Ed; subst; discriminate).
        destruct (relative_of (down d)).
        - destruct (Model.is_file lookup _), (Model.is_file lookup _) in Ed; inversion Ed; subst; discriminate.
        - inversion Ed; subst; discriminate. }
      destruct (is_nil outside); inversion H; subst; (split; [exact G0|]).
      * split; [congruence|]. intros ok E; discriminate.
      * split; [discriminate|]. intros ok E; inversion E; subst; cbn [exts_of]. exact F0.
Qed.

Definition fuel_ok (fuel : nat) (s : st) : Prop := (length files < fuel + length (parsed s))%nat.
Definition NoOOF (s : st) (r : res st) : Prop :=
  match r with Ok s' => FI s' /\ incl (parsed s) (parsed s') | Err e => e <> OutOfFuel end.

Lemma fuel_ok_mono : forall fuel s s', FI s' -> incl (parsed s) (parsed s') -> NoDup (parsed s) ->
  fuel_ok fuel s -> fuel_ok fuel s'.
Proof.
  intros fuel s s' _ Hi Hn H. unfold fuel_ok in *. pose proof (NoDup_incl_length Hn Hi). lia.
Qed.

Lemma fold_noof : forall (A : Type) (f : st -> A -> res st) (l : list A),
  (forall x s, In x l -> FI s -> NoOOF s (f s x)) ->
  forall s, FI s -> NoOOF s (fold_res f l s).
Proof.
  intros B f l. induction l as [|x l IH]; intros Hf s Hs; cbn [fold_res].
  - split; [exact Hs | apply incl_refl].
  - pose proof (Hf x s (or_introl eq_refl) Hs) as Hx. destruct (f s x) as [s1|e]; [|exact Hx].
    destruct Hx as [H1 H2]. specialize (IH (fun y t Hy => Hf y t (or_intror Hy)) s1 H1).
    destruct (fold_res f l s1) as [s2|e]; [|exact IH]. destruct IH as [H3 H4].
    split; [exact H3 | eapply incl_tran; eassumption].
Qed.

Lemma insert_exts_parsed : forall cur es s, parsed (fold_left (insert_ext fixed cur) es s) = parsed s.
Proof.
  intros cur es. induction es as [|e es IH]; intros s; cbn [fold_left]; [reflexivity|]. rewrite IH.
  unfold insert_ext. destruct (negb fixed || span_in_file cur e); reflexivity.
Qed.

Definition items_noof (f : nat) : Prop :=
  forall items cur d s, FI s -> fuel_ok f s -> NoOOF s (visit_items f cur d s items).

Lemma exts_noof : forall fuel P0 P1,
  (forall f, fuel = S f -> items_noof f) ->
  NoDup P0 -> incl P0 P1 -> (length files < fuel + length P0)%nat ->
  forall es, Forall (NewFile P0 P1) es ->
  forall t, FI t -> incl P1 (parsed t) -> NoOOF t (fold_res (visit_ext lookup ast ffacts fixed fuel) es t).
Proof.
  intros fuel P0 P1 HIH Hn0 H01 Hlen es HF. induction HF as [|e es He HF IH]; intros t Ht Hit; cbn [fold_res].
  - split; [exact Ht | apply incl_refl].
  - assert (Hx : NoOOF t (visit_ext lookup ast ffacts fixed fuel t e)).
    { unfold visit_ext, visit_src, NewFile in *. destruct (snd e) as [id items|]; [|split; [exact Ht | apply incl_refl]].
      destruct He as [Hq0 Hq1]. destruct fuel as [|f].
      - exfalso. destruct Ht as [Hn Hi].
        assert (Hc : incl (fst (fst e) :: P0) (parsed t)).
        { intros x [<-|Hx]; [apply Hit, Hq1 | apply Hit, H01, Hx]. }
        assert (Hnd : NoDup (fst (fst e) :: P0)) by (constructor; assumption).
        pose proof (NoDup_incl_length Hnd Hc) as L1. pose proof (NoDup_incl_length Hn Hi) as L2.
        cbn [length] in L1. lia.
      - apply (HIH f eq_refl); [exact Ht|]. unfold fuel_ok.
        assert (Hc : incl (fst (fst e) :: P0) (parsed t)).
        { intros x [<-|Hx]; [apply Hit, Hq1 | apply Hit, H01, Hx]. }
        assert (Hnd : NoDup (fst (fst e) :: P0)) by (constructor; assumption).
        pose proof (NoDup_incl_length Hnd Hc) as L1. cbn [length] in L1. lia. }
    destruct (visit_ext lookup ast ffacts fixed fuel t e) as [t1|e']; [|exact Hx]. destruct Hx as [H1 H2].
    specialize (IH t1 H1 (incl_tran Hit H2)).
    destruct (fold_res (visit_ext lookup ast ffacts fixed fuel) es t1) as [t2|e']; [|exact IH].
    destruct IH as [H3 H4]. split; [exact H3 | eapply incl_tran; eassumption].
Qed.

Lemma decl_noof : forall fuel n a cur d s,
  (forall f, fuel = S f -> items_noof f) ->
  FI s -> fuel_ok fuel s -> NoOOF s (visit_item fuel (ModDecl n a) cur d s).
Proof.
  intros fuel n a cur d s HIH Hs Hf. rewrite visit_decl_uniform.
  destruct (skip a); [split; [exact Hs | apply incl_refl]|].
  destruct (find_external_module s d n a) as [s1 r] eqn:E. apply fem_grow in E as ([G1 G2] & Hne & HF).
  destruct r as [ok|e]; [|cbn [NoOOF]; intros ->; apply Hne; reflexivity]. specialize (HF ok eq_refl).
  set (s2 := fold_left (insert_ext fixed cur) (exts_of ok) s1).
  assert (Hp2 : parsed s2 = parsed s1) by apply insert_exts_parsed.
  assert (Hs2 : FI s2) by (unfold FI; rewrite Hp2; apply G1, Hs).
  pose proof (exts_noof fuel (parsed s) (parsed s1) HIH (proj1 Hs) G2 Hf (exts_of ok) HF s2 Hs2) as Hgoal.
  rewrite Hp2 in Hgoal. specialize (Hgoal (incl_refl _)).
  destruct (fold_res (visit_ext lookup ast ffacts fixed fuel) (exts_of ok) s2) as [s3|e]; [|exact Hgoal].
  destruct Hgoal as [H3 H4]. split; [exact H3|]. rewrite Hp2 in H4. eapply incl_tran; eassumption.
Qed.

Lemma item_noof_step : forall fuel, (forall f, fuel = S f -> items_noof f) ->
  forall it cur d s, FI s -> fuel_ok fuel s -> NoOOF s (visit_item fuel it cur d s).
Proof.
  intros fuel HIH it. induction it as [n a|n a b IHb|b IHb|b IHb|] using decl_ind'; intros cur d s Hs Hf.
  - apply decl_noof; assumption.
  - rewrite visit_item_eq. destruct (skip a); [split; [exact Hs | apply incl_refl]|].
    assert (Hgen : forall l t, incl l b -> FI t -> fuel_ok fuel t ->
              NoOOF t (fold_res (fun s1 m => visit_item fuel m cur (push_inline_mod_directory lookup d n a) s1) l t)).
    { induction l as [|x l IHl]; intros t Hl Ht Hft; cbn [fold_res]; [split; [exact Ht | apply incl_refl]|].
      rewrite Forall_forall in IHb.
      pose proof (IHb x (Hl x (or_introl eq_refl)) cur (push_inline_mod_directory lookup d n a) t Ht Hft) as Hx.
      destruct (visit_item fuel x cur (push_inline_mod_directory lookup d n a) t) as [t1|e]; [|exact Hx].
      destruct Hx as [H1 H2].
      assert (Hf1 : fuel_ok fuel t1) by (eapply fuel_ok_mono; [exact H1 | exact H2 | apply Ht | exact Hft]).
      specialize (IHl t1 (fun y Hy => Hl y (or_intror Hy)) H1 Hf1).
      destruct (fold_res _ l t1) as [t2|e]; [|exact IHl]. destruct IHl as [H3 H4].
      split; [exact H3 | eapply incl_tran; eassumption]. }
    apply Hgen; [apply incl_refl | exact Hs | exact Hf].
  - rewrite visit_item_eq.
    assert (Hgen : forall l t, incl l b -> FI t -> fuel_ok fuel t ->
              NoOOF t (fold_res (fun s1 m => match m with
                                             | ModDecl _ _ | ModInline _ _ _ => visit_item fuel m cur d s1
                                             | _ => Ok s1 end) l t)).
    { induction l as [|x l IHl]; intros t Hl Ht Hft; cbn [fold_res]; [split; [exact Ht | apply incl_refl]|].
      rewrite Forall_forall in IHb.
      assert (Hx : NoOOF t (match x with
                            | ModDecl _ _ | ModInline _ _ _ => visit_item fuel x cur d t
                            | _ => Ok t end)).
      { destruct x; try (split; [exact Ht | apply incl_refl]);
          apply IHb; try assumption; apply Hl; left; reflexivity. }
      destruct (match x with ModDecl _ _ | ModInline _ _ _ => visit_item fuel x cur d t | _ => Ok t end) as [t1|e];
        [|exact Hx].
      destruct Hx as [H1 H2].
      assert (Hf1 : fuel_ok fuel t1) by (eapply fuel_ok_mono; [exact H1 | exact H2 | apply Ht | exact Hft]).
      specialize (IHl t1 (fun y Hy => Hl y (or_intror Hy)) H1 Hf1).
      destruct (fold_res _ l t1) as [t2|e]; [|exact IHl]. destruct IHl as [H3 H4].
      split; [exact H3 | eapply incl_tran; eassumption]. }
    apply Hgen; [apply incl_refl | exact Hs | exact Hf].
  - rewrite visit_item_eq.
    assert (Hgen : forall l t, incl l b -> FI t -> fuel_ok fuel t ->
              NoOOF t (fold_res (fun s1 m => match m with
                                             | ModDecl _ _ | ModInline _ _ _ => visit_item fuel m cur d s1
                                             | _ => Ok s1 end) l t)).
    { induction l as [|x l IHl]; intros t Hl Ht Hft; cbn [fold_res]; [split; [exact Ht | apply incl_refl]|].
      rewrite Forall_forall in IHb.
      assert (Hx : NoOOF t (match x with
                            | ModDecl _ _ | ModInline _ _ _ => visit_item fuel x cur d t
                            | _ => Ok t end)).
      { destruct x; try (split; [exact Ht | apply incl_refl]);
          apply IHb; try assumption; apply Hl; left; reflexivity. }
      destruct (match x with ModDecl _ _ | ModInline _ _ _ => visit_item fuel x cur d t | _ => Ok t end) as [t1|e];
        [|exact Hx].
      destruct Hx as [H1 H2].
      assert (Hf1 : fuel_ok fuel t1) by (eapply fuel_ok_mono; [exact H1 | exact H2 | apply Ht | exact Hft]).
      specialize (IHl t1 (fun y Hy => Hl y (or_intror Hy)) H1 Hf1).
      destruct (fold_res _ l t1) as [t2|e]; [|exact IHl]. destruct IHl as [H3 H4].
      split; [exact H3 | eapply incl_tran; eassumption]. }
    apply Hgen; [apply incl_refl | exact Hs | exact Hf].
  - rewrite visit_item_eq. split; [exact Hs | apply incl_refl].
Qed.

Lemma items_noof_of : forall fuel,
  (forall it cur d s, FI s -> fuel_ok fuel s -> NoOOF s (visit_item fuel it cur d s)) -> items_noof fuel.
Proof.
  intros fuel H items cur d. unfold Model.visit_items.
  induction items as [|x l IHl]; intros s Hs Hf; cbn [fold_res]; [split; [exact Hs | apply incl_refl]|].
  pose proof (H x cur d s Hs Hf) as Hx. destruct (visit_item fuel x cur d s) as [t1|e]; [|exact Hx].
  destruct Hx as [H1 H2].
  assert (Hf1 : fuel_ok fuel t1) by (eapply fuel_ok_mono; [exact H1 | exact H2 | apply Hs | exact Hf]).
  specialize (IHl t1 H1 Hf1). destruct (fold_res _ l t1) as [t2|e]; [|exact IHl]. destruct IHl as [H3 H4].
  split; [exact H3 | eapply incl_tran; eassumption].
Qed.

Lemma items_noof_all : forall fuel, items_noof fuel.
Proof.
  induction fuel as [|f IHf]; apply items_noof_of; apply item_noof_step.
  - intros f Hf. discriminate.
  - intros f' Hf. inversion Hf; subst. exact IHf.
Qed.

Lemma resolve_fuel_enough_lemma : forall fuel cfg root,
  (length files <= fuel)%nat -> resolve_fuel_gen lookup ast ffacts fixed fuel cfg root <> Err OutOfFuel.
Proof.
  intros fuel cfg root Hlen. unfold resolve_fuel_gen.
  destruct (skip_children cfg && negb (input_is_stdin cfg) && path_ignored lookup ffacts root); [discriminate|].
  destruct (lookup root) as [[rid|]|] eqn:Hl; try discriminate.
  destruct (ast rid) as [items|]; try discriminate.
  destruct (negb (input_is_stdin cfg) && negb (skip_children cfg)); [|discriminate].
  assert (Hs : FI (mkSt [root] [] false)).
  { split; cbn [parsed]; [constructor; [intros [] | constructor]|]. intros x [<-|[]]. eapply Hfin. exact Hl. }
  assert (Hf : fuel_ok fuel (mkSt [root] [] false)) by (unfold fuel_ok; cbn [parsed length]; lia).
  pose proof (items_noof_all fuel items (rid, root)
                (mkD (parent root) (if input_is_stdin cfg then Unowned else to_directory_ownership lookup root))
                _ Hs Hf) as H.
  destruct (visit_items fuel (rid, root) _ (mkSt [root] [] false) items) as [s|e]; [discriminate|].
  cbn [NoOOF] in H. intros E. inversion E; subst. apply H. reflexivity.
Qed.

End Fuel.

(* ================================================================================================ *)
(* H. checkers for concrete trees: closure of the successor function, Tame *)

Lemma opt_eqb_sound : forall (A : Type) (f : A -> A -> bool), (forall x y, f x y = true -> x = y) ->
  forall x y, opt_eqb f x y = true -> x = y.
Proof.
  intros A f Hf [x|] [y|] H; cbn [opt_eqb] in H; try discriminate; [f_equal; apply Hf, H | reflexivity].
Qed.

Lemma list_eqb_sound : forall (A : Type) (f : A -> A -> bool) (x : list A),
  Forall (fun a => forall b, f a b = true -> a = b) x -> forall y, list_eqb f x y = true -> x = y.
Proof.
  intros A f x H. induction H as [|a x Ha Hx IH]; intros [|b y] E; cbn [list_eqb] in E; try discriminate; [reflexivity|].
  apply andb_true_iff in E as [E1 E2]. f_equal; [apply Ha, E1 | apply IH, E2].
Qed.

Lemma path_list_eqb_sound : forall x y : list path, list_eqb path_eqb x y = true -> x = y.
Proof.
  intros x. apply list_eqb_sound. apply Forall_forall. intros a _ b E. apply path_eqb_eq. exact E.
Qed.

Lemma attrs_eqb_sound : forall a b, attrs_eqb a b = true -> a = b.
Proof.
  intros [pa ca sa] [pb cb sb] H. unfold attrs_eqb in H. cbn [path_attr cfg_attr_paths skip] in H.
  apply andb_true_iff in H as [H H3]. apply andb_true_iff in H as [H1 H2].
  apply opt_eqb_sound in H1; [|intros x y E; apply path_eqb_eq; exact E].
  apply path_list_eqb_sound in H2. apply Bool.eqb_prop in H3. subst. reflexivity.
Qed.

Lemma decl_eqb_sound : forall x y, decl_eqb x y = true -> x = y.
Proof.
  assert (Hgo : forall (go : list decl -> list decl -> bool) b,
            (forall l1 l2, go l1 l2 = match l1, l2 with
                                       | [], [] => true
                                       | u :: l1', v :: l2' => decl_eqb u v && go l1' l2'
                                       | _, _ => false
                                       end) ->
            Forall (fun a => forall y, decl_eqb a y = true -> a = y) b ->
            forall b', go b b' = true -> b = b').
  { intros go b Hgo HF. induction HF as [|x l Hx Hl IH]; intros [|y l2] E; rewrite Hgo in E; try discriminate;
      [reflexivity|]. apply andb_true_iff in E as [E1 E2]. f_equal; [apply Hx, E1 | apply IH, E2]. }
  intros x. induction x as [n a|n a b IHb|b IHb|b IHb|] using decl_ind'; intros [m a'|m a' b'|b'|b'|] H;
    cbn [decl_eqb] in H; try discriminate.
  - apply andb_true_iff in H as [H1 H2]. apply N.eqb_eq in H1. apply attrs_eqb_sound in H2. subst. reflexivity.
  - apply andb_true_iff in H as [H H3]. apply andb_true_iff in H as [H1 H2].
    apply N.eqb_eq in H1. apply attrs_eqb_sound in H2. subst. f_equal.
    match type of H3 with ?g b b' = true => apply (Hgo g b) end; [|exact IHb|exact H3].
    intros [|u l1] [|v l2]; reflexivity.
  - f_equal. match type of H with ?g b b' = true => apply (Hgo g b) end; [|exact IHb|exact H].
    intros [|u l1] [|v l2]; reflexivity.
  - f_equal. match type of H with ?g b b' = true => apply (Hgo g b) end; [|exact IHb|exact H].
    intros [|u l1] [|v l2]; reflexivity.
  - reflexivity.
Qed.

Lemma ctx_eqb_sound : forall a b, ctx_eqb a b = true -> a = b.
Proof.
  intros [da ra] [db rb] H. unfold ctx_eqb in H. cbn [cdir crel] in H. apply andb_true_iff in H as [H1 H2].
  apply path_eqb_eq in H1. apply opt_eqb_sound in H2; [|intros x y E; apply N.eqb_eq; exact E]. subst. reflexivity.
Qed.

Lemma lnode_eqb_sound : forall a b, lnode_eqb a b = true -> a = b.
Proof.
  intros [ca da] [cb db] H. unfold lnode_eqb in H. cbn [fst snd] in H. apply andb_true_iff in H as [H1 H2].
  apply ctx_eqb_sound in H1. apply (list_eqb_sound decl decl_eqb da) in H2.
  - subst. reflexivity.
  - apply Forall_forall. intros x _ y E. apply decl_eqb_sound. exact E.
Qed.

Lemma lnode_mem_In : forall x l, lnode_mem x l = true -> In x l.
Proof.
  intros x l H. unfold lnode_mem in H. apply existsb_exists in H as (y & Hy & E).
  apply lnode_eqb_sound in E. subst. exact Hy.
Qed.

Section Check.
Variable lookup : path -> option node.
Variable ast : N -> option (list decl).
Variable ffacts : N -> facts.

Lemma closed_nodes_sound : forall fb pr root l,
  closed_nodes lookup ast ffacts fb pr root l = true ->
  forall c ds, Visit lookup ast ffacts fb pr root c ds -> In (c, ds) l.
Proof.
  intros fb pr root l H c ds HV. unfold closed_nodes in H. apply andb_true_iff in H as [H1 H2].
  rewrite forallb_forall in H1, H2. induction HV as [rid items Hl Ha|c ds d c' ds' HV IH Hd Hs].
  - apply lnode_mem_In, H1. unfold root_nodes. rewrite Hl, Ha. left. reflexivity.
  - specialize (H2 _ IH). rewrite forallb_forall in H2. apply lnode_mem_In, H2.
    unfold succs. cbn [fst snd]. apply in_flat_map. exists d. split; assumption.
Qed.

Lemma reach_in_files : forall fb pr root l,
  closed_nodes lookup ast ffacts fb pr root l = true ->
  forall p, ReachG lookup ast ffacts fb pr root p -> In p (files_of_nodes lookup fb pr root l).
Proof.
  intros fb pr root l H p [->|(c & ds & d & HV & Hd & Hp)]; unfold files_of_nodes; [left; reflexivity|].
  right. apply in_flat_map. exists (c, ds). split; [eapply closed_nodes_sound; eassumption|].
  cbn [fst snd]. apply in_flat_map. exists d. split; assumption.
Qed.

Lemma not_reach_by_check : forall fb pr root l p,
  closed_nodes lookup ast ffacts fb pr root l = true ->
  mem p (files_of_nodes lookup fb pr root l) = false -> ~ ReachG lookup ast ffacts fb pr root p.
Proof.
  intros fb pr root l p H Hm Hr. apply mem_false in Hm. apply Hm. eapply reach_in_files; eassumption.
Qed.

Lemma tame_check_sound : forall root l,
  closed_nodes lookup ast ffacts true true root l = true ->
  tame_check lookup ast ffacts root l = true -> Tame lookup ast ffacts root.
Proof.
  intros root l Hcl H. unfold tame_check in H.
  apply andb_true_iff in H as [H H6]. apply andb_true_iff in H as [H H5]. apply andb_true_iff in H as [H H4].
  apply andb_true_iff in H as [H H3]. apply andb_true_iff in H as [H1 H2].
  pose proof (closed_nodes_sound true true root l Hcl) as HL.
  rewrite forallb_forall in H2, H3, H4, H5, H6.
  assert (Htg : forall c ds n a t, Visit lookup ast ffacts true true root c ds -> In (ModDecl n a) ds ->
            skip a = false -> In t (decl_targets lookup true c n a) -> In t (flat_map (node_targets lookup) l)).
  { intros c ds n a t HV Hin Hsk Ht. apply in_flat_map. exists (c, ds). split; [apply HL, HV|].
    unfold node_targets. cbn [fst snd]. apply in_flat_map. exists (ModDecl n a). split; [exact Hin|].
    rewrite Hsk. exact Ht. }
  constructor.
  - destruct (to_directory_ownership lookup root); [discriminate | reflexivity].
  - intros c ds n a b r HV Hin Hsk Hpa Hr E1 E2. specialize (H2 _ (HL _ _ HV)). cbn [fst snd] in H2.
    rewrite forallb_forall in H2. specialize (H2 _ Hin). cbn [heur_ok] in H2.
    rewrite Hsk, Hpa, Hr, E1, E2 in H2. exact H2.
  - intros c1 ds1 n1 a1 c2 ds2 n2 a2 p k1 k2 HV1 Hin1 Hsk1 HV2 Hin2 Hsk2 Ht1 Ht2.
    pose proof (Htg _ _ _ _ _ HV1 Hin1 Hsk1 Ht1) as G1. pose proof (Htg _ _ _ _ _ HV2 Hin2 Hsk2 Ht2) as G2.
    specialize (H3 _ G1). rewrite forallb_forall in H3. specialize (H3 _ G2). cbn [fst snd] in H3.
    rewrite path_eqb_refl in H3. cbn [implb] in H3. apply ctx_eqb_sound. exact H3.
  - intros c ds n a k HV Hin Hsk Ht. pose proof (Htg _ _ _ _ _ HV Hin Hsk Ht) as G.
    specialize (H4 _ G). cbn [fst snd] in H4. rewrite path_eqb_refl in H4. cbn [implb] in H4.
    apply ctx_eqb_sound. exact H4.
  - intros c ds HV. exact (H5 _ (HL _ _ HV)).
  - intros c ds n a q HV Hin Hsk Hpa Hq Ex. specialize (H6 _ (HL _ _ HV)). cbn [fst snd] in H6.
    rewrite forallb_forall in H6. specialize (H6 _ Hin). cbn [cfg_attr_ok] in H6. rewrite Hsk, Hpa in H6.
    rewrite forallb_forall in H6. specialize (H6 _ Hq). rewrite Ex in H6. apply andb_true_iff in H6 as [G1 G2]. split.
    + destruct (lookup (cdir c ++ q)) as [[id|]|]; try discriminate.
      destruct (ast id) as [items|] eqn:Ea; [|discriminate]. exists id, items.
      split; [reflexivity|]. split; [exact Ea|]. apply negb_true_iff. exact G1.
    + intros p k id Hld Hl. rewrite Hld in G2. unfold file_noskip in G2. rewrite Hl in G2. apply negb_true_iff. exact G2.
Qed.

End Check.

(* ================================================================================================ *)
(* I. positive facts by computation *)

Section Positive.
Variable lookup : path -> option node.
Variable ast : N -> option (list decl).
Variable ffacts : N -> facts.

Lemma add_new_In : forall xs acc x, In x (add_new xs acc) -> In x acc \/ In x xs.
Proof.
  induction xs as [|y xs IH]; intros acc x H; cbn [add_new] in H; [left; exact H|].
  apply IH in H as [H|H]; [|right; right; exact H].
  destruct (lnode_mem y acc); [left; exact H|]. apply in_app_iff in H as [H|[<-|[]]]; [left; exact H | right; left; reflexivity].
Qed.

Lemma lang_nodes_visit : forall fb pr root n x,
  In x (lang_nodes lookup ast ffacts fb pr root n) -> Visit lookup ast ffacts fb pr root (fst x) (snd x).
Proof.
  intros fb pr root n. induction n as [|k IH]; intros x H; cbn [lang_nodes] in H.
  - unfold root_nodes in H. destruct (lookup root) as [[rid|]|] eqn:Hl; try destruct H.
    destruct (ast rid) as [items|] eqn:Ha; [|destruct H]. destruct H as [<-|[]]. eapply V_root; eassumption.
  - apply add_new_In in H as [H|H]; [apply IH, H|].
    apply in_flat_map in H as (y & Hy & Hx). unfold succs in Hx. apply in_flat_map in Hx as (d & Hd & Hs).
    destruct x as [c' ds']. eapply V_step; [apply IH, Hy | exact Hd | exact Hs].
Qed.

Lemma visit_by_check : forall fb pr root n c ds,
  lnode_mem (c, ds) (lang_nodes lookup ast ffacts fb pr root n) = true -> Visit lookup ast ffacts fb pr root c ds.
Proof. intros fb pr root n c ds H. apply lnode_mem_In in H. apply lang_nodes_visit in H. exact H. Qed.

Lemma reach_by_check : forall fb pr root n p,
  mem p (files_of_nodes lookup fb pr root (lang_nodes lookup ast ffacts fb pr root n)) = true ->
  ReachG lookup ast ffacts fb pr root p.
Proof.
  intros fb pr root n p H. apply mem_In in H. unfold files_of_nodes in H. destruct H as [<-|H]; [left; reflexivity|].
  apply in_flat_map in H as (x & Hx & Hp). apply in_flat_map in Hp as (d & Hd & Hp).
  right. exists (fst x), (snd x), d. split; [eapply lang_nodes_visit; exact Hx|]. split; assumption.
Qed.

End Positive.

(* ================================================================================================ *)
(* J. concrete trees on which the code and the rules disagree.
   Names: the module / directory n is spelled n00n on disk, CRs n is n00n.rs. *)

Definition A0 : attrs := mkAttrs None [] false.
Definition Apath (q : path) : attrs := mkAttrs (Some q) [] false.
Definition Acfg (qs : list path) : attrs := mkAttrs None qs false.
Definition Askip : attrs := mkAttrs None [] true.
Definition cfg0 : config := mkConfig false true false.

Record world : Type := mkWorld {
  w_files : list (path * N); w_dirs : list path;
  w_asts : list (N * option (list decl)); w_facts : list (N * facts); w_root : path }.
Definition w_lookup (w : world) : path -> option node := fs_get (fs_of (w_files w) (w_dirs w)).
Definition w_ast (w : world) : N -> option (list decl) := ast_of (w_asts w).
Definition w_ff (w : world) : N -> facts := facts_of (w_facts w).
Definition w_resolve (w : world) (cfg : config) : res (list path) :=
  resolve_fuel (w_lookup w) (w_ast w) (w_ff w) 20 cfg (w_root w).
Definition w_resolve_pre (w : world) (cfg : config) : res (list path) :=
  resolve_fuel_pre (w_lookup w) (w_ast w) (w_ff w) 20 cfg (w_root w).
Definition w_Reach (w : world) := Reach (w_lookup w) (w_ast w) (w_ff w) (w_root w).
Definition w_Excluded (w : world) (cfg : config) := Excluded (w_lookup w) (w_ast w) (w_ff w) cfg (w_root w).
Definition w_nodes (w : world) (fb pr : bool) : list lnode :=
  lang_nodes (w_lookup w) (w_ast w) (w_ff w) fb pr (w_root w) 8.

Ltac reach_pos := apply (reach_by_check _ _ _ _ _ _ 8); vm_compute; reflexivity.
Ltac reach_neg w fb pr :=
  apply (not_reach_by_check (w_lookup w) (w_ast w) (w_ff w) fb pr (w_root w) (w_nodes w fb pr));
  vm_compute; reflexivity.
Ltac not_in := let H := fresh in intros H; vm_compute in H; repeat (destruct H as [H|H]; [discriminate H|]); exact H.
Ltac not_excluded w :=
  let H := fresh "H" in let id := fresh "id" in let Hl := fresh "Hl" in let Hf := fresh "Hf" in
  unfold w_Excluded, Excluded;
  intros [[_ [H|H]]|[(H & id & Hl & Hf)|H]];
  [ discriminate H | discriminate H
  | vm_compute in Hl; inversion Hl; subst id; vm_compute in Hf;
    destruct Hf as [Hf|[Hf|[Hf _]]]; discriminate Hf
  | apply H; reach_pos ].

(* W1: `#[path = "n005/../n001.rs"] mod n000; mod n001;` : n001.rs is formatted under two names *)
Definition W1 : world := mkWorld
  [([CRs 9], 0); ([CRs 1], 1)] [[CDir 5]]
  [(0, Some [ModDecl 0 (Apath [CDir 5; CUp; CRs 1]); ModDecl 1 A0])] [] [CRs 9].

Lemma w1_formatted_twice : exists S p q id,
  w_resolve W1 cfg0 = Ok S /\ In p S /\ In q S /\ p <> q /\
  w_lookup W1 p = Some (File id) /\ w_lookup W1 q = Some (File id).
Proof.
  exists [[CRs 1]; [CDir 5; CUp; CRs 1]; [CRs 9]], [CRs 1], [CDir 5; CUp; CRs 1], 1.
  split; [vm_compute; reflexivity|]. split; [left; reflexivity|]. split; [right; left; reflexivity|].
  split; [discriminate|]. split; vm_compute; reflexivity.
Qed.

(* W2: two declarations with cfg_attr(.., path = "n005.rs"), n005.rs starts with #![rustfmt::skip]:
   BEFORE the repair of insert_sub_mod n005.rs was handed to the formatter (with the Module of the second
   declaration, i.e. the root's text was written to it); the repaired code leaves it alone *)
Definition W2 : world := mkWorld
  [([CRs 9], 0); ([CRs 0], 1); ([CRs 1], 2); ([CRs 5], 3)] []
  [(0, Some [ModDecl 0 (Acfg [[CRs 5]]); ModDecl 1 (Acfg [[CRs 5]])])]
  [(3, mkFacts true false false)] [CRs 9].

Lemma w2_skipped_file_formatted : exists S p id,
  w_resolve_pre W2 cfg0 = Ok S /\ In p S /\ w_lookup W2 p = Some (File id) /\ inner_skip (w_ff W2 id) = true /\
  w_Excluded W2 cfg0 p.
Proof.
  exists [[CRs 0]; [CRs 1]; [CRs 5]; [CRs 9]], [CRs 5], 3.
  split; [vm_compute; reflexivity|]. split; [right; right; left; reflexivity|].
  split; [vm_compute; reflexivity|]. split; [vm_compute; reflexivity|].
  right. left. split; [reflexivity|]. exists 3. split; [vm_compute; reflexivity|]. left. vm_compute. reflexivity.
Qed.

Lemma w2_repaired : w_resolve W2 cfg0 = Ok [[CRs 0]; [CRs 1]; [CRs 9]].
Proof. vm_compute. reflexivity. Qed.

(* W3: n000.rs = `mod n002 { mod n001 { mod n003; } }`, only n000/n001/n003.rs exists: the language says
   missing (n000/n002/n001/n003.rs), the exists() heuristic of push_inline_mod_directory picks a decoy *)
Definition W3 : world := mkWorld
  [([CRs 9], 0); ([CRs 0], 1); ([CDir 0; CDir 1; CRs 3], 2)] [[CDir 0]; [CDir 0; CDir 1]]
  [(0, Some [ModDecl 0 A0]); (1, Some [ModInline 2 A0 [ModInline 1 A0 [ModDecl 3 A0]]])] [] [CRs 9].

Lemma w3_heuristic_guess : exists S p e,
  w_resolve W3 cfg0 = Ok S /\ In p S /\ ~ w_Reach W3 p /\
  ErrWitness (w_lookup W3) (w_ast W3) (w_ff W3) (w_root W3) e.
Proof.
  exists [[CDir 0; CDir 1; CRs 3]; [CRs 0]; [CRs 9]], [CDir 0; CDir 1; CRs 3], NotFound.
  split; [vm_compute; reflexivity|]. split; [left; reflexivity|]. split; [reach_neg W3 true false|].
  right. exists (mkC [CDir 0; CDir 2; CDir 1] None), [ModDecl 3 A0], 3, A0.
  split; [apply (visit_by_check _ _ _ _ _ _ 8); vm_compute; reflexivity|].
  split; [left; reflexivity|]. split; [reflexivity|].
  unfold DeclErr. cbn [path_attr A0].
  assert (E : lang_default (w_lookup W3) true (mkC [CDir 0; CDir 2; CDir 1] None) 3 = Err NotFound)
    by (vm_compute; reflexivity).
  rewrite E. split; [reflexivity | intros q []].
Qed.

(* W4: the input n007.rs has a sibling directory n007/: `mod n000;` is taken from n007/n000.rs, the
   language (n007.rs given to rustc as a crate root) takes ./n000.rs *)
Definition W4 : world := mkWorld
  [([CRs 7], 0); ([CDir 7; CRs 0], 1); ([CRs 0], 2)] [[CDir 7]]
  [(0, Some [ModDecl 0 A0])] [] [CRs 7].

Lemma w4_root_sibling_dir : exists S p q,
  w_resolve W4 cfg0 = Ok S /\ In p S /\ ~ w_Reach W4 p /\
  w_Reach W4 q /\ ~ w_Excluded W4 cfg0 q /\ ~ In q S.
Proof.
  exists [[CDir 7; CRs 0]; [CRs 7]], [CDir 7; CRs 0], [CRs 0].
  split; [vm_compute; reflexivity|]. split; [left; reflexivity|]. split; [reach_neg W4 true false|].
  split; [reach_pos|]. split; [not_excluded W4 | not_in].
Qed.

(* W5: n000.rs reached first by `#[path = "n000.rs"] mod n001;` then by `mod n000;`; it declares `mod n002;`:
   the language loads n002.rs (first context) and n000/n002.rs (second), the resolver only the first *)
Definition W5 : world := mkWorld
  [([CRs 9], 0); ([CRs 0], 1); ([CRs 2], 2); ([CDir 0; CRs 2], 3)] [[CDir 0]]
  [(0, Some [ModDecl 1 (Apath [CRs 0]); ModDecl 0 A0]); (1, Some [ModDecl 2 A0])] [] [CRs 9].

Lemma w5_second_context_lost : exists S p,
  w_resolve W5 cfg0 = Ok S /\ w_Reach W5 p /\ ~ w_Excluded W5 cfg0 p /\ ~ In p S.
Proof.
  exists [[CRs 0]; [CRs 2]; [CRs 9]], [CDir 0; CRs 2].
  split; [vm_compute; reflexivity|]. split; [reach_pos|]. split; [not_excluded W5 | not_in].
Qed.

(* W6: cfg_if! directly inside a cfg_if! body is not looked into *)
Definition W6 : world := mkWorld
  [([CRs 9], 0); ([CRs 0], 1)] []
  [(0, Some [CfgIf [CfgIf [ModDecl 0 A0]]])] [] [CRs 9].

Lemma w6_nested_cfg_if : exists S p,
  w_resolve W6 cfg0 = Ok S /\ w_Reach W6 p /\ ~ w_Excluded W6 cfg0 p /\ ~ In p S.
Proof.
  exists [[CRs 9]], [CRs 0].
  split; [vm_compute; reflexivity|]. split; [reach_pos|]. split; [not_excluded W6 | not_in].
Qed.

(* W7: `#[cfg_attr(.., path = "n002")] mod n001 { mod n003; }`: the cfg_attr path of an INLINE module is
   ignored (find_path_value only looks at #[path]) *)
Definition W7 : world := mkWorld
  [([CRs 9], 0); ([CDir 2; CRs 3], 1); ([CDir 1; CRs 3], 2)] [[CDir 1]; [CDir 2]]
  [(0, Some [ModInline 1 (Acfg [[CDir 2]]) [ModDecl 3 A0]])] [] [CRs 9].

Lemma w7_inline_cfg_attr_path : exists S p,
  w_resolve W7 cfg0 = Ok S /\ w_Reach W7 p /\ ~ w_Excluded W7 cfg0 p /\ ~ In p S.
Proof.
  exists [[CDir 1; CRs 3]; [CRs 9]], [CDir 2; CRs 3].
  split; [vm_compute; reflexivity|]. split; [reach_pos|]. split; [not_excluded W7 | not_in].
Qed.

(* W8: an unparsable cfg_attr(path) candidate is swallowed by find_mods_outside_of_ast, stays in the
   SourceMap, and the later `mod n001;` naming it is silently dropped: no error *)
Definition W8 : world := mkWorld
  [([CRs 9], 0); ([CRs 0], 1); ([CRs 1], 2)] []
  [(0, Some [ModDecl 0 A0; ModDecl 2 (Acfg [[CRs 1]; [CRs 0]]); ModDecl 1 A0]); (2, None)] [] [CRs 9].

Lemma w8_parse_error_swallowed : exists S,
  w_resolve W8 cfg0 = Ok S /\ ErrWitness (w_lookup W8) (w_ast W8) (w_ff W8) (w_root W8) ParseError.
Proof.
  exists [[CRs 0]; [CRs 9]]. split; [vm_compute; reflexivity|].
  right. exists (mkC [] None), [ModDecl 0 A0; ModDecl 2 (Acfg [[CRs 1]; [CRs 0]]); ModDecl 1 A0], 1, A0.
  split; [apply (visit_by_check _ _ _ _ _ _ 8); vm_compute; reflexivity|].
  split; [right; right; left; reflexivity|]. split; [reflexivity|].
  unfold DeclErr. cbn [path_attr A0].
  assert (E : lang_default (w_lookup W8) true (mkC [] None) 1 = Ok ([CRs 1], mkC [] (Some 1))) by (vm_compute; reflexivity).
  rewrite E. unfold file_err.
  assert (E2 : w_lookup W8 [CRs 1] = Some (File 2)) by (vm_compute; reflexivity). rewrite E2.
  split; [vm_compute; reflexivity | reflexivity].
Qed.

(* W9: `#[rustfmt::skip] mod n000;` without any file: not an error for the resolver, E0583 for the language *)
Definition W9 : world := mkWorld [([CRs 9], 0)] [] [(0, Some [ModDecl 0 Askip])] [] [CRs 9].

Lemma w9_skipped_missing_ok :
  w_resolve W9 cfg0 = Ok [[CRs 9]] /\
  lang_default (w_lookup W9) false (root_ctx (w_root W9)) 0 = Err NotFound.
Proof. split; vm_compute; reflexivity. Qed.

(* W10: `#[rustfmt::skip] mod n000;`, n000.rs = `mod n001;`: n000/n001.rs carries no skip marker, its own
   declaration neither, and it is not formatted: skipping a module skips its subtree *)
Definition W10 : world := mkWorld
  [([CRs 9], 0); ([CRs 0], 1); ([CDir 0; CRs 1], 2)] [[CDir 0]]
  [(0, Some [ModDecl 0 Askip]); (1, Some [ModDecl 1 A0])] [] [CRs 9].

Lemma w10_skip_prunes_subtree : exists S q,
  w_resolve W10 cfg0 = Ok S /\ w_Reach W10 q /\ ~ In q S /\
  ~ ReachUnskipped (w_lookup W10) (w_ast W10) (w_ff W10) (w_root W10) q.
Proof.
  exists [[CRs 9]], [CDir 0; CRs 1].
  split; [vm_compute; reflexivity|]. split; [reach_pos|]. split; [not_in | reach_neg W10 true true].
Qed.

(* W11: the documented fallback: n000.rs = `mod n001;`, no n000/ directory, ./n001.rs exists: formatted,
   while rustc reports E0583 *)
Definition W11 : world := mkWorld
  [([CRs 9], 0); ([CRs 0], 1); ([CRs 1], 2)] []
  [(0, Some [ModDecl 0 A0]); (1, Some [ModDecl 1 A0])] [] [CRs 9].

Lemma w11_fallback_fires : exists S p,
  w_resolve W11 cfg0 = Ok S /\ In p S /\ w_Reach W11 p /\
  ~ StrictReach (w_lookup W11) (w_ast W11) (w_ff W11) (w_root W11) p.
Proof.
  exists [[CRs 0]; [CRs 1]; [CRs 9]], [CRs 1].
  split; [vm_compute; reflexivity|]. split; [right; left; reflexivity|]. split; [reach_pos | reach_neg W11 false false].
Qed.

(* W12: a file that includes itself through `#[path = "n005/../n000.rs"]`: every level spells the same file
   with one more `n005/..`, is_file_parsed never fires, no amount of fuel suffices (the real resolver
   recurses until the path exceeds PATH_MAX and then reports NotFound) *)
Definition a12 : attrs := Apath [CDir 5; CUp; CRs 0].
Definition it12 : decl := ModDecl 0 a12.
Definition W12 : world := mkWorld
  [([CRs 9], 0); ([CRs 0], 1)] [[CDir 5]]
  [(0, Some [it12]); (1, Some [it12])] [] [CRs 9].

Fixpoint rep12 (k : nat) : path := match k with O => [] | S k' => rep12 k' ++ [CDir 5; CUp] end.

Lemma rep12_length : forall k, length (rep12 k) = (2 * k)%nat.
Proof. induction k as [|k IH]; cbn [rep12]; [reflexivity|]. rewrite app_length, IH. cbn [length]. lia. Qed.

Lemma w12_lookup_rep : forall k r, w_lookup W12 (rep12 k ++ r) = w_lookup W12 r.
Proof.
  induction k as [|k IH]; intros r; cbn [rep12]; [reflexivity|].
  rewrite <- app_assoc. rewrite IH. reflexivity.
Qed.

Lemma w12_paths_distinct : forall j k, rep12 j ++ [CRs 0] = rep12 k ++ [CRs 0] -> j = k.
Proof.
  intros j k H. apply (f_equal (@length comp)) in H. rewrite !app_length, !rep12_length in H. cbn [length] in H. lia.
Qed.

Lemma w12_diverges : forall fuel k s cur,
  sticky s = false -> (forall j, (k < j)%nat -> ~ In (rep12 j ++ [CRs 0]) (parsed s)) ->
  visit_item (w_lookup W12) (w_ast W12) (w_ff W12) true fuel it12 cur (mkD (rep12 k) (Owned None)) s = Err OutOfFuel.
Proof.
  induction fuel as [|f IH]; intros k s cur Hst Hnp.
  - set (p := rep12 (S k) ++ [CRs 0]).
    assert (Hp : rep12 k ++ [CDir 5; CUp; CRs 0] = p).
    { unfold p. cbn [rep12]. rewrite <- app_assoc. reflexivity. }
    assert (Hnot : mem p (parsed s) = false) by (apply mem_false, Hnp; lia).
    assert (Hl : w_lookup W12 p = Some (File 1)) by (unfold p; rewrite w12_lookup_rep; reflexivity).
    unfold it12. rewrite visit_decl_uniform. cbn [skip a12 Apath].
    unfold find_external_module. cbn [path_attr a12 Apath dpath]. rewrite Hp.
    unfold is_parsed. rewrite Hnot. unfold parse_file. rewrite Hl.
    change (w_ast W12 1) with (Some [it12]). rewrite Hst.
    change (inner_skip (w_ff W12 1)) with false. cbn [exts_of fold_left fold_res].
    unfold visit_ext, visit_src. cbn [snd]. reflexivity.
  - set (p := rep12 (S k) ++ [CRs 0]).
    assert (Hp : rep12 k ++ [CDir 5; CUp; CRs 0] = p).
    { unfold p. cbn [rep12]. rewrite <- app_assoc. reflexivity. }
    assert (Hnotin : ~ In p (parsed s)) by (apply Hnp; lia).
    assert (Hnot : mem p (parsed s) = false) by (apply mem_false, Hnotin).
    assert (Hl : w_lookup W12 p = Some (File 1)) by (unfold p; rewrite w12_lookup_rep; reflexivity).
    unfold it12. rewrite visit_decl_uniform. cbn [skip a12 Apath].
    unfold find_external_module. cbn [path_attr a12 Apath dpath]. rewrite Hp.
    unfold is_parsed. rewrite Hnot. unfold parse_file. rewrite Hl.
    change (w_ast W12 1) with (Some [it12]). rewrite Hst.
    change (inner_skip (w_ff W12 1)) with false. cbn [exts_of fold_left fold_res].
    unfold visit_ext, visit_src. cbn [snd fst]. unfold visit_items. cbn [fold_res].
    assert (Hpar : parent p = rep12 (S k)) by (unfold p; apply removelast_last).
    rewrite Hpar. fold it12. rewrite IH; [reflexivity| |].
    + unfold insert_ext. cbn [sticky]. rewrite add_parsed_new by exact Hnotin. cbn [sticky]. exact Hst.
    + intros j Hj. unfold insert_ext. cbn [parsed]. rewrite add_parsed_new by exact Hnotin. cbn [parsed].
      intros [E|HI].
      * apply w12_paths_distinct in E. lia.
      * apply (Hnp j); [lia | exact HI].
Qed.

Lemma w12_no_fuel_suffices : forall fuel,
  resolve_fuel (w_lookup W12) (w_ast W12) (w_ff W12) fuel cfg0 (w_root W12) = Err OutOfFuel.
Proof.
  intros fuel. unfold resolve_fuel, resolve_fuel_gen.
  change (skip_children cfg0 && negb (input_is_stdin cfg0) && path_ignored (w_lookup W12) (w_ff W12) (w_root W12)) with false.
  change (w_lookup W12 (w_root W12)) with (Some (File 0)). cbv iota beta.
  change (w_ast W12 0) with (Some [it12]). cbv iota beta.
  change (negb (input_is_stdin cfg0) && negb (skip_children cfg0)) with true. cbv iota.
  change (input_is_stdin cfg0) with false. cbv iota.
  change (to_directory_ownership (w_lookup W12) (w_root W12)) with Unowned.
  change (parent (w_root W12)) with (rep12 0). unfold visit_items. cbn [fold_res].
  assert (H : visit_item (w_lookup W12) (w_ast W12) (w_ff W12) true fuel it12 (0, w_root W12) (mkD (rep12 0) Unowned)
                (mkSt [w_root W12] [] false) = Err OutOfFuel).
  { (* Unowned and Owned None behave alike on a #[path] declaration *)
    assert (G : forall fuel' s, visit_item (w_lookup W12) (w_ast W12) (w_ff W12) true fuel' it12 (0, w_root W12) (mkD (rep12 0) Unowned) s
                = visit_item (w_lookup W12) (w_ast W12) (w_ff W12) true fuel' it12 (0, w_root W12) (mkD (rep12 0) (Owned None)) s).
    { intros fuel' s. unfold it12. rewrite !visit_decl_uniform. reflexivity. }
    rewrite G. apply w12_diverges; [reflexivity|].
    intros j Hj [E|[]]. apply (f_equal (@length comp)) in E. rewrite app_length, rep12_length in E. cbn in E. lia. }
  rewrite H. reflexivity.
Qed.

(* ================================================================================================ *)
(* K. finite lookups *)

Lemma fs_of_finite : forall files dirs p id, fs_of files dirs p = Some (File id) -> In p (map fst files).
Proof.
  intros files dirs p id H. unfold fs_of in H. destruct p as [|c p]; [discriminate|].
  destruct (mem (c :: p) dirs); [discriminate|].
  destruct (find (fun e => path_eqb (c :: p) (fst e)) files) as [e|] eqn:E; [|discriminate].
  apply find_some in E as [E1 E2]. apply path_eqb_eq in E2. rewrite E2. apply in_map. exact E1.
Qed.

Lemma resolve_error_iff_lemma : forall lookup ast ffacts fuel cfg root,
  Tame lookup ast ffacts root -> skip_children cfg = false -> input_is_stdin cfg = false ->
  resolve_fuel lookup ast ffacts fuel cfg root <> Err OutOfFuel ->
  ((exists e, resolve_fuel lookup ast ffacts fuel cfg root = Err e) <-> (exists e, ErrWitness lookup ast ffacts root e))
  /\ (forall e, resolve_fuel lookup ast ffacts fuel cfg root = Err e -> ErrWitness lookup ast ffacts root e).
Proof.
  intros lookup ast ffacts fuel cfg root HT Hsc Hst Hno.
  assert (Hs : forall e, resolve_fuel lookup ast ffacts fuel cfg root = Err e -> ErrWitness lookup ast ffacts root e).
  { intros e He. destruct (resolve_err_sound true lookup ast ffacts fuel cfg root e HT He) as [->|Hw]; [contradiction | exact Hw]. }
  split; [|exact Hs]. split.
  - intros (e & He). exists e. apply Hs, He.
  - apply (resolve_err_complete true); assumption.
Qed.

(* ================================================================================================ *)
(* L. the statements of Props.v *)

Lemma formatted_once_refuted_lemma : exists (w : world) S p q id,
  w_resolve w cfg0 = Ok S /\ In p S /\ In q S /\ p <> q /\
  w_lookup w p = Some (File id) /\ w_lookup w q = Some (File id).
Proof. exists W1. exact w1_formatted_twice. Qed.

Lemma skipped_file_excluded_refuted_lemma : exists (w : world) S p id,
  w_resolve_pre w cfg0 = Ok S /\ In p S /\ w_lookup w p = Some (File id) /\ inner_skip (w_ff w id) = true /\
  w_Excluded w cfg0 p.
Proof. exists W2. exact w2_skipped_file_formatted. Qed.

Lemma decoys_untouched_refuted_lemma : exists (w : world) S p e,
  w_resolve w cfg0 = Ok S /\ In p S /\ ~ w_Reach w p /\
  ErrWitness (w_lookup w) (w_ast w) (w_ff w) (w_root w) e.
Proof. exists W3. exact w3_heuristic_guess. Qed.

Lemma root_is_crate_root_refuted_lemma : exists (w : world) S p q,
  w_resolve w cfg0 = Ok S /\ In p S /\ ~ w_Reach w p /\
  w_Reach w q /\ ~ w_Excluded w cfg0 q /\ ~ In q S.
Proof. exists W4. exact w4_root_sibling_dir. Qed.

Lemma reached_twice_complete_refuted_lemma : exists (w : world) S p,
  w_resolve w cfg0 = Ok S /\ w_Reach w p /\ ~ w_Excluded w cfg0 p /\ ~ In p S.
Proof. exists W5. exact w5_second_context_lost. Qed.

Lemma nested_cfg_if_refuted_lemma : exists (w : world) S p,
  w_resolve w cfg0 = Ok S /\ w_Reach w p /\ ~ w_Excluded w cfg0 p /\ ~ In p S.
Proof. exists W6. exact w6_nested_cfg_if. Qed.

Lemma inline_cfg_attr_path_refuted_lemma : exists (w : world) S p,
  w_resolve w cfg0 = Ok S /\ w_Reach w p /\ ~ w_Excluded w cfg0 p /\ ~ In p S.
Proof. exists W7. exact w7_inline_cfg_attr_path. Qed.

Lemma unparsable_is_error_refuted_lemma : exists (w : world) S,
  w_resolve w cfg0 = Ok S /\ ErrWitness (w_lookup w) (w_ast w) (w_ff w) (w_root w) ParseError.
Proof. exists W8. exact w8_parse_error_swallowed. Qed.

Lemma fuel_enough_refuted_lemma : exists (w : world), forall fuel,
  resolve_fuel (w_lookup w) (w_ast w) (w_ff w) fuel cfg0 (w_root w) = Err OutOfFuel.
Proof. exists W12. exact w12_no_fuel_suffices. Qed.

Lemma skipped_missing_not_an_error_lemma : exists (w : world) n,
  w_resolve w cfg0 = Ok [w_root w] /\ lang_default (w_lookup w) false (root_ctx (w_root w)) n = Err NotFound.
Proof. exists W9, 0. exact w9_skipped_missing_ok. Qed.

Lemma skip_prunes_subtree_lemma : exists (w : world) S q,
  w_resolve w cfg0 = Ok S /\ w_Reach w q /\ ~ In q S /\
  ~ ReachUnskipped (w_lookup w) (w_ast w) (w_ff w) (w_root w) q.
Proof. exists W10. exact w10_skip_prunes_subtree. Qed.

Lemma fallback_beyond_language_lemma : exists (w : world) S p,
  w_resolve w cfg0 = Ok S /\ In p S /\ w_Reach w p /\
  ~ StrictReach (w_lookup w) (w_ast w) (w_ff w) (w_root w) p.
Proof. exists W11. exact w11_fallback_fires. Qed.

Lemma resolve_nodup_lemma : forall lookup ast ffacts fuel cfg root S,
  resolve_fuel lookup ast ffacts fuel cfg root = Ok S -> NoDup S.
Proof. intros lookup ast ffacts fuel cfg root S H. exact (proj1 (resolve_keys_nodup true lookup ast ffacts fuel cfg root S H)). Qed.
Lemma resolve_sorted_lemma : forall lookup ast ffacts fuel cfg root S,
  resolve_fuel lookup ast ffacts fuel cfg root = Ok S -> StronglySorted (fun p q => path_ltb p q = true) S.
Proof. intros lookup ast ffacts fuel cfg root S H. exact (proj2 (resolve_keys_nodup true lookup ast ffacts fuel cfg root S H)). Qed.

Lemma skipped_file_excluded_repaired_lemma : exists (w : world) S' S p,
  w_resolve_pre w cfg0 = Ok S' /\ In p S' /\ w_Excluded w cfg0 p /\
  w_resolve w cfg0 = Ok S /\ ~ In p S /\ (forall q, In q S' -> q <> p -> In q S).
Proof.
  exists W2, [[CRs 0]; [CRs 1]; [CRs 5]; [CRs 9]], [[CRs 0]; [CRs 1]; [CRs 9]], [CRs 5].
  split; [vm_compute; reflexivity|]. split; [right; right; left; reflexivity|]. split.
  { right. left. split; [reflexivity|]. exists 3. split; [vm_compute; reflexivity|]. left. vm_compute. reflexivity. }
  split; [exact w2_repaired|]. split; [not_in|].
  intros q [<-|[<-|[<-|[<-|[]]]]] Hne; cbn; auto; exfalso; apply Hne; reflexivity.
Qed.
