(* C13/Props.v — C13: "Given a crate root, rustfmt formats the root and precisely those files reached through
   `mod name;` declarations resolved by the language's rules (name.rs or name/mod.rs relative to the declaring
   file's module directory, nested inline modules, #[path], cfg_attr(path), cfg_if!/cfg_match! bodies; plus the
   documented fallback to the declaring file's own directory when the nested location does not exist), except
   modules or files that are skipped, matched by `ignore`, marked @generated when generated files are excluded,
   or any child when skip_children is set or the input is standard input. Each such file is formatted once even
   if reached twice, no other file in the tree is read for writing, and an ambiguous or missing module is an
   error rather than a guess."

   [resolve_fuel lookup ast ffacts fuel cfg root] is the transcription of ModResolver + format_project's filter
   (Model.v) as they are NOW ([resolve_fuel_pre]: before the repair of insert_sub_mod, commit 0b20f11; every proof
   of Lemmas.v is generic in that flag); [Reach] is the inductive closure of the language's one-step rules with the documented fallback,
   [Excluded] the exclusions (a file is also excluded when it is only reachable through skipped modules).
   The code and the rules DISAGREE on several shapes: each has a _refuted theorem below with a concrete tree,
   and the positive theorems assume [Tame], the conjunction of the hypotheses that exclude exactly these shapes
   (decidable on a concrete tree: tame_check_sound). *)
From V Require Import Base.Text C13.Model C13.Lemmas.
From Coq Require Import Sorting.Sorted.

(* main clause: the formatted files are exactly the reachable, non-excluded ones *)
Theorem resolve_sound_complete :
  forall (lookup : path -> option node) (ast : N -> option (list decl)) (ffacts : N -> facts)
         (fuel : nat) (cfg : config) (root : path) (S : list path),
    Tame lookup ast ffacts root -> resolve_fuel lookup ast ffacts fuel cfg root = Ok S ->
    forall p, In p S <-> (Reach lookup ast ffacts root p /\ ~ Excluded lookup ast ffacts cfg root p).
Proof. exact (resolve_sound_complete_lemma true). Qed.
Print Assumptions resolve_sound_complete.

(* "each such file is formatted once": no path occurs twice in the result (unconditional; on LITERAL paths,
   see formatted_once_refuted) *)
Theorem resolve_nodup :
  forall lookup ast ffacts fuel cfg root S,
    resolve_fuel lookup ast ffacts fuel cfg root = Ok S -> NoDup S.
Proof. exact resolve_nodup_lemma. Qed.
Print Assumptions resolve_nodup.

(* the files are handed to the formatter in BTreeMap order: strictly increasing for Path::cmp *)
Theorem resolve_sorted :
  forall lookup ast ffacts fuel cfg root S,
    resolve_fuel lookup ast ffacts fuel cfg root = Ok S ->
    StronglySorted (fun p q => path_ltb p q = true) S.
Proof. exact resolve_sorted_lemma. Qed.
Print Assumptions resolve_sorted.

(* "an ambiguous or missing module is an error rather than a guess": with enough fuel the resolver fails iff
   some non-skipped reachable declaration (or the root) is missing / ambiguous / unparsable, and the reported
   kind is the kind of such a declaration *)
Theorem resolve_error_iff :
  forall lookup ast ffacts fuel cfg root,
    Tame lookup ast ffacts root -> skip_children cfg = false -> input_is_stdin cfg = false ->
    resolve_fuel lookup ast ffacts fuel cfg root <> Err OutOfFuel ->
    ((exists e, resolve_fuel lookup ast ffacts fuel cfg root = Err e)
       <-> (exists e, ErrWitness lookup ast ffacts root e))
    /\ (forall e, resolve_fuel lookup ast ffacts fuel cfg root = Err e -> ErrWitness lookup ast ffacts root e).
Proof. exact resolve_error_iff_lemma. Qed.
Print Assumptions resolve_error_iff.

(* "no other file in the tree is read for writing": a file the rules do not reach is not in the result *)
Theorem decoys_untouched :
  forall lookup ast ffacts fuel cfg root S,
    Tame lookup ast ffacts root -> resolve_fuel lookup ast ffacts fuel cfg root = Ok S ->
    forall p, ~ Reach lookup ast ffacts root p -> ~ In p S.
Proof. exact (decoys_untouched_lemma true). Qed.
Print Assumptions decoys_untouched.

(* "any child when skip_children is set" (unconditional) *)
Theorem skip_children_only_root :
  forall lookup ast ffacts fuel cfg root S,
    skip_children cfg = true -> resolve_fuel lookup ast ffacts fuel cfg root = Ok S ->
    forall p, In p S -> p = root.
Proof. exact (skip_children_only_root_lemma true). Qed.
Print Assumptions skip_children_only_root.

(* "or the input is standard input" (unconditional) *)
Theorem stdin_only_root :
  forall lookup ast ffacts fuel cfg root S,
    input_is_stdin cfg = true -> resolve_fuel lookup ast ffacts fuel cfg root = Ok S -> S = [root].
Proof. exact (stdin_only_root_lemma true). Qed.
Print Assumptions stdin_only_root.

(* termination: when the lookup answers File for finitely many literal paths, the already-parsed check bounds
   the nesting of files by their number (false for a lookup that resolves `..`: fuel_enough_refuted) *)
Theorem resolve_fuel_enough :
  forall lookup ast ffacts (files : list path),
    (forall p id, lookup p = Some (File id) -> In p files) ->
    forall fuel cfg root, (length files <= fuel)%nat ->
    resolve_fuel lookup ast ffacts fuel cfg root <> Err OutOfFuel.
Proof. exact (fun lookup ast ffacts => resolve_fuel_enough_lemma lookup ast ffacts true). Qed.
Print Assumptions resolve_fuel_enough.

(* the hypotheses are decidable on a concrete tree, from the closed node list of the pruned closure *)
Theorem tame_decidable :
  forall lookup ast ffacts root (l : list lnode),
    closed_nodes lookup ast ffacts true true root l = true ->
    tame_check lookup ast ffacts root l = true -> Tame lookup ast ffacts root.
Proof. exact tame_check_sound. Qed.
Print Assumptions tame_decidable.

(* ---- disagreements between the code and the rules (concrete trees W1..W12 of Lemmas.v) ---- *)

(* "formatted once even if reached twice" is false on files: two spellings (`n005/../n001.rs`, `n001.rs`) of
   one file are both formatted *)
Theorem formatted_once_refuted : exists (w : world) S p q id,
  w_resolve w cfg0 = Ok S /\ In p S /\ In q S /\ p <> q /\
  w_lookup w p = Some (File id) /\ w_lookup w q = Some (File id).
Proof. exact formatted_once_refuted_lemma. Qed.
Print Assumptions formatted_once_refuted.

(* "except files that are skipped" was false of the code BEFORE the repair of insert_sub_mod (resolve_fuel_pre,
   commit 0b20f11): a file starting with #![rustfmt::skip], named by two cfg_attr(path) declarations, was
   handed to the formatter with the module of the declaration (the declaring file's text was written to it) *)
Theorem skipped_file_excluded_refuted : exists (w : world) S p id,
  w_resolve_pre w cfg0 = Ok S /\ In p S /\ w_lookup w p = Some (File id) /\ inner_skip (w_ff w id) = true /\
  w_Excluded w cfg0 p.
Proof. exact skipped_file_excluded_refuted_lemma. Qed.
Print Assumptions skipped_file_excluded_refuted.

(* on that tree the current code formats the same files except the skipped one *)
Theorem skipped_file_excluded_repaired : exists (w : world) S' S p,
  w_resolve_pre w cfg0 = Ok S' /\ In p S' /\ w_Excluded w cfg0 p /\
  w_resolve w cfg0 = Ok S /\ ~ In p S /\ (forall q, In q S' -> q <> p -> In q S).
Proof. exact skipped_file_excluded_repaired_lemma. Qed.
Print Assumptions skipped_file_excluded_repaired.

(* decoys_untouched and "error rather than a guess" are false without Tame: the exists() heuristic of
   push_inline_mod_directory formats a file the language does not reach, where the language reports a missing
   module *)
Theorem decoys_untouched_refuted : exists (w : world) S p e,
  w_resolve w cfg0 = Ok S /\ In p S /\ ~ w_Reach w p /\
  ErrWitness (w_lookup w) (w_ast w) (w_ff w) (w_root w) e.
Proof. exact decoys_untouched_refuted_lemma. Qed.
Print Assumptions decoys_untouched_refuted.

(* an input with a sibling directory named after it is not treated as a crate root *)
Theorem root_is_crate_root_refuted : exists (w : world) S p q,
  w_resolve w cfg0 = Ok S /\ In p S /\ ~ w_Reach w p /\
  w_Reach w q /\ ~ w_Excluded w cfg0 q /\ ~ In q S.
Proof. exact root_is_crate_root_refuted_lemma. Qed.
Print Assumptions root_is_crate_root_refuted.

(* completeness is false when a file is reached under two contexts: the second is cut by is_file_parsed *)
Theorem reached_twice_complete_refuted : exists (w : world) S p,
  w_resolve w cfg0 = Ok S /\ w_Reach w p /\ ~ w_Excluded w cfg0 p /\ ~ In p S.
Proof. exact reached_twice_complete_refuted_lemma. Qed.
Print Assumptions reached_twice_complete_refuted.

(* cfg_if! directly inside a cfg_if! body *)
Theorem nested_cfg_if_refuted : exists (w : world) S p,
  w_resolve w cfg0 = Ok S /\ w_Reach w p /\ ~ w_Excluded w cfg0 p /\ ~ In p S.
Proof. exact nested_cfg_if_refuted_lemma. Qed.
Print Assumptions nested_cfg_if_refuted.

(* cfg_attr(.., path = ..) on an inline module *)
Theorem inline_cfg_attr_path_refuted : exists (w : world) S p,
  w_resolve w cfg0 = Ok S /\ w_Reach w p /\ ~ w_Excluded w cfg0 p /\ ~ In p S.
Proof. exact inline_cfg_attr_path_refuted_lemma. Qed.
Print Assumptions inline_cfg_attr_path_refuted.

(* an unparsable file is not always an error: swallowed through a cfg_attr(path) candidate *)
Theorem unparsable_is_error_refuted : exists (w : world) S,
  w_resolve w cfg0 = Ok S /\ ErrWitness (w_lookup w) (w_ast w) (w_ff w) (w_root w) ParseError.
Proof. exact unparsable_is_error_refuted_lemma. Qed.
Print Assumptions unparsable_is_error_refuted.

(* termination is false when `..` resolves: a self-including #[path = "n005/../n000.rs"] is never cut *)
Theorem fuel_enough_refuted : exists (w : world), forall fuel,
  resolve_fuel (w_lookup w) (w_ast w) (w_ff w) fuel cfg0 (w_root w) = Err OutOfFuel.
Proof. exact fuel_enough_refuted_lemma. Qed.
Print Assumptions fuel_enough_refuted.

(* ---- where the specification itself departs from rustc, by design of the property ---- *)

(* a skipped `mod x;` whose file does not exist is not an error (rustc: E0583) *)
Theorem skipped_missing_not_an_error : exists (w : world) n,
  w_resolve w cfg0 = Ok [w_root w] /\ lang_default (w_lookup w) false (root_ctx (w_root w)) n = Err NotFound.
Proof. exact skipped_missing_not_an_error_lemma. Qed.
Print Assumptions skipped_missing_not_an_error.

(* skipping a module skips its whole subtree (third disjunct of Excluded) *)
Theorem skip_prunes_subtree : exists (w : world) S q,
  w_resolve w cfg0 = Ok S /\ w_Reach w q /\ ~ In q S /\
  ~ ReachUnskipped (w_lookup w) (w_ast w) (w_ff w) (w_root w) q.
Proof. exact skip_prunes_subtree_lemma. Qed.
Print Assumptions skip_prunes_subtree.

(* the documented fallback formats a file that rustc does not load (rustc: E0583) *)
Theorem fallback_beyond_language : exists (w : world) S p,
  w_resolve w cfg0 = Ok S /\ In p S /\ w_Reach w p /\
  ~ StrictReach (w_lookup w) (w_ast w) (w_ff w) (w_root w) p.
Proof. exact fallback_beyond_language_lemma. Qed.
Print Assumptions fallback_beyond_language.
