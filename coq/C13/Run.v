(* C13/Run.v — encoders for the correspondence run.

   N-encoding of a tree (everything is N, bool, list, tuple, option):
   * component:  0 = `..`   1 = `mod.rs`   2n+2 = the name n (directory / module `n`)   2n+3 = `n.rs`
     (spell the name n as "n%03d" on disk: then the order of the codes is the order of Path::cmp);
     a path is the list of its components, relative to the scratch directory; [] is that directory.
   * files : list (path * id)   dirs : list path   (the scratch directory itself is always a directory;
     every parent of a listed entry must be listed in dirs)
   * asts : list (id * option tokens): None = the file does not parse; an id that is absent has no items.
     tokens: the items in prefix form
         item  ::= 0                            any other item
                |  1 name ATTRS                 mod name;
                |  2 name ATTRS k item^k        mod name { k items }
                |  3 k item^k                   cfg_if! { ... } with k items over all branches
                |  4 k item^k                   cfg_match! { ... }
         ATTRS ::= skip hp [PATH if hp = 1] m PATH^m     skip, hp in {0,1}; hp = 1: #[path = PATH];
                                                          m paths found in cfg_attr(.., path = ..)
         PATH  ::= len comp^len
   * facts : list (id * (inner_skip, generated, ignored)); absent = (false, false, false)
   * result of run_resolve: (0, sorted paths) | (1, []) NotFound | (2, []) MultipleCandidates
                            | (3, []) ParseError | (4, []) out of fuel | (9, []) ill-formed tokens
   * run_lang fallback prune ... rounds: (closed, files): the files reached by the language's rules after
     `rounds` rounds of closure, sorted without duplicates; closed = the closure is complete.
   * run_tame ... rounds: (closed, tame): closed as above for the pruned closure (fallback = prune = true);
     tame = the tree satisfies the hypotheses Tame of Props.v (then resolve_sound_complete etc. apply).
     8 rounds close every tree of file-nesting + inline-nesting depth <= 8.
   Instead of tokens, constructor terms can be given to run_resolve_t / run_lang_t directly
   (ModDecl n (mkAttrs (Some [CRs 1]) [] false), ...). *)
From V Require Import Base.Text C13.Model.
Open Scope N_scope.

Definition dec_comp (k : N) : comp :=
  match k with
  | 0 => CUp
  | 1 => CModRs
  | _ => if N.even k then CDir ((k - 2) / 2) else CRs ((k - 3) / 2)
  end.
Definition dec_path (p : list N) : path := map dec_comp p.
Definition enc_path (p : path) : list N := map comp_key p.

Fixpoint take_n {A : Type} (n : nat) (l : list A) : option (list A * list A) :=
  match n with
  | O => Some ([], l)
  | S k => match l with [] => None | x :: l' =>
             match take_n k l' with Some (a, b) => Some (x :: a, b) | None => None end end
  end.
Definition dec_tpath (ts : list N) : option (path * list N) :=
  match ts with
  | len :: ts' => match take_n (N.to_nat len) ts' with Some (a, b) => Some (dec_path a, b) | None => None end
  | [] => None
  end.
Fixpoint dec_tpaths (m : nat) (ts : list N) : option (list path * list N) :=
  match m with
  | O => Some ([], ts)
  | S k => match dec_tpath ts with
           | Some (p, ts1) => match dec_tpaths k ts1 with Some (ps, ts2) => Some (p :: ps, ts2) | None => None end
           | None => None
           end
  end.
Definition dec_attrs (ts : list N) : option (attrs * list N) :=
  match ts with
  | sk :: hp :: ts1 =>
      match (if N.eqb hp 1 then match dec_tpath ts1 with Some (p, r) => Some (Some p, r) | None => None end
             else Some (None, ts1)) with
      | Some (pa, m :: ts2) =>
          match dec_tpaths (N.to_nat m) ts2 with
          | Some (ps, ts3) => Some (mkAttrs pa ps (N.eqb sk 1), ts3)
          | None => None
          end
      | _ => None
      end
  | _ => None
  end.

Fixpoint dec_item (fuel : nat) (ts : list N) {struct fuel} : option (decl * list N) :=
  match fuel with
  | O => None
  | S f =>
      let dec_items := (fix go (k : nat) (ts : list N) {struct k} : option (list decl * list N) :=
        match k with
        | O => Some ([], ts)
        | S k' => match dec_item f ts with
                  | Some (d, ts1) => match go k' ts1 with Some (ds, ts2) => Some (d :: ds, ts2) | None => None end
                  | None => None
                  end
        end) in
      match ts with
      | 0 :: r => Some (Other, r)
      | 1 :: n :: r => match dec_attrs r with Some (a, r1) => Some (ModDecl n a, r1) | None => None end
      | 2 :: n :: r =>
          match dec_attrs r with
          | Some (a, k :: r1) =>
              match dec_items (N.to_nat k) r1 with Some (b, r2) => Some (ModInline n a b, r2) | None => None end
          | _ => None
          end
      | 3 :: k :: r => match dec_items (N.to_nat k) r with Some (b, r1) => Some (CfgIf b, r1) | None => None end
      | 4 :: k :: r => match dec_items (N.to_nat k) r with Some (b, r1) => Some (CfgMatch b, r1) | None => None end
      | _ => None
      end
  end.
Fixpoint dec_all (fuel : nat) (n : nat) (ts : list N) : option (list decl) :=
  match n with
  | O => match ts with [] => Some [] | _ => None end
  | S k => match ts with
           | [] => Some []
           | _ => match dec_item fuel ts with
                  | Some (d, r) => match dec_all fuel k r with Some ds => Some (d :: ds) | None => None end
                  | None => None
                  end
           end
  end.
Definition dec_tokens (ts : list N) : option (list decl) := dec_all (S (length ts)) (S (length ts)) ts.

Definition mk_lookup (files : list (list N * N)) (dirs : list (list N)) : path -> option node :=
  fs_get (fs_of (map (fun e => (dec_path (fst e), snd e)) files) (map dec_path dirs)).

Definition mk_ast_t (asts : list (N * option (list decl))) : N -> option (list decl) := ast_of asts.
Definition mk_facts (fx : list (N * (bool * bool * bool))) : N -> facts :=
  facts_of (map (fun e => (fst e, match snd e with (a, b, c) => mkFacts a b c end)) fx).

Definition enc_res (r : res (list path)) : N * list (list N) :=
  match r with
  | Ok l => (0, map enc_path l)
  | Err NotFound => (1, [])
  | Err MultipleCandidates => (2, [])
  | Err ParseError => (3, [])
  | Err OutOfFuel => (4, [])
  end.

Definition default_fuel (files : list (list N * N)) : nat := S (S (length files)).

Definition run_resolve_t (skip_children stdin format_generated : bool)
    (files : list (list N * N)) (dirs : list (list N)) (asts : list (N * option (list decl)))
    (fx : list (N * (bool * bool * bool))) (root : list N) : N * list (list N) :=
  enc_res (resolve_fuel (mk_lookup files dirs) (mk_ast_t asts) (mk_facts fx) (default_fuel files)
             (mkConfig skip_children format_generated stdin) (dec_path root)).

Fixpoint dec_asts (asts : list (N * option (list N))) : option (list (N * option (list decl))) :=
  match asts with
  | [] => Some []
  | (id, None) :: r => match dec_asts r with Some l => Some ((id, None) :: l) | None => None end
  | (id, Some ts) :: r =>
      match dec_tokens ts, dec_asts r with
      | Some ds, Some l => Some ((id, Some ds) :: l)
      | _, _ => None
      end
  end.

Definition run_resolve (skip_children stdin format_generated : bool)
    (files : list (list N * N)) (dirs : list (list N)) (asts : list (N * option (list N)))
    (fx : list (N * (bool * bool * bool))) (root : list N) : N * list (list N) :=
  match dec_asts asts with
  | Some a => run_resolve_t skip_children stdin format_generated files dirs a fx root
  | None => (9, [])
  end.

(* sorted, duplicate-free list of paths *)
Fixpoint insert_path (p : path) (l : list path) : list path :=
  match l with
  | [] => [p]
  | x :: l' => if path_eqb p x then l else if path_ltb p x then p :: l else x :: insert_path p l'
  end.
Definition sort_paths (l : list path) : list path := fold_right insert_path [] l.

Definition run_lang_t (fallback prune : bool)
    (files : list (list N * N)) (dirs : list (list N)) (asts : list (N * option (list decl)))
    (fx : list (N * (bool * bool * bool))) (root : list N) (rounds : N) : bool * list (list N) :=
  let lk := mk_lookup files dirs in
  let nodes := lang_nodes lk (mk_ast_t asts) (mk_facts fx) fallback prune (dec_path root) (N.to_nat rounds) in
  (closed_nodes lk (mk_ast_t asts) (mk_facts fx) fallback prune (dec_path root) nodes,
   map enc_path (sort_paths (files_of_nodes lk fallback prune (dec_path root) nodes))).

Definition run_lang (fallback prune : bool)
    (files : list (list N * N)) (dirs : list (list N)) (asts : list (N * option (list N)))
    (fx : list (N * (bool * bool * bool))) (root : list N) (rounds : N) : option (bool * list (list N)) :=
  match dec_asts asts with
  | Some a => Some (run_lang_t fallback prune files dirs a fx root rounds)
  | None => None
  end.

(* (closed, tame): whether `rounds` rounds close the pruned closure, and whether the tree then satisfies the
   hypotheses Tame of the theorems of Props.v (tame_decidable) *)
Definition run_tame_t
    (files : list (list N * N)) (dirs : list (list N)) (asts : list (N * option (list decl)))
    (fx : list (N * (bool * bool * bool))) (root : list N) (rounds : N) : bool * bool :=
  let lk := mk_lookup files dirs in
  let nodes := lang_nodes lk (mk_ast_t asts) (mk_facts fx) true true (dec_path root) (N.to_nat rounds) in
  (closed_nodes lk (mk_ast_t asts) (mk_facts fx) true true (dec_path root) nodes,
   tame_check lk (mk_ast_t asts) (mk_facts fx) (dec_path root) nodes).

Definition run_tame
    (files : list (list N * N)) (dirs : list (list N)) (asts : list (N * option (list N)))
    (fx : list (N * (bool * bool * bool))) (root : list N) (rounds : N) : option (bool * bool) :=
  match dec_asts asts with
  | Some a => Some (run_tame_t files dirs a fx root rounds)
  | None => None
  end.
