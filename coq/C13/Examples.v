(* C13/Examples.v — non-vacuity: a depth-3 crate mixing name.rs / name/mod.rs / #[path] / inline nesting /
   cfg_if! / cfg_attr(path) / skip / ignore / @generated, with decoy files, meets every hypothesis of the
   theorems of Props.v; the _refuted witnesses are W1..W12 of Lemmas.v.
   Spelling: module or directory n is n00n on disk, CRs n is n00n.rs, CModRs is mod.rs. *)
From V Require Import Base.Text C13.Model C13.Lemmas C13.Props.

(* n009.rs (root):  mod n000;  mod n001;  #[path = "n005/n006.rs"] mod n002;  mod n003 { mod n004; }
                    cfg_if! { if .. { mod n007; } else { fn .. } }  #[rustfmt::skip] mod n008;  fn ..
   n000.rs:         mod n001;  mod n002 { mod n003; }  mod n004 { fn .. }     (no directory n000/n004: the
                                                                               exists() heuristic fires, harmlessly)
   n000/n001.rs:    mod n002;                                                  (depth 3: n000/n001/n002.rs)
   n001/mod.rs:     mod n002;  #[cfg_attr(.., path = "n006.rs")] mod n003;     (n001/n002.rs is in `ignore`)
   n005/n006.rs:    mod n000;                                                  (a #[path] file owns its directory)
   decoys:          n002.rs  n004.rs  n000/n003.rs  n005/mod.rs  n008.rs (skipped declaration) *)
Definition E1 : world := mkWorld
  [([CRs 9], 0); ([CRs 0], 1); ([CDir 1; CModRs], 2); ([CDir 5; CRs 6], 3); ([CDir 3; CRs 4], 4);
   ([CDir 0; CRs 1], 5); ([CDir 0; CDir 2; CRs 3], 6); ([CDir 0; CDir 1; CRs 2], 7); ([CDir 1; CRs 2], 8);
   ([CDir 1; CRs 6], 9); ([CDir 1; CRs 3], 10); ([CDir 5; CRs 0], 11); ([CRs 7], 12); ([CRs 8], 13);
   ([CRs 2], 20); ([CDir 0; CRs 3], 21); ([CDir 5; CModRs], 22); ([CRs 4], 23)]
  [[CDir 0]; [CDir 0; CDir 1]; [CDir 0; CDir 2]; [CDir 1]; [CDir 3]; [CDir 5]]
  [(0, Some [ModDecl 0 A0; ModDecl 1 A0; ModDecl 2 (Apath [CDir 5; CRs 6]); ModInline 3 A0 [ModDecl 4 A0];
             CfgIf [ModDecl 7 A0; Other]; ModDecl 8 Askip; Other]);
   (1, Some [ModDecl 1 A0; ModInline 2 A0 [ModDecl 3 A0]; ModInline 4 A0 [Other]]);
   (5, Some [ModDecl 2 A0]);
   (2, Some [ModDecl 2 A0; ModDecl 3 (Acfg [[CRs 6]])]);
   (3, Some [ModDecl 0 A0])]
  [(8, mkFacts false false true); (11, mkFacts false true false)]
  [CRs 9].

Definition E1_S : list path :=
  [[CDir 0; CDir 1; CRs 2]; [CDir 0; CRs 1]; [CDir 0; CDir 2; CRs 3]; [CRs 0]; [CDir 1; CModRs];
   [CDir 1; CRs 3]; [CDir 1; CRs 6]; [CDir 3; CRs 4]; [CDir 5; CRs 0]; [CDir 5; CRs 6]; [CRs 7]; [CRs 9]].

Example e1_resolve : w_resolve E1 cfg0 = Ok E1_S.
Proof. vm_compute. reflexivity. Qed.

Example e1_tame : Tame (w_lookup E1) (w_ast E1) (w_ff E1) (w_root E1).
Proof.
  apply (tame_check_sound _ _ _ _ (w_nodes E1 true true)); vm_compute; reflexivity.
Qed.

(* the theorem applies: membership in the result is exactly Reach and not Excluded *)
Example e1_characterised : forall p, In p E1_S <-> (w_Reach E1 p /\ ~ w_Excluded E1 cfg0 p).
Proof. exact (resolve_sound_complete _ _ _ _ _ _ _ e1_tame e1_resolve). Qed.

(* decoys: not reached, hence not formatted *)
Example e1_decoy_not_reached : ~ w_Reach E1 [CRs 2] /\ ~ w_Reach E1 [CDir 5; CModRs] /\ ~ w_Reach E1 [CRs 4].
Proof. repeat split; reach_neg E1 true false. Qed.
Example e1_decoy_untouched : ~ In [CRs 2] E1_S.
Proof. apply (decoys_untouched _ _ _ _ _ _ _ e1_tame e1_resolve). apply e1_decoy_not_reached. Qed.

(* reached but excluded: the ignored file and the skipped module *)
Example e1_ignored_excluded : w_Reach E1 [CDir 1; CRs 2] /\ w_Excluded E1 cfg0 [CDir 1; CRs 2].
Proof.
  split; [reach_pos|]. right. left. split; [reflexivity|]. exists 8. split; [vm_compute; reflexivity|].
  right. left. vm_compute. reflexivity.
Qed.
Example e1_skipped_excluded : w_Reach E1 [CRs 8] /\ w_Excluded E1 cfg0 [CRs 8].
Proof. split; [reach_pos|]. right. right. reach_neg E1 true true. Qed.

(* no duplicates, sorted *)
Example e1_nodup : NoDup E1_S.
Proof. exact (resolve_nodup _ _ _ _ _ _ _ e1_resolve). Qed.

(* no error: there is no witness *)
Example e1_no_error : ~ exists e, ErrWitness (w_lookup E1) (w_ast E1) (w_ff E1) (w_root E1) e.
Proof.
  intros H.
  assert (Hno : resolve_fuel (w_lookup E1) (w_ast E1) (w_ff E1) 20 cfg0 (w_root E1) <> Err OutOfFuel)
    by (vm_compute; discriminate).
  destruct (resolve_error_iff _ _ _ 20 cfg0 _ e1_tame eq_refl eq_refl Hno) as [[_ Hc] _].
  destruct (Hc H) as (e & He). change (w_resolve E1 cfg0 = Err e) in He. rewrite e1_resolve in He. discriminate.
Qed.

(* a crate with an error, within the hypotheses: E2 = `mod n000;` with n000.rs and n000/mod.rs *)
Definition E2 : world := mkWorld [([CRs 9], 0); ([CRs 0], 1); ([CDir 0; CModRs], 2)] [[CDir 0]]
  [(0, Some [ModDecl 0 A0])] [] [CRs 9].
Example e2_tame : Tame (w_lookup E2) (w_ast E2) (w_ff E2) (w_root E2).
Proof. apply (tame_check_sound _ _ _ _ (w_nodes E2 true true)); vm_compute; reflexivity. Qed.
Example e2_error : w_resolve E2 cfg0 = Err MultipleCandidates.
Proof. vm_compute. reflexivity. Qed.
Example e2_witness : ErrWitness (w_lookup E2) (w_ast E2) (w_ff E2) (w_root E2) MultipleCandidates.
Proof.
  assert (Hno : resolve_fuel (w_lookup E2) (w_ast E2) (w_ff E2) 20 cfg0 (w_root E2) <> Err OutOfFuel)
    by (vm_compute; discriminate).
  destruct (resolve_error_iff _ _ _ 20 cfg0 _ e2_tame eq_refl eq_refl Hno) as [_ Hs]. apply Hs. exact e2_error.
Qed.

(* skip_children / stdin: only the root *)
Example e1_skip_children : w_resolve E1 (mkConfig true true false) = Ok [[CRs 9]].
Proof. vm_compute. reflexivity. Qed.
Example e1_stdin : w_resolve E1 (mkConfig false true true) = Ok [[CRs 9]].
Proof. vm_compute. reflexivity. Qed.

(* fuel: with a lookup in which `..` never resolves (the literal lists), the file list bounds the fuel *)
Example e1_finite : forall p id, fs_of (w_files E1) (w_dirs E1) p = Some (File id) -> In p (map fst (w_files E1)).
Proof. intros p id. apply fs_of_finite. Qed.
Example e1_fuel : resolve_fuel (fs_of (w_files E1) (w_dirs E1)) (w_ast E1) (w_ff E1)
                    (length (w_files E1)) cfg0 (w_root E1) <> Err OutOfFuel.
Proof. apply (resolve_fuel_enough _ _ _ (map fst (w_files E1)) e1_finite). rewrite map_length. apply le_n. Qed.
Example e1_plain_same : resolve_fuel (fs_of (w_files E1) (w_dirs E1)) (w_ast E1) (w_ff E1)
                    (length (w_files E1)) cfg0 (w_root E1) = Ok E1_S.
Proof. vm_compute. reflexivity. Qed.
