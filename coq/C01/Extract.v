(* C01/Extract.v — extraction of the validated normaliser to OCaml.
   Directives used: those of ExtrOcamlBasic ONLY (bool, option, unit, list, prod, sumbool, sumor mapped to the
   OCaml types of the same shape; andb/orb inlined).  nat, positive and N stay extracted inductives; no
   Extract Constant, no ExtrOcamlNatInt / ExtrOcamlZInt / ExtrOcamlString. *)
Require Extraction.
Require Import ExtrOcamlBasic.
From V Require Import Base.Text C01.Model C01.Run.
Extraction Language OCaml.
Extraction "/verif/ocaml/c01/norm.ml" run_norm.
