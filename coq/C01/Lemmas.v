(* C01/Lemmas.v — proofs about the normaliser of C01/Model.v *)
From Coq Require Import Permutation.
From V Require Import Base.Text C01.Model.
Open Scope N_scope.
Open Scope list_scope.
Arguments N.add : simpl never.
Arguments N.sub : simpl never.
Arguments N.mul : simpl never.
Arguments N.ltb : simpl never.
Arguments N.leb : simpl never.
Arguments N.eqb : simpl never.

(* ------------------------------------------------------------------ *)
(* induction on token trees (nested inductive) *)
Section ItemInd.
Variable P : item -> Prop.
Hypothesis HTok : forall s, P (Tok s).
Hypothesis HGrp : forall d its, Forall P its -> P (Grp d its).
Fixpoint item_ind' (x : item) : P x :=
  match x with
  | Tok s => HTok s
  | Grp d its =>
      HGrp d its ((fix go (l : list item) : Forall P l :=
                     match l with
                     | [] => Forall_nil P
                     | y :: l' => Forall_cons y (item_ind' y) (go l')
                     end) its)
  end.
End ItemInd.

Lemma list_ind2 {A : Type} (P : list A -> Prop) :
  P [] -> (forall x, P [x]) -> (forall x y l, P l -> P (y :: l) -> P (x :: y :: l)) -> forall l, P l.
Proof.
  intros H0 H1 H2 l.
  assert (H : P l /\ forall x, P (x :: l)).
  { induction l as [|y l IH].
    - split; [exact H0|exact H1].
    - destruct IH as [IHa IHb]. split; [apply IHb|]. intros x. apply H2; [exact IHa|apply IHb]. }
  exact (proj1 H).
Qed.

(* ------------------------------------------------------------------ *)
(* basic facts *)
Lemma is_tok_true x s : is_tok x s = true -> x = Tok s.
Proof.
  destruct x as [t|d its]; cbn [is_tok]; [|discriminate].
  intros H. apply eqb_text_spec in H. subst t. reflexivity.
Qed.
Lemma is_tok_refl s : is_tok (Tok s) s = true.
Proof. cbn [is_tok]. apply eqb_text_spec. reflexivity. Qed.
Lemma is_tok_o_true p s : is_tok_o p s = true -> p = Some (Tok s).
Proof. destruct p as [y|]; cbn [is_tok_o]; [|discriminate]. intros H. apply is_tok_true in H. subst y. reflexivity. Qed.
Lemma is_grp_true x d : is_grp x d = true -> exists its, x = Grp d its.
Proof.
  destruct x as [t|d' its]; cbn [is_grp]; [discriminate|].
  destruct d', d; cbn [delim_eqb]; try discriminate; intros _; eexists; reflexivity.
Qed.
Lemma mem_text_In t l : mem_text t l = true <-> In t l.
Proof.
  induction l as [|x l IH]; cbn [mem_text In].
  - split; [discriminate|tauto].
  - rewrite orb_true_iff, eqb_text_spec, IH. split; intros [H|H]; auto.
Qed.

(* ------------------------------------------------------------------ *)
(* P1: layout and non-doc comments never matter *)
Lemma significant_app a b : significant (a ++ b) = significant a ++ significant b.
Proof. unfold significant. apply filter_app. Qed.
Lemma significant_trivia k t : is_trivia k = true -> significant [(k, t)] = [].
Proof. intros H. unfold significant. cbn [filter fst]. rewrite H. reflexivity. Qed.
Lemma norm_ws_comments_irrelevant_lemma o ts1 k t ts2 :
  is_trivia k = true -> norm o (ts1 ++ [(k, t)] ++ ts2) = norm o (ts1 ++ ts2).
Proof.
  intros H. unfold norm, norm_items.
  rewrite !significant_app, (significant_trivia k t H). reflexivity.
Qed.
Lemma norm_total_lemma o ts : exists! r, norm o ts = r.
Proof. exists (norm o ts). split; [reflexivity|intros r H; exact H]. Qed.

(* ------------------------------------------------------------------ *)
(* P2: the essential atoms.  E seq = the essential atoms of the (unglued) flattening of seq *)
Fixpoint E_item (x : item) : list text :=
  match x with
  | Tok t => ess [t]
  | Grp _ its => flat_map E_item its
  end.
Definition E (seq : list item) : list text := flat_map E_item seq.

Lemma ess_app a b : ess (a ++ b) = ess a ++ ess b.
Proof. unfold ess, unglue. rewrite flat_map_app, filter_app. reflexivity. Qed.
Lemma ess_cons t l : ess (t :: l) = ess [t] ++ ess l.
Proof. exact (ess_app [t] l). Qed.
Lemma ess_open d : ess [open_text d] = [].
Proof. destruct d; reflexivity. Qed.
Lemma ess_close d : ess [close_text d] = [].
Proof. destruct d; reflexivity. Qed.
Lemma E_app a b : E (a ++ b) = E a ++ E b.
Proof. unfold E. apply flat_map_app. Qed.
Lemma E_cons x r : E (x :: r) = E_item x ++ E r.
Proof. reflexivity. Qed.
Lemma E_nil : E [] = [].
Proof. reflexivity. Qed.
Lemma E_grp d its : E_item (Grp d its) = E its.
Proof. reflexivity. Qed.
Lemma E_rev_cons x out : E (rev (x :: out)) = E (rev out) ++ E_item x.
Proof. cbn [rev]. rewrite E_app. cbn [E flat_map]. rewrite app_nil_r. reflexivity. Qed.
Lemma E_single x : E [x] = E_item x.
Proof. cbn [E flat_map]. apply app_nil_r. Qed.

Lemma ess_flatten_item x : ess (flatten_item x) = E_item x.
Proof.
  induction x as [s|d its IH] using item_ind'.
  - reflexivity.
  - cbn [flatten_item E_item]. rewrite ess_cons, ess_app, ess_open, ess_close, app_nil_r. cbn [app].
    induction IH as [|y l Hy _ IHl]; [reflexivity|].
    cbn [flat_map]. rewrite ess_app, Hy, IHl. reflexivity.
Qed.
Lemma ess_flatten seq : ess (flatten seq) = E seq.
Proof.
  unfold flatten, E. induction seq as [|x r IH]; [reflexivity|].
  cbn [flat_map]. rewrite ess_app, ess_flatten_item, IH. reflexivity.
Qed.

(* the inessential constants *)
Lemma E_tok_inessential s : essential s = false -> (forall a b, unglue1 s = [a; b] -> False) -> unglue1 s = [s] -> E_item (Tok s) = [].
Proof. intros H _ Hu. cbn [E_item]. unfold ess, unglue. cbn [flat_map]. rewrite Hu. cbn [app filter]. rewrite H. reflexivity. Qed.
Lemma Et_semi : E_item (Tok s_semi) = []. Proof. reflexivity. Qed.
Lemma Et_comma : E_item (Tok s_comma) = []. Proof. reflexivity. Qed.
Lemma Et_pipe : E_item (Tok s_pipe) = []. Proof. reflexivity. Qed.
Lemma Et_colon : E_item (Tok s_colon) = []. Proof. reflexivity. Qed.
Lemma Et_coloncolon : E_item (Tok s_coloncolon) = []. Proof. reflexivity. Qed.
Lemma Et_where : E_item (Tok s_where) = []. Proof. reflexivity. Qed.
Lemma Et_for : E_item (Tok s_for) = []. Proof. reflexivity. Qed.
Lemma Et_in : E_item (Tok s_in) = []. Proof. reflexivity. Qed.
Lemma Et_abiC : E_item (Tok s_abiC) = []. Proof. reflexivity. Qed.
Lemma Et_lt : E_item (Tok s_lt) = []. Proof. reflexivity. Qed.
Lemma Et_gt : E_item (Tok s_gt) = []. Proof. reflexivity. Qed.
#[export] Hint Rewrite Et_semi Et_comma Et_pipe Et_colon Et_coloncolon Et_where Et_for Et_in Et_abiC Et_lt Et_gt : ess.
#[export] Hint Rewrite E_rev_cons E_cons E_app E_grp E_nil app_nil_r app_nil_l : ess.

(* facts from boolean conditions *)
Ltac tok_facts :=
  repeat match goal with
         | H : _ && _ = true |- _ => apply andb_true_iff in H; destruct H
         | H : is_tok ?x ?s = true |- _ => apply is_tok_true in H; try subst x
         | H : is_tok_o ?x ?s = true |- _ => apply is_tok_o_true in H; try subst x
         end.
Ltac ess_done := autorewrite with ess; rewrite <- ?app_assoc; try reflexivity.


Lemma len_ind {A : Type} (P : list A -> Prop) :
  (forall l, (forall l', (length l' < length l)%nat -> P l') -> P l) -> forall l, P l.
Proof.
  intros H l. remember (length l) as n eqn:Hn. revert l Hn.
  induction n as [n IH] using lt_wf_ind. intros l Hn. apply H. intros l' Hl. apply (IH (length l')); [lia|reflexivity].
Qed.

Lemma rev_cons_inv {A : Type} (l : list A) y r : rev l = y :: r -> l = rev r ++ [y].
Proof. intros H. rewrite <- (rev_involutive l), H. reflexivity. Qed.

Lemma app_eq_two {A : Type} (a b : list A) x y :
  a ++ b = [x; y] -> (a = [] /\ b = [x; y]) \/ (a = [x] /\ b = [y]) \/ (a = [x; y] /\ b = []).
Proof.
  destruct a as [|a1 [|a2 [|a3 a]]]; cbn [app]; intros H.
  - left. auto.
  - right. left. inversion H. auto.
  - right. right. inversion H. auto.
  - inversion H.
Qed.

Lemma glue_pair_ess a b : glue_pair a b = true -> E_item (Tok (a ++ b)) = E_item (Tok a) ++ E_item (Tok b).
Proof.
  unfold glue_pair. intros H. apply mem_text_In in H.
  destruct H as [H|[H|[H|[]]]]; symmetry in H; apply app_eq_two in H;
    destruct H as [[-> ->]|[[-> ->]|[-> ->]]]; reflexivity.
Qed.

Lemma glue_eq a b rest : glue (Tok a :: Tok b :: rest) =
  if glue_pair a b then Tok (a ++ b) :: glue rest else Tok a :: glue (Tok b :: rest).
Proof. reflexivity. Qed.
Lemma E_glue seq : E (glue seq) = E seq.
Proof.
  induction seq as [|x|x y l IH1 IH2] using list_ind2; [reflexivity|destruct x; reflexivity|].
  destruct x as [a|d its].
  - destruct y as [b|d its].
    + rewrite glue_eq. destruct (glue_pair a b) eqn:Hg.
      * rewrite !E_cons. rewrite (glue_pair_ess _ _ Hg), IH1, app_assoc. reflexivity.
      * rewrite E_cons, IH2. reflexivity.
    + change (glue (Tok a :: Grp d its :: l)) with (Tok a :: glue (Grp d its :: l)).
      rewrite E_cons, IH2. reflexivity.
  - change (glue (Grp d its :: y :: l)) with (Grp d its :: glue (y :: l)).
    rewrite E_cons, IH2. reflexivity.
Qed.

(* block tails *)
Lemma drops_tail_semi_inv items : drops_tail_semi items = true -> items = removelast items ++ [Tok s_semi].
Proof.
  unfold drops_tail_semi. destruct (rev items) as [|y r] eqn:Hr; [discriminate|].
  intros H. apply andb_true_iff in H. destruct H as [H _]. apply is_tok_true in H. subst y.
  apply rev_cons_inv in Hr. rewrite Hr at 1. rewrite Hr, removelast_last. reflexivity.
Qed.
Lemma last_is_inv items s : last_is items s = true -> items = removelast items ++ [Tok s].
Proof.
  unfold last_is. destruct (rev items) as [|y r] eqn:Hr; [discriminate|].
  intros H. apply is_tok_true in H. subst y.
  apply rev_cons_inv in Hr. rewrite Hr at 1. rewrite Hr, removelast_last. reflexivity.
Qed.
Lemma E_removelast_semi items : drops_tail_semi items = true -> E (removelast items) = E items.
Proof. intros H. apply drops_tail_semi_inv in H. rewrite H at 2. rewrite E_app. ess_done. Qed.
Lemma E_removelast_comma items : last_is items s_comma = true -> E (removelast items) = E items.
Proof. intros H. apply last_is_inv in H. rewrite H at 2. rewrite E_app. ess_done. Qed.

Lemma E_block_tail x : E_item (block_tail x) = E_item x.
Proof.
  destruct x as [t|d items]; [reflexivity|]. destruct d; try reflexivity.
  cbn [block_tail]. destruct (drops_tail_semi items) eqn:H; [|reflexivity].
  cbn [E_item]. apply (E_removelast_semi _ H).
Qed.
Lemma E_block_tails seq : E (block_tails seq) = E seq.
Proof.
  unfold block_tails. induction seq as [|x r IH]; [reflexivity|].
  cbn [map]. rewrite !E_cons, E_block_tail, IH. reflexivity.
Qed.

(* unwrap *)
Lemma unwrap_eq x : unwrap x =
  if single_expr_block x then
    match x with
    | Grp _ its => match its with [y] => unwrap y | _ => its end
    | Tok _ => [x]
    end
  else [x].
Proof. destruct x; reflexivity. Qed.
Lemma E_unwrap x : E (unwrap x) = E_item x.
Proof.
  induction x as [s|d its IH] using item_ind'.
  - rewrite unwrap_eq. destruct (single_expr_block (Tok s)); apply E_single.
  - rewrite unwrap_eq. destruct (single_expr_block (Grp d its)); [|apply E_single].
    destruct its as [|y [|z its]]; try reflexivity.
    inversion IH as [|? ? Hy _]; subst. rewrite Hy. cbn [E_item]. symmetry. apply E_single.
Qed.

(* arms *)
Lemma arms_eq brace x nxt rest2 : arms brace (x :: nxt :: rest2) =
  if is_tok x s_fatarrow && brace && is_grp nxt DBrace then
    let rest3 := match rest2 with
                 | a :: r3 => if is_tok a s_comma then r3 else rest2
                 | [] => rest2
                 end in
    x :: unwrap nxt ++ (match rest3 with [] => [] | _ :: _ => [Tok s_comma] end) ++ arms brace rest3
  else x :: arms brace (nxt :: rest2).
Proof. reflexivity. Qed.
Lemma E_arms brace seq : E (arms brace seq) = E seq.
Proof.
  induction seq as [seq IH] using len_ind.
  destruct seq as [|x [|nxt rest2]]; [reflexivity|reflexivity|].
  rewrite arms_eq.
  destruct (is_tok x s_fatarrow && brace && is_grp nxt DBrace) eqn:Hc; cbv zeta.
  - set (rest3 := match rest2 with a :: r3 => if is_tok a s_comma then r3 else rest2 | [] => rest2 end).
    assert (H3 : E rest3 = E rest2 /\ (length rest3 <= length rest2)%nat).
    { subst rest3. destruct rest2 as [|a r3]; [split; [reflexivity|lia]|].
      destruct (is_tok a s_comma) eqn:Ha; [|split; [reflexivity|lia]].
      apply is_tok_true in Ha. subst a. split; [ess_done|cbn [length]; lia]. }
    destruct H3 as [H3 H3l].
    rewrite !E_cons, !E_app, E_unwrap, IH by (cbn [length]; lia). rewrite H3.
    destruct rest3; ess_done.
  - rewrite E_cons, IH by (cbn [length]; lia). reflexivity.
Qed.

(* closures *)
Lemma find_close_spec l : forall acc p after,
  find_close l acc = Some (p, after) -> rev acc ++ l = rev p ++ Tok s_pipe :: after.
Proof.
  induction l as [|y l IH]; intros acc p after; cbn [find_close]; [discriminate|].
  destruct (is_tok y s_pipe) eqn:Hy.
  - intros H. inversion H; subst. apply is_tok_true in Hy. subst y. reflexivity.
  - destruct (is_tok y s_semi || is_tok y s_fatarrow); [discriminate|].
    intros H. apply IH in H. cbn [rev] in H. rewrite <- app_assoc in H. exact H.
Qed.

Lemma E_closures fuel : forall res l, E (closures fuel res l) = E (rev res) ++ E l.
Proof.
  induction fuel as [|f IH]; intros res l; cbn [closures]; [apply E_app|].
  destruct l as [|x rest]; [ess_done|].
  destruct (is_tok x s_pipe && starts_expr (hd_error res)) eqn:Hc.
  2:{ rewrite IH. ess_done. }
  destruct (find_close rest []) as [[params_rev after]|] eqn:Hf.
  2:{ rewrite IH. ess_done. }
  apply find_close_spec in Hf. cbn [rev app] in Hf.
  set (p' := match params_rev with y :: p' => if is_tok y s_comma then p' else params_rev | [] => [] end).
  assert (Hp : E (rev p') = E (rev params_rev)).
  { subst p'. destruct params_rev as [|y q]; [reflexivity|].
    destruct (is_tok y s_comma) eqn:Hy; [|reflexivity]. apply is_tok_true in Hy. subst y. ess_done. }
  rewrite Hf.
  destruct after as [|b after'].
  - rewrite IH. ess_done. rewrite Hp. reflexivity.
  - destruct (single_expr_block b && negb (existsb (fun t => is_tok t s_fatarrow) (x :: rev p'))).
    + rewrite IH. rewrite !rev_app_distr, rev_involutive. cbn [rev]. rewrite !rev_app_distr. cbn [rev app].
      ess_done. rewrite E_unwrap, Hp. ess_done.
    + rewrite IH. ess_done. rewrite Hp. reflexivity.
Qed.

Lemma E_lead_pipes brace l : forall final, E (lead_pipes brace final l) = E (rev final) ++ E l.
Proof.
  induction l as [|x rest IH]; intros final; cbn [lead_pipes]; [ess_done|].
  destruct (is_tok x s_pipe && brace && arm_start final && arrow_before_comma rest) eqn:Hc.
  - tok_facts. rewrite IH. ess_done.
  - rewrite IH. ess_done.
Qed.
Lemma E_drop_arm_commas l : forall prev, E (drop_arm_commas prev l) = E l.
Proof.
  induction l as [|x r IH]; intros prev; cbn [drop_arm_commas]; [reflexivity|].
  destruct (is_tok x s_comma && is_grp_o prev DBrace) eqn:Hc.
  - tok_facts. rewrite IH. ess_done.
  - rewrite !E_cons, IH. reflexivity.
Qed.
Lemma E_arms_and_closures ctx seq : E (arms_and_closures ctx seq) = E seq.
Proof.
  unfold arms_and_closures.
  assert (H : E (lead_pipes (is_brace ctx) [] (closures_run (arms (is_brace ctx) seq))) = E seq).
  { rewrite E_lead_pipes. unfold closures_run. rewrite E_closures, E_arms. reflexivity. }
  destruct (is_brace ctx && _); [rewrite E_drop_arm_commas|]; exact H.
Qed.


Lemma E_trim_group out x : E_item (trim_group out x) = E_item x.
Proof.
  destruct x as [t|d items]; [reflexivity|]. cbn [trim_group].
  set (items1 := if last_is items s_comma then _ else items).
  assert (H1 : E items1 = E items).
  { subst items1. destruct (last_is items s_comma) eqn:Hl; [|reflexivity].
    destruct (_ || _ || _); [apply (E_removelast_comma _ Hl)|reflexivity]. }
  rewrite !E_grp. destruct d; try exact H1.
  destruct (drops_tail_semi items1) eqn:Hd; [|exact H1].
  rewrite (E_removelast_semi _ Hd). exact H1.
Qed.
Lemma E_trim_groups seq : forall out, E (trim_groups out seq) = E seq.
Proof.
  induction seq as [|x r IH]; intros prev; [reflexivity|].
  cbn [trim_groups]. cbv zeta. rewrite !E_cons, IH, E_trim_group. reflexivity.
Qed.
Lemma E_where_commas seq : forall w a, E (where_commas w a seq) = E seq.
Proof.
  induction seq as [|x r IH]; intros w a; [reflexivity|].
  cbn [where_commas]. cbv zeta.
  destruct (is_tok x s_comma && is_tok_o (hd_error r) s_gt) eqn:H1.
  { tok_facts. rewrite IH. ess_done. }
  match goal with |- context [if ?c then where_commas _ _ r else _] => destruct c eqn:H2 end.
  { apply andb_true_iff in H2. destruct H2 as [H2 _]. tok_facts. rewrite IH. ess_done. }
  rewrite !E_cons, IH. reflexivity.
Qed.
Lemma E_trailing_seps seq : E (trailing_seps seq) = E seq.
Proof. unfold trailing_seps. rewrite E_where_commas, E_trim_groups. reflexivity. Qed.

Lemma E_rewrite_loop ctx seq : forall out, E (rewrite_loop ctx out seq) = E (rev out) ++ E seq.
Proof.
  induction seq as [seq IH] using len_ind. intros out.
  destruct seq as [|x rest]; [cbn [rewrite_loop]; ess_done|].
  cbn [rewrite_loop]. cbv zeta.
  match goal with |- context [if ?c then rewrite_loop ctx out rest else _] => destruct c eqn:H1 end.
  { apply andb_true_iff in H1. destruct H1 as [H1 _]. tok_facts. rewrite IH by (cbn [length]; lia). ess_done. }
  match goal with |- context [if ?c then rewrite_loop ctx out rest else _] => destruct c eqn:H2 end.
  { apply andb_true_iff in H2. destruct H2 as [H2 _]. tok_facts. rewrite IH by (cbn [length]; lia). ess_done. }
  match goal with |- context [if ?c then rewrite_loop ctx out rest else _] => destruct c eqn:H3 end.
  { apply andb_true_iff in H3. destruct H3 as [H3 _]. apply andb_true_iff in H3. destruct H3 as [H3 _].
    apply andb_true_iff in H3. destruct H3 as [H3 _]. tok_facts. rewrite IH by (cbn [length]; lia). ess_done. }
  match goal with |- context [if ?c then rewrite_loop ctx (Tok s_abiC :: x :: out) rest else _] => destruct c eqn:H4 end.
  { rewrite IH by (cbn [length]; lia). ess_done. }
  assert (Hdef : E (rewrite_loop ctx (x :: out) rest) = E (rev out) ++ E (x :: rest)).
  { rewrite IH by (cbn [length]; lia). ess_done. }
  destruct rest as [|[t|d its] rest']; try exact Hdef.
  destruct d; try exact Hdef.
  destruct its as [|a [|b [|c more]]]; try exact Hdef.
  - destruct (is_tok x s_pub && is_tok a s_in && vis_kw b) eqn:H5; [|exact Hdef].
    tok_facts. rewrite IH by (cbn [length]; lia). ess_done.
  - destruct (is_tok x s_pub && is_tok a s_in && is_tok b s_coloncolon) eqn:H5; [|exact Hdef].
    tok_facts. rewrite IH by (cbn [length]; lia). ess_done.
Qed.
Lemma E_rewrite o ctx seq : E (rewrite o ctx seq) = E seq.
Proof.
  unfold rewrite. rewrite E_trailing_seps.
  assert (H : E (block_tails (rewrite_loop ctx [] seq)) = E seq).
  { rewrite E_block_tails, E_rewrite_loop. reflexivity. }
  destruct (o_macro_def o); [exact H|]. rewrite E_arms_and_closures. exact H.
Qed.

(* macro_def *)
Definition E2 (l : list mitem) : list text := E (map fst l).
Definition mok (p : mitem) : Prop := forall d s, fst p = Grp d s -> E (snd p) = E s.
Lemma glue2_eq a na b nb rest : glue2 ((Tok a, na) :: (Tok b, nb) :: rest) =
  if glue_pair a b then (Tok (a ++ b), []) :: glue2 rest else (Tok a, na) :: glue2 ((Tok b, nb) :: rest).
Proof. reflexivity. Qed.
Lemma glue2_spec l : E2 (glue2 l) = E2 l /\ (Forall mok l -> Forall mok (glue2 l)).
Proof.
  induction l as [|x|x y l IH1 IH2] using list_ind2.
  - split; [reflexivity|auto].
  - destruct x as [[a|d its] n]; (split; [reflexivity|auto]).
  - destruct IH1 as [IH1 IH1f]. destruct IH2 as [IH2 IH2f].
    destruct x as [[a|d its] na].
    + destruct y as [[b|d its] nb].
      * rewrite glue2_eq. destruct (glue_pair a b) eqn:Hg.
        -- split.
           ++ unfold E2, mitem in *. cbn [map fst]. rewrite !E_cons, (glue_pair_ess _ _ Hg), IH1, app_assoc. reflexivity.
           ++ intros HF. inversion HF as [|? ? _ HF1]; subst. inversion HF1 as [|? ? _ HF2]; subst.
              constructor; [intros d s Hd; discriminate|auto].
        -- split.
           ++ unfold E2, mitem in *. cbn [map fst] in *. rewrite (E_cons (Tok a) (map fst (glue2 _))), IH2. reflexivity.
           ++ intros HF. inversion HF as [|? ? H0 HF1]; subst. constructor; auto.
      * change (glue2 ((Tok a, na) :: (Grp d its, nb) :: l)) with ((Tok a, na) :: glue2 ((Grp d its, nb) :: l)).
        split.
        -- unfold E2, mitem in *. cbn [map fst] in *. rewrite E_cons, IH2. reflexivity.
        -- intros HF. inversion HF as [|? ? H0 HF1]; subst. constructor; auto.
    + change (glue2 ((Grp d its, na) :: y :: l)) with ((Grp d its, na) :: glue2 (y :: l)).
      split.
      * unfold E2, mitem in *. cbn [map fst] in *. rewrite E_cons, IH2. reflexivity.
      * intros HF. inversion HF as [|? ? H0 HF1]; subst. constructor; auto.
Qed.

Lemma split_on_spec (p : mitem -> bool) (Hp : forall x, p x = true -> E_item (fst x) = []) l :
  forall cur, flat_map E2 (split_on p cur l) = E2 (rev cur) ++ E2 l.
Proof.
  induction l as [|x l IH]; intros cur; cbn [split_on].
  - cbn [flat_map]. unfold E2. cbn [map]. ess_done.
  - destruct (p x) eqn:Hx.
    + cbn [flat_map]. rewrite IH. unfold E2. cbn [rev map fst app]. rewrite E_cons, (Hp _ Hx). reflexivity.
    + rewrite IH. unfold E2. cbn [rev]. rewrite map_app. cbn [map]. ess_done.
Qed.
Lemma split_on_Forall (P : mitem -> Prop) p l : forall cur,
  Forall P cur -> Forall P l -> Forall (Forall P) (split_on p cur l).
Proof.
  induction l as [|x l IH]; intros cur Hc Hl; cbn [split_on].
  - constructor; [apply Forall_rev; exact Hc|constructor].
  - inversion Hl as [|? ? Hx Hl']; subst. destruct (p x).
    + constructor; [apply Forall_rev; exact Hc|]. apply IH; [constructor|exact Hl'].
    + apply IH; [constructor; assumption|exact Hl'].
Qed.
Lemma E_macro_arm arm : Forall mok arm -> E (macro_arm arm) = E2 arm.
Proof.
  intros HF. unfold macro_arm.
  assert (Hdef : E (map fst arm ++ [Tok s_semi]) = E2 arm) by (unfold E2; ess_done).
  destruct arm as [|[x nx] arm]; [reflexivity|].
  destruct x as [t|d m]; [exact Hdef|].
  destruct arm as [|[a na] [|[y ny] [|z arm]]]; try exact Hdef; try (destruct y; exact Hdef).
  destruct y as [t|d2 body]; [exact Hdef|].
  destruct (is_tok a s_fatarrow) eqn:Ha; [|exact Hdef].
  apply is_tok_true in Ha. subst a.
  inversion HF as [|? ? _ HF1]; subst. inversion HF1 as [|? ? _ HF2]; subst. inversion HF2 as [|? ? H3 _]; subst.
  pose proof (H3 d2 body eq_refl) as H3'. cbn [snd] in H3'.
  unfold E2. cbn [map fst]. rewrite !E_cons, !E_grp, H3'. ess_done.
Qed.
Lemma E_macro_def items : Forall mok items -> E (macro_def items) = E2 items.
Proof.
  intros HF. unfold macro_def.
  destruct (glue2_spec items) as [Hg HgF]. specialize (HgF HF).
  rewrite <- Hg.
  transitivity (flat_map E2 (split_on (fun x : mitem => is_tok (fst x) s_semi) [] (glue2 items))).
  2:{ rewrite split_on_spec; [reflexivity|]. intros x Hx. apply is_tok_true in Hx. rewrite Hx. reflexivity. }
  pose proof (split_on_Forall mok (fun x : mitem => is_tok (fst x) s_semi) (glue2 items) [] (Forall_nil _) HgF) as HS.
  induction HS as [|arm arms Harm _ IH]; [reflexivity|].
  cbn [map concat flat_map]. rewrite E_app, IH, (E_macro_arm _ Harm). reflexivity.
Qed.

Lemma E_collapse g : E_item (collapse_parens g) = E_item g.
Proof.
  induction g as [s|d its IH] using item_ind'; [reflexivity|].
  destruct d; try reflexivity.
  destruct its as [|y its1]; [reflexivity|].
  destruct y as [t|d2 its2]; [reflexivity|].
  destruct d2; try reflexivity.
  destruct its1 as [|z its1]; [|reflexivity].
  inversion IH as [|? ? Hy _]; subst.
  change (collapse_parens (Grp DParen [Grp DParen its2])) with (collapse_parens (Grp DParen its2)).
  rewrite Hy. cbn [E_item flat_map]. rewrite app_nil_r. reflexivity.
Qed.

Definition contents (x : item) : list item := match x with Grp _ s => s | Tok _ => [] end.
Section Loop.
Variable rec : opts -> option delim -> item -> list item.
Definition Prec (x : item) : Prop := forall o ctx, E (rec o ctx x) = E (contents x).
Definition Pdeep (x : item) : Prop := Prec x /\ Forall Prec (contents x).

Lemma E_norm_loop items : forall o ctx out skip,
  Forall Pdeep items -> E (norm_loop rec o ctx out skip items) = E (rev out) ++ E items.
Proof.
  induction items as [items IH] using len_ind. intros o ctx out skip HF.
  destruct items as [|x rest].
  { cbn [norm_loop]. rewrite E_rewrite, E_glue. ess_done. }
  inversion HF as [|? ? Hx HF']; subst.
  cbn [norm_loop].
  destruct (skip && is_tok x s_semi) eqn:Hs.
  { tok_facts. rewrite IH by (auto; cbn [length]; lia). ess_done. }
  destruct x as [t|d sub].
  - (* a string *)
    assert (Hdef : E (norm_loop rec o ctx (Tok t :: out) false rest) = E (rev out) ++ E (Tok t :: rest)).
    { rewrite IH by (auto; cbn [length]; lia). ess_done. }
    destruct rest as [|y rest']; [exact Hdef|].
    destruct (eqb_text t s_lt && is_tok y s_gt) eqn:Hlt; [|exact Hdef].
    apply andb_true_iff in Hlt. destruct Hlt as [Ht Hy]. apply eqb_text_spec in Ht. subst t.
    apply is_tok_true in Hy. subst y.
    inversion HF' as [|? ? _ HF'']; subst.
    rewrite IH by (auto; cbn [length]; lia).
    assert (Ho : forall out', out' = match out with p :: out1 => if is_tok p s_coloncolon || is_tok p s_for then out1 else out | [] => out end -> E (rev out') = E (rev out)).
    { intros out' ->. destruct out as [|p out1]; [reflexivity|].
      destruct (is_tok p s_coloncolon) eqn:Hp1; [apply is_tok_true in Hp1; subst p; cbn [orb]; ess_done|].
      destruct (is_tok p s_for) eqn:Hp2; [apply is_tok_true in Hp2; subst p; cbn [orb]; ess_done|reflexivity]. }
    rewrite (Ho _ eq_refl). ess_done.
  - destruct Hx as [Hx Hsub]. cbn [contents] in Hsub.
    destruct (macro_rules_head out).
    + rewrite IH by (auto; cbn [length]; lia). ess_done. rewrite E_macro_def.
      * unfold E2. rewrite map_map. cbn [fst]. rewrite map_id. reflexivity.
      * clear -Hsub. induction Hsub as [|c l Hc _ IHl]; [constructor|].
        cbn [map]. constructor; [|exact IHl].
        intros d s Hd. cbn [fst snd] in *. subst c. apply (Hc (set_macro_def o) (Some DBrace)).
    + cbv zeta.
      set (g := if o_remove_nested_parens o && negb (arg_pos out) then collapse_parens (Grp d (rec o (Some d) (Grp d sub))) else Grp d (rec o (Some d) (Grp d sub))).
      assert (Hg : E_item g = E sub).
      { subst g. destruct (o_remove_nested_parens o && negb (arg_pos out)); [rewrite E_collapse|]; rewrite E_grp; apply (Hx o (Some d)). }
      clearbody g.
      assert (Hdef : forall sk, E (norm_loop rec o ctx (g :: out) sk rest) = E (rev out) ++ E (Grp d sub :: rest)).
      { intros sk. rewrite IH by (auto; cbn [length]; lia). ess_done. rewrite Hg. reflexivity. }
      assert (Hmac : E (norm_loop rec o ctx (match g with Grp _ its => Grp DParen its | Tok _ => g end :: out) true rest) = E (rev out) ++ E (Grp d sub :: rest)).
      { rewrite IH by (auto; cbn [length]; lia). ess_done. rewrite <- Hg. destruct g; reflexivity. }
      assert (Hrest : E (match (if is_tok_o (hd_error out) s_bang && match out with _ :: y :: _ => is_ident y | _ => false end
                then norm_loop rec o ctx (match g with Grp _ its => Grp DParen its | Tok _ => g end :: out) true rest
                else norm_loop rec o ctx (g :: out) false rest) with l => l end) = E (rev out) ++ E (Grp d sub :: rest)).
      { destruct (is_tok_o (hd_error out) s_bang && match out with _ :: y :: _ => is_ident y | _ => false end); [exact Hmac|apply Hdef]. }
      destruct g as [t|[| |] [|[t|d3 s3] [|z its]]]; try exact Hrest.
      destruct (starts_with_digit t && negb (arg_pos out)); [|exact Hrest].
      rewrite IH by (auto; cbn [length]; lia). ess_done. rewrite <- Hg. ess_done.
Qed.
End Loop.

Lemma norm_in_deep x : Pdeep norm_in x.
Proof.
  induction x as [s|d its IH] using item_ind'.
  - split; [intros o ctx; reflexivity|constructor].
  - assert (H : Forall (Prec norm_in) its).
    { clear -IH. induction IH as [|y l [Hy _] _ IHl]; constructor; assumption. }
    split; [|exact H].
    intros o ctx. cbn [norm_in contents]. rewrite (E_norm_loop norm_in its o ctx [] false IH). reflexivity.
Qed.
Lemma E_norm_seq o ctx items : E (norm_seq o ctx items) = E items.
Proof.
  unfold norm_seq. rewrite E_norm_loop; [reflexivity|].
  induction items as [|x r IH]; constructor; [apply norm_in_deep|exact IH].
Qed.
Lemma norm_core_preserves_essential o ts : ess (norm_core o ts) = ess (atoms_of o ts).
Proof. unfold norm_core, norm_core_items, atoms_of. rewrite !ess_flatten. apply E_norm_seq. Qed.


(* merge_derives *)
Fixpoint M_item (x : item) : list text :=
  match x with
  | Tok t => ess_md [t]
  | Grp _ its => flat_map M_item its
  end.
Definition M (seq : list item) : list text := flat_map M_item seq.
Lemma ess_md_app a b : ess_md (a ++ b) = ess_md a ++ ess_md b.
Proof. unfold ess_md, unglue. rewrite flat_map_app, filter_app. reflexivity. Qed.
Lemma ess_md_open d : ess_md [open_text d] = [].
Proof. destruct d; reflexivity. Qed.
Lemma ess_md_close d : ess_md [close_text d] = [].
Proof. destruct d; reflexivity. Qed.
Lemma M_app a b : M (a ++ b) = M a ++ M b.
Proof. unfold M. apply flat_map_app. Qed.
Lemma M_cons x r : M (x :: r) = M_item x ++ M r.
Proof. reflexivity. Qed.
Lemma M_grp d its : M_item (Grp d its) = M its.
Proof. reflexivity. Qed.
Lemma M_rev_cons x out : M (rev (x :: out)) = M (rev out) ++ M_item x.
Proof. cbn [rev]. rewrite M_app. cbn [M flat_map]. rewrite app_nil_r. reflexivity. Qed.
Lemma ess_md_flatten_item x : ess_md (flatten_item x) = M_item x.
Proof.
  induction x as [s|d its IH] using item_ind'.
  - reflexivity.
  - cbn [flatten_item M_item]. change (open_text d :: ?l) with ([open_text d] ++ l).
    rewrite !ess_md_app, ess_md_open, ess_md_close, app_nil_r. cbn [app].
    induction IH as [|y l Hy _ IHl]; [reflexivity|].
    cbn [flat_map]. rewrite ess_md_app, Hy, IHl. reflexivity.
Qed.
Lemma ess_md_flatten seq : ess_md (flatten seq) = M seq.
Proof.
  unfold flatten, M. induction seq as [|x r IH]; [reflexivity|].
  cbn [flat_map]. rewrite ess_md_app, ess_md_flatten_item, IH. reflexivity.
Qed.
Lemma Mt_hash : M_item (Tok s_hash) = []. Proof. reflexivity. Qed.
Lemma Mt_derive : M_item (Tok s_derive) = []. Proof. reflexivity. Qed.
Lemma Mt_comma : M_item (Tok s_comma) = []. Proof. reflexivity. Qed.

Section MdLoop.
Variable rec : item -> item.
Lemma M_md_loop seq : forall out,
  Forall (fun x => M_item (rec x) = M_item x) seq -> M (md_loop rec out seq) = M (rev out) ++ M seq.
Proof.
  induction seq as [|x rest IH]; intros out HF; cbn [md_loop].
  { cbn [M flat_map]. rewrite app_nil_r. reflexivity. }
  inversion HF as [|? ? Hx HF']; subst. cbv zeta.
  assert (Hdef : M (md_loop rec (rec x :: out) rest) = M (rev out) ++ M (x :: rest)).
  { rewrite IH by exact HF'. rewrite M_rev_cons, M_cons, Hx, app_assoc. reflexivity. }
  rewrite M_cons, <- Hx. rewrite M_cons, <- Hx in Hdef.
  destruct (rec x) as [t|d its]; [exact Hdef|].
  destruct d; try exact Hdef.
  destruct its as [|dv [|[t|d2 b] [|z its]]]; try exact Hdef.
  destruct out as [|h1 [|[t|d3 its3] out1]]; try exact Hdef.
  destruct d3; try exact Hdef.
  destruct its3 as [|dv0 [|[t|d4 a] [|z its3]]]; try exact Hdef.
  destruct out1 as [|h3 out']; try exact Hdef.
  destruct (is_tok dv s_derive && is_tok h1 s_hash && is_tok dv0 s_derive && is_tok h3 s_hash) eqn:Hc; [|exact Hdef].
  tok_facts. rewrite IH by exact HF'.
  rewrite !M_rev_cons, !M_grp, !M_cons, !M_grp, !M_app, Mt_hash, Mt_derive.
  assert (Hc : M (if nonempty a && nonempty b then [Tok s_comma] else []) = []) by (destruct (nonempty a && nonempty b); reflexivity).
  rewrite Hc. cbn [M flat_map app]. rewrite !app_nil_r, <- !app_assoc. reflexivity.
Qed.
End MdLoop.
Lemma M_md_item x : M_item (md_item x) = M_item x.
Proof.
  induction x as [s|d its IH] using item_ind'; [reflexivity|].
  cbn [md_item]. rewrite !M_grp. rewrite M_md_loop by exact IH. reflexivity.
Qed.
Lemma M_merge_derives seq : M (merge_derives seq) = M seq.
Proof.
  unfold merge_derives. rewrite M_md_loop; [reflexivity|].
  induction seq as [|x r IH]; constructor; [apply M_md_item|exact IH].
Qed.
Lemma merge_derives_preserves seq : ess_md (flatten (merge_derives seq)) = ess_md (flatten seq).
Proof. rewrite !ess_md_flatten. apply M_merge_derives. Qed.

(* ess_md is a further filter of ess *)
Lemma ess_md_of_ess l : ess_md l = filter (fun t => negb (mem_text t [s_hash; s_derive])) (ess l).
Proof.
  unfold ess_md, ess, essential_md. induction (unglue l) as [|t r IH]; [reflexivity|].
  cbn [filter]. destruct (essential t); cbn [andb filter]; rewrite IH; reflexivity.
Qed.
Lemma norm_noreorder_preserves o ts : ess_md (norm_noreorder o ts) = ess_md (atoms_of o ts).
Proof.
  unfold norm_noreorder.
  assert (H : ess_md (flatten (norm_core_items o ts)) = ess_md (atoms_of o ts)).
  { rewrite !ess_md_of_ess. f_equal. apply norm_core_preserves_essential. }
  destruct (o_merge_derives o); [rewrite merge_derives_preserves|]; exact H.
Qed.

(* reorder_runs: what is outside the runs stays, in order *)
Lemma Sub_refl {A : Type} (l : list A) : Sub l l.
Proof. induction l; constructor; assumption. Qed.
Lemma Sub_nil_l {A : Type} (l : list A) : Sub [] l.
Proof. induction l; constructor; assumption. Qed.
Lemma Sub_app {A : Type} (a1 a2 b1 b2 : list A) : Sub a1 a2 -> Sub b1 b2 -> Sub (a1 ++ b1) (a2 ++ b2).
Proof. intros H. induction H; intros Hb; cbn [app]; [exact Hb|constructor; auto|constructor; auto]. Qed.
Lemma Sub_skip_app {A : Type} (p a b : list A) : Sub a b -> Sub a (p ++ b).
Proof. intros H. induction p; cbn [app]; [exact H|constructor; assumption]. Qed.

Lemma stmts_split_concat seq : forall cur stmts tail,
  stmts_split cur seq = (stmts, tail) -> rev cur ++ seq = concat stmts ++ tail.
Proof.
  induction seq as [|x r IH]; intros cur stmts tail; cbn [stmts_split].
  - intros H. inversion H; subst. rewrite app_nil_r. reflexivity.
  - destruct (is_inner_doc x).
    + destruct (stmts_split [] r) as [ss tl] eqn:Hs. intros H. inversion H; subst.
      specialize (IH [] ss tail Hs). cbn [rev app] in IH. rewrite concat_app. cbn [concat].
      rewrite <- !app_assoc. cbn [app]. rewrite <- IH.
      destruct cur as [|c cur]; [reflexivity|]. cbn [concat]. rewrite app_nil_r. reflexivity.
    + cbv zeta. match goal with |- context [if ?c then _ else _] => destruct c end.
      * destruct (stmts_split [] r) as [ss tl] eqn:Hs. intros H. inversion H; subst.
        specialize (IH [] ss tail Hs). cbn [rev app] in IH. cbn [concat rev]. rewrite <- !app_assoc. cbn [app].
        rewrite <- IH. reflexivity.
      * intros H. specialize (IH (x :: cur) stmts tail H). cbn [rev] in IH. rewrite <- app_assoc in IH. exact IH.
Qed.

Lemma runs_outside o stmts : forall cur, Sub (concat (filter nonrun stmts)) (runs o cur stmts).
Proof.
  induction stmts as [|st r IH]; intros cur; cbn [runs filter].
  - apply Sub_nil_l.
  - unfold nonrun at 1. destruct (stmt_kind st) as [[[k head] body]|] eqn:Hk.
    + destruct cur as [[k0 sts]|]; [destruct (rkind_eqb k0 k)|]; try apply IH.
      apply Sub_skip_app. apply IH.
    + cbn [concat]. apply Sub_skip_app. apply Sub_app; [apply Sub_refl|apply IH].
Qed.
Lemma reorder_runs_outside_lemma o seq stmts tail :
  stmts_split [] seq = (stmts, tail) ->
  seq = concat stmts ++ tail /\ Sub (concat (filter nonrun stmts) ++ tail) (reorder_runs o seq).
Proof.
  intros H. split.
  - apply stmts_split_concat in H. exact H.
  - unfold reorder_runs. rewrite H. apply Sub_app; [apply runs_outside|apply Sub_refl].
Qed.

(* sorting keeps the elements *)
Lemma insert_sorted_perm x l : Permutation (insert_sorted x l) (x :: l).
Proof.
  induction l as [|y l IH]; cbn [insert_sorted]; [apply Permutation_refl|].
  destruct (text_leb x y); [apply Permutation_refl|].
  eapply Permutation_trans; [apply perm_skip; exact IH|apply perm_swap].
Qed.
Lemma sort_texts_perm l : Permutation (sort_texts l) l.
Proof.
  unfold sort_texts. induction l as [|x l IH]; cbn [fold_right]; [constructor|].
  eapply Permutation_trans; [apply insert_sorted_perm|apply perm_skip; exact IH].
Qed.
Lemma insert_uniq_In x l y : In y (insert_uniq x l) <-> y = x \/ In y l.
Proof.
  induction l as [|z l IH]; cbn [insert_uniq In].
  - split; intros [H|H]; auto.
  - destruct (eqb_text x z) eqn:He.
    + apply eqb_text_spec in He. subst z. cbn [In]. split; intros H; [right; exact H|destruct H as [->|H]; [left; reflexivity|exact H]].
    + destruct (text_leb x z); cbn [In]; [split; intros [H|H]; auto|].
      rewrite IH. split; intros H; tauto.
Qed.
Lemma sort_uniq_In l y : In y (sort_uniq l) <-> In y l.
Proof.
  unfold sort_uniq. induction l as [|x l IH]; cbn [fold_right In]; [tauto|].
  rewrite insert_uniq_In, IH. split; intros [H|H]; auto.
Qed.
(* a run of mod / extern crate declarations: the ITEM strings are exactly those of its statements *)
Lemma flush_run_items_perm o k sts : k <> RUse ->
  Permutation (flush_run o (Some (k, sts)))
              (map (fun e => Tok (item_string (join [SP] (flatten (snd e))))) (rev sts)).
Proof.
  intros Hk.
  assert (H : Permutation (map (fun s => Tok (item_string s))
                  (sort_texts (map (fun e : list item * list item * list item => let '(_, _, st) := e in join [SP] (flatten st)) (rev sts))))
              (map (fun e : list item * list item * list item => Tok (item_string (join [SP] (flatten (snd e))))) (rev sts))).
  { eapply Permutation_trans; [apply Permutation_map; apply sort_texts_perm|].
    rewrite map_map. erewrite map_ext; [apply Permutation_refl|]. intros [[h b] st]. reflexivity. }
  destruct k; [contradiction Hk; reflexivity|exact H|exact H].
Qed.


(* use_leaves: no path segment and no alias is invented *)
Section UseSound.
Variable U : list text.
Definition okseg (s : text) : Prop := s = [] \/ In s U.
Definition eok (e : uentry) : Prop :=
  Forall okseg (fst e) /\ (forall a, snd e = Some a -> In a U).
Definition stok (st : pstate) : Prop :=
  match st with
  | PScan segs _ => Forall okseg segs
  | PAlias segs => Forall okseg segs
  | PDone ls => Forall eok ls
  end.
Definition inU (x : item) : Prop := forall s, In s (flatten_item x) -> In s U.

Lemma Forall_removelast {A : Type} (P : A -> Prop) l : Forall P l -> Forall P (removelast l).
Proof.
  induction l as [|x l IH]; intros H; [constructor|].
  inversion H as [|? ? Hx Hl]; subst. cbn [removelast]. destruct l; [constructor|].
  constructor; [exact Hx|apply IH; exact Hl].
Qed.
Lemma leaf_ok prefix segs alias :
  Forall okseg prefix -> Forall okseg segs -> (forall a, alias = Some a -> In a U) ->
  Forall eok (leaf prefix segs alias).
Proof.
  intros Hp Hs Ha. unfold leaf.
  set (path0 := prefix ++ rev segs).
  assert (H0 : Forall okseg path0) by (apply Forall_app; split; [exact Hp|apply Forall_rev; exact Hs]).
  set (path := match rev path0 with l :: _ :: _ => if eqb_text l s_self then removelast path0 else path0 | _ => path0 end).
  assert (H1 : Forall okseg path).
  { subst path. destruct (rev path0) as [|l [|l2 r]]; try exact H0.
    destruct (eqb_text l s_self); [apply Forall_removelast|]; exact H0. }
  clearbody path. destruct (rev path) as [|l r]; [constructor|].
  constructor; [|constructor]. split; [exact H1|].
  cbn [snd]. intros a. destruct alias as [a0|]; [|discriminate].
  destruct (eqb_text a0 l); [discriminate|]. intros H. apply Ha. exact H.
Qed.
Lemma pfinish_ok prefix st : Forall okseg prefix -> stok st -> Forall eok (pfinish prefix st).
Proof.
  intros Hp Hst. destruct st as [segs first|segs|ls]; cbn [pfinish stok] in *.
  - destruct first; [constructor|]. apply leaf_ok; [exact Hp|exact Hst|discriminate].
  - apply leaf_ok; [exact Hp|exact Hst|discriminate].
  - exact Hst.
Qed.

Section Loop.
Variable rec : list text -> item -> list uentry.
Variable dr : bool.
Lemma parse_loop_ok ts : forall prefix st,
  Forall okseg prefix -> stok st -> Forall inU ts ->
  Forall (fun t => forall p, Forall okseg p -> Forall eok (rec p t)) ts ->
  Forall eok (parse_loop rec dr prefix st ts).
Proof.
  induction ts as [|t ts IH]; intros prefix st Hp Hst HU Hrec; cbn [parse_loop].
  - apply pfinish_ok; assumption.
  - inversion HU as [|? ? Ht HU']; subst. inversion Hrec as [|? ? Hr Hrec']; subst.
    destruct (is_tok t s_comma).
    { apply Forall_app. split; [apply pfinish_ok; assumption|].
      apply IH; try assumption. cbn [stok]. constructor. }
    destruct st as [segs first|segs|ls].
    + cbn [stok] in Hst. destruct t as [s|d sub].
      * assert (Hs : In s U) by (apply Ht; left; reflexivity).
        destruct (eqb_text s s_as); [apply IH; assumption|].
        destruct (eqb_text s s_coloncolon).
        -- apply IH; try assumption. cbn [stok].
           destruct (first && match prefix with [] => true | _ :: _ => false end && negb dr); [|exact Hst].
           constructor; [left; reflexivity|exact Hst].
        -- apply IH; try assumption. cbn [stok]. constructor; [right; exact Hs|exact Hst].
      * apply IH; try assumption. cbn [stok]. apply Hr.
        apply Forall_app. split; [exact Hp|apply Forall_rev; exact Hst].
    + cbn [stok] in Hst. apply IH; try assumption. cbn [stok].
      apply leaf_ok; [exact Hp|exact Hst|].
      intros a Ha. destruct t as [s|d sub]; [|discriminate]. inversion Ha; subst. apply Ht. left. reflexivity.
    + apply IH; assumption.
Qed.
End Loop.

Lemma inU_sub d sub : inU (Grp d sub) -> Forall inU sub.
Proof.
  intros H. apply Forall_forall. intros y Hy s Hs. apply H. cbn [flatten_item]. right.
  apply in_or_app. left. apply in_flat_map. exists y. split; assumption.
Qed.
Lemma parse_grp_ok dr x : forall prefix, Forall okseg prefix -> inU x -> Forall eok (parse_grp dr prefix x).
Proof.
  induction x as [s|d sub IH] using item_ind'; intros prefix Hp HU; cbn [parse_grp]; [constructor|].
  apply parse_loop_ok; [exact Hp|constructor|apply inU_sub with d; exact HU|].
  pose proof (inU_sub d sub HU) as HUs. clear HU.
  induction IH as [|y l Hy _ IHl]; [constructor|].
  inversion HUs as [|? ? Hyu HUl]; subst. constructor; [|apply IHl; exact HUl].
  intros p Hpp. apply Hy; assumption.
Qed.
End UseSound.

Lemma use_leaves_sound_lemma dr items path alias :
  In (path, alias) (parse_entries dr items) ->
  (forall seg, In seg path -> seg = [] \/ In seg (flatten items)) /\
  (forall a, alias = Some a -> In a (flatten items)).
Proof.
  intros H. unfold parse_entries in H.
  assert (HF : Forall (eok (flatten items)) (parse_loop (parse_grp dr) dr [] (PScan [] true) items)).
  { assert (HU : Forall (inU (flatten items)) items).
    { apply Forall_forall. intros y Hy s Hs. unfold flatten. apply in_flat_map. exists y. split; assumption. }
    apply parse_loop_ok; [constructor|constructor|exact HU|].
    clear H. revert HU. generalize (flatten items) as U. intros U HU.
    induction HU as [|y l Hy _ IHl]; [constructor|]. constructor; [|exact IHl].
    intros p Hp. apply parse_grp_ok; assumption. }
  rewrite Forall_forall in HF. specialize (HF _ H). destruct HF as [H1 H2]. cbn [fst snd] in *.
  split; [|exact H2]. intros seg Hs. rewrite Forall_forall in H1. apply H1. exact Hs.
Qed.

(* use_leaves is the sorted set of the rendered entries *)
Lemma use_leaves_set_lemma dr items s :
  In s (use_leaves dr items) <-> exists e, In e (parse_entries dr items) /\ s = render_leaf e.
Proof.
  unfold use_leaves, parse_use. rewrite sort_uniq_In, in_map_iff.
  split; intros [e [H1 H2]]; exists e; split; auto.
Qed.


(* ------------------------------------------------------------------ *)
(* P3: every pass is a chain of steps *)
Lemma app_cons_assoc {A : Type} (P : list A) x l : (P ++ [x]) ++ l = P ++ x :: l.
Proof. rewrite <- app_assoc. reflexivity. Qed.
Lemma rev_cons_app {A : Type} (x : A) out l : rev (x :: out) ++ l = rev out ++ x :: l.
Proof. cbn [rev]. apply app_cons_assoc. Qed.
Lemma lasto_rev out : lasto (rev out) = hd_error out.
Proof. unfold lasto. rewrite rev_involutive. reflexivity. Qed.
Lemma lasto_snoc P x : lasto (P ++ [x]) = Some x.
Proof. unfold lasto. rewrite rev_app_distr. reflexivity. Qed.
Lemma lasto_nil : lasto [] = None.
Proof. reflexivity. Qed.
Lemma brace_ctx_of ctx : brace_ctx (sctx_of ctx) = is_brace ctx.
Proof. destruct ctx as [[| |]|]; reflexivity. Qed.
Lemma sctx_of_not_macro ctx : sctx_of ctx <> CMacro.
Proof. destruct ctx; discriminate. Qed.
Lemma macro_def_pos_rev out : macro_def_pos (rev out) = macro_rules_head out.
Proof. unfold macro_def_pos. rewrite rev_involutive. reflexivity. Qed.

Lemma Eq_step_then c a b e : Step c a b -> Equiv c b e -> Equiv c a e.
Proof. intros H1 H2. eapply Eq_trans; [apply Eq_step; exact H1|exact H2]. Qed.
Lemma Eq_pets_then c a b e : Step c b a -> Equiv c b e -> Equiv c a e.
Proof. intros H1 H2. eapply Eq_trans; [apply Eq_sym, Eq_step; exact H1|exact H2]. Qed.

(* glue *)
Lemma glue_equiv c seq : forall P, Equiv c (P ++ seq) (P ++ glue seq).
Proof.
  induction seq as [|x|x y l IH1 IH2] using list_ind2; intros P.
  - apply Eq_refl.
  - destruct x; apply Eq_refl.
  - destruct x as [a|d its].
    + destruct y as [b|d its].
      * rewrite glue_eq. destruct (glue_pair a b) eqn:Hg.
        -- eapply Eq_step_then; [apply S_glue; exact Hg|].
           rewrite <- (app_cons_assoc P (Tok (a ++ b)) l), <- (app_cons_assoc P (Tok (a ++ b)) (glue l)). apply IH1.
        -- rewrite <- (app_cons_assoc P (Tok a)), <- (app_cons_assoc P (Tok a) (glue _)). apply IH2.
      * change (glue (Tok a :: Grp d its :: l)) with (Tok a :: glue (Grp d its :: l)).
        rewrite <- (app_cons_assoc P (Tok a)), <- (app_cons_assoc P (Tok a) (glue _)). apply IH2.
    + change (glue (Grp d its :: y :: l)) with (Grp d its :: glue (y :: l)).
      rewrite <- (app_cons_assoc P (Grp d its)), <- (app_cons_assoc P (Grp d its) (glue _)). apply IH2.
Qed.

(* rewrite_loop *)
Lemma rewrite_loop_equiv ctx seq : forall out,
  Equiv (sctx_of ctx) (rev out ++ seq) (rewrite_loop ctx out seq).
Proof.
  induction seq as [seq IH] using len_ind. intros out.
  destruct seq as [|x rest]; [cbn [rewrite_loop]; rewrite app_nil_r; apply Eq_refl|].
  cbn [rewrite_loop]. cbv zeta.
  match goal with |- context [if ?c then rewrite_loop ctx out rest else _] => destruct c eqn:H1 end.
  { apply andb_true_iff in H1. destruct H1 as [H1 H1b]. apply is_tok_true in H1. subst x.
    eapply Eq_step_then; [|apply IH; cbn [length]; lia].
    apply S_redundant_semi. rewrite lasto_rev, brace_ctx_of.
    destruct out as [|p out']; [cbn [rev hd_error] in *; exact H1b|].
    cbn [hd_error] in *. rewrite orb_false_r in H1b. rewrite H1b.
    destruct (rev (p :: out')) eqn:Hr; [apply (f_equal (@length item)) in Hr; rewrite rev_length in Hr; discriminate|reflexivity]. }
  match goal with |- context [if ?c then rewrite_loop ctx out rest else _] => destruct c eqn:H2 end.
  { apply andb_true_iff in H2. destruct H2 as [H2 H2b]. apply is_tok_true in H2. subst x.
    eapply Eq_step_then; [|apply IH; cbn [length]; lia].
    apply S_empty_where. destruct rest as [|y rest']; [reflexivity|].
    cbn [hd_error] in H2b. unfold ends_where. rewrite <- H2b.
    destruct (is_grp y DBrace), (is_tok y s_semi), (is_tok y s_eq); reflexivity. }
  match goal with |- context [if ?c then rewrite_loop ctx out rest else _] => destruct c eqn:H3 end.
  { apply andb_true_iff in H3. destruct H3 as [H3 H3d]. apply andb_true_iff in H3. destruct H3 as [H3 H3c].
    apply andb_true_iff in H3. destruct H3 as [H3 H3b]. apply is_tok_true in H3. subst x.
    eapply Eq_step_then; [|apply IH; cbn [length]; lia].
    apply S_empty_bounds.
    - rewrite lasto_rev. exact H3b.
    - destruct rest; exact H3c.
    - rewrite brace_ctx_of. apply negb_true_iff in H3d. exact H3d. }
  match goal with |- context [if ?c then rewrite_loop ctx (Tok s_abiC :: x :: out) rest else _] => destruct c eqn:H4 end.
  { apply andb_true_iff in H4. destruct H4 as [H4 H4c]. apply andb_true_iff in H4. destruct H4 as [H4 H4b].
    apply is_tok_true in H4. subst x.
    eapply Eq_step_then.
    { apply S_extern_abi. destruct rest as [|y rest']; [reflexivity|].
      cbn [hd_error is_tok_o] in *. rewrite H4b. destruct y; exact H4c. }
    rewrite <- !rev_cons_app. apply IH. cbn [length]. lia. }
  assert (Hdef : Equiv (sctx_of ctx) (rev out ++ x :: rest) (rewrite_loop ctx (x :: out) rest)).
  { rewrite <- rev_cons_app. apply IH. cbn [length]. lia. }
  destruct rest as [|[t|d its] rest']; try exact Hdef.
  destruct d; try exact Hdef.
  destruct its as [|a [|b [|c0 more]]]; try exact Hdef.
  - destruct (is_tok x s_pub && is_tok a s_in && vis_kw b) eqn:H5; [|exact Hdef].
    apply andb_true_iff in H5. destruct H5 as [H5 H5c]. apply andb_true_iff in H5. destruct H5 as [H5 H5b].
    apply is_tok_true in H5. apply is_tok_true in H5b. subst x a.
    eapply Eq_step_then; [apply S_vis_in; exact H5c|].
    rewrite <- !rev_cons_app. apply IH. cbn [length]. lia.
  - destruct (is_tok x s_pub && is_tok a s_in && is_tok b s_coloncolon) eqn:H5; [|exact Hdef].
    apply andb_true_iff in H5. destruct H5 as [H5 H5c]. apply andb_true_iff in H5. destruct H5 as [H5 H5b].
    apply is_tok_true in H5. apply is_tok_true in H5b. apply is_tok_true in H5c. subst x a b.
    eapply Eq_step_then; [apply S_vis_root|].
    rewrite <- !rev_cons_app. apply IH. cbn [length]. lia.
Qed.

(* inside a brace group: the optional `;` of a final return / break / continue (or, in the body of a macro
   definition, the optional final `;`) *)
Lemma tail_semi_equiv c P items Q : c <> CMacro -> drops_tail_semi items = true ->
  Equiv c (P ++ Grp DBrace items :: Q) (P ++ Grp DBrace (removelast items) :: Q).
Proof.
  intros Hc Hd. pose proof (drops_tail_semi_inv _ Hd) as Hi.
  destruct (macro_def_pos P) eqn:Hm.
  - apply Eq_macro_body; [exact Hc|exact Hm|]. rewrite Hi at 1.
    apply Eq_step. pose proof (S_macro_sep CMacro (removelast items) [] eq_refl eq_refl) as HS.
    rewrite app_nil_r in HS. exact HS.
  - apply Eq_nest; [exact Hc|exact Hm|]. rewrite Hi at 1.
    apply Eq_step. apply S_diverging_semi; [reflexivity|]. rewrite <- Hi. exact Hd.
Qed.
Lemma block_tails_equiv c seq : c <> CMacro -> forall P, Equiv c (P ++ seq) (P ++ block_tails seq).
Proof.
  intros Hc. unfold block_tails. induction seq as [|x r IH]; intros P; [apply Eq_refl|].
  cbn [map].
  eapply Eq_trans with (P ++ block_tail x :: r).
  - destruct x as [t|d items]; [apply Eq_refl|]. destruct d; try apply Eq_refl.
    cbn [block_tail]. destruct (drops_tail_semi items) eqn:Hd; [|apply Eq_refl].
    apply tail_semi_equiv; assumption.
  - rewrite <- (app_cons_assoc P (block_tail x) r), <- (app_cons_assoc P (block_tail x) (map _ r)). apply IH.
Qed.


Lemma seb_brace x : single_expr_block x = true -> exists body, x = Grp DBrace body.
Proof.
  destruct x as [t|d its]; [discriminate|]. destruct d; try discriminate. intros _. eexists. reflexivity.
Qed.
(* the unwrap loop, given the one-level step at this position *)
Lemma unwrap_equiv c A Q :
  (forall body, single_expr_block (Grp DBrace body) = true -> Equiv c (A ++ Grp DBrace body :: Q) (A ++ body ++ Q)) ->
  forall x, Equiv c (A ++ x :: Q) (A ++ unwrap x ++ Q).
Proof.
  intros Hstep x. induction x as [s|d its IH] using item_ind'.
  - rewrite unwrap_eq. destruct (single_expr_block (Tok s)); apply Eq_refl.
  - rewrite unwrap_eq. destruct (single_expr_block (Grp d its)) eqn:Hs; [|apply Eq_refl].
    destruct (seb_brace _ Hs) as [body Hb]. inversion Hb; subst d body.
    eapply Eq_trans; [apply Hstep; exact Hs|].
    destruct its as [|y [|z its]]; try apply Eq_refl.
    inversion IH as [|? ? Hy _]; subst. exact Hy.
Qed.

Lemma arms_equiv c seq : forall P, Equiv c (P ++ seq) (P ++ arms (brace_ctx c) seq).
Proof.
  induction seq as [seq IH] using len_ind. intros P.
  destruct seq as [|x [|nxt rest2]]; [apply Eq_refl|apply Eq_refl|].
  rewrite arms_eq.
  destruct (is_tok x s_fatarrow && brace_ctx c && is_grp nxt DBrace) eqn:Hc; cbv zeta.
  2:{ rewrite <- (app_cons_assoc P x), <- (app_cons_assoc P x (arms _ _)). apply IH. cbn [length]. lia. }
  apply andb_true_iff in Hc. destruct Hc as [Hc Hg]. apply andb_true_iff in Hc. destruct Hc as [Hx Hb].
  apply is_tok_true in Hx. subst x. destruct (is_grp_true _ _ Hg) as [b ->].
  assert (Hun : forall Q, Equiv c (P ++ Tok s_fatarrow :: Grp DBrace b :: Q) (P ++ Tok s_fatarrow :: unwrap (Grp DBrace b) ++ Q)).
  { intros Q. rewrite <- (app_cons_assoc P (Tok s_fatarrow)), <- (app_cons_assoc P (Tok s_fatarrow) (unwrap _ ++ Q)).
    apply unwrap_equiv. intros body Hs. rewrite (app_cons_assoc P (Tok s_fatarrow)), (app_cons_assoc P (Tok s_fatarrow) (body ++ Q)). apply Eq_step. apply S_arm_block; assumption. }
  assert (Hfa : forall Q, existsb is_fatarrow ((P ++ [Tok s_fatarrow]) ++ Q) = true).
  { intros Q. rewrite !existsb_app. cbn [existsb]. unfold is_fatarrow at 2. rewrite is_tok_refl.
    rewrite orb_true_r. reflexivity. }
  assert (Hcomma : forall Q, Equiv c (P ++ Tok s_fatarrow :: Grp DBrace b :: Tok s_comma :: Q) (P ++ Tok s_fatarrow :: Grp DBrace b :: Q)).
  { intros Q. rewrite <- (app_cons_assoc P (Tok s_fatarrow)), <- (app_cons_assoc P (Tok s_fatarrow) (_ :: Q)).
    apply Eq_step. apply S_arm_comma; [exact Hb|apply Hfa]. }
  assert (Hgo : forall r3, (length r3 < length (Tok s_fatarrow :: Grp DBrace b :: rest2))%nat -> r3 <> [] ->
     Equiv c (P ++ Tok s_fatarrow :: Grp DBrace b :: Tok s_comma :: r3)
             (P ++ Tok s_fatarrow :: unwrap (Grp DBrace b) ++ [Tok s_comma] ++ arms (brace_ctx c) r3)).
  { intros r3 Hl Hne. eapply Eq_trans; [apply Hun|].
    assert (Ha : forall l, P ++ Tok s_fatarrow :: unwrap (Grp DBrace b) ++ Tok s_comma :: l
                 = (P ++ Tok s_fatarrow :: unwrap (Grp DBrace b) ++ [Tok s_comma]) ++ l).
    { intros l. rewrite <- app_assoc. cbn [app]. rewrite <- app_assoc. reflexivity. }
    cbn [app]. rewrite (Ha r3), (Ha (arms (brace_ctx c) r3)). apply IH. exact Hl. }
  destruct rest2 as [|a r3].
  - cbn [arms app]. rewrite app_nil_r. rewrite <- (app_nil_r (unwrap _)). apply Hun.
  - destruct (is_tok a s_comma) eqn:Ha.
    + apply is_tok_true in Ha. subst a. destruct r3 as [|z r3].
      * cbn [arms app]. rewrite app_nil_r. eapply Eq_trans; [apply Hcomma|].
        rewrite <- (app_nil_r (unwrap _)). apply Hun.
      * apply Hgo; [cbn [length]; lia|discriminate].
    + eapply Eq_trans; [apply Eq_sym, Hcomma|]. apply Hgo; [cbn [length]; lia|discriminate].
Qed.

(* closures *)
Lemma find_close_params l : forall acc p after,
  find_close l acc = Some (p, after) -> closure_params (rev acc) = true -> closure_params (rev p) = true.
Proof.
  induction l as [|y l IH]; intros acc p after; cbn [find_close]; [discriminate|].
  destruct (is_tok y s_pipe) eqn:Hy.
  - intros H. inversion H; subst. auto.
  - destruct (is_tok y s_semi || is_tok y s_fatarrow) eqn:Hs; [discriminate|].
    intros H Hacc. apply (IH _ _ _ H). unfold closure_params in *. cbn [rev]. rewrite existsb_app.
    apply negb_true_iff in Hacc. rewrite Hacc. cbn [existsb]. rewrite Hy.
    apply orb_false_iff in Hs. destruct Hs as [Hs1 Hs2]. rewrite Hs1, Hs2. reflexivity.
Qed.
Lemma closure_params_tail y p : closure_params (rev (y :: p)) = true -> closure_params (rev p) = true.
Proof.
  unfold closure_params. cbn [rev]. rewrite existsb_app. intros H. apply negb_true_iff in H.
  apply orb_false_iff in H. destruct H as [H _]. rewrite H. reflexivity.
Qed.

Lemma closures_equiv c fuel : forall res l, Equiv c (rev res ++ l) (closures fuel res l).
Proof.
  induction fuel as [|f IH]; intros res l; cbn [closures]; [apply Eq_refl|].
  destruct l as [|x rest]; [rewrite app_nil_r; apply Eq_refl|].
  assert (Hdef : forall l', Equiv c (rev res ++ x :: l') (closures f (x :: res) l')).
  { intros l'. rewrite <- rev_cons_app. apply IH. }
  destruct (is_tok x s_pipe && starts_expr (hd_error res)) eqn:Hc; [|apply Hdef].
  apply andb_true_iff in Hc. destruct Hc as [Hx Hse]. apply is_tok_true in Hx. subst x.
  destruct (find_close rest []) as [[params_rev after]|] eqn:Hf; [|apply Hdef].
  pose proof (find_close_params _ _ _ _ Hf eq_refl) as Hcp.
  apply find_close_spec in Hf. cbn [rev app] in Hf. subst rest.
  set (p' := match params_rev with y :: p' => if is_tok y s_comma then p' else params_rev | [] => [] end).
  assert (Hp : Equiv c (rev res ++ Tok s_pipe :: rev params_rev ++ Tok s_pipe :: after)
                       (rev res ++ Tok s_pipe :: rev p' ++ Tok s_pipe :: after)
               /\ closure_params (rev p') = true).
  { subst p'. destruct params_rev as [|y q]; [split; [apply Eq_refl|reflexivity]|].
    destruct (is_tok y s_comma) eqn:Hy; [|split; [apply Eq_refl|exact Hcp]].
    apply is_tok_true in Hy. subst y. split; [|apply closure_params_tail in Hcp; exact Hcp].
    cbn [rev]. rewrite <- app_assoc. cbn [app]. apply Eq_step. apply S_closure_comma.
    - rewrite lasto_rev. exact Hse.
    - apply closure_params_tail in Hcp. exact Hcp. }
  destruct Hp as [Hp Hcp']. clearbody p'.
  eapply Eq_trans; [exact Hp|].
  destruct after as [|b after']; [apply Hdef|].
  destruct (single_expr_block b && negb (existsb (fun t => is_tok t s_fatarrow) (Tok s_pipe :: rev p'))) eqn:Hb; [|apply Hdef].
  apply andb_true_iff in Hb. destruct Hb as [Hb _].
  eapply Eq_trans; [|apply IH].
  rewrite !rev_app_distr, rev_involutive. cbn [rev]. rewrite !rev_app_distr. cbn [rev app].
  rewrite <- !app_assoc. cbn [app].
  assert (Ha : forall l, rev res ++ Tok s_pipe :: rev p' ++ Tok s_pipe :: l = (rev res ++ Tok s_pipe :: rev p' ++ [Tok s_pipe]) ++ l).
  { intros l. rewrite <- app_assoc. cbn [app]. rewrite <- app_assoc. reflexivity. }
  rewrite (Ha (b :: after')), (Ha (unwrap b ++ after')). apply unwrap_equiv. intros body Hs.
  rewrite <- (Ha (Grp DBrace body :: after')), <- (Ha (body ++ after')).
  apply Eq_step. apply S_closure_block; [rewrite lasto_rev; exact Hse|exact Hcp'|exact Hs].
Qed.

Lemma lead_pipes_equiv c l : forall final, Equiv c (rev final ++ l) (lead_pipes (brace_ctx c) final l).
Proof.
  induction l as [|x rest IH]; intros final; cbn [lead_pipes]; [rewrite app_nil_r; apply Eq_refl|].
  destruct (is_tok x s_pipe && brace_ctx c && arm_start final && arrow_before_comma rest) eqn:Hc.
  - apply andb_true_iff in Hc. destruct Hc as [Hc H4]. apply andb_true_iff in Hc. destruct Hc as [Hc H3].
    apply andb_true_iff in Hc. destruct Hc as [H1 H2]. apply is_tok_true in H1. subst x.
    eapply Eq_step_then; [|apply IH]. apply S_leading_pipe; [exact H2|rewrite rev_involutive; exact H3|exact H4].
  - rewrite <- rev_cons_app. apply IH.
Qed.

Lemma existsb_fatarrow_drop P b Q :
  existsb is_fatarrow (P ++ Grp DBrace b :: Tok s_comma :: Q) = existsb is_fatarrow (P ++ Grp DBrace b :: Q).
Proof. rewrite !existsb_app. reflexivity. Qed.
Lemma drop_arm_commas_equiv c l : brace_ctx c = true -> forall P prev,
  (is_grp_o prev DBrace = true -> lasto P = prev) ->
  existsb is_fatarrow (P ++ l) = true ->
  Equiv c (P ++ l) (P ++ drop_arm_commas prev l).
Proof.
  intros Hb. induction l as [|x r IH]; intros P prev Hprev Hex; cbn [drop_arm_commas]; [apply Eq_refl|].
  destruct (is_tok x s_comma && is_grp_o prev DBrace) eqn:Hc.
  - apply andb_true_iff in Hc. destruct Hc as [Hx Hg]. apply is_tok_true in Hx. subst x.
    specialize (Hprev Hg). destruct prev as [p|]; [|discriminate]. cbn [is_grp_o] in Hg.
    destruct (is_grp_true _ _ Hg) as [b ->].
    assert (HP : exists P0, P = P0 ++ [Grp DBrace b]).
    { unfold lasto in Hprev. destruct (rev P) as [|z rp] eqn:Hr; [discriminate|].
      cbn [hd_error] in Hprev. inversion Hprev; subst z. exists (rev rp). apply rev_cons_inv. exact Hr. }
    destruct HP as [P0 ->].
    rewrite (app_cons_assoc P0 (Grp DBrace b) (Tok s_comma :: r)) in *.
    eapply Eq_step_then.
    { apply S_arm_comma; [exact Hb|]. rewrite existsb_app in *. cbn [existsb] in Hex. exact Hex. }
    rewrite <- (app_cons_assoc P0 (Grp DBrace b) r). apply IH.
    + intros H. discriminate.
    + rewrite (app_cons_assoc P0 (Grp DBrace b) r). rewrite <- existsb_fatarrow_drop. exact Hex.
  - rewrite <- (app_cons_assoc P x), <- (app_cons_assoc P x (drop_arm_commas _ _)). apply IH.
    + intros _. apply lasto_snoc.
    + rewrite app_cons_assoc. exact Hex.
Qed.

Lemma arms_and_closures_equiv ctx seq :
  Equiv (sctx_of ctx) seq (arms_and_closures ctx seq).
Proof.
  unfold arms_and_closures. rewrite <- brace_ctx_of.
  set (c := sctx_of ctx).
  assert (H : Equiv c seq (lead_pipes (brace_ctx c) [] (closures_run (arms (brace_ctx c) seq)))).
  { eapply Eq_trans; [apply (arms_equiv c seq [])|]. cbn [app].
    eapply Eq_trans; [apply (closures_equiv c (S (length (arms (brace_ctx c) seq))) [])|].
    apply (lead_pipes_equiv c _ []). }
  destruct (brace_ctx c) eqn:Hb; [|exact H]. cbn [andb].
  match goal with |- context [if ?e then _ else _] => destruct e eqn:He end; [|exact H].
  eapply Eq_trans; [exact H|].
  apply (drop_arm_commas_equiv c _ Hb [] None); [discriminate|exact He].
Qed.


Lemma trim_group_equiv c P x Q : c <> CMacro ->
  Equiv c (P ++ x :: Q) (P ++ trim_group (rev P) x :: Q).
Proof.
  intros Hc. destruct x as [t|d items]; [apply Eq_refl|]. cbn [trim_group].
  set (items1 := if last_is items s_comma then _ else items).
  assert (H1 : Equiv c (P ++ Grp d items :: Q) (P ++ Grp d items1 :: Q)).
  { subst items1. destruct (last_is items s_comma) eqn:Hl; [|apply Eq_refl].
    match goal with |- context [if ?e then removelast items else items] => destruct e eqn:He end; [|apply Eq_refl].
    pose proof (last_is_inv _ _ Hl) as Hi. rewrite Hi at 1. apply Eq_step. apply S_trailing_sep.
    rewrite <- Hi. exact He. }
  clearbody items1. eapply Eq_trans; [exact H1|].
  destruct d; try apply Eq_refl.
  destruct (drops_tail_semi items1) eqn:Hd; [|apply Eq_refl].
  apply tail_semi_equiv; assumption.
Qed.
Lemma trim_groups_equiv c seq : c <> CMacro -> forall P, Equiv c (P ++ seq) (P ++ trim_groups (rev P) seq).
Proof.
  intros Hc. induction seq as [|x r IH]; intros P; [apply Eq_refl|].
  cbn [trim_groups]. cbv zeta.
  eapply Eq_trans; [apply trim_group_equiv; exact Hc|].
  set (x' := trim_group (rev P) x).
  rewrite <- (app_cons_assoc P x' r), <- (app_cons_assoc P x' (trim_groups _ r)).
  rewrite <- (rev_unit P x'). apply IH.
Qed.

Lemma wstate_snoc P x : wstate (P ++ [x]) = wstep (wstate P) x.
Proof. unfold wstate. rewrite fold_left_app. reflexivity. Qed.
Lemma wstep_comma w a : wstep (w, a) (Tok s_comma) = (w, a).
Proof.
  unfold wstep.
  change (is_tok (Tok s_comma) s_where) with false.
  change (is_tok (Tok s_comma) s_lt) with false.
  change (is_tok (Tok s_comma) s_gt) with false.
  change (ends_where (Tok s_comma)) with false.
  cbn [orb andb]. rewrite ?andb_false_r. cbn [orb andb]. rewrite ?andb_false_r. reflexivity.
Qed.
Lemma where_commas_equiv c seq : forall P w a, wstate P = (w, a) ->
  Equiv c (P ++ seq) (P ++ where_commas w a seq).
Proof.
  induction seq as [|x r IH]; intros P w a Hst; [apply Eq_refl|].
  cbn [where_commas]. cbv zeta.
  destruct (is_tok x s_comma) eqn:Hx.
  - apply is_tok_true in Hx. subst x.
    change (is_tok (Tok s_comma) s_where) with false.
    change (is_tok (Tok s_comma) s_lt) with false.
    change (is_tok (Tok s_comma) s_gt) with false.
    change (is_tok (Tok s_comma) s_comma) with true.
    change (ends_where (Tok s_comma)) with false.
    cbn [orb andb]. rewrite !andb_false_r. cbn [orb andb].
    destruct (is_tok_o (hd_error r) s_gt) eqn:Hn.
    + apply is_tok_o_true in Hn. destruct r as [|y r']; [discriminate|]. cbn [hd_error] in Hn. inversion Hn; subst y.
      eapply Eq_step_then; [apply S_generic_comma|]. apply IH. exact Hst.
    + destruct (w && Nat.eqb a 0 && match hd_error r with None => true | Some y => ends_where y end) eqn:Hw.
      * apply andb_true_iff in Hw. destruct Hw as [Hw Hn2].
        eapply Eq_step_then; [|apply IH; exact Hst].
        apply S_where_comma; [rewrite Hst; exact Hw|destruct r; exact Hn2].
      * rewrite <- (app_cons_assoc P (Tok s_comma) r), <- (app_cons_assoc P (Tok s_comma) (where_commas _ _ r)).
        apply IH. rewrite wstate_snoc, Hst. apply wstep_comma.
  - cbn [andb].
    rewrite <- (app_cons_assoc P x r).
    match goal with |- Equiv c _ (P ++ x :: where_commas ?w2 ?a3 r) =>
      rewrite <- (app_cons_assoc P x (where_commas w2 a3 r)); apply IH end.
    rewrite wstate_snoc, Hst. reflexivity.
Qed.
Lemma trailing_seps_equiv c seq : c <> CMacro -> Equiv c seq (trailing_seps seq).
Proof.
  intros Hc. unfold trailing_seps.
  eapply Eq_trans; [apply (trim_groups_equiv c seq Hc [])|].
  apply (where_commas_equiv c _ [] false O). reflexivity.
Qed.
Lemma rewrite_equiv o ctx seq : Equiv (sctx_of ctx) seq (rewrite o ctx seq).
Proof.
  unfold rewrite.
  assert (H : Equiv (sctx_of ctx) seq (block_tails (rewrite_loop ctx [] seq))).
  { eapply Eq_trans; [apply (rewrite_loop_equiv ctx seq [])|].
    apply (block_tails_equiv _ _ (sctx_of_not_macro ctx) []). }
  eapply Eq_trans; [|apply trailing_seps_equiv; apply sctx_of_not_macro].
  destruct (o_macro_def o); [exact H|].
  eapply Eq_trans; [exact H|apply arms_and_closures_equiv].
Qed.


(* macro_rules bodies *)
Definition mokE (p : mitem) : Prop := forall d s, fst p = Grp d s -> Equiv (CIn DBrace) s (snd p).
Definition sep_inv (P : list item) : Prop :=
  match lasto P with None => true | Some p => is_tok p s_semi end = true.

Lemma glue2_equiv l : forall P,
  Equiv CMacro (P ++ map fst l) (P ++ map fst (glue2 l)) /\ (Forall mokE l -> Forall mokE (glue2 l)).
Proof.
  induction l as [|x|x y l IH1 IH2] using list_ind2; intros P.
  - split; [apply Eq_refl|auto].
  - destruct x as [[a|d its] n]; (split; [apply Eq_refl|auto]).
  - destruct x as [[a|d its] na].
    + destruct y as [[b|d its] nb].
      * rewrite glue2_eq. destruct (glue_pair a b) eqn:Hg.
        -- split.
           ++ cbn [map fst]. eapply Eq_step_then; [apply S_glue; exact Hg|].
              rewrite <- (app_cons_assoc P (Tok (a ++ b)) (map fst l)).
              rewrite <- (app_cons_assoc P (Tok (a ++ b)) (map fst (glue2 l))). apply IH1.
           ++ intros HF. inversion HF as [|? ? _ HF1]; subst. inversion HF1 as [|? ? _ HF2]; subst.
              constructor; [intros d s Hd; discriminate|apply (proj2 (IH1 P)); exact HF2].
        -- split.
           ++ cbn [map fst]. rewrite <- (app_cons_assoc P (Tok a)).
              rewrite <- (app_cons_assoc P (Tok a) (map fst (glue2 _))). apply (proj1 (IH2 (P ++ [Tok a]))).
           ++ intros HF. inversion HF as [|? ? H0 HF1]; subst. constructor; [exact H0|apply (proj2 (IH2 P)); exact HF1].
      * change (glue2 ((Tok a, na) :: (Grp d its, nb) :: l)) with ((Tok a, na) :: glue2 ((Grp d its, nb) :: l)).
        split.
        -- cbn [map fst]. rewrite <- (app_cons_assoc P (Tok a)).
           rewrite <- (app_cons_assoc P (Tok a) (map fst (glue2 _))). apply (proj1 (IH2 (P ++ [Tok a]))).
        -- intros HF. inversion HF as [|? ? H0 HF1]; subst. constructor; [exact H0|apply (proj2 (IH2 P)); exact HF1].
    + change (glue2 ((Grp d its, na) :: y :: l)) with ((Grp d its, na) :: glue2 (y :: l)).
      split.
      * cbn [map fst]. rewrite <- (app_cons_assoc P (Grp d its)).
        rewrite <- (app_cons_assoc P (Grp d its) (map fst (glue2 _))). apply (proj1 (IH2 (P ++ [Grp d its]))).
      * intros HF. inversion HF as [|? ? H0 HF1]; subst. constructor; [exact H0|apply (proj2 (IH2 P)); exact HF1].
Qed.

Lemma sep_inv_snoc_semi P : sep_inv (P ++ [Tok s_semi]).
Proof. unfold sep_inv. rewrite lasto_snoc. reflexivity. Qed.
Lemma sep_inv_cases P : sep_inv P -> P = [] \/ exists P0, P = P0 ++ [Tok s_semi].
Proof.
  unfold sep_inv, lasto. destruct (rev P) as [|z rp] eqn:Hr; intros H.
  - left. destruct P as [|p P]; [reflexivity|]. apply (f_equal (@length item)) in Hr. rewrite rev_length in Hr. discriminate.
  - right. cbn [hd_error] in H. apply is_tok_true in H. subst z. exists (rev rp). apply rev_cons_inv. exact Hr.
Qed.

(* one arm together with the `;` that ends it *)
Lemma macro_arm_sep arm P L : sep_inv P -> Forall mokE arm ->
  Equiv CMacro (P ++ map fst arm ++ Tok s_semi :: L) (P ++ macro_arm arm ++ L) /\ sep_inv (P ++ macro_arm arm).
Proof.
  intros HP HF.
  assert (Hdef : arm <> [] ->
     Equiv CMacro (P ++ map fst arm ++ Tok s_semi :: L) (P ++ (map fst arm ++ [Tok s_semi]) ++ L)
     /\ sep_inv (P ++ map fst arm ++ [Tok s_semi])).
  { intros _. split.
    - rewrite <- (app_assoc (map fst arm) [Tok s_semi] L). apply Eq_refl.
    - rewrite app_assoc. apply sep_inv_snoc_semi. }
  unfold macro_arm.
  destruct arm as [|[x nx] arm].
  { cbn [map app]. rewrite app_nil_r. split; [|exact HP].
    destruct (sep_inv_cases P HP) as [->|[P0 ->]].
    - apply Eq_step. apply S_macro_lead_sep. reflexivity.
    - rewrite (app_cons_assoc P0 (Tok s_semi) (Tok s_semi :: L)), (app_cons_assoc P0 (Tok s_semi) L).
      apply Eq_step. apply S_macro_sep; reflexivity. }
  specialize (Hdef ltac:(discriminate)).
  destruct x as [t|d1 m]; [exact Hdef|].
  destruct arm as [|[a na] arm]; [exact Hdef|].
  destruct arm as [|[y ny] arm]; [exact Hdef|].
  destruct arm as [|z arm]; [|destruct y; exact Hdef].
  destruct y as [t|d2 body]; [exact Hdef|].
  destruct (is_tok a s_fatarrow) eqn:Ha; [|exact Hdef].
  apply is_tok_true in Ha. subst a.
  inversion HF as [|? ? _ HF1]; subst. inversion HF1 as [|? ? _ HF2]; subst. inversion HF2 as [|? ? H3 _]; subst.
  pose proof (H3 d2 body eq_refl) as Hb. cbn [snd] in Hb.
  cbn [map fst app]. split.
  - eapply Eq_trans.
    + apply (Eq_macro_arm CMacro P d1 m d2 body ny (Tok s_semi :: L) eq_refl HP eq_refl Hb).
    + apply Eq_step. apply S_macro_arm_delims; [reflexivity|exact HP|reflexivity].
  - change (P ++ [Grp DParen m; Tok s_fatarrow; Grp DBrace ny; Tok s_semi])
      with (P ++ [Grp DParen m; Tok s_fatarrow; Grp DBrace ny] ++ [Tok s_semi]).
    rewrite app_assoc. apply sep_inv_snoc_semi.
Qed.
Lemma macro_arm_end arm P : sep_inv P -> Forall mokE arm ->
  Equiv CMacro (P ++ map fst arm) (P ++ macro_arm arm).
Proof.
  intros HP HF.
  eapply Eq_trans with (P ++ map fst arm ++ [Tok s_semi]).
  - apply Eq_sym. rewrite app_assoc. rewrite <- (app_nil_r (P ++ map fst arm)) at 2.
    apply Eq_step. apply S_macro_sep; reflexivity.
  - rewrite <- (app_nil_r (macro_arm arm)). apply (macro_arm_sep arm P [] HP HF).
Qed.
Lemma macro_arms_equiv l : forall cur P, sep_inv P -> Forall mokE cur -> Forall mokE l ->
  Equiv CMacro (P ++ map fst (rev cur) ++ map fst l)
               (P ++ concat (map macro_arm (split_on (fun x : mitem => is_tok (fst x) s_semi) cur l))).
Proof.
  induction l as [|x l IH]; intros cur P HP Hc Hl; cbn [split_on].
  - cbn [map concat]. rewrite !app_nil_r. apply macro_arm_end; [exact HP|apply Forall_rev; exact Hc].
  - inversion Hl as [|? ? Hx Hl']; subst.
    destruct (is_tok (fst x) s_semi) eqn:Hs.
    + apply is_tok_true in Hs. cbn [map concat]. rewrite Hs.
      destruct (macro_arm_sep (rev cur) P (map fst l) HP (Forall_rev Hc)) as [H1 H2].
      eapply Eq_trans; [exact H1|].
      rewrite !app_assoc. specialize (IH [] (P ++ macro_arm (rev cur)) H2 (Forall_nil _) Hl').
      cbn [rev map app] in IH. exact IH.
    + specialize (IH (x :: cur) P HP (Forall_cons _ Hx Hc) Hl').
      cbn [rev] in IH. rewrite map_app in IH. cbn [map] in IH. rewrite <- app_assoc in IH. exact IH.
Qed.
Lemma macro_def_equiv items : Forall mokE items -> Equiv CMacro (map fst items) (macro_def items).
Proof.
  intros HF. unfold macro_def.
  destruct (glue2_equiv items []) as [Hg HgF]. specialize (HgF HF). cbn [app] in Hg.
  eapply Eq_trans; [exact Hg|].
  apply (macro_arms_equiv (glue2 items) [] [] eq_refl (Forall_nil _) HgF).
Qed.

Lemma collapse_equiv c P Q : arg_pos (rev P) = false ->
  forall g, Equiv c (P ++ g :: Q) (P ++ collapse_parens g :: Q).
Proof.
  intros Hcl g. induction g as [s|d its IH] using item_ind'; [apply Eq_refl|].
  destruct d; try apply Eq_refl.
  destruct its as [|y its1]; [apply Eq_refl|].
  destruct y as [t|d2 its2]; [apply Eq_refl|].
  destruct d2; try apply Eq_refl.
  destruct its1 as [|z its1]; [|apply Eq_refl].
  inversion IH as [|? ? Hy _]; subst.
  change (collapse_parens (Grp DParen [Grp DParen its2])) with (collapse_parens (Grp DParen its2)).
  eapply Eq_step_then; [apply S_nested_parens; exact Hcl|exact Hy].
Qed.

Lemma macro_call_pos_rev out :
  macro_call_pos (rev out) = is_tok_o (hd_error out) s_bang && match out with _ :: y :: _ => is_ident y | _ => false end.
Proof.
  unfold macro_call_pos. rewrite rev_involutive.
  destruct out as [|b [|y out]]; cbn [hd_error is_tok_o]; try reflexivity.
  rewrite andb_false_r. reflexivity.
Qed.

Section LoopE.
Variable rec : opts -> option delim -> item -> list item.
Definition PrecE (x : item) : Prop := forall o ctx, Equiv (sctx_of ctx) (contents x) (rec o ctx x).
Definition PdeepE (x : item) : Prop := PrecE x /\ Forall PrecE (contents x).
Definition skip_inv (skip : bool) (out : list item) : Prop :=
  skip = true -> exists g out0, out = g :: out0 /\ macro_def_pos (rev out0) || macro_call_pos (rev out0) = true.

Lemma norm_loop_equiv items : forall o ctx out skip,
  Forall PdeepE items -> skip_inv skip out ->
  Equiv (sctx_of ctx) (rev out ++ items) (norm_loop rec o ctx out skip items).
Proof.
  induction items as [items IH] using len_ind. intros o ctx out skip HF Hsk.
  set (c := sctx_of ctx).
  assert (Hnoskip : forall out', skip_inv false out') by (intros out' H; discriminate).
  destruct items as [|x rest].
  { cbn [norm_loop]. rewrite app_nil_r.
    eapply Eq_trans; [apply (glue_equiv c (rev out) [])|]. apply rewrite_equiv. }
  inversion HF as [|? ? Hx HF']; subst.
  cbn [norm_loop].
  destruct (skip && is_tok x s_semi) eqn:Hs.
  { apply andb_true_iff in Hs. destruct Hs as [Hs1 Hs2]. apply is_tok_true in Hs2. subst x skip.
    destruct (Hsk eq_refl) as [g [out0 [-> Hpos]]].
    rewrite rev_cons_app. eapply Eq_step_then; [apply S_macro_semi; exact Hpos|].
    rewrite <- rev_cons_app. apply IH; [cbn [length]; lia|exact HF'|exact Hsk]. }
  clear Hs Hsk skip.
  destruct x as [t|d sub].
  - assert (Hdef : Equiv c (rev out ++ Tok t :: rest) (norm_loop rec o ctx (Tok t :: out) false rest)).
    { rewrite <- rev_cons_app. apply IH; [cbn [length]; lia|exact HF'|apply Hnoskip]. }
    destruct rest as [|y rest']; [exact Hdef|].
    destruct (eqb_text t s_lt && is_tok y s_gt) eqn:Hlt; [|exact Hdef].
    apply andb_true_iff in Hlt. destruct Hlt as [Ht Hy]. apply eqb_text_spec in Ht. subst t.
    apply is_tok_true in Hy. subst y.
    inversion HF' as [|? ? _ HF'']; subst.
    assert (Hgen : forall out', Equiv c (rev out' ++ rest') (norm_loop rec o ctx out' false rest')).
    { intros out'. apply IH; [cbn [length]; lia|exact HF''|apply Hnoskip]. }
    destruct out as [|p out1].
    { eapply Eq_step_then; [apply S_empty_generics|apply Hgen]. }
    destruct (is_tok p s_coloncolon) eqn:Hp1.
    { apply is_tok_true in Hp1. subst p. cbn [orb]. rewrite rev_cons_app.
      eapply Eq_step_then; [apply S_empty_turbofish|apply Hgen]. }
    destruct (is_tok p s_for) eqn:Hp2.
    { apply is_tok_true in Hp2. subst p. cbn [orb]. rewrite rev_cons_app.
      eapply Eq_step_then; [apply S_empty_binder|apply Hgen]. }
    cbn [orb]. eapply Eq_step_then; [apply S_empty_generics|apply Hgen].
  - destruct Hx as [Hx Hsub]. cbn [contents] in Hsub.
    destruct (macro_rules_head out) eqn:Hm.
    + set (sub2 := map (fun c0 => (c0, rec (set_macro_def o) (Some DBrace) c0)) sub).
      assert (Hmd : Equiv CMacro sub (macro_def sub2)).
      { assert (Hfst : map fst sub2 = sub).
        { subst sub2. rewrite map_map. cbn [fst]. apply map_id. }
        rewrite <- Hfst at 1. apply macro_def_equiv. subst sub2.
        clear -Hsub. induction Hsub as [|c0 l Hc _ IHl]; [constructor|].
        cbn [map]. constructor; [|exact IHl].
        intros d s Hd. cbn [fst snd] in *. subst c0. apply (Hc (set_macro_def o) (Some DBrace)). }
      eapply Eq_trans.
      { apply (Eq_macro_body c (rev out) d sub (macro_def sub2) rest); [apply sctx_of_not_macro|rewrite macro_def_pos_rev; exact Hm|exact Hmd]. }
      eapply Eq_step_then.
      { apply (S_macro_delim c (rev out) d DBrace). rewrite macro_def_pos_rev, Hm. reflexivity. }
      rewrite <- rev_cons_app. apply IH; [cbn [length]; lia|exact HF'|].
      intros _. exists (Grp DBrace (macro_def sub2)), out. split; [reflexivity|]. rewrite macro_def_pos_rev, Hm. reflexivity.
    + cbv zeta.
      set (inner := rec o (Some d) (Grp d sub)).
      assert (Hin : Equiv c (rev out ++ Grp d sub :: rest) (rev out ++ Grp d inner :: rest)).
      { apply Eq_nest; [apply sctx_of_not_macro|rewrite macro_def_pos_rev; exact Hm|apply (Hx o (Some d))]. }
      eapply Eq_trans; [exact Hin|]. clearbody inner. clear Hin.
      set (g := if o_remove_nested_parens o && negb (arg_pos out) then collapse_parens (Grp d inner) else Grp d inner).
      assert (Hg : Equiv c (rev out ++ Grp d inner :: rest) (rev out ++ g :: rest)).
      { subst g. destruct (o_remove_nested_parens o && negb (arg_pos out)) eqn:Hc; [|apply Eq_refl].
        apply andb_true_iff in Hc. destruct Hc as [_ Hc]. apply negb_true_iff in Hc.
        apply collapse_equiv. rewrite rev_involutive. exact Hc. }
      eapply Eq_trans; [exact Hg|]. clearbody g. clear Hg.
      assert (Hdef : Equiv c (rev out ++ g :: rest) (norm_loop rec o ctx (g :: out) false rest)).
      { rewrite <- rev_cons_app. apply IH; [cbn [length]; lia|exact HF'|apply Hnoskip]. }
      assert (Hrest : Equiv c (rev out ++ g :: rest)
                (if is_tok_o (hd_error out) s_bang && match out with _ :: y :: _ => is_ident y | _ => false end
                 then norm_loop rec o ctx (match g with Grp _ its => Grp DParen its | Tok _ => g end :: out) true rest
                 else norm_loop rec o ctx (g :: out) false rest)).
      { destruct (is_tok_o (hd_error out) s_bang && match out with _ :: y :: _ => is_ident y | _ => false end) eqn:Hmc; [|exact Hdef].
        assert (Hpos : macro_def_pos (rev out) || macro_call_pos (rev out) = true).
        { rewrite macro_call_pos_rev, Hmc. apply orb_true_r. }
        eapply Eq_trans with (rev out ++ match g with Grp _ its => Grp DParen its | Tok _ => g end :: rest).
        - destruct g as [t|d1 its1]; [apply Eq_refl|]. apply Eq_step. apply S_macro_delim. exact Hpos.
        - rewrite <- rev_cons_app. apply IH; [cbn [length]; lia|exact HF'|].
          intros _. eexists. exists out. split; [reflexivity|exact Hpos]. }
      destruct g as [t|[| |] [|[t|d3 s3] [|z its]]]; try exact Hrest.
      destruct (starts_with_digit t && negb (arg_pos out)) eqn:Hl; [|exact Hrest].
      apply andb_true_iff in Hl. destruct Hl as [Hl1 Hl2]. apply negb_true_iff in Hl2.
      eapply Eq_step_then; [apply S_literal_parens; [rewrite rev_involutive; exact Hl2|exact Hl1]|].
      rewrite <- rev_cons_app. apply IH; [cbn [length]; lia|exact HF'|apply Hnoskip].
Qed.
End LoopE.

Lemma norm_in_deepE x : PdeepE norm_in x.
Proof.
  induction x as [s|d its IH] using item_ind'.
  - split; [intros o ctx; apply Eq_refl|constructor].
  - assert (H : Forall (PrecE norm_in) its).
    { clear -IH. induction IH as [|y l [Hy _] _ IHl]; constructor; assumption. }
    split; [|exact H].
    intros o ctx. cbn [norm_in contents].
    apply (norm_loop_equiv norm_in its o ctx [] false IH). intros Hf. discriminate.
Qed.
Lemma norm_seq_equiv_lemma o ctx items : Equiv (sctx_of ctx) items (norm_seq o ctx items).
Proof.
  unfold norm_seq. apply (norm_loop_equiv norm_in items o ctx [] false).
  - induction items as [|x r IH]; constructor; [apply norm_in_deepE|exact IH].
  - intros Hf. discriminate.
Qed.
Lemma norm_core_sound_lemma o a b : norm_core_items o a = norm_core_items o b ->
  Equiv CTop (tree o (significant a)) (tree o (significant b)).
Proof.
  unfold norm_core_items. intros H.
  eapply Eq_trans; [apply (norm_seq_equiv_lemma o None)|]. rewrite H.
  apply Eq_sym. apply (norm_seq_equiv_lemma o None).
Qed.

(* the relation is not trivial: equivalent trees have the same essential atoms in the same order *)
Lemma Step_E c a b : Step c a b -> E a = E b.
Proof.
  intros H. destruct H; rewrite ?E_app, ?E_cons, ?E_grp, ?E_app, ?E_cons; autorewrite with ess; try reflexivity.
  - (* glue *) rewrite (glue_pair_ess _ _ H). rewrite <- !app_assoc. reflexivity.
Qed.
Lemma Equiv_E c a b : Equiv c a b -> E a = E b.
Proof.
  intros H. induction H as [c a|c a b _ IH|c a b e _ IH1 _ IH2|c a b Hs|c pre d its its' post _ _ _ IH
                            |c pre d its its' post _ _ _ IH|c pre d1 m d2 body body' post _ _ _ _ IH].
  - reflexivity.
  - symmetry. exact IH.
  - rewrite IH1. exact IH2.
  - apply (Step_E _ _ _ Hs).
  - rewrite !E_app, !E_cons, !E_grp, IH. reflexivity.
  - rewrite !E_app, !E_cons, !E_grp, IH. reflexivity.
  - rewrite !E_app, !E_cons, !E_grp, IH. reflexivity.
Qed.


(* ------------------------------------------------------------------ *)
(* the fuel of the closures loop suffices *)
Lemma find_close_length l : forall acc p after,
  find_close l acc = Some (p, after) -> (length acc + length l = length p + S (length after))%nat.
Proof.
  intros acc p after H. apply find_close_spec in H. apply (f_equal (@length item)) in H.
  rewrite !app_length, !rev_length in H. cbn [length] in H. exact H.
Qed.
Lemma closures_fuel_irrelevant_lemma f1 : forall f2 res l,
  (length l < f1)%nat -> (length l < f2)%nat -> closures f1 res l = closures f2 res l.
Proof.
  induction f1 as [|f1 IH]; intros f2 res l H1 H2; [lia|].
  destruct f2 as [|f2]; [lia|]. cbn [closures].
  destruct l as [|x rest]; [reflexivity|]. cbn [length] in H1, H2.
  assert (Hrest : closures f1 (x :: res) rest = closures f2 (x :: res) rest) by (apply IH; lia).
  destruct (is_tok x s_pipe && starts_expr (hd_error res)); [|exact Hrest].
  destruct (find_close rest []) as [[params_rev after]|] eqn:Hf; [|exact Hrest].
  apply find_close_length in Hf. cbn [length] in Hf.
  set (p' := match params_rev with y :: p' => if is_tok y s_comma then p' else params_rev | [] => [] end).
  assert (Hp : (length p' <= length params_rev)%nat).
  { subst p'. destruct params_rev as [|y q]; [lia|]. destruct (is_tok y s_comma); cbn [length]; lia. }
  clearbody p'.
  destruct after as [|b after'].
  - apply IH; rewrite app_length, rev_length; cbn [length] in *; lia.
  - destruct (single_expr_block b && _).
    + apply IH; cbn [length] in *; lia.
    + apply IH; rewrite app_length, rev_length; cbn [length] in *; lia.
Qed.
(* closures_run never reaches the out-of-fuel branch: any larger fuel gives the same result *)
Lemma closures_run_fuel_lemma l k : closures_run l = closures (S (length l) + k) [] l.
Proof. unfold closures_run. apply closures_fuel_irrelevant_lemma; lia. Qed.

(* ------------------------------------------------------------------ *)
(* the classes of a run of imports *)
Lemma eqb_texts_spec a b : eqb_texts a b = true <-> a = b.
Proof.
  revert b; induction a as [|x a IH]; intros [|y b]; cbn [eqb_texts]; try (split; [discriminate|discriminate]).
  - split; reflexivity.
  - rewrite andb_true_iff, eqb_text_spec, IH. split; [intros [-> ->]; reflexivity|intros H; inversion H; auto].
Qed.
Lemma fold_insert_uniq_In l ls y : In y (fold_right insert_uniq ls l) <-> In y l \/ In y ls.
Proof.
  induction l as [|x l IH]; cbn [fold_right In]; [tauto|].
  rewrite insert_uniq_In, IH. split; intros H; [destruct H as [-> |[H|H]]|destruct H as [[<- |H]|H]]; auto.
Qed.
Definition leaves_of (cs : list (list text * list text)) (h : list text) (s : text) : Prop :=
  exists ls, In (h, ls) cs /\ In s ls.
Lemma add_class_keys h l cs h' :
  In h' (map fst (add_class h l cs)) <-> In h' (map fst cs) \/ h' = h.
Proof.
  induction cs as [|[h0 ls0] cs IH]; cbn [add_class map fst In].
  - split; [intros [<- |[]]; auto|intros [[]| ->]; auto].
  - destruct (eqb_texts h0 h) eqn:He; cbn [map fst In].
    + apply eqb_texts_spec in He. subst h0. split; [intros [H|H]; auto|intros [[H|H]|H]; auto].
    + rewrite IH. split; intros H; tauto.
Qed.
Lemma add_class_nodup h l cs : NoDup (map fst cs) -> NoDup (map fst (add_class h l cs)).
Proof.
  induction cs as [|[h0 ls0] cs IH]; cbn [add_class map fst]; intros H.
  - constructor; [intros []|constructor].
  - inversion H as [|? ? Hn Hd]; subst. destruct (eqb_texts h0 h) eqn:He; cbn [map fst].
    + constructor; assumption.
    + constructor; [|apply IH; exact Hd].
      rewrite add_class_keys. intros [Hi|Hi]; [contradiction|].
      subst h0. assert (Ht : eqb_texts h h = true) by (apply eqb_texts_spec; reflexivity). congruence.
Qed.
Lemma add_class_leaves h l cs : NoDup (map fst cs) -> forall h' s,
  leaves_of (add_class h l cs) h' s <-> leaves_of cs h' s \/ (h' = h /\ In s l).
Proof.
  unfold leaves_of. induction cs as [|[h0 ls0] cs IH]; cbn [add_class map fst]; intros Hd h' s.
  - split.
    + intros [ls [[H|[]] Hs]]. inversion H; subst. apply (proj1 (sort_uniq_In _ _)) in Hs. auto.
    + intros [[ls [[] _]]|[-> Hs]]. exists (sort_uniq l). split; [left; reflexivity|apply (proj2 (sort_uniq_In _ _)); exact Hs].
  - inversion Hd as [|? ? Hn Hd']; subst. destruct (eqb_texts h0 h) eqn:He.
    + apply eqb_texts_spec in He. subst h0. split.
      * intros [ls [[H|H] Hs]].
        -- inversion H; subst. apply fold_insert_uniq_In in Hs. destruct Hs as [Hs|Hs]; [right; auto|].
           left. exists ls0. split; [left; reflexivity|exact Hs].
        -- left. exists ls. split; [right; exact H|exact Hs].
      * intros [[ls [[H|H] Hs]]|[-> Hs]].
        -- inversion H; subst. exists (fold_right insert_uniq ls l). split; [left; reflexivity|].
           apply fold_insert_uniq_In. right. exact Hs.
        -- exists ls. split; [right; exact H|exact Hs].
        -- exists (fold_right insert_uniq ls0 l). split; [left; reflexivity|]. apply fold_insert_uniq_In. left. exact Hs.
    + split.
      * intros [ls [[H|H] Hs]].
        -- inversion H; subst. left. exists ls. split; [left; reflexivity|exact Hs].
        -- destruct (proj1 (IH Hd' h' s) (ex_intro _ ls (conj H Hs))) as [[ls' [H' Hs']]|H'].
           ++ left. exists ls'. split; [right; exact H'|exact Hs'].
           ++ right. exact H'.
      * intros [[ls [[H|H] Hs]]|H].
        -- inversion H; subst. exists ls. split; [left; reflexivity|exact Hs].
        -- destruct (proj2 (IH Hd' h' s) (or_introl (ex_intro _ ls (conj H Hs)))) as [ls' [H' Hs']].
           exists ls'. split; [right; exact H'|exact Hs'].
        -- destruct (proj2 (IH Hd' h' s) (or_intror H)) as [ls' [H' Hs']].
           exists ls'. split; [right; exact H'|exact Hs'].
Qed.

(* the invariant of the fold in flush_run *)
Definition ClassInv (o : opts) (sts : list run_entry) (cs : list (list text * list text)) : Prop :=
  NoDup (map fst cs) /\
  (forall h, In h (map fst cs) <-> exists e, In e sts /\ entry_head e = h) /\
  (forall h s, leaves_of cs h s <-> exists e, In e sts /\ entry_head e = h /\ In s (entry_leaves o e)).
Definition class_step (o : opts) (cs : list (list text * list text)) (e : run_entry) :=
  let '(head, body, _) := e in
  add_class (flatten head) (parse_use (o_edition2015 o) (removelast (tl body))) cs.
Lemma class_step_inv o sts cs e : ClassInv o sts cs -> ClassInv o (sts ++ [e]) (class_step o cs e).
Proof.
  intros (Hd & Hk & Hl). destruct e as [[head body] st]. unfold class_step.
  split; [apply add_class_nodup; exact Hd|]. split.
  - intros h. rewrite add_class_keys, Hk. split.
    + intros [[e [He Hh]]| ->]; [exists e; split; [apply in_or_app; left; exact He|exact Hh]|].
      exists (head, body, st). split; [apply in_or_app; right; left; reflexivity|reflexivity].
    + intros [e [He Hh]]. apply in_app_or in He. destruct He as [He|[<- |[]]]; [left; exists e; auto|right; symmetry; exact Hh].
  - intros h s. rewrite (add_class_leaves _ _ _ Hd), Hl. split.
    + intros [[e [He [Hh Hs]]]|[-> Hs]]; [exists e; split; [apply in_or_app; left; exact He|auto]|].
      exists (head, body, st). split; [apply in_or_app; right; left; reflexivity|]. split; [reflexivity|exact Hs].
    + intros [e [He [Hh Hs]]]. apply in_app_or in He. destruct He as [He|[<- |[]]]; [left; exists e; auto|].
      right. split; [symmetry; exact Hh|exact Hs].
Qed.
Lemma class_fold_inv o l : forall sts cs, ClassInv o sts cs -> ClassInv o (sts ++ l) (fold_left (class_step o) l cs).
Proof.
  induction l as [|e l IH]; intros sts cs H; cbn [fold_left]; [rewrite app_nil_r; exact H|].
  replace (sts ++ e :: l) with ((sts ++ [e]) ++ l) by (rewrite <- app_assoc; reflexivity).
  apply IH. apply class_step_inv. exact H.
Qed.
Lemma insert_class_perm c l : Permutation (insert_class c l) (c :: l).
Proof.
  induction l as [|y l IH]; cbn [insert_class]; [apply Permutation_refl|].
  destruct (texts_leb (fst c) (fst y)); [apply Permutation_refl|].
  eapply Permutation_trans; [apply perm_skip; exact IH|apply perm_swap].
Qed.
Lemma sort_classes_perm l : Permutation (fold_right insert_class [] l) l.
Proof.
  induction l as [|x l IH]; cbn [fold_right]; [constructor|].
  eapply Permutation_trans; [apply insert_class_perm|apply perm_skip; exact IH].
Qed.
Lemma nodup_fst_unique {A B : Type} (cs : list (A * B)) h a b :
  NoDup (map fst cs) -> In (h, a) cs -> In (h, b) cs -> a = b.
Proof.
  induction cs as [|[h0 x] cs IH]; cbn [map fst In]; intros Hd Ha Hb; [contradiction|].
  inversion Hd as [|? ? Hn Hd']; subst.
  destruct Ha as [Ha|Ha], Hb as [Hb|Hb].
  - congruence.
  - inversion Ha; subst. exfalso. apply Hn. apply in_map_iff. exists (h, b). auto.
  - inversion Hb; subst. exfalso. apply Hn. apply in_map_iff. exists (h, a). auto.
  - apply IH; assumption.
Qed.
Lemma flush_run_use_spec o sts :
  exists cs, flush_run o (Some (RUse, sts)) = map (fun c => Tok (use_string c)) cs /\ UseClasses o (rev sts) cs.
Proof.
  cbn [flush_run].
  set (classes := fold_left _ (rev sts) []).
  assert (Hinv : ClassInv o (rev sts) classes).
  { subst classes. apply (class_fold_inv o (rev sts) [] []).
    split; [constructor|]. split.
    - intros h. split; [intros []|intros [e [[] _]]].
    - intros h s. split; [intros [ls [[] _]]|intros [e [[] _]]]. }
  clearbody classes.
  exists (fold_right insert_class [] classes). split; [reflexivity|].
  pose proof (sort_classes_perm classes) as Hp.
  destruct Hinv as (Hd & Hk & Hl).
  assert (Hd' : NoDup (map fst (fold_right insert_class [] classes))).
  { eapply Permutation_NoDup; [apply Permutation_sym, Permutation_map; exact Hp|exact Hd]. }
  split; [exact Hd'|]. split.
  - intros h. rewrite <- Hk. split; apply Permutation_in; [apply Permutation_map; exact Hp|apply Permutation_sym, Permutation_map; exact Hp].
  - intros h ls Hin s. rewrite <- Hl. unfold leaves_of. split.
    + intros Hs. exists ls. split; [eapply Permutation_in; [exact Hp|exact Hin]|exact Hs].
    + intros [ls' [Hin' Hs]].
      assert (ls' = ls).
      { eapply nodup_fst_unique; [exact Hd'| |exact Hin]. eapply Permutation_in; [apply Permutation_sym; exact Hp|exact Hin']. }
      subst ls'. exact Hs.
Qed.


(* ------------------------------------------------------------------ *)
(* reorder_runs meets its declarative specification *)
Definition cur_wf (cur : option run) : Prop :=
  match cur with None => True | Some (k, sts) => sts <> [] /\ Forall (entry_kind k) sts end.
Definition cur_stmts (cur : option run) : list (list item) :=
  match cur with None => [] | Some (_, sts) => map snd (rev sts) end.
Definition segs_of (cur : option run) (out : list item) : list (list (list item) * list item) :=
  match cur with None => [] | Some _ => [(cur_stmts cur, out)] end.

Lemma rkind_eqb_true a b : rkind_eqb a b = true -> a = b.
Proof. destruct a, b; cbn [rkind_eqb]; intros H; try discriminate; reflexivity. Qed.
Lemma rev_not_nil {A : Type} (l : list A) : l <> [] -> rev l <> [].
Proof. destruct l as [|x l]; [intros H; contradiction H; reflexivity|]. cbn [rev]. intros _ H. apply app_eq_nil in H. destruct H; discriminate. Qed.

Lemma flush_run_spec o k sts : sts <> [] -> Forall (entry_kind k) sts ->
  SegSpec o (map snd (rev sts)) (flush_run o (Some (k, sts))).
Proof.
  intros Hne HF. destruct k.
  - destruct (flush_run_use_spec o sts) as [cs [Heq Hcs]].
    refine (eq_ind_r (fun out => SegSpec o (map snd (rev sts)) out) _ Heq).
    apply Seg_use; [apply rev_not_nil; exact Hne|apply Forall_rev; exact HF|exact Hcs].
  - apply (Seg_items o RMod (rev sts)); [discriminate|apply rev_not_nil; exact Hne|apply Forall_rev; exact HF|].
    apply flush_run_items_perm. discriminate.
  - apply (Seg_items o RExtern (rev sts)); [discriminate|apply rev_not_nil; exact Hne|apply Forall_rev; exact HF|].
    apply flush_run_items_perm. discriminate.
Qed.
Lemma flush_segs_spec o cur : cur_wf cur ->
  Forall (fun sg => SegSpec o (fst sg) (snd sg)) (segs_of cur (flush_run o cur))
  /\ concat (map fst (segs_of cur (flush_run o cur))) = cur_stmts cur
  /\ concat (map snd (segs_of cur (flush_run o cur))) = flush_run o cur.
Proof.
  destruct cur as [[k sts]|]; cbn [cur_wf segs_of cur_stmts].
  - intros [Hne HF]. split; [constructor; [apply flush_run_spec; assumption|constructor]|].
    cbn [map concat fst snd]. rewrite !app_nil_r. split; reflexivity.
  - intros _. split; [constructor|split; reflexivity].
Qed.

Lemma runs_spec o stmts : forall cur, cur_wf cur ->
  exists segs, concat (map fst segs) = cur_stmts cur ++ stmts /\
               runs o cur stmts = concat (map snd segs) /\
               Forall (fun sg => SegSpec o (fst sg) (snd sg)) segs.
Proof.
  induction stmts as [|st r IH]; intros cur Hwf; cbn [runs].
  - destruct (flush_segs_spec o cur Hwf) as (H1 & H2 & H3).
    exists (segs_of cur (flush_run o cur)). rewrite app_nil_r. split; [exact H2|split; [symmetry; exact H3|exact H1]].
  - destruct (stmt_kind st) as [[[k head] body]|] eqn:Hk.
    + assert (He : entry_kind k (head, body, st)) by exact Hk.
      destruct cur as [[k0 sts]|].
      * destruct Hwf as [Hne HF]. destruct (rkind_eqb k0 k) eqn:Hkk.
        -- apply rkind_eqb_true in Hkk. subst k0.
           destruct (IH (Some (k, (head, body, st) :: sts))) as [segs (H1 & H2 & H3)].
           { split; [discriminate|constructor; assumption]. }
           exists segs. split; [|split; assumption].
           rewrite H1. cbn [cur_stmts rev]. rewrite map_app. cbn [map snd]. rewrite <- app_assoc. reflexivity.
        -- destruct (IH (Some (k, [(head, body, st)]))) as [segs (H1 & H2 & H3)].
           { split; [discriminate|constructor; [exact He|constructor]]. }
           destruct (flush_segs_spec o (Some (k0, sts)) (conj Hne HF)) as (F1 & F2 & F3).
           exists (segs_of (Some (k0, sts)) (flush_run o (Some (k0, sts))) ++ segs).
           rewrite !map_app, !concat_app, F2, F3, H1, H2. split; [|split; [reflexivity|apply Forall_app; split; assumption]].
           cbn [cur_stmts rev map snd app]. reflexivity.
      * destruct (IH (Some (k, [(head, body, st)]))) as [segs (H1 & H2 & H3)].
        { split; [discriminate|constructor; [exact He|constructor]]. }
        exists segs. split; [|split; assumption]. rewrite H1. reflexivity.
    + destruct (IH None I) as [segs (H1 & H2 & H3)].
      destruct (flush_segs_spec o cur Hwf) as (F1 & F2 & F3).
      exists (segs_of cur (flush_run o cur) ++ ([st], st) :: segs).
      rewrite !map_app, !concat_app. cbn [map concat fst snd]. rewrite F2, F3, H1, H2. cbn [cur_stmts app].
      split; [reflexivity|]. split; [reflexivity|].
      apply Forall_app. split; [exact F1|]. constructor; [apply Seg_keep; exact Hk|exact H3].
Qed.
Lemma reorder_runs_level o seq : LevelSpec o seq (reorder_runs o seq).
Proof.
  unfold reorder_runs. destruct (stmts_split [] seq) as [stmts tail] eqn:Hs.
  apply stmts_split_concat in Hs. cbn [rev app] in Hs.
  destruct (runs_spec o stmts None I) as [segs (H1 & H2 & H3)]. cbn [cur_stmts app] in H1.
  exists segs, tail. rewrite H1, <- H2. split; [exact Hs|split; [reflexivity|exact H3]].
Qed.
Lemma norm_tree_item_spec o x : ItemSpec o x (norm_tree_item o x).
Proof.
  induction x as [s|d its IH] using item_ind'; cbn [norm_tree_item]; [constructor|].
  apply IS_grp. apply TS with (seq' := map (norm_tree_item o) its); [|apply reorder_runs_level].
  induction IH as [|y l Hy _ IHl]; cbn [map]; constructor; assumption.
Qed.
Lemma norm_tree_spec o seq : TreeSpec o seq (norm_tree o seq).
Proof.
  unfold norm_tree. apply TS with (seq' := map (norm_tree_item o) seq); [|apply reorder_runs_level].
  induction seq as [|x r IH]; cbn [map]; constructor; [apply norm_tree_item_spec|exact IH].
Qed.

(* ------------------------------------------------------------------ *)
(* the atoms outside the runs stay, in order *)
Lemma Sub_trans {A : Type} (a b c : list A) : Sub a b -> Sub b c -> Sub a c.
Proof.
  intros H1 H2. revert a H1. induction H2 as [|x l1 l2 _ IH|x l1 l2 _ IH]; intros a H1.
  - exact H1.
  - inversion H1 as [|y a1 b1 Ha|y a1 b1 Ha]; subst; [apply Sub_keep|apply Sub_skip]; apply IH; exact Ha.
  - apply Sub_skip. apply IH. exact H1.
Qed.
Lemma Sub_flat_map {A B : Type} (f : A -> list B) a b : Sub a b -> Sub (flat_map f a) (flat_map f b).
Proof.
  intros H. induction H as [|x l1 l2 _ IH|x l1 l2 _ IH]; cbn [flat_map].
  - constructor.
  - apply Sub_app; [apply Sub_refl|exact IH].
  - apply Sub_skip_app. exact IH.
Qed.
Lemma Sub_filter {A : Type} (p : A -> bool) a b : Sub a b -> Sub (filter p a) (filter p b).
Proof.
  intros H. induction H as [|x l1 l2 _ IH|x l1 l2 _ IH]; cbn [filter].
  - constructor.
  - destruct (p x); [apply Sub_keep|]; exact IH.
  - destruct (p x); [apply Sub_skip|]; exact IH.
Qed.
Lemma Sub_ess_md a b : Sub a b -> Sub (ess_md a) (ess_md b).
Proof. intros H. unfold ess_md, unglue. apply Sub_filter, Sub_flat_map. exact H. Qed.

Definition SubOut (x : item) (out : list text) : Prop := Sub out (flatten_item x).
Lemma concat_outs_sub xs outs : Forall2 SubOut xs outs -> Sub (concat outs) (flatten xs).
Proof.
  intros H. induction H as [|x out xs outs Hx _ IH]; [constructor|].
  cbn [concat]. unfold flatten in *. cbn [flat_map]. apply Sub_app; assumption.
Qed.
Lemma cut_emit_sub_concat stmts : forall outs, Sub (cut_emit stmts outs) (concat outs).
Proof.
  induction stmts as [|st r IH]; intros outs; cbn [cut_emit]; [apply Sub_refl|].
  cbv zeta. rewrite <- (firstn_skipn (length st) outs) at 3. rewrite concat_app.
  destruct (nonrun st); [apply Sub_app; [apply Sub_refl|apply IH]|apply Sub_skip_app; apply IH].
Qed.
Lemma Forall2_len {A B : Type} (R : A -> B -> Prop) l1 l2 : Forall2 R l1 l2 -> length l1 = length l2.
Proof. intros H. induction H; cbn [length]; [reflexivity|f_equal; assumption]. Qed.
Lemma cut_emit_kept stmts : forall tail outs, Forall2 SubOut (concat stmts ++ tail) outs ->
  Sub (cut_emit stmts outs) (flatten (concat (filter nonrun stmts) ++ tail)).
Proof.
  induction stmts as [|st r IH]; intros tail outs HF; cbn [cut_emit concat filter app].
  - apply concat_outs_sub. exact HF.
  - cbv zeta. cbn [concat] in HF. rewrite <- app_assoc in HF.
    apply Forall2_app_inv_l in HF. destruct HF as [o1 [o2 [H1 [H2 ->]]]].
    pose proof (Forall2_len _ _ _ H1) as Hl.
    rewrite Hl, firstn_app, Nat.sub_diag, firstn_all, skipn_app, Nat.sub_diag, skipn_all. cbn [firstn skipn]. rewrite app_nil_r. cbn [app].
    destruct (nonrun st).
    + cbn [concat]. rewrite <- app_assoc. unfold flatten. rewrite flat_map_app. apply Sub_app.
      * apply (concat_outs_sub st o1 H1).
      * apply IH. exact H2.
    + apply IH. exact H2.
Qed.

Lemma outside_item_sub_in o x : SubOut x (outside_item o x).
Proof.
  unfold SubOut. induction x as [s|d its IH] using item_ind'; cbn [outside_item flatten_item]; [apply Sub_refl|].
  apply Sub_keep. apply Sub_app; [|apply Sub_refl].
  eapply Sub_trans; [apply cut_emit_sub_concat|].
  apply (concat_outs_sub its). induction IH as [|y l Hy _ IHl]; cbn [map]; constructor; assumption.
Qed.
Lemma outside_sub_in o seq : Sub (outside o seq) (flatten seq).
Proof.
  unfold outside. eapply Sub_trans; [apply cut_emit_sub_concat|].
  apply (concat_outs_sub seq). induction seq as [|x r IH]; cbn [map]; constructor; [apply outside_item_sub_in|exact IH].
Qed.
Lemma level_outside o seq' outs : Forall2 SubOut seq' outs ->
  Sub (cut_emit (fst (stmts_split [] seq')) outs) (flatten (reorder_runs o seq')).
Proof.
  intros HF. destruct (stmts_split [] seq') as [stmts tail] eqn:Hs. cbn [fst].
  destruct (reorder_runs_outside_lemma o seq' stmts tail Hs) as [Hc Hsub].
  eapply Sub_trans; [apply (cut_emit_kept stmts tail); rewrite <- Hc; exact HF|].
  unfold flatten. apply Sub_flat_map. exact Hsub.
Qed.
Lemma outside_item_sub_out o x : SubOut (norm_tree_item o x) (outside_item o x).
Proof.
  unfold SubOut. induction x as [s|d its IH] using item_ind'; cbn [outside_item norm_tree_item flatten_item]; [apply Sub_refl|].
  apply Sub_keep. apply Sub_app; [|apply Sub_refl].
  apply level_outside. induction IH as [|y l Hy _ IHl]; cbn [map]; constructor; assumption.
Qed.
Lemma outside_sub_out o seq : Sub (outside o seq) (flatten (norm_tree o seq)).
Proof.
  unfold outside, norm_tree. apply level_outside.
  induction seq as [|x r IH]; cbn [map]; constructor; [apply outside_item_sub_out|exact IH].
Qed.

Lemma norm_preserves_essential_lemma o ts :
  ess_md (flatten (post_core_items o ts)) = ess_md (atoms_of o ts) /\
  Sub (outside o (post_core_items o ts)) (flatten (post_core_items o ts)) /\
  Sub (outside o (post_core_items o ts)) (norm o ts) /\
  TreeSpec o (post_core_items o ts) (norm_items o ts).
Proof.
  split; [exact (norm_noreorder_preserves o ts)|].
  split; [apply outside_sub_in|].
  split; [apply outside_sub_out|apply norm_tree_spec].
Qed.
Lemma norm_outside_essential_lemma o ts :
  Sub (ess_md (outside o (post_core_items o ts))) (ess_md (atoms_of o ts)) /\
  Sub (ess_md (outside o (post_core_items o ts))) (ess_md (norm o ts)).
Proof.
  destruct (norm_preserves_essential_lemma o ts) as (H1 & H2 & H3 & _).
  split; [rewrite <- H1|]; apply Sub_ess_md; assumption.
Qed.


(* ------------------------------------------------------------------ *)
(* P3 for the whole pipeline *)
Lemma Equiv_EquivF o c a b : Equiv c a b -> EquivF o c a b.
Proof.
  intros H. induction H as [c a|c a b _ IH|c a b e _ IH1 _ IH2|c a b Hs|c pre d its its' post Hc Hm _ IH
                            |c pre d its its' post Hc Hm _ IH|c pre d1 m d2 body body' post Hc H1 H2 _ IH].
  - apply EF_refl.
  - apply EF_sym. exact IH.
  - eapply EF_trans; [exact IH1|exact IH2].
  - apply EF_step. apply SF_core. exact Hs.
  - apply EF_nest; assumption.
  - apply EF_macro_body; assumption.
  - apply EF_macro_arm; assumption.
Qed.

(* transforming the contents of the groups of a level, left to right *)
Section MapSafe.
Variable o : opts.
Variable f : item -> item.
Hypothesis f_tok : forall t, f (Tok t) = Tok t.
Definition item_sound (x : item) : Prop :=
  forall d its, x = Grp d its -> msafe f x -> exists its', f x = Grp d its' /\ EquivF o (CIn d) its its'.
Lemma map_safe_equiv c : c <> CMacro -> forall l P,
  Forall item_sound l -> safe_loop (msafe f) f P l -> EquivF o c (rev P ++ l) (rev P ++ map f l).
Proof.
  intros Hc. induction l as [|x r IH]; intros P HF Hs; [apply EF_refl|].
  inversion HF as [|? ? Hx HF']; subst. cbn [safe_loop] in Hs. destruct Hs as [Hs1 Hs2].
  cbn [map]. specialize (IH (f x :: P) HF' Hs2). rewrite !rev_cons_app in IH.
  eapply EF_trans; [|exact IH].
  destruct x as [t|d its].
  - rewrite f_tok. apply EF_refl.
  - destruct (macro_rules_head P) eqn:Hm.
    + rewrite Hs1. apply EF_refl.
    + destruct (Hx d its eq_refl Hs1) as [its' [-> He]].
      apply EF_nest; [exact Hc|rewrite macro_def_pos_rev; exact Hm|exact He].
Qed.
End MapSafe.

(* merge_derives *)
Lemma md_loop_map rec seq : forall out, md_loop rec out seq = md_loop (fun x => x) out (map rec seq).
Proof.
  induction seq as [|x r IH]; intros out; cbn [md_loop map]; [reflexivity|]. cbv zeta.
  destruct (rec x) as [t|[| |] [|dv [|[t|d2 b] [|z its]]]]; try apply IH.
  destruct out as [|h1 [|[t|[| |] [|dv0 [|[t|d0 a] [|z its3]]]] [|h3 out']]]; try apply IH.
  destruct (is_tok dv s_derive && is_tok h1 s_hash && is_tok dv0 s_derive && is_tok h3 s_hash); apply IH.
Qed.
Lemma md_level_equiv o c seq : c <> CMacro -> forall out,
  EquivF o c (rev out ++ seq) (md_loop (fun x => x) out seq).
Proof.
  intros Hc. induction seq as [|x rest IH]; intros out; cbn [md_loop]; [rewrite app_nil_r; apply EF_refl|].
  cbv zeta.
  assert (Hdef : EquivF o c (rev out ++ x :: rest) (md_loop (fun x => x) (x :: out) rest)).
  { rewrite <- rev_cons_app. apply IH. }
  destruct x as [t|d its]; [exact Hdef|].
  destruct d; try exact Hdef.
  destruct its as [|dv [|[t|d2 b] [|z its]]]; try exact Hdef.
  destruct out as [|h1 [|[t|d3 its3] out1]]; try exact Hdef.
  destruct d3; try exact Hdef.
  destruct its3 as [|dv0 [|[t|d4 a] [|z its3]]]; try exact Hdef.
  destruct out1 as [|h3 out']; try exact Hdef.
  destruct (is_tok dv s_derive && is_tok h1 s_hash && is_tok dv0 s_derive && is_tok h3 s_hash) eqn:Hcnd; [|exact Hdef].
  apply andb_true_iff in Hcnd. destruct Hcnd as [Hcnd H4]. apply andb_true_iff in Hcnd. destruct Hcnd as [Hcnd H3].
  apply andb_true_iff in Hcnd. destruct Hcnd as [H1 H2].
  apply is_tok_true in H1. apply is_tok_true in H2. apply is_tok_true in H3. apply is_tok_true in H4. subst dv h1 dv0 h3.
  eapply EF_trans; [|apply IH].
  cbn [rev]. rewrite <- !app_assoc. cbn [app].
  apply EF_step. apply SF_merge_derives. exact Hc.
Qed.
Lemma md_item_sound o x : item_sound o md_item x.
Proof.
  induction x as [s|d its IH] using item_ind'; intros d0 its0 Hx Hs; [discriminate|].
  inversion Hx; subst d0 its0. cbn [md_item]. eexists. split; [reflexivity|].
  rewrite md_loop_map.
  eapply EF_trans.
  - apply (map_safe_equiv o md_item (fun t => eq_refl) (CIn d) ltac:(discriminate) its [] IH Hs).
  - apply (md_level_equiv o (CIn d) _ ltac:(discriminate) []).
Qed.
Lemma merge_derives_equiv o c seq : c <> CMacro -> msafe_seq md_item seq -> EquivF o c seq (merge_derives seq).
Proof.
  intros Hc Hs. unfold merge_derives. rewrite md_loop_map.
  eapply EF_trans.
  - apply (map_safe_equiv o md_item (fun t => eq_refl) c Hc seq []); [|exact Hs].
    apply Forall_forall. intros x _. apply md_item_sound.
  - apply (md_level_equiv o c _ Hc []).
Qed.

(* reorder_runs *)
Lemma flush_run_equiv o c P cur Q : c <> CMacro -> cur_wf cur ->
  EquivF o c (P ++ concat (cur_stmts cur) ++ Q) (P ++ flush_run o cur ++ Q).
Proof.
  intros Hc Hwf. destruct cur as [[k sts]|]; [|apply EF_refl].
  destruct Hwf as [Hne HF]. cbn [cur_stmts].
  pose proof (rev_not_nil _ Hne) as Hne'. pose proof (Forall_rev HF) as HF'.
  apply EF_step. rewrite <- (rev_involutive sts) at 2.
  destruct k.
  - apply SF_import_regroup; assumption.
  - apply SF_reorder_items; [exact Hc|discriminate|exact Hne'|exact HF'].
  - apply SF_reorder_items; [exact Hc|discriminate|exact Hne'|exact HF'].
Qed.
Lemma runs_equiv o c Q : c <> CMacro -> forall stmts P cur, cur_wf cur ->
  EquivF o c (P ++ concat (cur_stmts cur) ++ concat stmts ++ Q) (P ++ runs o cur stmts ++ Q).
Proof.
  intros Hc. induction stmts as [|st r IH]; intros P cur Hwf; cbn [runs concat].
  - cbn [app]. apply flush_run_equiv; assumption.
  - destruct (stmt_kind st) as [[[k head] body]|] eqn:Hk.
    + assert (He : entry_kind k (head, body, st)) by exact Hk.
      assert (Hnew : cur_wf (Some (k, [(head, body, st)]))).
      { split; [discriminate|constructor; [exact He|constructor]]. }
      assert (Hone : forall P', EquivF o c (P' ++ st ++ concat r ++ Q) (P' ++ runs o (Some (k, [(head, body, st)])) r ++ Q)).
      { intros P'. specialize (IH P' _ Hnew). cbn [cur_stmts rev map snd app concat] in IH. rewrite app_nil_r in IH. exact IH. }
      destruct cur as [[k0 sts]|].
      * destruct Hwf as [Hne HF]. destruct (rkind_eqb k0 k) eqn:Hkk.
        -- apply rkind_eqb_true in Hkk. subst k0.
           specialize (IH P (Some (k, (head, body, st) :: sts))).
           cbn [cur_stmts rev] in IH. rewrite map_app, concat_app in IH. cbn [map snd concat] in IH.
           rewrite app_nil_r, <- !app_assoc in IH. rewrite <- !app_assoc. apply IH.
           split; [discriminate|constructor; assumption].
        -- eapply EF_trans; [apply (flush_run_equiv o c P (Some (k0, sts)) _ Hc (conj Hne HF))|].
           rewrite <- !app_assoc. rewrite !(app_assoc P). apply Hone.
      * cbn [cur_stmts concat app]. rewrite <- app_assoc. apply Hone.
    + eapply EF_trans; [apply (flush_run_equiv o c P cur _ Hc Hwf)|].
      rewrite <- !app_assoc. rewrite !(app_assoc P), !(app_assoc (P ++ flush_run o cur)).
      specialize (IH ((P ++ flush_run o cur) ++ st) None I). cbn [cur_stmts concat app] in IH. exact IH.
Qed.
Lemma reorder_runs_equiv o c seq : c <> CMacro -> EquivF o c seq (reorder_runs o seq).
Proof.
  intros Hc. unfold reorder_runs. destruct (stmts_split [] seq) as [stmts tail] eqn:Hs.
  apply stmts_split_concat in Hs. cbn [rev app] in Hs. rewrite Hs.
  apply (runs_equiv o c tail Hc stmts [] None I).
Qed.
Lemma norm_tree_item_sound o x : item_sound o (norm_tree_item o) x.
Proof.
  induction x as [s|d its IH] using item_ind'; intros d0 its0 Hx Hs; [discriminate|].
  inversion Hx; subst d0 its0. cbn [norm_tree_item]. eexists. split; [reflexivity|].
  eapply EF_trans.
  - apply (map_safe_equiv o (norm_tree_item o) (fun t => eq_refl) (CIn d) ltac:(discriminate) its [] IH Hs).
  - apply reorder_runs_equiv. discriminate.
Qed.
Lemma norm_tree_equiv o c seq : c <> CMacro -> msafe_seq (norm_tree_item o) seq -> EquivF o c seq (norm_tree o seq).
Proof.
  intros Hc Hs. unfold norm_tree.
  eapply EF_trans.
  - apply (map_safe_equiv o (norm_tree_item o) (fun t => eq_refl) c Hc seq []); [|exact Hs].
    apply Forall_forall. intros x _. apply norm_tree_item_sound.
  - apply reorder_runs_equiv. exact Hc.
Qed.

Lemma norm_items_equiv o ts : post_safe o ts -> EquivF o CTop (tree o (significant ts)) (norm_items o ts).
Proof.
  intros [Hmd Hnt].
  assert (H1 : EquivF o CTop (tree o (significant ts)) (post_core_items o ts)).
  { unfold post_core_items, norm_core_items in *.
    eapply EF_trans; [apply Equiv_EquivF; apply (norm_seq_equiv_lemma o None)|].
    destruct (o_merge_derives o); [|apply EF_refl].
    apply merge_derives_equiv; [discriminate|apply Hmd; reflexivity]. }
  eapply EF_trans; [exact H1|].
  change (norm_items o ts) with (norm_tree o (post_core_items o ts)).
  apply norm_tree_equiv; [discriminate|exact Hnt].
Qed.
Lemma norm_sound_lemma o a b : post_safe o a -> post_safe o b -> norm_items o a = norm_items o b ->
  EquivF o CTop (tree o (significant a)) (tree o (significant b)).
Proof.
  intros Ha Hb H. eapply EF_trans; [apply norm_items_equiv; exact Ha|]. rewrite H.
  apply EF_sym. apply norm_items_equiv. exact Hb.
Qed.
(* two runs of imports with the same canonical form *)
Lemma import_regroup_lemma o c pre (sts1 sts2 : list run_entry) post :
  c <> CMacro -> sts1 <> [] -> sts2 <> [] -> Forall (entry_kind RUse) sts1 -> Forall (entry_kind RUse) sts2 ->
  flush_run o (Some (RUse, rev sts1)) = flush_run o (Some (RUse, rev sts2)) ->
  EquivF o c (pre ++ concat (map snd sts1) ++ post) (pre ++ concat (map snd sts2) ++ post).
Proof.
  intros Hc H1 H2 F1 F2 He.
  eapply EF_trans; [apply EF_step; apply SF_import_regroup; assumption|]. rewrite He.
  apply EF_sym. apply EF_step. apply SF_import_regroup; assumption.
Qed.


(* ------------------------------------------------------------------ *)
(* witnesses of what is FALSE of the model (token streams as the harness lexer gives them, white space dropped) *)
Definition o_default : opts := mkOpts true true false false true true false.
(* /// x pub use a; *)
Definition w_doc_a : list tok :=
  [(Kdlo, [47; 47; 47; 32; 120; 32; 112; 117; 98]); (Kid, [117; 115; 101]); (Kid, [97]); (Kp, [59])].
(* /// x pub use a; *)
Definition w_doc_b : list tok :=
  [(Kdlo, [47; 47; 47; 32; 120]); (Kid, [112; 117; 98]); (Kid, [117; 115; 101]); (Kid, [97]); (Kp, [59])].
(* use a; use a; *)
Definition w_dup_a : list tok :=
  [(Kid, [117; 115; 101]); (Kid, [97]); (Kp, [59]); (Kid, [117; 115; 101]); (Kid, [97]); (Kp, [59])].
(* use a; *)
Definition w_dup_b : list tok :=
  [(Kid, [117; 115; 101]); (Kid, [97]); (Kp, [59])].
(* macro_rules! m { (#[derive(A)] #[derive(B)] $i:item) => { $i }; } *)
Definition w_mdm_a : list tok :=
  [(Kid, [109; 97; 99; 114; 111; 95; 114; 117; 108; 101; 115]); (Kp, [33]); (Kid, [109]); (Kp, [123]); (Kp, [40]); (Kp, [35]); (Kp, [91]); (Kid, [100; 101; 114; 105; 118; 101]); (Kp, [40]); (Kid, [65]); (Kp, [41]); (Kp, [93]); (Kp, [35]); (Kp, [91]); (Kid, [100; 101; 114; 105; 118; 101]); (Kp, [40]); (Kid, [66]); (Kp, [41]); (Kp, [93]); (Kp, [36]); (Kid, [105]); (Kp, [58]); (Kid, [105; 116; 101; 109]); (Kp, [41]); (Kp, [61]); (Kp, [62]); (Kp, [123]); (Kp, [36]); (Kid, [105]); (Kp, [125]); (Kp, [59]); (Kp, [125])].
(* macro_rules! m { (#[derive(A, B)] $i:item) => { $i }; } *)
Definition w_mdm_b : list tok :=
  [(Kid, [109; 97; 99; 114; 111; 95; 114; 117; 108; 101; 115]); (Kp, [33]); (Kid, [109]); (Kp, [123]); (Kp, [40]); (Kp, [35]); (Kp, [91]); (Kid, [100; 101; 114; 105; 118; 101]); (Kp, [40]); (Kid, [65]); (Kp, [44]); (Kid, [66]); (Kp, [41]); (Kp, [93]); (Kp, [36]); (Kid, [105]); (Kp, [58]); (Kid, [105; 116; 101; 109]); (Kp, [41]); (Kp, [61]); (Kp, [62]); (Kp, [123]); (Kp, [36]); (Kid, [105]); (Kp, [125]); (Kp, [59]); (Kp, [125])].
(* macro_rules! m { ($a:expr; use b; use a;) => { 1 }; } *)
Definition w_rom_a : list tok :=
  [(Kid, [109; 97; 99; 114; 111; 95; 114; 117; 108; 101; 115]); (Kp, [33]); (Kid, [109]); (Kp, [123]); (Kp, [40]); (Kp, [36]); (Kid, [97]); (Kp, [58]); (Kid, [101; 120; 112; 114]); (Kp, [59]); (Kid, [117; 115; 101]); (Kid, [98]); (Kp, [59]); (Kid, [117; 115; 101]); (Kid, [97]); (Kp, [59]); (Kp, [41]); (Kp, [61]); (Kp, [62]); (Kp, [123]); (Klit LInt, [49]); (Kp, [125]); (Kp, [59]); (Kp, [125])].
(* macro_rules! m { ($a:expr; use a; use b;) => { 1 }; } *)
Definition w_rom_b : list tok :=
  [(Kid, [109; 97; 99; 114; 111; 95; 114; 117; 108; 101; 115]); (Kp, [33]); (Kid, [109]); (Kp, [123]); (Kp, [40]); (Kp, [36]); (Kid, [97]); (Kp, [58]); (Kid, [101; 120; 112; 114]); (Kp, [59]); (Kid, [117; 115; 101]); (Kid, [97]); (Kp, [59]); (Kid, [117; 115; 101]); (Kid, [98]); (Kp, [59]); (Kp, [41]); (Kp, [61]); (Kp, [62]); (Kp, [123]); (Klit LInt, [49]); (Kp, [125]); (Kp, [59]); (Kp, [125])].

(* the multiset of essential atoms is not preserved by the whole pipeline: merging imports drops duplicates *)
Lemma essential_multiset_refuted_lemma : exists (o : opts) (a b : list tok),
  norm o a = norm o b /\ ~ Permutation (ess (atoms_of o a)) (ess (atoms_of o b)).
Proof.
  exists o_default, w_dup_a, w_dup_b. split; [vm_compute; reflexivity|].
  intros H. apply Permutation_length in H. vm_compute in H. discriminate.
Qed.
(* the canonical string of a class of imports is ambiguous: head atoms are joined by blanks, and a doc comment
   contains blanks.  A visibility can move into a doc comment unnoticed *)
Lemma use_head_ambiguous_refuted_lemma : exists (o : opts) (a b : list tok),
  norm o a = norm o b /\ In s_pub (atoms_of o b) /\ ~ In s_pub (atoms_of o a).
Proof.
  exists o_default, w_doc_a, w_doc_b. split; [vm_compute; reflexivity|]. split.
  - vm_compute. right. left. reflexivity.
  - vm_compute. intros H. repeat (destruct H as [H|H]; [discriminate H|]). exact H.
Qed.
(* macro matchers are NOT compared verbatim by the whole pipeline: merge_derives and reorder_runs also act inside
   them (the core pipeline tells the two definitions apart) *)
Lemma matchers_verbatim_refuted_lemma : exists (o : opts) (a b a' b' : list tok),
  (norm o a = norm o b /\ norm_core o a <> norm_core o b) /\
  (norm o a' = norm o b' /\ norm_core o a' <> norm_core o b').
Proof.
  exists o_default, w_mdm_a, w_mdm_b, w_rom_a, w_rom_b.
  split; (split; [vm_compute; reflexivity|vm_compute; discriminate]).
Qed.
(* ... and these are exactly the inputs excluded by the hypothesis of norm_sound *)
Lemma post_safe_fails_lemma : ~ post_safe o_default w_mdm_a.
Proof.
  intros [H _]. specialize (H eq_refl). vm_compute in H.
  destruct H as (_ & _ & _ & H & _). discriminate H.
Qed.

(* ------------------------------------------------------------------ *)
(* one-element tuples.  The checker keeps the comma of  let (a,) = b;  (trailing_seps / trim_group: a `(` group
   with no other element separator (tuple_commas) that is not in argument position (arg_pos)).  Equiv, being closed under
   symmetry and transitivity, may pass through ILL-FORMED intermediates, and the prototype removes an empty `<>`
   anywhere: via  let <> (a,) = b;  (where the group follows `>`) it relates the 1-tuple pattern and the
   parenthesised one.  So Equiv is strictly coarser than the checker: norm_sound's conclusion does not separate
   them, the checker does. *)
Definition tup_a : list item :=
  [Tok s_let; Grp DParen [Tok [97]; Tok s_comma]; Tok s_eq; Tok [98]; Tok s_semi].
Definition tup_b : list item :=
  [Tok s_let; Grp DParen [Tok [97]]; Tok s_eq; Tok [98]; Tok s_semi].
Lemma Equiv_tuple_comma_refuted_lemma : exists (o : opts) (a b : list item),
  norm_seq o None a <> norm_seq o None b /\ Equiv CTop a b.
Proof.
  exists o_default, tup_a, tup_b. split; [vm_compute; discriminate|].
  eapply Eq_trans.
  { apply Eq_sym. apply Eq_step.
    exact (S_empty_generics CTop [Tok s_let] (Grp DParen [Tok [97]; Tok s_comma] :: [Tok s_eq; Tok [98]; Tok s_semi])). }
  eapply Eq_trans.
  { apply Eq_step.
    exact (S_trailing_sep CTop [Tok s_let; Tok s_lt; Tok s_gt] DParen [Tok [97]] [Tok s_eq; Tok [98]; Tok s_semi] eq_refl). }
  apply Eq_step. exact (S_empty_generics CTop [Tok s_let] (Grp DParen [Tok [97]] :: [Tok s_eq; Tok [98]; Tok s_semi])).
Qed.
(* in call position the comma is optional, in one step *)
Lemma Equiv_call_comma_lemma :
  Equiv CTop [Tok [102]; Grp DParen [Tok [97]; Tok s_comma]; Tok s_semi] [Tok [102]; Grp DParen [Tok [97]]; Tok s_semi].
Proof. apply Eq_step. exact (S_trailing_sep CTop [Tok [102]] DParen [Tok [97]] [Tok s_semi] eq_refl). Qed.
(* in tuple position the trailing-separator step itself does not apply: its side condition is false *)
Lemma tuple_comma_no_step_condition :
  negb (delim_eqb DParen DParen) || Nat.leb 2 (tuple_commas ([Tok [97]] ++ [Tok s_comma])) || arg_pos (rev [Tok s_let]) = false
  /\ trim_group [Tok s_let] (Grp DParen [Tok [97]; Tok s_comma]) = Grp DParen [Tok [97]; Tok s_comma]
  /\ trim_group [Tok [102]] (Grp DParen [Tok [97]; Tok s_comma]) = Grp DParen [Tok [97]].
Proof. repeat split; reflexivity. Qed.

(* END-OF-PART *)
