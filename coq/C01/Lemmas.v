(* C01/Lemmas.v — proofs about the normaliser of C01/Model.v *)
From V Require Import Base.Text C01.Model.
Open Scope N_scope.
Open Scope list_scope.
Arguments N.add : simpl never.
Arguments N.sub : simpl never.
Arguments N.mul : simpl never.
Arguments N.ltb : simpl never.
Arguments N.leb : simpl never.
Arguments N.eqb : simpl never.

(* ------------------------------------------------------------------ *)
(* induction on token trees (nested inductive) *)
Section ItemInd.
Variable P : item -> Prop.
Hypothesis HTok : forall s, P (Tok s).
Hypothesis HGrp : forall d its, Forall P its -> P (Grp d its).
Fixpoint item_ind' (x : item) : P x :=
  match x with
  | Tok s => HTok s
  | Grp d its =>
      HGrp d its ((fix go (l : list item) : Forall P l :=
                     match l with
                     | [] => Forall_nil P
                     | y :: l' => Forall_cons y (item_ind' y) (go l')
                     end) its)
  end.
End ItemInd.

Lemma list_ind2 {A : Type} (P : list A -> Prop) :
  P [] -> (forall x, P [x]) -> (forall x y l, P l -> P (y :: l) -> P (x :: y :: l)) -> forall l, P l.
Proof.
  intros H0 H1 H2 l.
  assert (H : P l /\ forall x, P (x :: l)).
  { induction l as [|y l IH].
    - split; [exact H0|exact H1].
    - destruct IH as [IHa IHb]. split; [apply IHb|]. intros x. apply H2; [exact IHa|apply IHb]. }
  exact (proj1 H).
Qed.

(* ------------------------------------------------------------------ *)
(* basic facts *)
Lemma is_tok_true x s : is_tok x s = true -> x = Tok s.
Proof.
  destruct x as [t|d its]; cbn [is_tok]; [|discriminate].
  intros H. apply eqb_text_spec in H. subst t. reflexivity.
Qed.
Lemma is_tok_refl s : is_tok (Tok s) s = true.
Proof. cbn [is_tok]. apply eqb_text_spec. reflexivity. Qed.
Lemma is_tok_o_true p s : is_tok_o p s = true -> p = Some (Tok s).
Proof. destruct p as [y|]; cbn [is_tok_o]; [|discriminate]. intros H. apply is_tok_true in H. subst y. reflexivity. Qed.
Lemma is_grp_true x d : is_grp x d = true -> exists its, x = Grp d its.
Proof.
  destruct x as [t|d' its]; cbn [is_grp]; [discriminate|].
  destruct d', d; cbn [delim_eqb]; try discriminate; intros _; eexists; reflexivity.
Qed.
Lemma mem_text_In t l : mem_text t l = true <-> In t l.
Proof.
  induction l as [|x l IH]; cbn [mem_text In].
  - split; [discriminate|tauto].
  - rewrite orb_true_iff, eqb_text_spec, IH. split; intros [H|H]; auto.
Qed.

(* ------------------------------------------------------------------ *)
(* P1: layout and non-doc comments never matter *)
Lemma significant_app a b : significant (a ++ b) = significant a ++ significant b.
Proof. unfold significant. apply filter_app. Qed.
Lemma significant_trivia k t : is_trivia k = true -> significant [(k, t)] = [].
Proof. intros H. unfold significant. cbn [filter fst]. rewrite H. reflexivity. Qed.
Lemma norm_ws_comments_irrelevant_lemma o ts1 k t ts2 :
  is_trivia k = true -> norm o (ts1 ++ [(k, t)] ++ ts2) = norm o (ts1 ++ ts2).
Proof.
  intros H. unfold norm, norm_items.
  rewrite !significant_app, (significant_trivia k t H). reflexivity.
Qed.
Lemma norm_total_lemma o ts : exists! r, norm o ts = r.
Proof. exists (norm o ts). split; [reflexivity|intros r H; exact H]. Qed.

(* ------------------------------------------------------------------ *)
(* P2: the essential atoms.  E seq = the essential atoms of the (unglued) flattening of seq *)
Fixpoint E_item (x : item) : list text :=
  match x with
  | Tok t => ess [t]
  | Grp _ its => flat_map E_item its
  end.
Definition E (seq : list item) : list text := flat_map E_item seq.

Lemma ess_app a b : ess (a ++ b) = ess a ++ ess b.
Proof. unfold ess, unglue. rewrite flat_map_app, filter_app. reflexivity. Qed.
Lemma ess_cons t l : ess (t :: l) = ess [t] ++ ess l.
Proof. exact (ess_app [t] l). Qed.
Lemma ess_open d : ess [open_text d] = [].
Proof. destruct d; reflexivity. Qed.
Lemma ess_close d : ess [close_text d] = [].
Proof. destruct d; reflexivity. Qed.
Lemma E_app a b : E (a ++ b) = E a ++ E b.
Proof. unfold E. apply flat_map_app. Qed.
Lemma E_cons x r : E (x :: r) = E_item x ++ E r.
Proof. reflexivity. Qed.
Lemma E_nil : E [] = [].
Proof. reflexivity. Qed.
Lemma E_grp d its : E_item (Grp d its) = E its.
Proof. reflexivity. Qed.
Lemma E_rev_cons x out : E (rev (x :: out)) = E (rev out) ++ E_item x.
Proof. cbn [rev]. rewrite E_app. cbn [E flat_map]. rewrite app_nil_r. reflexivity. Qed.
Lemma E_single x : E [x] = E_item x.
Proof. cbn [E flat_map]. apply app_nil_r. Qed.

Lemma ess_flatten_item x : ess (flatten_item x) = E_item x.
Proof.
  induction x as [s|d its IH] using item_ind'.
  - reflexivity.
  - cbn [flatten_item E_item]. rewrite ess_cons, ess_app, ess_open, ess_close, app_nil_r. cbn [app].
    induction IH as [|y l Hy _ IHl]; [reflexivity|].
    cbn [flat_map]. rewrite ess_app, Hy, IHl. reflexivity.
Qed.
Lemma ess_flatten seq : ess (flatten seq) = E seq.
Proof.
  unfold flatten, E. induction seq as [|x r IH]; [reflexivity|].
  cbn [flat_map]. rewrite ess_app, ess_flatten_item, IH. reflexivity.
Qed.

(* the inessential constants *)
Lemma E_tok_inessential s : essential s = false -> (forall a b, unglue1 s = [a; b] -> False) -> unglue1 s = [s] -> E_item (Tok s) = [].
Proof. intros H _ Hu. cbn [E_item]. unfold ess, unglue. cbn [flat_map]. rewrite Hu. cbn [app filter]. rewrite H. reflexivity. Qed.
Lemma Et_semi : E_item (Tok s_semi) = []. Proof. reflexivity. Qed.
Lemma Et_comma : E_item (Tok s_comma) = []. Proof. reflexivity. Qed.
Lemma Et_pipe : E_item (Tok s_pipe) = []. Proof. reflexivity. Qed.
Lemma Et_colon : E_item (Tok s_colon) = []. Proof. reflexivity. Qed.
Lemma Et_coloncolon : E_item (Tok s_coloncolon) = []. Proof. reflexivity. Qed.
Lemma Et_where : E_item (Tok s_where) = []. Proof. reflexivity. Qed.
Lemma Et_for : E_item (Tok s_for) = []. Proof. reflexivity. Qed.
Lemma Et_in : E_item (Tok s_in) = []. Proof. reflexivity. Qed.
Lemma Et_abiC : E_item (Tok s_abiC) = []. Proof. reflexivity. Qed.
Lemma Et_lt : E_item (Tok s_lt) = []. Proof. reflexivity. Qed.
Lemma Et_gt : E_item (Tok s_gt) = []. Proof. reflexivity. Qed.
#[export] Hint Rewrite Et_semi Et_comma Et_pipe Et_colon Et_coloncolon Et_where Et_for Et_in Et_abiC Et_lt Et_gt : ess.
#[export] Hint Rewrite E_rev_cons E_cons E_app E_grp E_nil app_nil_r app_nil_l : ess.

(* facts from boolean conditions *)
Ltac tok_facts :=
  repeat match goal with
         | H : _ && _ = true |- _ => apply andb_true_iff in H; destruct H
         | H : is_tok ?x ?s = true |- _ => apply is_tok_true in H; try subst x
         | H : is_tok_o ?x ?s = true |- _ => apply is_tok_o_true in H; try subst x
         end.
Ltac ess_done := autorewrite with ess; rewrite <- ?app_assoc; try reflexivity.

(* END-OF-PART *)
